#!/bin/sh
# usage: reconfirm_all.sh [seed-id ...]  — re-confirms kept seeds against /repo HEAD (six at a time);
# prints one line per seed.
V=$(cd "$(dirname "$0")/.." && pwd)
ids=${*:-$(ls "$V/seeded")}
echo $ids | tr ' ' '\n' | xargs -P 6 -I{} sh -c 'r=$("$0/tools/confirmseed.sh" "$0/seeded/{}" 2>&1 | tail -1 | sed "s/.*demo_without/demo_without/"); echo "{}: $r"' "$V"
