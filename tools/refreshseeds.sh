#!/bin/sh
# Re-bases every /verif/seeded/<id>/patch.diff onto /repo's current HEAD (3-way
# apply in a scratch worktree, removed afterwards) so that the seeded changes
# keep applying after a fix: commit touched the same file. Reports conflicts.
set -u
V=$(cd "$(dirname "$0")/.." && pwd)
wt=$(mktemp -d /tmp/gprefresh-XXXXXX); rmdir "$wt"
git -C /repo worktree add -q --detach "$wt" HEAD || exit 3
trap 'git -C /repo worktree remove --force "$wt" >/dev/null 2>&1; rm -rf "$wt"' EXIT
for d in "$V"/seeded/*/; do
  id=$(basename "$d")
  git -C "$wt" checkout -q -- . && git -C "$wt" clean -qfd
  if git -C "$wt" apply --check "$d/patch.diff" 2>/dev/null; then echo "$id: applies"; continue; fi
  if git -C "$wt" apply --3way "$d/patch.diff" >/dev/null 2>&1 && ! git -C "$wt" diff --name-only --diff-filter=U | grep -q .; then
    git -C "$wt" reset -q
    git -C "$wt" diff > "$d/patch.diff.new" && mv "$d/patch.diff.new" "$d/patch.diff"
    echo "$id: rebased"
  else
    echo "$id: CONFLICT (left unchanged)"
  fi
done
