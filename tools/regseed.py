#!/usr/bin/env python3
# usage: regseed.py <seed-id> <round text>   — writes controls/<Cxx>/s-<id>.json from seeded/<id>/meta.json
import json, sys, os
sid, rnd = sys.argv[1], sys.argv[2]
here = os.path.dirname(os.path.dirname(os.path.abspath(__file__)))
p = sid.split('-')[0]
m = json.load(open(f'{here}/seeded/{sid}/meta.json'))
c = {"property": p, "kind": "violation",
     "description": f"independently seeded change {sid} ({rnd}): {m.get('summary','')}",
     "edits": [], "patch": f"seeded/{sid}/patch.diff", "origin": f"seeded/{sid}"}
json.dump(c, open(f'{here}/controls/{p}/s-{sid}.json', 'w'), indent=1)
