#!/bin/sh
# usage: portdiff.sh <diff written against /repo HEAD~1> — rewrites it against /repo HEAD when a 3-way rebase succeeds (run after a fix: commit in /repo); on CONFLICT port by hand in a scratch worktree
d=$1
wt=$(mktemp -d /tmp/port20-XXXXXX); rmdir $wt
git -C /repo worktree add -q --detach $wt HEAD~1 || exit 3
cd $wt
if ! git apply "$d" 2>/dev/null; then echo "BASE-NOAPPLY $d"; cd /; git -C /repo worktree remove --force $wt; exit 1; fi
git add -A; git -c user.email=a@b -c user.name=x commit -qm seed
head=$(git -C /repo rev-parse HEAD)
if git -c user.email=a@b -c user.name=x rebase -q --onto $head HEAD~1 >/dev/null 2>&1; then
  git diff $head HEAD > "$d"; echo "PORTED $d"
else
  echo "CONFLICT $d: $(git diff --name-only --diff-filter=U | tr '\n' ' ')"
  git diff > /tmp/conflict-$(basename $(dirname $d))-$(basename $d).txt
  git rebase --abort
fi
cd /; git -C /repo worktree remove --force $wt
