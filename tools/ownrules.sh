#!/bin/sh
# usage: ownrules.sh [seed-id ...]   (default: every kept seed)
# For each kept seeded change, runs the check of the property it was written
# for on a scratch copy and prints: <seed-id>\t<rule ids that report it>.
V=$(cd "$(dirname "$0")/.." && pwd)
ids=${*:-$(ls "$V/seeded")}
out=$(mktemp -d /tmp/gpown-XXXXXX)
echo $ids | tr ' ' '\n' | xargs -P 8 -I{} sh -c 'p=$(echo {} | cut -d- -f1); "$0/tools/tryseed.sh" "$0/seeded/{}/patch.diff" $p > "$1/{}.log" 2>&1' "$V" "$out"
for id in $ids; do
  rules=$(grep -E '^\s+(FAIL|UNDECIDED)' "$out/$id.log" | sed -E 's/^[^[]*\[([^]]+)\].*/\1/' | sort -u | tr '\n' ' ')
  printf '%s\t%s\n' "$id" "${rules:-NONE}"
done
rm -rf "$out"
