#!/bin/sh
# usage: round2.sh Cxx   — confirm, keep and try the round-2 seeds /tmp/seed2-Cxx/{1,2,3}
# (kept as /verif/seeded/Cxx-{3,4,5}); prints one block per seed.
V=$(cd "$(dirname "$0")/.." && pwd)
p=$1
for k in 1 2 3; do
  d=/tmp/seed2-$p/$k
  [ -f "$d/patch.diff" ] || { echo "$p-$k: missing"; continue; }
  id=$p-$((k+2))
  res=$("$V/tools/confirmseed.sh" "$d" 2>&1 | tail -1)
  echo "## $id :: $res"
  case "$res" in
    *CONFIRMED*) "$V/tools/keepseed.sh" "$d" "$id" "round 2; $res" ;;
    *) continue ;;
  esac
  "$V/tools/tryseed.sh" "$V/seeded/$id/patch.diff" | grep -A3 FIRES | cut -c1-300
done
