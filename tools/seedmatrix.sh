#!/bin/sh
# usage: seedmatrix.sh [seed-id ...]   (default: every kept seed)
# Runs kept seeded changes against all property checks (on scratch copies, six
# at a time) and prints one line per seed: which properties' checks fire.
# Do not rebuild bin/gpcheck while it runs.
V=$(cd "$(dirname "$0")/.." && pwd)
ids=${*:-$(ls "$V/seeded")}
out=$(mktemp -d /tmp/gpmatrix-XXXXXX)
echo $ids | tr ' ' '\n' | xargs -P 6 -I{} sh -c '"$0/tools/tryseed.sh" "$0/seeded/{}/patch.diff" > "$1/{}.log" 2>&1' "$V" "$out"
for id in $ids; do
  fired=$(awk '/FIRES/{printf "%s ", $2}' "$out/$id.log")
  own=$(echo "$id" | cut -d- -f1)
  mark=""; echo " $fired" | grep -q " $own " || mark="   <-- own property silent"
  echo "$id: ${fired:-NONE}$mark"
done
rm -rf "$out"
