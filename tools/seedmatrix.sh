#!/bin/sh
# Runs every kept seeded change against all property checks (on scratch copies)
# and prints one line per seed: which properties' checks fire.
V=$(cd "$(dirname "$0")/.." && pwd)
for d in "$V"/seeded/*/; do
  id=$(basename "$d")
  fired=$("$V/tools/tryseed.sh" "$d/patch.diff" 2>/dev/null | awk '/FIRES/{printf "%s ", $2}')
  echo "$id: ${fired:-NONE}"
done
