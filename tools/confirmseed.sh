#!/bin/sh
# usage: confirmseed.sh <seed dir containing patch.diff, demo.sh|*_test.go, meta.json>
# Confirms in a scratch worktree of /repo (removed afterwards) that the change
# builds, passes the existing suite, and that its demonstration fails with the
# change and passes without it. Prints one summary line.
set -u
d=$(cd "$1" && pwd)
export GOFLAGS=-mod=mod GOPROXY=off GOSUMDB=off GOTOOLCHAIN=local GOWORK=off
wt=$(mktemp -d /tmp/gpconfirm-XXXXXX); rmdir "$wt"
git -C /repo worktree add -q --detach "$wt" HEAD || exit 3
trap 'git -C /repo worktree remove --force "$wt" >/dev/null 2>&1; rm -rf "$wt"' EXIT
rundemo() {
  if [ -f "$d/demo.sh" ]; then
    sh=sh; head -1 "$d/demo.sh" | grep -q bash && sh=bash
    $sh "$d/demo.sh" "$wt" >/dev/null 2>&1; return $?
  fi
  t=$(ls "$d"/*_test.go 2>/dev/null | head -1)
  [ -n "$t" ] || return 99
  pkg=$(sed -n 's/^package \([A-Za-z_0-9]*\).*/\1/p' "$t" | head -1); pkg=${pkg%_test}
  pkgdir=.
  if [ "$pkg" != main ]; then
    pkgdir=$(cd "$wt" && grep -rl --include='*.go' "^package $pkg\$" . | grep -v _test.go | head -1 | xargs dirname)
  fi
  cp "$t" "$wt/$pkgdir/zz_seed_demo_test.go"
  (cd "$wt/$pkgdir" && go test -vet=off -count=1 -run 'Seed|Demo|C[0-9][0-9]' . >/dev/null 2>&1); rc=$?
  rm -f "$wt/$pkgdir/zz_seed_demo_test.go"; return $rc
}
rundemo; base=$?
git -C "$wt" apply "$d/patch.diff" || { echo "$d: PATCH-DOES-NOT-APPLY"; exit 3; }
(cd "$wt" && go build ./... >/dev/null 2>&1); build=$?
(cd "$wt" && go test -vet=off -count=1 ./... >/dev/null 2>&1); suite=$?
rundemo; mut=$?
echo "$d: demo_without=$base build=$build suite=$suite demo_with=$mut  => $([ $base -eq 0 ] && [ $build -eq 0 ] && [ $suite -eq 0 ] && [ $mut -ne 0 ] && [ $mut -ne 99 ] && echo CONFIRMED || echo REJECTED)"
