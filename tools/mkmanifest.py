#!/usr/bin/env python3
"""Regenerates /verif/MANIFEST.json from the table below and `bin/gpcheck -list`.
A property appears under checks only when gpcheck has rules for it; anything else is
listed under not_applicable with the reason given here."""
import json, os, subprocess, sys
V = os.path.dirname(os.path.dirname(os.path.abspath(__file__)))
props = [json.loads(l) for l in open(os.path.join(V, 'properties.jsonl'))]
have = subprocess.run([os.path.join(V, 'bin/gpcheck'), '-list'], capture_output=True, text=True).stdout.split()

TEXT = json.load(open(os.path.join(V, 'tools/manifest_text.json')))

checks, na = [], []
for p in props:
    i = p['id']
    t = TEXT.get(i, {})
    if i in have and not t.get('na'):
        checks.append({
            "property_id": i,
            "quick_cmd": "./check.sh %s quick" % i,
            "thorough_cmd": "./check.sh %s thorough" % i,
            "evidence_file": "/verif/evidence/%s.json" % i,
            "replay_cmd_template": "./bin/gpcheck -explain {path}",
            "engine": "gpcheck",
            "level_claimed": {"category": "other", "text": t['text'], "design_ref": "DESIGN.md §4 " + i},
            "level_note": t['note'],
            "technique": t['technique'],
        })
    else:
        na.append({"property_id": i, "reason": t.get('na', "static rules for this property are not built yet (see DESIGN.md §4 for the planned rules)")})
m = {
    "version": 1,
    "setup_cmd": "cd /verif/checker && GOFLAGS=-mod=mod GOPROXY=off GOSUMDB=off GOTOOLCHAIN=local GOWORK=off CGO_ENABLED=0 go build -o /verif/bin/gpcheck ./cmd/gpcheck",
    "hooks": {"guard": "verif", "enable": "none: the checks are static and read /repo's working tree as it is; no hook or instrumentation commit exists",
              "baseline_off_cmd": "cd /repo && GOFLAGS=-mod=mod GOPROXY=off GOSUMDB=off go test -vet=off -count=1 ./...",
              "source_commits": [], "add_only": True},
    "engines": [{"name": "gpcheck", "path": "/verif/checker", "serves_properties": [c['property_id'] for c in checks],
                 "kind_free_text": "custom static analyser over go/packages + go/ssa + VTA call graph (x/tools v0.29.0): ok-/error-discipline, dominance and control dependence, dispatch- and decision-table extraction, loop coverage and scanner-progress, effect inventories, schema cross-checks against go/ast; thorough tier adds an analyser self-test on scratch copies (controls/)"}],
    "checks": checks,
    "not_applicable": na,
    "notes": "Technique family: static analysis only. Every check loads /repo's current working tree, never runs gopatch, and claims level 'other': structural necessary conditions of the property hold on every path/site (rules listed in evidence.coverage.explanation, with the clauses that are NOT decided). Twenty-two genuine defects (F1-F18, F20, F22-F24, DESIGN.md §5) were repaired in /repo with 'fix:' commits (known_findings.json lists them as fixed; they suppress nothing); two (F19, C17-R11: astutil.AddNamedImport merges import blocks and loses their comments; F21, C17-R8: the region of the first element of a list starts at the parent's start and covers the package clause's trailing comment) are recorded as known findings and printed as KNOWN-FINDING.",
}
json.dump(m, open(os.path.join(V, 'MANIFEST.json'), 'w'), indent=1)
print("checks:", [c['property_id'] for c in checks], "na:", [n['property_id'] for n in na])
