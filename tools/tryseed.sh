#!/bin/sh
# usage: tryseed.sh <patch.diff> [property ...]   (default: all properties with rules)
# Applies the patch to a scratch copy of /repo (never to /repo), runs the static
# checks on the copy and prints which rules fire. The copy is removed afterwards.
set -u
V=$(cd "$(dirname "$0")/.." && pwd)
patch=$(cd "$(dirname "$1")" && pwd)/$(basename "$1"); shift
export GOFLAGS=-mod=mod GOPROXY=off GOSUMDB=off GOTOOLCHAIN=local GOWORK=off CGO_ENABLED=0
tmp=$(mktemp -d /tmp/gpseed-XXXXXX); tv=$(mktemp -d /tmp/gpseedv-XXXXXX)
trap 'rm -rf "$tmp" "$tv"' EXIT
(cd /repo && git ls-files | grep -v '^testdata/' | tar cf - -T -) | (cd "$tmp" && tar xf -)
(cd "$tmp" && git init -q . && git apply "$patch") || { echo "patch does not apply"; exit 3; }
(cd "$tmp" && go build ./... ) || { echo "does not build"; exit 3; }
cp "$V/known_findings.json" "$tv/"
props=${*:-$("$V/bin/gpcheck" -list)}
rc=0
for p in $props; do
  out=$("$V/bin/gpcheck" -repo "$tmp" -verif "$tv" -property "$p" -tier quick 2>&1)
  if echo "$out" | grep -q '^VIOLATION'; then
    rc=1; echo "== $p FIRES"; echo "$out" | grep -E '^\s+(FAIL|UNDECIDED)' | sed "s#$tmp/##g" | cut -c1-400
  else
    echo "== $p silent"
  fi
done
exit $rc
