#!/bin/sh
# usage: round3.sh Cxx   — confirm and keep the round-13 seeds /tmp/seed13-Cxx/1
# (kept as /verif/seeded/Cxx-26); prints one line per seed.
V=$(cd "$(dirname "$0")/.." && pwd)
p=$1
for k in 1; do
  d=/tmp/seed13-$p/$k
  [ -f "$d/patch.diff" ] || { echo "$p-$k: missing"; continue; }
  id=$p-$((k+25))
  res=$("$V/tools/confirmseed.sh" "$d" 2>&1 | tail -1)
  echo "## $id :: $res"
  case "$res" in
    *CONFIRMED*) "$V/tools/keepseed.sh" "$d" "$id" "round 13; $res" ;;
  esac
done
