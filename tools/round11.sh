#!/bin/sh
# usage: round3.sh Cxx   — confirm and keep the round-11 seeds /tmp/seed11-Cxx/{1,2}
# (kept as /verif/seeded/Cxx-{22,23}); prints one line per seed.
V=$(cd "$(dirname "$0")/.." && pwd)
p=$1
for k in 1 2; do
  d=/tmp/seed11-$p/$k
  [ -f "$d/patch.diff" ] || { echo "$p-$k: missing"; continue; }
  id=$p-$((k+21))
  res=$("$V/tools/confirmseed.sh" "$d" 2>&1 | tail -1)
  echo "## $id :: $res"
  case "$res" in
    *CONFIRMED*) "$V/tools/keepseed.sh" "$d" "$id" "round 11; $res" ;;
  esac
done
