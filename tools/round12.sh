#!/bin/sh
# usage: round3.sh Cxx   — confirm and keep the round-12 seeds /tmp/seed12-Cxx/{1,2}
# (kept as /verif/seeded/Cxx-{24,25}); prints one line per seed.
V=$(cd "$(dirname "$0")/.." && pwd)
p=$1
for k in 1 2; do
  d=/tmp/seed12-$p/$k
  [ -f "$d/patch.diff" ] || { echo "$p-$k: missing"; continue; }
  id=$p-$((k+23))
  res=$("$V/tools/confirmseed.sh" "$d" 2>&1 | tail -1)
  echo "## $id :: $res"
  case "$res" in
    *CONFIRMED*) "$V/tools/keepseed.sh" "$d" "$id" "round 12; $res" ;;
  esac
done
