#!/bin/sh
# usage: keepseed.sh <tmp seed dir> <id>   e.g. keepseed.sh /tmp/seed-C01/1 C01-1
# Copies a confirmed seeded change into /verif/seeded/<id>/ and adds what was run.
set -eu
src=$1; id=$2; V=$(cd "$(dirname "$0")/.." && pwd)
mkdir -p "$V/seeded/$id"
cp "$src"/patch.diff "$V/seeded/$id/"
for f in "$src"/demo.sh "$src"/*_test.go; do [ -f "$f" ] && cp "$f" "$V/seeded/$id/"; done
python3 - "$src/meta.json" "$V/seeded/$id/meta.json" "$3" <<'PY'
import json,sys
m=json.load(open(sys.argv[1]))
m['confirmed_by_main_session']=sys.argv[3]
json.dump(m,open(sys.argv[2],'w'),indent=1)
PY
