#!/bin/sh
# usage: check.sh <property id> [quick|thorough]
# Builds the static analyser (offline) and runs the rules of one property on
# /repo's current working tree. Exit 0 = all obligations discharged; exit 1 +
# "VIOLATION property=<id> replay=<path>" = a rule is violated or undecided.
set -u
here=$(cd "$(dirname "$0")" && pwd)
export GOFLAGS=-mod=mod GOPROXY=off GOSUMDB=off GOTOOLCHAIN=local GOWORK=off CGO_ENABLED=0
unset GOWORK_FILE 2>/dev/null || true
id=${1:?property id}
tier=${2:-${VERIF_TIER:-quick}}
repo=${VERIF_REPO:-/repo}
( cd "$here/checker" && go build -o "$here/bin/gpcheck" ./cmd/gpcheck ) || { echo "ERROR cannot build gpcheck"; exit 2; }
exec "$here/bin/gpcheck" -repo "$repo" -verif "$here" -property "$id" -tier "$tier"
