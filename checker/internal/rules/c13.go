package rules

import (
	"go/token"
	"go/types"
	"strings"

	"golang.org/x/tools/go/ssa"

	"gpcheck/internal/an"
)

func init() {
	register(&Spec{
		ID:  "C13",
		Run: runC13,
		Explanation: "Decides only the clauses of layout independence that have a shape in the code: " +
			"R1 comment lines never reach the parsers — programSplitter.next hands out a line only when isComment is false, and isComment is 'first non-space byte is #'; R2 only '#' lines directly above a header are a description — lastComments is cleared at the start of every next(), grows only on comment lines, and readChange captures it before reading the name; " +
			"R3 names and descriptions do not influence matching — values derived from a change's name flow only into file names for the position table, Change.Name and diagnostics; descriptions only into Change.Comments; the position key used to reproduce tokens (posMatchKey) consists of Line and Column only; " +
			"R4 metavariable spelling does not matter — compileMeta compares a declared name with no constant other than \"_\" and enters every other name that is not a duplicate (exactness), and no other function of the engine compares a metavariable name with a constant; " +
			"R5 elision pairing depends on positions only through their order — in connectDots line and column numbers are used exclusively as operands of order/equality comparisons with other line/column numbers (never in arithmetic, never against constants), so inserting comment or blank lines or re-wrapping both sides identically cannot change the association. " +
			"R6 the name of a change does not steer positions — the token.File that receives a section's line table is the object created for that section (FileSet.AddFile result / FileSet.File at a position of that side's parse result), never looked up by a name two changes may share. " +
			"NOT decided (runtime relation over positions): consistent renaming beyond R4, declaration regrouping, re-wrapping / re-spacing of the Go code, blank lines inside patterns, context line versus '-'/'+' pair." +
			" R9 each change is parsed and compiled on its own (no parse cache, no parser state, fresh compilers, no x.f = x.f[:0])." +
			" R10 kept patch text is not a window into a reader's buffer (C03-R12)." +
			" R11 both sides of a change read names by the same declarations. R7 also: patch lines reach the parsers untrimmed." +
			" R13 no comparison in the elision finder has two operands that both derive from offsets/positions of the patch text." +
			" R14 = C03-R17." +
			" R15 no function of the command or the library loads Change.Name.",
		Trusted:     commonTrusted,
		Assumptions: commonAssumptions,
	})
}

func runC13(r *an.Run) {
	c13CommentsSkipped(r)
	c13Descriptions(r)
	c13NamesInert(r)
	c13SpellingInert(r)
	c13OrderOnly(r)
	memoDependencies(r, "R4-no-spelling-is-special")
	lineInfoReceiver(r, "R6-change-names-do-not-steer-positions")
	// a line is a '-' / '+' line exactly when its FIRST BYTE is the marker: a space-prefixed line is context
	// whatever its Go code starts with (a unary minus at the start of a wrapped line), so writing an unchanged
	// line once with a space prefix means the same as writing it as an identical '-'/'+' pair
	c01SplitPatch(r)
	relabel(r, "R9-minus-plus-split", "R7-a-space-prefixed-line-is-context")
	positionsReadBeforeStrip(r, "R8-marker-or-context-first-line-same-start")
	eachChangeOnItsOwn(r, "R9-each-change-is-parsed-and-compiled-on-its-own", false)
	noTransientBufferRetained(r, "R10-kept-text-is-not-a-window-into-a-read-buffer")
	bothSidesSeeTheSameDeclarations(r, "R11-both-sides-read-names-by-the-same-declarations")
	// a "..." written in the first column of the first line and one written after a space (or below a blank
	// line) mean the same: the implicit leading elision is anchored at the patch start on both sides
	c04ImplicitDots(r)
	relabel(r, "R9-implicit-leading-and-trailing-elision", "R12-a-first-column-elision-is-the-implicit-one")
	finderIgnoresSpacing(r, "R13-the-elision-finder-ignores-spacing")
	unterminatedLastLineIsALine(r, "R14-an-unterminated-last-line-is-a-line")
	changeNameDecidesNothing(r, "R15-the-name-of-a-change-decides-nothing")
}

func c13CommentsSkipped(r *an.Run) {
	r.Rule("R1-comment-lines-never-reach-the-parsers")
	f := fn(r, sectRel, "programSplitter.next")
	ic := fn(r, sectRel, "isComment")
	if f == nil || ic == nil {
		return
	}
	var call *ssa.Call
	for _, c := range an.Calls(f) {
		if an.StaticCallee(c) == ic {
			call = c.(*ssa.Call)
		}
	}
	isCurrentLine := func(v ssa.Value) bool {
		if an.Path(v) == "p.text" {
			return true
		}
		for _, in := range an.StoresIn(f) {
			if st, ok := in.(*ssa.Store); ok && an.Path(st.Addr) == "p.text" && st.Val == v {
				return true
			}
		}
		return false
	}
	if r.Check(call != nil && isCurrentLine(call.Call.Args[0]), short(f)+"|tests-line", f.Pos(), "next() asks isComment about the line it just read") {
		brs := an.BranchesOn(f, call)
		// every return inside the loop (a line is handed out) is behind isComment == false
		loop := an.LoopOf(f, call.Block())
		good := len(brs) > 0 && loop != nil
		if good {
			for _, ret := range an.Returns(f) {
				if an.Reach([]*ssa.BasicBlock{call.Block()}, func(b *ssa.BasicBlock, i int) bool { return b.Succs[i] == loop.Header })[ret.Block()] {
					if !unreachableWithout(ret.Block(), edgesWhen(brs, false)) {
						good = false
					}
				}
			}
		}
		r.Check(good, short(f)+"|only-non-comments", call.Pos(), "a line is handed to the readers only when it is not a comment; comment lines are consumed inside the loop")
	}
	// isComment: first non-space byte is '#'
	trims := an.CallsTo(ic, "bytes.TrimLeftFunc", "bytes.TrimSpace", "bytes.TrimLeft", "strings.TrimLeftFunc", "strings.TrimSpace", "strings.TrimLeft")
	// (the line itself, or its conversion to a string)
	okTrim := len(trims) == 1 && an.Unwrap(unconvert(trims[0].Common().Args[0])) == ssa.Value(ic.Params[0])
	if len(trims) == 0 {
		// the trimming in a one-line helper of its own (trimIndent(s)): a function of the package that is handed
		// the line and returns what one of the trimming functions makes of its parameter
		for _, c := range an.Calls(ic) {
			h := an.StaticCallee(c)
			if h == nil || !an.InModule(h) || h.Blocks == nil || len(h.Params) != 1 || len(c.Common().Args) != 1 || an.Unwrap(unconvert(c.Common().Args[0])) != ssa.Value(ic.Params[0]) {
				continue
			}
			ht := an.CallsTo(h, "bytes.TrimLeftFunc", "bytes.TrimSpace", "bytes.TrimLeft", "strings.TrimLeftFunc", "strings.TrimSpace", "strings.TrimLeft")
			rets := an.Returns(h)
			if len(ht) == 1 && len(rets) == 1 && len(rets[0].Results) == 1 && rets[0].Results[0] == ht[0].Value() && an.Unwrap(unconvert(ht[0].Common().Args[0])) == ssa.Value(h.Params[0]) {
				okTrim = true
			}
		}
	}
	r.Check(okTrim, short(ic)+"|trim", ic.Pos(), "isComment ignores leading white space")
	hash := false
	for _, ret := range an.Returns(ic) {
		for v := range an.BackSlice(ret.Results[0], an.SliceOpts{}) {
			if cmp, ok := v.(*ssa.BinOp); ok && cmp.Op == token.EQL {
				if k, ok := an.ConstInt(cmp.Y); ok && k == '#' {
					if ix, ok := cmp.X.(*ssa.UnOp); ok {
						if ia, ok := ix.X.(*ssa.IndexAddr); ok {
							if i, ok := an.ConstInt(ia.Index); ok && i == 0 {
								hash = true
							}
						}
					}
				}
			}
		}
	}
	// or: strings.HasPrefix / bytes.HasPrefix(trimmed, "#")
	for _, c := range an.CallsTo(ic, "strings.HasPrefix", "bytes.HasPrefix") {
		a := c.Common().Args
		isHash := false
		if s, ok := an.ConstString(a[1]); ok && s == "#" {
			isHash = true
		}
		fromTrim := false
		for v := range an.BackSlice(a[0], an.SliceOpts{}) {
			if len(trims) == 1 && v == trims[0].(ssa.Value) {
				fromTrim = true
			}
		}
		returned := false
		for _, ret := range an.Returns(ic) {
			for v := range an.BackSlice(ret.Results[0], an.SliceOpts{}) {
				if v == c.(ssa.Value) {
					returned = true
				}
			}
		}
		if isHash && fromTrim && returned {
			hash = true
		}
	}
	r.Check(hash, short(ic)+"|hash", ic.Pos(), "and tests that the first remaining byte is '#'")
	// the only other consumers of raw lines are the readers, which call next()
	n := 0
	for _, g := range r.P.PkgFuncs(sectRel) {
		for _, in := range an.StoresIn(g) {
			if st, ok := in.(*ssa.Store); ok && an.Path(st.Addr) == "p.text" {
				n++
				r.Check(short(g) == short(f) || inGroup(f, g), short(g)+"|sets-text", st.Pos(), "p.text (the current line) is set only by next() (or a helper of it)")
			}
		}
	}
	r.Count("writers of the current line", n)
	r.Min("writers of the current line", 2)
}

func c13Descriptions(r *an.Run) {
	r.Rule("R2-only-directly-preceding-comments-are-a-description")
	f := fn(r, sectRel, "programSplitter.next")
	if f == nil {
		return
	}
	var reset *ssa.Store
	var grows []*ssa.Store
	for _, in := range an.StoresIn(f) {
		st, ok := in.(*ssa.Store)
		if !ok || an.Path(st.Addr) != "p.lastComments" {
			continue
		}
		if an.IsNilConst(st.Val) {
			reset = st
		} else {
			grows = append(grows, st)
		}
	}
	r.Check(reset != nil && reset.Block() == f.Blocks[0], short(f)+"|reset", f.Pos(), "the pending description is cleared at the start of every next(): a non-comment line between comments and header breaks the association")
	ic := r.P.Func(sectRel, "isComment")
	for _, g := range grows {
		var brs []an.BranchOn
		for _, c := range an.Calls(f) {
			if an.StaticCallee(c) == ic {
				brs = an.BranchesOn(f, c.(*ssa.Call))
			}
		}
		app, ok := g.Val.(*ssa.Call)
		good := ok && an.IsCallTo(app, "builtin:append") && an.Path(app.Call.Args[0]) == "p.lastComments" && len(brs) > 0 && unreachableWithout(g.Block(), edgesWhen(brs, true))
		r.Check(good, short(f)+"|grows-on-comments", g.Pos(), "the description grows only by appending comment lines")
	}
	r.Check(len(grows) == 1, short(f)+"|one-growth-site", f.Pos(), "one place appends to the pending description (found %d)", len(grows))
	// readChange: capture before readName
	if g := fn(r, sectRel, "programSplitter.readChange"); g != nil {
		var capture *ssa.Store
		for _, in := range an.StoresIn(g) {
			if st, ok := in.(*ssa.Store); ok && strings.HasSuffix(an.Path(st.Addr), ".Comments") && an.Path(st.Val) == "p.lastComments" {
				capture = st
			}
		}
		var readName ssa.CallInstruction
		for _, c := range an.Calls(g) {
			if an.StaticCallee(c) == r.P.Func(sectRel, "programSplitter.readName") {
				readName = c
			}
		}
		// what counts is when the pending description is READ: the value loaded from p.lastComments is what ends
		// up in the change, whether it is stored into the Change at once or kept in a local until the literal is built
		var captureAt ssa.Instruction
		if capture != nil {
			captureAt = capture
			if ld, ok := capture.Val.(*ssa.UnOp); ok {
				captureAt = ld
			}
		}
		r.Check(captureAt != nil && readName != nil && an.InstrDominates(captureAt, readName), short(g)+"|captured-before-name", g.Pos(), "the description is captured before the header is consumed (readName calls next(), which clears it)")
	}
	// it ends up in parse.Change.Comments and engine.Change.Comments unchanged
	if g := fn(r, parseP, "parser.parseChange"); g != nil {
		ok := false
		for _, in := range an.StoresIn(g) {
			if st, isSt := in.(*ssa.Store); isSt && strings.HasSuffix(an.Path(st.Addr), ".Comments") && an.Path(st.Val) == "c.Comments" {
				ok = true
			}
		}
		r.Check(ok, short(g)+"|passes-description", g.Pos(), "the parsed change carries the section's description unchanged")
	}
}

// forwardSinks follows v forward through value-preserving instructions and
// string concatenation and returns the instructions that finally consume it.
// sinkUse is an instruction that finally consumes a tainted value, and the
// value it consumes.
type sinkUse struct {
	in  ssa.Instruction
	via ssa.Value
}

func forwardSinks(v ssa.Value, seen map[ssa.Value]bool, out *[]sinkUse) {
	if seen[v] {
		return
	}
	seen[v] = true
	refs := v.Referrers()
	if refs == nil {
		return
	}
	for _, u := range *refs {
		switch x := u.(type) {
		case *ssa.DebugRef:
		case *ssa.BinOp:
			if x.Op == token.ADD {
				forwardSinks(x, seen, out)
			} else {
				*out = append(*out, sinkUse{x, v})
			}
		case *ssa.Phi:
			forwardSinks(x, seen, out)
		case *ssa.MakeInterface:
			forwardSinks(x, seen, out)
		case *ssa.ChangeType:
			forwardSinks(x, seen, out)
		case *ssa.Convert:
			forwardSinks(x, seen, out)
		case *ssa.Store:
			// spill into a varargs array / local: follow the cell's slice / loads
			if x.Val == v {
				if ia, ok := x.Addr.(*ssa.IndexAddr); ok {
					if al, ok := ia.X.(*ssa.Alloc); ok {
						for _, w := range *al.Referrers() {
							if sl, ok := w.(*ssa.Slice); ok {
								forwardSinks(sl, seen, out)
							}
						}
						continue
					}
				}
				*out = append(*out, sinkUse{x, v})
			}
		case *ssa.Return:
			// the value leaves a private helper: continue at its call sites
			g := x.Parent()
			followed := false
			if prog != nil && g != nil && an.InModule(g) {
				for _, site := range prog.CallersOf(g) {
					if cv, ok := site.(*ssa.Call); ok {
						followed = true
						if cv.Call.Signature().Results().Len() == 1 {
							forwardSinks(cv, seen, out)
						} else {
							for i, res := range x.Results {
								if res == v {
									for _, ex := range an.ExtractOf(cv, i) {
										forwardSinks(ex, seen, out)
									}
								}
							}
						}
					}
				}
			}
			if !followed {
				*out = append(*out, sinkUse{u, v})
			}
		default:
			*out = append(*out, sinkUse{u, v})
		}
	}
}

// prog gives forwardSinks access to the call graph (set by the rule that uses it).
var prog *an.Prog

func c13NamesInert(r *an.Run) {
	r.Rule("R3-names-and-descriptions-do-not-influence-matching")
	prog = r.P
	n := 0
	for _, g := range r.P.PkgFuncs(parseP) {
		for _, b := range g.Blocks {
			for _, in := range b.Instrs {
				u, ok := in.(*ssa.UnOp)
				if !ok || u.Op != token.MUL {
					continue
				}
				fa, ok := u.X.(*ssa.FieldAddr)
				if !ok || !strings.HasSuffix(an.ShortType(fa.X.Type()), "section.Change") {
					continue
				}
				field := fieldNameOf(fa)
				if field != "Name" && field != "Comments" {
					continue
				}
				n++
				var sinks []sinkUse
				forwardSinks(u, map[ssa.Value]bool{}, &sinks)
				for _, su := range sinks {
					s := su.in
					okSink, what := false, s.String()
					switch x := s.(type) {
					case *ssa.Store:
						if fa2, ok := x.Addr.(*ssa.FieldAddr); ok && (fieldNameOf(fa2) == "Name" || fieldNameOf(fa2) == "Comments") && strings.HasSuffix(an.ShortType(fa2.X.Type()), "parse.Change") {
							okSink = true
						}
					case *ssa.BinOp:
						// comparison with "" (is the change named?)
						if s2, ok := an.ConstString(x.Y); ok && s2 == "" {
							okSink = true
						}
					case ssa.CallInstruction:
						name := an.CalleeName(x)
						what = an.TrimModule(name)
						switch {
						case name == "builtin:len", name == "fmt.Sprintf":
							okSink = true
						case name == "(*go/token.FileSet).AddFile":
							okSink = true
						case an.StaticCallee(x) == r.P.Func(parseP, "parser.parsePatchVersion"):
							// only as the file-name argument
							// (the parameter that receives it is the one handed to pgo.Parse as the file name, and
							// nothing else happens to it)
							okSink = true
							sc := an.StaticCallee(x)
							for i, a := range x.Common().Args {
								if a != su.via {
									continue
								}
								if i >= len(sc.Params) {
									okSink = false
									continue
								}
								var inner []sinkUse
								forwardSinks(sc.Params[i], map[ssa.Value]bool{}, &inner)
								if len(inner) == 0 {
									okSink = false
								}
								for _, is := range inner {
									ic, isCall := is.in.(ssa.CallInstruction)
									if !isCall || an.StaticCallee(ic) == nil || short(an.StaticCallee(ic)) != "internal/pgo.Parse" {
										okSink = false
										continue
									}
									for _, ia := range ic.Common().Args {
										if ia == is.via && an.ShortType(ia.Type()) != "string" {
											okSink = false
										}
									}
								}
							}
						default:
							// a private helper of the package taking the name: follow into its parameter
							if sc := an.StaticCallee(x); sc != nil && an.FuncPkgPath(sc) == an.FuncPkgPath(g) {
								okSink = true
								for i, a := range x.Common().Args {
									if a == su.via && i < len(sc.Params) {
										var inner []sinkUse
										forwardSinks(sc.Params[i], map[ssa.Value]bool{}, &inner)
										for _, is := range inner {
											if !acceptNameSink(r, is) {
												okSink = false
											}
										}
									}
								}
							}
						}
					}
					r.Check(okSink, short(g)+"|"+field+"-flows-to|"+what, s.Pos(), "a change's %s flows only into position-table file names, the parsed change's %s field and emptiness tests (here: %s)", strings.ToLower(field), field, what)
				}
			}
		}
	}
	r.Count("uses of section.Change.Name/Comments", n)
	r.Min("uses of section.Change.Name/Comments", 3)
	// posMatchKey = {Line, Column}
	if t := r.P.NamedType(engine, "posMatchKey"); t != nil {
		st, ok := t.Underlying().(*types.Struct)
		fields := map[string]bool{}
		if ok {
			for i := 0; i < st.NumFields(); i++ {
				fields[st.Field(i).Name()] = true
			}
		}
		r.Check(sameSet(fields, setOf("Line", "Column")), "posMatchKey|fields", t.Obj().Pos(), "the key under which matched token positions are stored is (Line, Column) only — not the file name, which contains the change's name (fields: %s)", joinSorted(fields))
	} else {
		r.Undecided("anchor|posMatchKey", 0, "type engine.posMatchKey not found")
	}
	// engine.Change.Name / Comments are only stored and read by main
	for _, g := range r.P.PkgFuncs(engine) {
		for _, b := range g.Blocks {
			for _, in := range b.Instrs {
				if u, ok := in.(*ssa.UnOp); ok && u.Op == token.MUL {
					if fa, ok := u.X.(*ssa.FieldAddr); ok && strings.HasSuffix(an.ShortType(fa.X.Type()), "parse.Change") && (fieldNameOf(fa) == "Name" || fieldNameOf(fa) == "Comments") {
						var sinks []sinkUse
						forwardSinks(u, map[ssa.Value]bool{}, &sinks)
						for _, su := range sinks {
							s := su.in
							st, isSt := s.(*ssa.Store)
							good := false
							if isSt {
								if fa2, ok := st.Addr.(*ssa.FieldAddr); ok && strings.HasSuffix(an.ShortType(fa2.X.Type()), "engine.Change") && fieldNameOf(fa2) == fieldNameOf(fa) {
									good = true
								}
							}
							r.Check(good, short(g)+"|"+fieldNameOf(fa)+"-flows-to", s.Pos(), "the compiler copies a change's %s into the compiled change and nowhere else", fieldNameOf(fa))
						}
					}
				}
			}
		}
	}
}

// acceptNameSink: sinks a change's name may reach inside a helper.
func acceptNameSink(r *an.Run, su sinkUse) bool {
	switch x := su.in.(type) {
	case *ssa.BinOp:
		if s2, ok := an.ConstString(x.Y); ok && s2 == "" {
			return true
		}
		if _, ok := an.ConstInt(x.Y); ok { // len(name) == 0 style
			return true
		}
	case ssa.CallInstruction:
		name := an.CalleeName(x)
		if name == "builtin:len" || name == "fmt.Sprintf" || name == "(*go/token.FileSet).AddFile" {
			return true
		}
		if an.StaticCallee(x) == r.P.Func(parseP, "parser.parsePatchVersion") {
			for i, a := range x.Common().Args {
				if a == su.via && i != 1 {
					return false
				}
			}
			return true
		}
	}
	return false
}

func c13SpellingInert(r *an.Run) {
	r.Rule("R4-metavariable-spelling-does-not-matter")
	f := fn(r, engine, "compiler.compileMeta")
	if f == nil {
		return
	}
	var upd *ssa.MapUpdate
	for _, in := range an.StoresIn(f) {
		if mu, ok := in.(*ssa.MapUpdate); ok && strings.HasSuffix(an.ShortType(mu.Value.Type()), "MetavarType") {
			upd = mu
		}
	}
	if !r.Check(upd != nil, short(f)+"|table-write", f.Pos(), "compileMeta writes the metavariable table") {
		return
	}
	// constants a declared NAME is compared with
	consts := map[string]bool{}
	var underscoreTrue []an.CtrlEdge
	for _, c := range an.EqCases(f, func(v ssa.Value) bool {
		p := an.Path(v)
		return strings.HasSuffix(p, ".Name") && !strings.HasSuffix(p, ".Type.Name") && !isAddr(v)
	}) {
		if s, ok := an.ConstString(c.Key); ok {
			consts[s] = true
			if s == "_" {
				underscoreTrue = append(underscoreTrue, edgeTo(c.If.Block(), c.Target))
			}
		}
	}
	r.Check(sameSet(consts, setOf("_")), short(f)+"|name-constants", f.Pos(), "a declared name is compared with no constant other than \"_\" (found %s): no spelling is special", joinSorted(consts))
	// exactness: inside the names loop, with the "_" edge and the duplicate edge removed, the table write is a must
	loop := an.LoopOf(f, upd.Block())
	if r.Check(loop != nil, short(f)+"|names-loop", upd.Pos(), "the table is written inside the loop over declared names") {
		var dupTrue []an.CtrlEdge
		for _, b := range f.Blocks {
			if iff, ok := b.Instrs[len(b.Instrs)-1].(*ssa.If); ok {
				inner, pos := an.StripNot(iff.Cond)
				if ex, ok := inner.(*ssa.Extract); ok && ex.Index == 1 {
					if lk, ok := ex.Tuple.(*ssa.Lookup); ok && lk.CommaOk {
						br := an.BranchOn{If: iff, Pos: pos}
						dupTrue = append(dupTrue, an.CtrlEdge{Block: b, Succ: br.EdgeWhen(true)})
					}
				}
			}
		}
		removed := append(append([]an.CtrlEdge{}, underscoreTrue...), dupTrue...)
		r.Check(len(underscoreTrue) > 0 && len(dupTrue) > 0 && mustPassIter(loop.Header.Succs[0], upd.Block(), loop, removed), short(f)+"|every-other-name-entered", upd.Pos(), "every declared name that is not \"_\" and not a duplicate becomes a metavariable, whatever it is called")
	}
	// nowhere else in the engine is an identifier name compared with a string constant
	n := 0
	for _, g := range r.P.PkgFuncs(engine) {
		if g == f {
			continue
		}
		for _, c := range an.EqCases(g, func(v ssa.Value) bool {
			return strings.HasSuffix(an.Path(v), ".Name") && !isAddr(v) && an.ShortType(v.Type()) == "string"
		}) {
			if s, ok := an.ConstString(c.Key); ok {
				n++
				r.Fail(short(g)+"|name-constant|"+s, c.If.Pos(), "%s compares an identifier name with the constant %q: the effect of a patch would depend on how its metavariables are spelled", short(g), s)
			}
		}
	}
	r.Count("special-cased names outside compileMeta", n)
}

func c13OrderOnly(r *an.Run) {
	r.Rule("R5-elision-pairing-uses-order-only")
	f := fn(r, engine, "connectDots")
	if f == nil {
		return
	}
	fns := helperGroup(f, 3)
	inGroup := map[*ssa.Function]bool{}
	for _, g := range fns {
		inGroup[g] = true
	}
	isLC := func(v ssa.Value) bool {
		switch x := v.(type) {
		case *ssa.Field:
			n := fieldNameOfStruct(x.X.Type(), x.Field)
			return (n == "Line" || n == "Column" || n == "Offset") && strings.HasSuffix(an.ShortType(x.X.Type()), "token.Position")
		case *ssa.UnOp:
			if fa, ok := x.X.(*ssa.FieldAddr); ok {
				n := fieldNameOf(fa)
				return (n == "Line" || n == "Column" || n == "Offset") && strings.HasSuffix(an.ShortType(fa.X.Type()), "token.Position")
			}
		}
		return false
	}
	nUses := 0
	for _, g := range fns {
		for _, b := range g.Blocks {
			for _, in := range b.Instrs {
				v, ok := in.(ssa.Value)
				if !ok || !isLC(v) {
					continue
				}
				refs := v.Referrers()
				if refs == nil {
					continue
				}
				for _, u := range *refs {
					switch x := u.(type) {
					case *ssa.DebugRef:
					case *ssa.BinOp:
						nUses++
						cmpOp := x.Op == token.LSS || x.Op == token.LEQ || x.Op == token.GTR || x.Op == token.GEQ || x.Op == token.EQL || x.Op == token.NEQ
						other := x.Y
						if x.Y == v {
							other = x.X
						}
						r.Check(cmpOp && isLC(other), short(g)+"|position-use|"+x.Op.String(), x.Pos(), "a line/column number is used only in an order or equality comparison with another line/column number (found %s)", x.String())
					default:
						nUses++
						// a three-way comparison with another line/column number is an order comparison too
						if call, isCall := u.(*ssa.Call); isCall && an.IsCallTo(call, "cmp.Compare") && len(call.Call.Args) == 2 && isLC(call.Call.Args[0]) && isLC(call.Call.Args[1]) {
							continue
						}
						r.Fail(short(g)+"|position-use|"+u.String(), u.Pos(), "a line/column number flows into %s: the pairing of elisions would depend on more than the relative order of positions", u.String())
					}
				}
			}
		}
	}
	r.Count("line/column uses in connectDots", nUses)
	r.Min("line/column uses in connectDots", 3) // one lexicographic comparison (line <, line ==, column <=) at least; the three sites may share one predicate
	// whole Positions may be printed in diagnostics but not stored as keys other than the cache
	for _, g := range fns {
		for _, c := range an.Calls(g) {
			name := an.CalleeName(c)
			if strings.HasPrefix(name, "sort.") || strings.HasPrefix(name, "slices.Sort") || name == "slices.BinarySearchFunc" || name == "cmp.Compare" || name == "fmt.Errorf" || name == "(*go/token.FileSet).Position" || strings.HasPrefix(name, "builtin:") || strings.HasPrefix(name, "closure:") || strings.HasPrefix(name, "dynamic:") {
				continue
			}
			if sc := an.StaticCallee(c); sc != nil && inGroup[sc] {
				continue // a private helper, analysed with the group
			}
			r.Fail(short(g)+"|call|"+name, c.Pos(), "connectDots calls %s", name)
		}
	}
}

// unconvert strips string <-> []byte conversions.
func unconvert(v ssa.Value) ssa.Value {
	for {
		c, ok := v.(*ssa.Convert)
		if !ok {
			return v
		}
		v = c.X
	}
}
