package rules

import (
	"go/token"
	"strings"

	"golang.org/x/tools/go/ssa"

	"gpcheck/internal/an"
)

// travState describes the traversal of FileMatcher.Match: the function f, the
// astutil.Apply call, the callback body clo and the state the callback shares
// with f. The callback is either a function literal (state = captured
// variables) or a method bound to a local struct that carries the state
// (`collector.visit`); rules see both through the same cells.
type travState struct {
	f, clo     *ssa.Function
	apply      ssa.CallInstruction
	mk         *ssa.MakeClosure
	recv       *ssa.Parameter // receiver of the bound method (nil for a function literal)
	stateAlloc *ssa.Alloc     // the local struct of f the method is bound to
}

func traversalState(r *an.Run) *travState {
	f := fn(r, engine, "FileMatcher.Match")
	if f == nil {
		return nil
	}
	calls := an.CallsTo(f, astutilApply)
	if !r.Check(len(calls) == 1, short(f)+"|astutil.Apply", f.Pos(), "FileMatcher.Match has %d astutil.Apply traversal(s), expected exactly 1", len(calls)) {
		return &travState{f: f}
	}
	t := &travState{f: f, apply: calls[0]}
	arg := an.Unwrap(t.apply.Common().Args[1])
	switch v := arg.(type) {
	case *ssa.MakeClosure:
		t.mk = v
		t.clo, _ = v.Fn.(*ssa.Function)
	case *ssa.Function:
		t.clo = v
	}
	if t.clo != nil && strings.HasPrefix(t.clo.Synthetic, "bound method wrapper") && t.mk != nil && len(t.mk.Bindings) == 1 {
		// collector.visit: the wrapper calls the method with the bound receiver
		var method *ssa.Function
		for _, c := range an.Calls(t.clo) {
			if sc := an.StaticCallee(c); sc != nil && an.InModule(sc) {
				method = sc
			}
		}
		if method != nil && len(method.Params) > 0 {
			t.clo, t.recv = method, method.Params[0]
			if a, ok := an.Root(t.mk.Bindings[0]).(*ssa.Alloc); ok {
				t.stateAlloc = a
			}
		}
	}
	if t.clo == nil || t.clo.Blocks == nil {
		t.clo = nil
		r.Undecided(short(f)+"|pre-callback", t.apply.Pos(), "the pre callback of astutil.Apply is neither a function literal nor a method bound to a local: cannot analyse the traversal")
	}
	return t
}

// cellOf names the traversal-state cell an address in the callback refers to.
func (t *travState) cellOf(addr ssa.Value) (string, bool) {
	switch x := addr.(type) {
	case *ssa.FreeVar:
		return x.Name(), true
	case *ssa.FieldAddr:
		if t.recv != nil && (x.X == ssa.Value(t.recv) || isSpillLoadOf(x.X, t.recv)) {
			return fieldNameOf(x), true
		}
	}
	return "", false
}

func isSpillLoadOf(v ssa.Value, p *ssa.Parameter) bool {
	u, ok := v.(*ssa.UnOp)
	if !ok || u.Op != token.MUL {
		return false
	}
	a, ok := u.X.(*ssa.Alloc)
	return ok && a.Comment == p.Name()
}

// loadedCell: v (in the callback) is a load of a state cell.
func (t *travState) loadedCell(v ssa.Value) (string, bool) {
	u, ok := v.(*ssa.UnOp)
	if !ok || u.Op != token.MUL {
		return "", false
	}
	return t.cellOf(u.X)
}

// parentAddrIs: addr (in f) designates the state cell name.
func (t *travState) parentAddrIs(addr ssa.Value, name string) bool {
	if t.stateAlloc != nil {
		fa, ok := addr.(*ssa.FieldAddr)
		return ok && fa.X == ssa.Value(t.stateAlloc) && fieldNameOf(fa) == name
	}
	if t.mk == nil {
		return false
	}
	for i, fv := range t.clo.FreeVars {
		if fv.Name() == name && i < len(t.mk.Bindings) && addr == t.mk.Bindings[i] {
			return true
		}
	}
	return false
}

// parentStores lists the stores of f into the state cell name.
func (t *travState) parentStores(name string) []*ssa.Store {
	var out []*ssa.Store
	for _, b := range t.f.Blocks {
		for _, in := range b.Instrs {
			if st, ok := in.(*ssa.Store); ok && t.parentAddrIs(st.Addr, name) {
				out = append(out, st)
			}
		}
	}
	return out
}

// parentLoadOf: v (in f) is a load of a state cell; returns its name.
func (t *travState) parentLoadOf(v ssa.Value) (string, bool) {
	u, ok := v.(*ssa.UnOp)
	if !ok || u.Op != token.MUL {
		return "", false
	}
	if t.stateAlloc != nil {
		if fa, ok := u.X.(*ssa.FieldAddr); ok && fa.X == ssa.Value(t.stateAlloc) {
			return fieldNameOf(fa), true
		}
		return "", false
	}
	if t.mk != nil {
		for i, fv := range t.clo.FreeVars {
			if i < len(t.mk.Bindings) && u.X == t.mk.Bindings[i] {
				return fv.Name(), true
			}
		}
	}
	return "", false
}

// creation is the instruction of f after which the callback can run.
func (t *travState) creation() ssa.Instruction {
	if t.mk != nil {
		return t.mk
	}
	return t.apply
}
