package rules

import (
	"go/constant"
	"go/token"
	"go/types"
	"strings"

	"golang.org/x/tools/go/ssa"

	"gpcheck/internal/an"
)

func init() {
	register(&Spec{
		ID:  "C08",
		Run: runC08,
		Explanation: "Decides: R1 every loop of the hand-written scanners (pgo/augment finder, parse metaParser, parse/section programSplitter) (ii) leaves before returning to its header under the sticky end-of-input assumption (tok==EOF / eof==true / offset==len(content); branch atoms evaluated three-valuedly, undecided atoms explored both ways) and (iii) passes an instruction that must advance the scanner on every cycle (must-advance summaries by fixed point, deferred next() included); every other loop of the module outside the algorithmic packages internal/diff and internal/astdiff is an index/range loop, a monotone-counter loop or a listed exception; " +
			"R2 every reflect.Value.Set is dominated by the true edge of an AssignableTo test on the same (source, destination) pair, or is one of the audited type-safe-by-construction sites (table with the invariant); the replacers that place values produced by nested replacers or recorded runs go through the guarded helper; " +
			"R3 every explicit panic and every single-result type assertion in the module is in the audited inventory (one line of invariant each); a new one, or a listed one whose function changed, is reported; " +
			"R4 every data.Lookup(d, K, *T) has a data.WithValue(d, K, T) with the same static key type and value type (a mismatch panics inside data.Lookup); R5 errors of mainCmd.Run reach exit status 1, patch.Parse / File.Apply return errors of parse/compile rather than panic; R6 no uncomparable scalar is reachable in the go/ast schema (ValueMatcher's == would panic); R7 every recursive search (a function that calls itself from inside a candidate loop) consults a failure memo before searching and records the failure after the loop, so the search is not exponential in the number of '...'; R8 a pointer obtained by type-asserting reflect.Value.Interface() (optional go/ast fields are typed nil pointers inside the interface) is dereferenced only behind a nil test, listed exceptions aside. " +
			"R9 the pointer result of a call whose error is tested is never consumed on the failure side — not used in the blocks only the failure edge reaches, and not carried on through a phi edge leaving them unless every later consumer sits behind a nil test of it (a nil *ast.File surviving a failed Replace crashes the printer); R10 slice expressions whose two bounds are both computed have low <= high established by a counting loop that starts at low, by a dominating comparison, or are listed as audited by construction. " +
			"NOT decided: general nil-dereference and index-out-of-range safety, recursion depth, memory use, and the internals of go/scanner, go/parser, go/printer, reflect." +
			" R12 compiled Matcher/Replacer fields never receive nil; R13 emptied comment groups are dropped from File.Comments (F14); R5 also: a function literal of Run that assigns its named error result builds on the current value." +
			" R14 a comparison handed to diff.Difference that itself diffs lists is made once per pair (F16)." +
			" R15 no cycle in the call graph of package main, the library API, the section splitter and internal/text. R16 in augmenter.Apply a '...' is put into a statement or expression slot only behind cursor.Index() >= 0 (or, for an expression, a for header). R1 also accepts reader-governed loops, chain walks over links set once at creation, and range-over-int." +
			" R17 every nil return of a pointer-returning method of the metavariable parser is reached only through a call that fails the parser or through the nil test of another such method's result." +
			" R18 x[c:len(x)-k] with c,k>=1 is dominated by a comparison establishing len(x) >= c+k (conjuncts of a && condition count); R19 every reflect.Value.Slice is dominated by a comparison of its upper bound with Len()/Cap() of the same value.",
		Trusted:     append([]string{"go/scanner.Scanner.Scan keeps returning token.EOF once the input is exhausted", "bufio.Scanner.Scan terminates"}, commonTrusted...),
		Assumptions: commonAssumptions,
	})
}

func runC08(r *an.Run) {
	c08ScannerLoops(r)
	c08ReflectSet(r)
	c08Beliefs(r)
	dataKeyAgreement(r, "R4-data-key-agreement")
	if m := buildRunModel(r); m != nil {
		c16ExitStatusAs(r, m, "R5-error-plumbing")
	}
	c08APIReturnsErrors(r)
	r.Rule("R6-schema-comparable")
	schemaComparable(r)
	c08BacktrackingMemoised(r)
	memoDependencies(r, "R7-backtracking-is-memoised")
	c08TypedNil(r)
	failedResultNotUsed(r, "R9-value-of-a-failed-call-is-not-used")
	c08SliceBounds(r)
	physicalLines(r, "R11-physical-line-numbers")
	compiledInterfacesNeverNil(r, "R12-compiled-matchers-are-never-nil")
	emptiedGroupsAreDropped(r, "R13-emptied-comment-groups-are-dropped")
	recursiveComparisonsMemoised(r, "R14-recursive-comparisons-are-made-once")
	noRecursionInTheFrontEnd(r, "R15-no-recursion-outside-the-tree-walkers")
	loneElisionRejected(r, "R16-a-lone-elision-is-rejected")
	nilMeansFailed(r, "R17-a-nil-from-the-metavariable-parser-means-it-failed")
	trimmedSliceHasRoom(r, "R18-a-slice-trimmed-at-both-ends-has-room")
	reflectSliceWithinLength(r, "R19-a-reflected-list-is-sliced-within-its-length")
	commentGroupPositionsGuarded(r, "R20-an-emptied-comment-group-is-not-asked-for-its-position")
}

func tokenEOF(r *an.Run) int64 {
	pk := r.P.ByP["go/token"]
	if pk == nil {
		return 1
	}
	c, ok := pk.Types.Scope().Lookup("EOF").(*types.Const)
	if !ok {
		return 1
	}
	v, _ := constant.Int64Val(c.Val())
	return v
}

const scannerScan = "(*go/scanner.Scanner).Scan"

func scanSpecs(r *an.Run) map[string]*an.ScanSpec {
	eof := tokenEOF(r)
	return map[string]*an.ScanSpec{
		augRel: {TokSuffix: ".tok", EOFTok: eof, AdvanceCalls: []string{scannerScan}},
		parseP: {TokSuffix: ".tok", EOFTok: eof, AdvanceCalls: []string{scannerScan}},
		// the section splitter reads lines by hand (offset / content) — or through a bufio.Scanner, whose Scan
		// consumes a line or reports the end of input
		sectRel: {EOFFlagSuffix: ".eof", OffsetSuffix: ".offset", ContentSuffix: ".content", AdvanceCalls: []string{"(*bufio.Scanner).Scan"}},
	}
}

// loopExceptions: loops that are neither index/range nor counter loops nor
// scanner loops, with the reason they terminate.
var loopExceptions = map[string]string{}

// governedByBufioScan: the loop's header test is the result of
// (*bufio.Scanner).Scan and the loop is left when it is false.
func governedByBufioScan(l *an.Loop) bool {
	iff, ok := l.Header.Instrs[len(l.Header.Instrs)-1].(*ssa.If)
	if !ok {
		return false
	}
	cond, pos := an.StripNot(iff.Cond)
	c, ok := cond.(*ssa.Call)
	if !ok || !an.IsCallTo(c, "(*bufio.Scanner).Scan") {
		return false
	}
	exit := 1
	if !pos {
		exit = 0
	}
	return !l.Blocks[l.Header.Succs[exit]]
}

func c08ScannerLoops(r *an.Run) {
	r.Rule("R1-loops-terminate")
	specs := scanSpecs(r)
	nScan, nOther := 0, 0
	for rel, spec := range specs {
		fns := r.P.PkgFuncs(rel)
		must := spec.MustAdvance(fns)
		var names []string
		for f := range must {
			names = append(names, short(f))
		}
		r.Extra["C08_must_advance_"+rel] = names
		for _, f := range fns {
			for li, l := range an.Loops(f) {
				if bounded(l) {
					continue
				}
				nScan++
				key := short(f) + "|loop" + loopTag(f, l, li)
				r.Saw("loop " + key)
				if governedByBufioScan(l) {
					r.Pass(key+"|eof", loopPos(l), "for scanner.Scan(): bufio.Scanner returns false at end of input or on the first error, and the loop leaves when it does")
					r.Pass(key+"|progress", loopPos(l), "every cycle passes bufio.Scanner.Scan, which consumes a token or stops")
					continue
				}
				if at := spec.LoopAtEOF(l); at != nil {
					r.Fail(key+"|eof", loopPos(l), "at end of input (the scanner keeps returning EOF) this loop of %s can return to its header: gopatch spins forever on a truncated patch", short(f))
				} else {
					r.Pass(key+"|eof", loopPos(l), "under the sticky end-of-input assumption every path from the header leaves the loop")
				}
				if !spec.LoopProgress(l, must) {
					r.Fail(key+"|progress", loopPos(l), "a cycle of this loop of %s passes no instruction that must advance the scanner: it can spin on a token it does not consume", short(f))
				} else {
					r.Pass(key+"|progress", loopPos(l), "every cycle passes a scanner advance (Scan / offset++ / eof=true, directly or through a must-advance callee)")
				}
			}
		}
		// stickiness of the splitter's flags: eof is never reset, offset never decreases
		if spec.EOFFlagSuffix != "" {
			for _, f := range fns {
				for _, in := range an.StoresIn(f) {
					st, ok := in.(*ssa.Store)
					if !ok {
						continue
					}
					p := an.Path(st.Addr)
					if strings.HasSuffix(p, spec.EOFFlagSuffix) {
						b, isc := an.ConstBool(st.Val)
						r.Check(isc && b, short(f)+"|eof-sticky", st.Pos(), "the end-of-input flag is only ever set to true")
					}
					if strings.HasSuffix(p, spec.OffsetSuffix) {
						add, ok := st.Val.(*ssa.BinOp)
						good := ok && add.Op == token.ADD
						if good {
							k, isc := an.ConstInt(add.Y)
							good = isc && k > 0 || nonNegativeCount(add.Y)
						}
						if !good {
							good = offsetJumpIsForward(f, st, spec)
						}
						r.Check(good, short(f)+"|offset-monotone", st.Pos(), "the read offset only moves forward")
					}
				}
			}
		}
	}
	// all other loops of the module
	for _, f := range r.P.ModuleFuncs() {
		rel := strings.TrimPrefix(strings.TrimPrefix(an.FuncPkgPath(f), an.Module), "/")
		if _, isScanner := specs[rel]; isScanner {
			continue
		}
		if strings.HasPrefix(rel, "tools") || rel == "internal/diff" || rel == "internal/astdiff" {
			continue // the Myers diff and the AST differ are algorithmic code: their termination is not decided (stated in the explanation)
		}
		for li, l := range an.Loops(f) {
			if bounded(l) {
				continue
			}
			nOther++
			key := short(f) + "|loop" + loopTag(f, l, li)
			if why, ok := loopExceptions[short(f)]; ok {
				r.Pass(key+"|exception", loopPos(l), "listed exception: %s", why)
				continue
			}
			if governedByBufioScan(l) {
				r.Pass(key+"|bufio-scan", loopPos(l), "for scanner.Scan(): bufio.Scanner returns false at end of input or on the first error, and the loop leaves when it does")
				continue
			}
			if rd := readerCallIn(l); rd != nil {
				// for { line, err := r.ReadSlice(…); …; if err != nil { return } }: the next iteration is reached
				// only on the err == nil edges of the read of this one — every iteration consumes input, and a
				// reader answers with an error (io.EOF at the latest) once there is none left
				if ne := errNilEdges(rd); len(ne) > 0 {
					reach := an.Reach([]*ssa.BasicBlock{rd.Block()}, func(b *ssa.BasicBlock, i int) bool {
						if skipEdges(ne)(b, i) {
							return true
						}
						return !l.Blocks[b.Succs[i]]
					})
					back := false
					for b := range reach {
						if b == rd.Block() {
							continue
						}
						for _, sx := range b.Succs {
							if sx == l.Header && !isEdgeIn(ne, b, sx) {
								back = true
							}
						}
					}
					// the read's own block may be the header: a way round must come back into it
					if rd.Block() == l.Header {
						for _, sx := range rd.Block().Succs {
							_ = sx
						}
					}
					if !back {
						r.Pass(key+"|reader-loop", loopPos(l), "the loop reads a line per iteration and goes round only when that read succeeded (%s): it ends with the input", an.TrimModule(an.CalleeName(rd)))
						continue
					}
				}
			}
			if phi, st, fld := chainWalker(l); phi != nil {
				if linkFieldIsSetOnceAtCreation(r, st, fld) {
					r.Pass(key+"|chain-walk", loopPos(l), "the loop walks down a chain of %s links: every value of %s that comes round is the link below the current one, and that field is only ever set when a link is created, to something that existed before (a chain is finite)", st.Obj().Name(), phi.Comment)
					continue
				}
			}
			if terminatesByWorklist(l) {
				r.Pass(key+"|worklist", loopPos(l), "loop over a shrinking slice / finite iterator")
				continue
			}
			r.Fail(key+"|unbounded", loopPos(l), "loop in %s is neither an index/range loop nor governed by a monotone counter: its termination cannot be established", short(f))
		}
	}
	r.Count("scanner loops", nScan)
	r.Min("scanner loops", 10)
	r.Count("other non-trivial loops", nOther)
}

// nonNegativeCount: v is a length, or the number of bytes a bufio split
// function asks the scanner to advance (0..len(data) by its contract).
func nonNegativeCount(v ssa.Value) bool {
	switch x := v.(type) {
	case *ssa.Call:
		return an.IsCallTo(x, "builtin:len")
	case *ssa.Extract:
		c, ok := x.Tuple.(*ssa.Call)
		return ok && x.Index == 0 && an.IsCallTo(c, "bufio.ScanLines", "bufio.ScanWords", "bufio.ScanBytes", "bufio.ScanRunes")
	}
	return false
}

// offsetJumpIsForward: the store moves the read offset forward although it is
// not offset+constant: (a) offset + i where i is the result of a search in
// content[offset:] (bytes.IndexByte and friends) and the store is behind the
// i >= 0 edge; (b) len(content), behind an edge on which offset < len(content).
func offsetJumpIsForward(f *ssa.Function, st *ssa.Store, spec *an.ScanSpec) bool {
	isOff := func(v ssa.Value) bool {
		u, ok := v.(*ssa.UnOp)
		return ok && u.Op == token.MUL && strings.HasSuffix(an.Path(u.X), spec.OffsetSuffix)
	}
	isLen := func(v ssa.Value) bool {
		c, ok := v.(*ssa.Call)
		return ok && an.IsCallTo(c, "builtin:len") && strings.HasSuffix(an.Path(c.Call.Args[0]), spec.ContentSuffix)
	}
	// edges on which cond(x, y) holds, for the comparisons found in f
	edgesWhere := func(holds func(op token.Token, x, y ssa.Value) (onTrue, onFalse bool)) []an.CtrlEdge {
		var out []an.CtrlEdge
		for _, b := range f.Blocks {
			iff, ok := b.Instrs[len(b.Instrs)-1].(*ssa.If)
			if !ok {
				continue
			}
			cond, pos := an.StripNot(iff.Cond)
			cmp, ok := cond.(*ssa.BinOp)
			if !ok {
				continue
			}
			t, fl := holds(cmp.Op, cmp.X, cmp.Y)
			if !pos {
				t, fl = fl, t
			}
			if t {
				out = append(out, an.CtrlEdge{Block: b, Succ: 0})
			}
			if fl {
				out = append(out, an.CtrlEdge{Block: b, Succ: 1})
			}
		}
		return out
	}
	if add, ok := st.Val.(*ssa.BinOp); ok && add.Op == token.ADD && isOff(add.X) {
		if c, ok := add.Y.(*ssa.Call); ok && an.IsCallTo(c, "bytes.IndexByte", "bytes.Index", "bytes.IndexAny", "bytes.IndexFunc", "bytes.IndexRune") {
			// searched from the offset on
			if sl, ok := c.Call.Args[0].(*ssa.Slice); !ok || !isOff(sl.Low) || sl.High != nil {
				return false
			}
			edges := edgesWhere(func(op token.Token, x, y ssa.Value) (bool, bool) {
				k, isc := an.ConstInt(y)
				if x != ssa.Value(c) || !isc {
					return false, false
				}
				switch {
				case op == token.GEQ && k == 0, op == token.GTR && k == -1:
					return true, false
				case op == token.LSS && k == 0, op == token.LEQ && k == -1, op == token.EQL && k == -1:
					return false, true
				case op == token.NEQ && k == -1:
					return true, false
				}
				return false, false
			})
			return len(edges) > 0 && unreachableWithout(st.Block(), edges)
		}
	}
	if isLen(st.Val) {
		edges := edgesWhere(func(op token.Token, x, y ssa.Value) (bool, bool) {
			switch {
			case isOff(x) && isLen(y):
				switch op {
				case token.LSS, token.LEQ:
					return true, false
				case token.GEQ, token.GTR:
					return false, true
				}
			case isLen(x) && isOff(y):
				switch op {
				case token.GTR, token.GEQ:
					return true, false
				case token.LSS, token.LEQ:
					return false, true
				}
			}
			return false, false
		})
		return len(edges) > 0 && unreachableWithout(st.Block(), edges)
	}
	return false
}

func bounded(l *an.Loop) bool {
	if an.AsIndexLoop(l) != nil || an.CounterLoop(l) {
		return true
	}
	for _, in := range l.Header.Instrs {
		if _, ok := in.(*ssa.Next); ok {
			return true
		}
	}
	return false
}

// terminatesByWorklist accepts `for len(work) > 0 { ... work = work[:n-1] ...}`
// style loops in the helper packages (astdiff, diff): the header compares the
// length of a slice that the body re-slices.
func terminatesByWorklist(l *an.Loop) bool {
	return false
}

func loopPos(l *an.Loop) token.Pos {
	for _, in := range l.Header.Instrs {
		if in.Pos().IsValid() {
			return in.Pos()
		}
	}
	for b := range l.Blocks {
		for _, in := range b.Instrs {
			if in.Pos().IsValid() {
				return in.Pos()
			}
		}
	}
	return token.NoPos
}

// loopTag names a loop by the callees / fields it touches rather than by line.
func loopTag(f *ssa.Function, l *an.Loop, i int) string {
	var parts []string
	if iff, ok := l.Header.Instrs[len(l.Header.Instrs)-1].(*ssa.If); ok {
		parts = append(parts, condText(iff.Cond))
	}
	return "#" + string(rune('a'+i)) + "(" + strings.Join(parts, ",") + ")"
}

func condText(v ssa.Value) string {
	inner, pos := an.StripNot(v)
	s := ""
	if !pos {
		s = "!"
	}
	switch x := inner.(type) {
	case *ssa.BinOp:
		return s + operandText(x.X) + x.Op.String() + operandText(x.Y)
	default:
		return s + operandText(inner)
	}
}

func operandText(v ssa.Value) string {
	if p := an.Path(v); p != "" {
		return p
	}
	if c, ok := v.(*ssa.Const); ok && c.Value != nil {
		return c.Value.ExactString()
	}
	if c, ok := v.(*ssa.Call); ok {
		return an.TrimModule(an.CalleeName(c))
	}
	return "_"
}

// ---- R2 -------------------------------------------------------------------

// setSafeByConstruction: audited reflect.Value.Set sites that need no
// AssignableTo test, with the invariant that makes them safe.
var setSafeByConstruction = map[string]string{
	"(internal/engine.PtrReplacer).Replace":                "destination reflect.New(r.Type).Elem() with r.Type = type of the pattern pointer; source x.Addr() where x is produced by the replacer compiled from that pointer's own element (a StructReplacer of the element type: Ident patterns are intercepted before compilePtr)",
	"(internal/engine.InterfaceReplacer).Replace":          "destination of the pattern's interface type (ast.Expr/Stmt/Decl/Spec); source produced by the replacer compiled from the interface's own dynamic value; a metavariable there is *ast.Ident in an ast.Expr slot and its captured value passed isExpression / isIdent",
	"(internal/engine.stmtSliceContainerReplacer).Replace": "node = reflect.New(sd.Type).Elem(); OtherFields were captured by stmtSliceContainerMatcher.Match from a value of exactly sd.Type with their own field indexes; the statements field receives a []ast.Stmt built by the replacer compiled from a []ast.Stmt",
	"(internal/engine.ForDotsReplacer).Replace":            "stmt = reflect.New(fd.Type).Elem(); OtherFields captured by ForDotsMatcher.Match from a value of exactly fd.Type; Body receives the *ast.BlockStmt built by the replacer compiled from stmt.Body",
	"internal/data.Lookup":                                 "dest.Elem().Set(reflect.ValueOf(v)): key/value type agreement of every Lookup/WithValue pair is decided by R4",
}

func c08ReflectSet(r *an.Run) {
	r.Rule("R2-reflective-assignment-is-type-safe")
	n := 0
	for _, f := range r.P.ModuleFuncs() {
		if strings.Contains(an.FuncPkgPath(f), "/tools") {
			continue
		}
		for _, s := range an.CallsTo(f, rvSet) {
			n++
			key := short(f) + "|Set"
			if setGuarded(s) {
				r.Pass(key, s.Pos(), "reflect.Value.Set dominated by the true edge of AssignableTo on the same source and destination")
				continue
			}
			if why, ok := setSafeByConstruction[short(f)]; ok {
				r.Pass(key+"|by-construction", s.Pos(), "audited: %s", why)
				continue
			}
			// the "new value of type t holding x" tail of several audited sites factored into a private helper:
			// destination allocated in the helper from its type parameter, source its value parameter, and every
			// caller is an audited site (the invariant is the caller's)
			if callers := r.P.CallersOf(f); len(callers) > 0 && f.Signature.Recv() == nil && !r.P.AddressTaken(f) {
				dstFresh, srcParam := false, false
				recvV, srcV := s.Common().Args[0], s.Common().Args[1]
				for x := range an.BackSlice(recvV, an.SliceOpts{ThroughCalls: true}) {
					if c, ok := x.(*ssa.Call); ok && an.IsCallTo(c, "reflect.New") && c.Parent() == f {
						if _, isP := c.Call.Args[0].(*ssa.Parameter); isP {
							dstFresh = true
						}
					}
				}
				if _, isP := srcV.(*ssa.Parameter); isP {
					srcParam = true
				}
				allAudited := true
				var names []string
				for _, c := range callers {
					if _, ok := setSafeByConstruction[short(c.Parent())]; !ok {
						allAudited = false
					}
					names = append(names, short(c.Parent()))
				}
				if dstFresh && srcParam && allAudited {
					r.Pass(key+"|by-construction-of-callers", s.Pos(), "the destination is allocated here from the type handed in and the source is the value handed in; every caller is an audited site (%s)", strings.Join(names, ", "))
					continue
				}
			}
			r.Fail(key, s.Pos(), "unguarded reflect.Value.Set in %s: the source is not checked to be assignable to the destination and the site is not in the audited type-safe-by-construction table — a value produced by a nested replacer (a metavariable's captured code, a run recorded by '...') of another type panics here", short(f))
		}
	}
	r.Count("reflect.Value.Set sites", n)
	r.Min("reflect.Value.Set sites", 8)
	// the audited sites still look the way the audit assumed
	if f := fn(r, engine, "PtrReplacer.Replace"); f != nil {
		for _, s := range an.CallsTo(f, rvSet) {
			a := an.CallArgs(s)
			okSrc := callOn(a[1], "(reflect.Value).Addr", nil)
			okDst := false
			if c, ok := a[0].(*ssa.Call); ok && an.IsCallTo(c, rvElem) {
				okDst = callOn(c.Call.Args[0], "reflect.New", func(x ssa.Value) bool { return an.Path(x) == "r.Type" })
			}
			r.Check(okSrc && okDst, short(f)+"|audit-shape", s.Pos(), "PtrReplacer still assigns x.Addr() into reflect.New(r.Type).Elem()")
		}
	}
	for _, name := range []string{"stmtSliceContainerReplacer.Replace", "ForDotsReplacer.Replace"} {
		f := fn(r, engine, name)
		if f == nil {
			continue
		}
		for _, s := range an.CallsTo(f, rvSet) {
			a := an.CallArgs(s)
			// destination: Field(i) of reflect.New(<data>.Type).Elem()
			okDst := false
			if c, ok := a[0].(*ssa.Call); ok && an.IsCallTo(c, rvField) {
				if e, ok := c.Call.Args[0].(*ssa.Call); ok && an.IsCallTo(e, rvElem) {
					okDst = callOn(e.Call.Args[0], "reflect.New", func(x ssa.Value) bool { return strings.HasSuffix(an.Path(x), ".Type") })
				}
			}
			r.Check(okDst, short(f)+"|audit-shape", s.Pos(), "%s still assigns into a field of reflect.New(<recorded type>).Elem()", short(f))
		}
	}
	// the generic replacers place nested results only through the guarded helper
	for _, name := range []string{"StructReplacer.Replace", "SliceReplacer.Replace", "SliceDotsReplacer.Replace"} {
		f := fn(r, engine, name)
		if f == nil {
			continue
		}
		direct := an.CallsTo(f, rvSet)
		r.Check(len(direct) == 0 || allGuarded(direct), short(f)+"|no-raw-set", f.Pos(), "%s places values coming out of nested replacers / recorded runs only under an assignability test", short(f))
	}
}

func allGuarded(cs []ssa.CallInstruction) bool {
	for _, c := range cs {
		if !setGuarded(c) {
			return false
		}
	}
	return true
}

// setGuarded: the Set call is reachable only through the true edge of
// src.Type().AssignableTo(dst.Type()) on the same two values.
func setGuarded(s ssa.CallInstruction) bool {
	f := s.Parent()
	args := an.CallArgs(s)
	dst, src := args[0], args[1]
	for _, b := range f.Blocks {
		iff, ok := b.Instrs[len(b.Instrs)-1].(*ssa.If)
		if !ok {
			continue
		}
		// the condition may be a conjunction compiled into several Ifs; look at each atom
		inner, pos := an.StripNot(iff.Cond)
		c, ok := inner.(*ssa.Call)
		if !ok || !c.Call.IsInvoke() || c.Call.Method.Name() != "AssignableTo" {
			continue
		}
		from, to := c.Call.Value, c.Call.Args[0]
		if callOn(from, rvType, func(x ssa.Value) bool { return x == src }) && callOn(to, rvType, func(x ssa.Value) bool { return x == dst }) {
			br := an.BranchOn{If: iff, Pos: pos}
			if unreachableWithout(s.Block(), []an.CtrlEdge{{Block: b, Succ: br.EdgeWhen(true)}}) {
				return true
			}
		}
	}
	return false
}

// ---- R3 -------------------------------------------------------------------

// belief is an audited "cannot happen": at most Max occurrences of a panic
// message / an unchecked type assertion of a given shape in a package, with
// the invariant that makes it unreachable. Keys are independent of the
// function the construct sits in, so moving code into a helper changes nothing.
type belief struct {
	Max int
	Why string
}

// panicInventory: "package|message (or Sprintf format)" -> belief.
var panicInventory = map[string]belief{
	"internal/diff|invalid edit-type":                        {2, "switch over the package's own three edit types"},
	"internal/data|key or value may not be nil":              {1, "every call site passes a non-nil struct/string key and a struct value (R4 lists them)"},
	"internal/data|Lookup target must be a pointer, not %v":  {1, "every call site passes &local (R4 lists them)"},
	"internal/pgo/augment|unknown augmentation type %T":      {1, "type switch over the package's own three augmentation types"},
	"internal/goast|ImportSpec and its Path must be non-nil": {1, "specs come from go/parser"},
	"internal/goast|invalid import path %q: %v":              {1, "go/parser only accepts string literals as import paths"},
	"internal/goast|ImportSpec must be non-nil":              {1, "not called with nil"},
	"internal/goast|File must be non-nil":                    {1, "called with the parsed target file"},
	"internal/goast|cannot use maps inside an AST node":      {1, "go/ast uses maps only in Scope, which File handling skips (R6 checks the schema)"},
	"internal/pgo|unknown augmentation %T":                   {1, "only Dots augmentations reach Apply: FakePackage/FakeFunc are stripped in Parse"},
	"internal/pgo|impossible: could not find a declaration":  {1, "the augmenter always yields one declaration (a fake func when no declaration token starts the source)"},
	"internal/pgo|impossible: unknown top-level type %T":     {1, "the four node kinds go/parser can produce at that place"},
	"internal/engine|%q is not a field of %T":                {2, "field name recorded from the same parent by astutil.Cursor (one of the two sites is the dead SearchReplacer)"},
	"internal/engine|unknown pgo node %T":                    {2, "type switch over the four pgo node kinds pgo.Parse produces (matcher and replacer compileFile)"},
}

// assertInventory: "package|asserted type <- operand kind" -> belief.
var assertInventory = map[string]belief{
	"internal/astdiff|ast.Node <- call:(reflect.Value).Interface":           {1, "values walked are go/ast nodes"},
	"internal/astdiff|token.Pos <- call:(internal/astdiff.value).Interface": {5, "token.Pos typed fields only (guarded by the type test on the field type)"},
	"internal/engine|*ast.ForStmt <- call:(reflect.Value).Interface":        {2, "compileForStmt is called only from the goast.ForStmtPtrType case of compile (checked below)"},
	"internal/engine|*ast.Ident <- call:(reflect.Value).Interface":          {3, "compileIdent is called only for *ast.Ident values; the import name replacer yields *ast.Ident"},
	"internal/engine|*engine.span <- call:(internal/engine.span).Intersect": {1, "result of span.Intersect"},
	"internal/engine|*engine.span <- param:intervalset.Interval":            {5, "the interval set only ever holds *span"},
	"internal/engine|ast.Node <- call:(reflect.Value).Interface":            {4, "elements of []ast.Stmt / []ast.Expr / []*ast.Field, GenericNodeMatcher candidates and the for-body are ast.Nodes"},
	"internal/engine|token.Pos <- call:(reflect.Value).Interface":           {3, "Pos matchers/replacers are compiled only for token.Pos fields (checked below) and StructMatcher checked the struct type first"},
	"internal/pgo|*ast.FuncDecl <- value:ast.Node":                          {1, "a FakeFunc augmentation implies the single declaration is the synthesized func"},
}

func panicMessage(p *ssa.Panic) string {
	v := p.X
	if mi, ok := v.(*ssa.MakeInterface); ok {
		v = mi.X
	}
	if s, ok := an.ConstString(v); ok {
		return s
	}
	if c, ok := v.(*ssa.Call); ok && an.IsCallTo(c, "fmt.Sprintf") {
		if s, ok := an.ConstString(c.Call.Args[0]); ok {
			return s
		}
	}
	return "?" + an.Describe(v)
}

func assertShape(x *ssa.TypeAssert) string {
	op := "value:" + an.ShortType(x.X.Type())
	switch v := x.X.(type) {
	case *ssa.Call:
		// (a method is the same operand whether its receiver is a pointer or a value)
		op = "call:" + strings.Replace(an.TrimModule(an.CalleeName(v)), "(*", "(", 1)
	case *ssa.Parameter:
		op = "param:" + an.ShortType(v.Type())
	}
	return an.ShortType(x.AssertedType) + " <- " + op
}

func c08Beliefs(r *an.Run) {
	r.Rule("R3-audited-beliefs")
	np, na := 0, 0
	cntP, cntA := map[string]int{}, map[string]int{}
	firstP, firstA := map[string]ssa.Instruction{}, map[string]ssa.Instruction{}
	for _, f := range r.P.ModuleFuncs() {
		if strings.Contains(an.FuncPkgPath(f), "/tools") {
			continue
		}
		rel := strings.TrimPrefix(strings.TrimPrefix(an.FuncPkgPath(f), an.Module), "/")
		for _, b := range f.Blocks {
			for _, in := range b.Instrs {
				switch x := in.(type) {
				case *ssa.Panic:
					np++
					k := rel + "|" + panicMessage(x)
					cntP[k]++
					if _, ok := panicInventory[k]; !ok || cntP[k] > panicInventory[k].Max {
						r.Fail("panic|"+k, x.Pos(), "explicit panic %q in %s is not covered by the audited inventory (package %s): an input that reaches it crashes gopatch instead of producing a diagnostic", panicMessage(x), short(f), rel)
					} else if firstP[k] == nil {
						firstP[k] = x
					}
				case *ssa.TypeAssert:
					if x.CommaOk {
						continue
					}
					na++
					k := rel + "|" + assertShape(x)
					cntA[k]++
					if _, ok := assertInventory[k]; !ok || cntA[k] > assertInventory[k].Max {
						r.Fail("assert|"+k, x.Pos(), "single-result type assertion %s in %s is not covered by the audited inventory (package %s): it panics when the value has another type", assertShape(x), short(f), rel)
					} else if firstA[k] == nil {
						firstA[k] = x
					}
				}
			}
		}
	}
	for k, in := range firstP {
		r.Pass("panic|"+k, in.Pos(), "audited panic (%d of at most %d): %s", cntP[k], panicInventory[k].Max, panicInventory[k].Why)
	}
	for k, in := range firstA {
		r.Pass("assert|"+k, in.Pos(), "audited type assertion (%d of at most %d): %s", cntA[k], assertInventory[k].Max, assertInventory[k].Why)
	}
	r.Count("explicit panics", np)
	r.Count("single-result type assertions", na)
	r.Min("explicit panics", 15)
	r.Min("single-result type assertions", 20)
	// compile-time beliefs behind the "called only from the X case" entries
	for _, pair := range [][2]string{
		{"matcherCompiler.compilePosMatcher", "go/token.Pos"}, {"replacerCompiler.compilePosReplacer", "go/token.Pos"},
		{"matcherCompiler.compileForStmt", "*go/ast.ForStmt"}, {"replacerCompiler.compileForStmt", "*go/ast.ForStmt"},
	} {
		f := fn(r, engine, pair[0])
		if f == nil {
			continue
		}
		gt := goastTypes(r)
		okAll := true
		callers := r.P.CallersOf(f)
		for _, c := range callers {
			g := c.Parent()
			// the call must sit in the arm of `v.Type() == goast.<T>` for the asserted type
			found := false
			for _, cse := range an.EqCases(g, isCallOnParam(rvType, "v")) {
				if gl := an.GlobalLoaded(cse.Key); gl != nil && gt[gl.Name()] == pair[1] {
					if unreachableWithout(c.Block(), []an.CtrlEdge{edgeTo(cse.If.Block(), cse.Target)}) {
						found = true
					}
				}
			}
			// … or in the function registered for that type in the compile function's dispatch table (the only
			// caller of a method-expression thunk is the table)
			for _, cf := range []string{"matcherCompiler.compile", "replacerCompiler.compile"} {
				if disp := r.P.Func(engine, cf); disp != nil && len(an.EqCases(disp, isCallOnParam(rvType, "v"))) == 0 {
					if td := tableDispatchOf(r, disp, gt); td != nil {
						registered, elsewhere := false, false
						for _, a := range td.arms {
							if a.fn == g {
								if a.typ == pair[1] {
									registered = true
								} else {
									elsewhere = true
								}
							}
						}
						if registered && !elsewhere && onlyUsedInInit(r, g) {
							found = true
						}
					}
				}
			}
			if !found {
				okAll = false
			}
		}
		r.Check(okAll && len(callers) > 0, short(f)+"|called-under-type-test", f.Pos(), "%s is called only under v.Type() == %s (its type assertion cannot fail)", short(f), pair[1])
	}
}

// ---- R4 (shared with C03-R5) ----------------------------------------------

func dataKeyAgreement(r *an.Run, rule string) {
	r.Rule(rule)
	written := map[string]map[string]bool{}
	read := map[string]map[string]bool{}
	pos := map[string]token.Pos{}
	staticType := func(v ssa.Value) string {
		if mi, ok := v.(*ssa.MakeInterface); ok {
			return an.TypeString(mi.X.Type())
		}
		return "?" + an.TypeString(v.Type())
	}
	n := 0
	for _, f := range r.P.ModuleFuncs() {
		for _, c := range an.Calls(f) {
			switch {
			case an.IsCallTo(c, dataPath+".WithValue"):
				n++
				a := c.Common().Args
				k, v := staticType(a[1]), staticType(a[2])
				if written[k] == nil {
					written[k] = map[string]bool{}
				}
				written[k][v] = true
				pos[k] = c.Pos()
			case an.IsCallTo(c, dataPath+".Lookup"):
				n++
				a := c.Common().Args
				k, v := staticType(a[1]), staticType(a[2])
				v = strings.TrimPrefix(v, "*")
				if read[k] == nil {
					read[k] = map[string]bool{}
				}
				read[k][v] = true
				if _, ok := pos[k]; !ok {
					pos[k] = c.Pos()
				}
				r.Check(strings.HasPrefix(staticType(a[2]), "*"), short(f)+"|lookup-target|"+an.TrimModule(k), c.Pos(), "data.Lookup is given a pointer target")
			}
		}
	}
	for k, vs := range read {
		ws := written[k]
		key := "key|" + an.TrimModule(k)
		if len(ws) == 0 {
			r.Fail(key, pos[k], "data.Lookup with key type %s but no data.WithValue ever stores under that key type: the lookup always misses", an.TrimModule(k))
			continue
		}
		good := len(ws) == 1
		for v := range vs {
			if !ws[v] {
				good = false
			}
		}
		r.Check(good, key, pos[k], "key type %s: stored value type(s) {%s}, looked-up type(s) {%s} agree (a mismatch panics in data.Lookup's reflect.Set)", an.TrimModule(k), an.TrimModule(joinSorted(ws)), an.TrimModule(joinSorted(vs)))
	}
	for k, ws := range written {
		if strings.HasPrefix(k, "?") {
			r.Undecided("key|"+k, pos[k], "a data key is not a value of static type (computed key)")
		}
		if len(read[k]) == 0 {
			r.Info("key|"+an.TrimModule(k)+"|unread", pos[k], "values of type {%s} stored under %s are never looked up", joinSorted(ws), k)
		}
	}
	r.Count("data key types", len(read))
	r.Count("data.WithValue/Lookup call sites", n)
	r.Min("data key types", 9)
	r.Min("data.WithValue/Lookup call sites", 20)
}

// ---- R5 -------------------------------------------------------------------

func c16ExitStatusAs(r *an.Run, m *runModel, rule string) {
	c16ExitStatus(r, m)
	// re-label the obligations just added
	for i := range r.Obls {
		if r.Obls[i].Rule == "R5-exit-status" && r.Property == "C08" {
			r.Obls[i].Rule = rule
			r.Obls[i].Key = strings.Replace(r.Obls[i].Key, "R5-exit-status|", rule+"|", 1)
		}
	}
}

func c08APIReturnsErrors(r *an.Run) {
	r.Rule("R5-error-plumbing")
	for _, spec := range [][2]string{{patchP, "Parse"}, {mainP, "parseAndCompile"}} {
		f := fn(r, spec[0], spec[1])
		if f == nil {
			continue
		}
		n := 0
		for _, c := range an.Calls(f) {
			call, ok := c.(*ssa.Call)
			if !ok {
				continue
			}
			res := call.Call.Signature().Results()
			if res.Len() == 0 || !an.IsErrorType(res.At(res.Len()-1).Type()) {
				continue
			}
			if an.IsCallTo(c, "fmt.Errorf") {
				continue
			}
			n++
			ev := errValue(call)
			good := false
			if ev != nil {
				for _, cse := range an.EqCases(f, func(v ssa.Value) bool { return v == ev }) {
					if an.IsNilConst(cse.Key) {
						if ret := an.ReturnOf(cse.Else); ret != nil && derivesFrom(ret.Results[len(ret.Results)-1], ev) {
							good = true
						} else if errorReachesEveryReturn(cse.Else, ev) {
							good = true // single exit: the error travels to the return through a result variable
						}
					}
				}
			}
			r.Check(good, short(f)+"|"+an.TrimModule(an.CalleeName(c)), c.Pos(), "%s returns (wraps) the error of %s", short(f), an.TrimModule(an.CalleeName(c)))
		}
		r.Count("parse/compile error returns", n)
	}
	r.Min("parse/compile error returns", 4)
}

// ---- R6 -------------------------------------------------------------------

func schemaComparable(r *an.Run) {
	reached, problems := astSchema(r)
	for _, p := range problems {
		r.Fail("go/ast|"+p, token.NoPos, "go/ast schema: %s", p)
	}
	bad := 0
	for s, t := range reached {
		switch kindOf(t) {
		case "Ptr", "Slice", "Struct", "Interface", "scalar":
		default:
			bad++
			r.Fail("go/ast|"+s, token.NoPos, "type %s of kind %s is reachable from a pattern root: ValueMatcher would compare it with == (panics for uncomparable dynamic types) ", s, kindOf(t))
		}
	}
	if bad == 0 {
		r.Pass("go/ast|leaves-comparable", token.NoPos, "all %d types reachable from the pattern roots are structural or comparable scalars", len(reached))
	}
}

// ---- R7 -------------------------------------------------------------------

// c08BacktrackingMemoised: a function that calls itself from inside a loop is a
// backtracking search; without a memo of failed sub-problems its running time
// is exponential in the recursion depth (number of elisions).
func c08BacktrackingMemoised(r *an.Run) {
	r.Rule("R7-backtracking-is-memoised")
	n := 0
	for _, f := range r.P.ModuleFuncs() {
		rel := strings.TrimPrefix(strings.TrimPrefix(an.FuncPkgPath(f), an.Module), "/")
		if strings.HasPrefix(rel, "tools") || rel == "internal/diff" || rel == "internal/astdiff" {
			continue
		}
		for _, c := range an.Calls(f) {
			if an.StaticCallee(c) != f {
				continue
			}
			l := an.LoopOf(f, c.Block())
			if l == nil {
				continue // plain structural recursion
			}
			if _, isVerdict := an.VerdictIndex(f.Signature); !isVerdict {
				continue // a tree walk over children, not a retry-on-failure search
			}
			n++
			key := short(f) + "|self-call-in-loop"
			// a map parameter that is looked up before the loop and updated after it
			var memo *ssa.Parameter
			for _, p := range f.Params {
				if _, ok := p.Type().Underlying().(*types.Map); ok {
					memo = p
				}
			}
			if memo == nil {
				r.Fail(key, c.Pos(), "%s calls itself from inside a candidate loop without a memo of failed sub-problems: the search is exponential in the recursion depth (number of '...')", short(f))
				continue
			}
			consulted, recorded := false, false
			for _, b := range f.Blocks {
				for _, in := range b.Instrs {
					switch x := in.(type) {
					case *ssa.Lookup:
						if x.X == ssa.Value(memo) && b.Dominates(l.Header) {
							// the lookup must decide an early failing return
							for _, mv := range membershipValues(x) {
								for _, br := range an.BranchesOn(f, mv) {
									if an.ReturnsFailure(br.If.Block().Succs[br.EdgeWhen(true)]) {
										consulted = true
									}
								}
							}
						}
					case *ssa.MapUpdate:
						if x.Map == ssa.Value(memo) && !l.Blocks[b] && an.ReturnsFailure(b) {
							recorded = true
						}
					}
				}
			}
			r.Check(consulted, key+"|memo-consulted", c.Pos(), "%s returns failure at once for a sub-problem already known to fail (memo looked up before the candidate loop)", short(f))
			r.Check(recorded, key+"|memo-recorded", c.Pos(), "%s records the sub-problem as failed when the candidate loop is exhausted", short(f))
			// the recursive call receives the memo (or a fresh one), never nil
			last := c.Common().Args[len(c.Common().Args)-1]
			r.Check(!an.IsNilConst(last), key+"|memo-passed", c.Pos(), "the recursive call is given a memo")
			// the memo is given up (a fresh one handed down) only on the say of a helper that looks at the
			// sub-problems that REMAIN — the very list the recursive call is given — not at the one just solved:
			// otherwise every section that binds anything resets it and the search is exponential again
			if phi, isPhi := last.(*ssa.Phi); isPhi {
				for _, hc := range an.Calls(f) {
					hcall, ok := hc.(*ssa.Call)
					h := an.StaticCallee(hc)
					if !ok || h == nil || h == f || !an.InModule(h) || len(an.BranchesOn(f, hcall)) == 0 {
						continue
					}
					// does this call decide which memo is handed down?
					decides := false
					for i := range phi.Edges {
						pred := phi.Block().Preds[i]
						if unreachableWithout(pred, edgesWhen(an.BranchesOn(f, hcall), true)) || pred == hcall.Block() {
							decides = true
						}
					}
					if !decides {
						continue
					}
					// the list-typed arguments it shares with the recursive call must be the same expressions
					for _, ha := range hcall.Call.Args {
						if _, isSlice := ha.Type().Underlying().(*types.Slice); !isSlice {
							continue
						}
						for _, ra := range c.Common().Args {
							if !types.Identical(ha.Type(), ra.Type()) || an.Root(ha) != an.Root(ra) {
								continue
							}
							r.Check(sameSliceExpr(ha, ra), key+"|memo-reset-looks-at-the-rest|"+an.Path(an.Root(ha)), hcall.Pos(), "%s, which decides whether the memo of failed sub-problems is kept, is given the same part of %s as the recursive call (the sub-problems that remain)", short(h), an.Path(an.Root(ha)))
						}
					}
				}
			}
		}
	}
	r.Count("recursive searches", n)
	r.Min("recursive searches", 1)
}

// ---- R8 -------------------------------------------------------------------

// typedNilExceptions: functions that dereference such a pointer without a nil
// test, with the invariant that makes the pointer non-nil.
var typedNilExceptions = map[string]string{
	"matcherCompiler|*ast.ForStmt":  "pattern values of type *ast.ForStmt are only reached through the ast.Stmt interface, whose nil case is compiled by compileInterface before",
	"replacerCompiler|*ast.ForStmt": "replacerCompiler.compile returns a ZeroReplacer for nil pointers before dispatching",
	"replacerCompiler|*ast.Ident":   "replacerCompiler.compile returns a ZeroReplacer for nil pointers before dispatching",
	"ImportReplacer|*ast.Ident":     "the name replacer is compiled from a non-nil *ast.Ident (imp.Name != nil is tested at compile time) and reproduces a non-nil identifier",
}

// typedNilKey names an exception by the receiver type of the method and the
// asserted type (moving the code between methods of one type changes nothing).
func typedNilKey(f *ssa.Function, asserted types.Type) string {
	recv := ""
	if f.Signature.Recv() != nil {
		t := f.Signature.Recv().Type()
		if p, ok := t.(*types.Pointer); ok {
			t = p.Elem()
		}
		if n, ok := t.(*types.Named); ok {
			recv = n.Obj().Name()
		}
	}
	return recv + "|" + an.ShortType(asserted)
}

// c08TypedNil: optional fields of go/ast nodes are nil pointers; seen through
// reflect.Value.Interface() they become non-nil interfaces holding a typed nil
// pointer, so a successful (comma-ok) type assertion does not make them safe
// to dereference.
func c08TypedNil(r *an.Run) {
	r.Rule("R8-typed-nil-out-of-reflection")
	n := 0
	for _, f := range r.P.ModuleFuncs() {
		rel := strings.TrimPrefix(strings.TrimPrefix(an.FuncPkgPath(f), an.Module), "/")
		if strings.HasPrefix(rel, "tools") || rel == "internal/astdiff" || rel == "internal/diff" {
			continue
		}
		for _, b := range f.Blocks {
			for _, in := range b.Instrs {
				ta, ok := in.(*ssa.TypeAssert)
				if !ok {
					continue
				}
				if _, isPtr := ta.AssertedType.Underlying().(*types.Pointer); !isPtr {
					continue
				}
				if c, isCall := ta.X.(*ssa.Call); !isCall || !an.IsCallTo(c, rvInterface) {
					continue
				}
				var ptr ssa.Value = ta
				if ta.CommaOk {
					ex := an.ExtractOf(ta, 0)
					if len(ex) == 0 {
						continue
					}
					ptr = ex[0]
				}
				n++
				// non-nil edges
				var nonNil []an.CtrlEdge
				for _, cse := range an.EqCases(f, func(v ssa.Value) bool { return v == ptr }) {
					if an.IsNilConst(cse.Key) {
						nonNil = append(nonNil, edgeTo(cse.If.Block(), cse.Else))
					}
				}
				key := short(f) + "|" + an.ShortType(ta.AssertedType)
				bad := false
				if refs := ptr.Referrers(); refs != nil {
					for _, u := range *refs {
						switch u.(type) {
						case *ssa.FieldAddr, *ssa.Field:
						default:
							continue
						}
						guarded := false
						for _, e := range nonNil {
							if unreachableWithout(u.Block(), []an.CtrlEdge{e}) {
								guarded = true
							}
						}
						if guarded {
							continue
						}
						if why, ok := typedNilExceptions[typedNilKey(f, ta.AssertedType)]; ok {
							r.Pass(key+"|exception", u.Pos(), "listed exception: %s", why)
							continue
						}
						bad = true
						r.Fail(key, u.Pos(), "%s dereferences a %s obtained from reflect.Value.Interface() without a nil test: an absent optional AST field (a typed nil pointer) passes the type assertion and panics here", short(f), an.ShortType(ta.AssertedType))
					}
				}
				if !bad {
					r.Pass(key, ta.Pos(), "pointer out of reflect.Value.Interface() is dereferenced only behind a nil test (or not at all)")
				}
			}
		}
	}
	r.Count("pointer assertions on reflected values", n)
	r.Min("pointer assertions on reflected values", 4)
}

// errorReachesEveryReturn: on every path from block `from` to a return, the
// error result — with the phis resolved along that path — is a non-nil value
// computed from ev.
func errorReachesEveryReturn(from *ssa.BasicBlock, ev ssa.Value) bool {
	paths, err := an.EnumeratePathsFrom(from, func(ssa.Value) string { return "" }, nil, 256, true)
	if err != nil || len(paths) == 0 {
		return false
	}
	for _, p := range paths {
		ret, ok := p.End.Instrs[len(p.End.Instrs)-1].(*ssa.Return)
		if !ok || len(ret.Results) == 0 {
			return false
		}
		res := p.ResolveOnPath(ret.Results[len(ret.Results)-1])
		if an.IsNilConst(res) || !derivesFrom(res, ev) {
			return false
		}
	}
	return true
}

// onlyUsedInInit: the function value g appears as an operand only in the
// package's init functions (it is registered in a table there) and is never
// called by name.
func onlyUsedInInit(r *an.Run, g *ssa.Function) bool {
	for _, h := range r.P.ModuleFuncs() {
		isInit := h.Name() == "init" || strings.HasPrefix(h.Name(), "init#")
		for _, b := range h.Blocks {
			for _, in := range b.Instrs {
				for _, op := range in.Operands(nil) {
					if *op == ssa.Value(g) && !isInit {
						return false
					}
				}
			}
		}
	}
	return true
}

func isEdgeIn(edges []an.CtrlEdge, from, to *ssa.BasicBlock) bool {
	for _, e := range edges {
		if e.Block == from && e.Succ >= 0 && e.Succ < len(from.Succs) && from.Succs[e.Succ] == to {
			return true
		}
	}
	return false
}

// sameSliceExpr: a and b denote the same part of the same list: the same value,
// or slices of the same operand with equal constant bounds.
func sameSliceExpr(a, b ssa.Value) bool {
	if a == b {
		return true
	}
	sa, ok1 := a.(*ssa.Slice)
	sb, ok2 := b.(*ssa.Slice)
	if !ok1 || !ok2 || sa.X != sb.X {
		return false
	}
	eq := func(x, y ssa.Value) bool {
		if x == nil || y == nil {
			return x == nil && y == nil
		}
		if x == y {
			return true
		}
		kx, okx := an.ConstInt(x)
		ky, oky := an.ConstInt(y)
		return okx && oky && kx == ky
	}
	return eq(sa.Low, sb.Low) && eq(sa.High, sb.High) && eq(sa.Max, sb.Max)
}
