package rules

import (
	"fmt"
	"go/token"
	"sort"
	"strings"

	"golang.org/x/tools/go/ssa"

	"gpcheck/internal/an"
)

func init() {
	register(&Spec{
		ID:  "C15",
		Run: runC15,
		Explanation: "Decides: R1 the walk callback's full decision table (path-sensitive, over the atoms walk error, regular file, .go suffix, directory, and the five base-name tests) equals the specified one — a path is appended iff the mode is regular and the name ends in \".go\"; SkipDir is returned iff it is a directory whose base name is empty, starts with '.' or '_', or equals \"testdata\" or \"vendor\"; walk errors are returned; the constants compared are exactly that set; " +
			"R2 no symlink following — discovery walks with filepath.Walk/WalkDir (Lstat based) and the code reachable from findFiles calls no os.Stat, os.Open, filepath.EvalSymlinks or os.Readlink; the regular-file test is made on the entry the walker handed in; " +
			"R3 each file once, in fixed order — every argument is walked (the loop over the patterns parameter covers all of them, none is filtered away), results are de-duplicated by absolute path and sorted by it, and Run iterates once over exactly that slice; " +
			"R4 argument normalisation — the root walked is the argument with a trailing \"...\" trimmed, joined to the working directory when relative and cleaned when absolute. " +
			"NOT decided: operating-system semantics of Walk and of path cleaning." +
			" R6 the compiled patch does not remember earlier files." +
			" R7 os.Args[1:] -> Run -> ParseArgs -> options.Args.Patterns -> findFiles, each hop the value as it is, and no function assigns the Patterns field." +
			" R8 before the filepath.Walk call findGoFiles returns only with a non-nil error.",
		Trusted:     append([]string{"filepath.Walk and filepath.WalkDir use Lstat and do not follow symbolic links"}, commonTrusted...),
		Assumptions: commonAssumptions,
	})
}

func runC15(r *an.Run) {
	c15WalkTable(r)
	c15NoSymlinks(r)
	c15OnceInOrder(r)
	c15Normalisation(r)
	if m := buildRunModel(r); m != nil {
		everyParsedFileReachesApply(r, m, "R5-every-discovered-file-is-handed-to-the-patches")
	}
	c15LogicalPaths(r, "R4-argument-normalisation")
	// a discovered file is handed to the patches as they were compiled: nothing that happens to one file
	// (a change that failed on it) is remembered in the compiled patch and makes it skip the files after it
	compiledProgramReadOnly(r, "R6-the-compiled-patch-does-not-remember-earlier-files")
	argumentsTakenAsGiven(r, "R7-the-arguments-reach-file-discovery-as-given")
	nothingSkippedBeforeTheWalk(r, "R8-nothing-is-skipped-before-the-walk")
}

func walkCallback(r *an.Run) (f, clo *ssa.Function, walk ssa.CallInstruction) {
	f = fn(r, mainP, "findGoFiles")
	if f == nil {
		return
	}
	ws := an.CallsTo(f, "path/filepath.Walk", "path/filepath.WalkDir")
	if !r.Check(len(ws) == 1, short(f)+"|walk", f.Pos(), "findGoFiles walks the tree once with filepath.Walk / WalkDir (found %d call(s))", len(ws)) {
		return f, nil, nil
	}
	walk = ws[0]
	switch v := an.Unwrap(walk.Common().Args[1]).(type) {
	case *ssa.MakeClosure:
		clo, _ = v.Fn.(*ssa.Function)
	case *ssa.Function:
		clo = v
	}
	// a method value (`filepath.Walk(path, collector.visit)`): the bound-method wrapper stands for the method;
	// its last three parameters are those of a WalkFunc
	if clo != nil && clo.Synthetic != "" && len(clo.Blocks) == 1 {
		for _, c := range an.Calls(clo) {
			if sc := an.StaticCallee(c); sc != nil && sc.Blocks != nil {
				clo = sc
			}
		}
	}
	if clo == nil || len(clo.Params) < 3 {
		clo = nil
		r.Undecided(short(f)+"|callback", walk.Pos(), "the walk callback is not a function literal or a method value")
	}
	return
}

// walkParams returns the path, entry and error parameters of a walk callback
// (the last three: a method has its receiver in front).
func walkParams(clo *ssa.Function) (pathP, infoP, errP *ssa.Parameter) {
	n := len(clo.Params)
	return clo.Params[n-3], clo.Params[n-2], clo.Params[n-1]
}

func c15WalkTable(r *an.Run) {
	r.Rule("R1-walk-decision-table")
	_, clo, _ := walkCallback(r)
	if clo == nil {
		return
	}
	pathP, infoP, errP := walkParams(clo)
	isMode := func(v ssa.Value) bool {
		c, ok := v.(*ssa.Call)
		if !ok {
			return false
		}
		if c.Call.IsInvoke() && (c.Call.Method.Name() == "Mode" || c.Call.Method.Name() == "Type") && c.Call.Value == ssa.Value(infoP) {
			return true
		}
		return false
	}
	isBase := func(v ssa.Value) bool {
		c, ok := v.(*ssa.Call)
		return ok && an.IsCallTo(c, "path/filepath.Base") && c.Call.Args[0] == ssa.Value(pathP)
	}
	consts := map[string]bool{}
	helperChecked := map[*ssa.Function]bool{}
	classify := func(c ssa.Value) string {
		// an excluded-name predicate extracted into a private helper: isSkippedDir(filepath.Base(path))
		if call, ok := c.(*ssa.Call); ok {
			if h := an.StaticCallee(call); h != nil && an.InModule(h) && h.Blocks != nil && len(call.Call.Args) == 1 && isBase(call.Call.Args[0]) &&
				h.Signature.Results().Len() == 1 && an.ShortType(h.Signature.Results().At(0).Type()) == "bool" {
				if !helperChecked[h] {
					helperChecked[h] = true
					c15ExcludedHelper(r, h, consts)
				}
				return "base-is-excluded(helper)"
			}
		}
		switch x := c.(type) {
		case *ssa.Call:
			switch {
			case an.IsCallTo(x, "(io/fs.FileMode).IsRegular") && isMode(x.Call.Args[0]):
				return "regular"
			case an.IsCallTo(x, "(io/fs.FileMode).IsDir") && isMode(x.Call.Args[0]):
				return "dir"
			case x.Call.IsInvoke() && x.Call.Method.Name() == "IsDir" && x.Call.Value == ssa.Value(infoP):
				return "dir"
			case an.IsCallTo(x, "strings.HasSuffix") && x.Call.Args[0] == ssa.Value(pathP):
				if s, ok := an.ConstString(x.Call.Args[1]); ok {
					consts["suffix:"+s] = true
					return "suffix"
				}
			}
		case *ssa.BinOp:
			if x.Op != token.EQL && x.Op != token.NEQ {
				return ""
			}
			name := ""
			switch {
			case x.X == ssa.Value(errP) && an.IsNilConst(x.Y):
				name = "err-nil"
			case x.X == ssa.Value(errP):
				return ""
			default:
				return nameTestAtom(x, isBase, consts)
			}
			if name == "" {
				return ""
			}
			if x.Op == token.NEQ {
				return "not:" + name
			}
			return name
		}
		return ""
	}
	paths, err := an.EnumeratePathsFrom(clo.Blocks[0], classify, nil, 4096, true)
	if err != nil {
		r.Undecided(short(clo)+"|table", clo.Pos(), "cannot extract the walk callback's decision table: %v", err)
		return
	}
	// the block that appends to the captured paths slice
	var appendBlock *ssa.BasicBlock
	for _, in := range an.StoresIn(clo) {
		if st, ok := in.(*ssa.Store); ok {
			if fv, ok := st.Addr.(*ssa.FreeVar); ok && strings.HasPrefix(an.ShortType(fv.Type()), "*[]") {
				if c, ok := st.Val.(*ssa.Call); ok && an.IsCallTo(c, "builtin:append") {
					appendBlock = st.Block()
				}
			}
			// the list as a field of the receiver the callback is a method of
			if fa, ok := st.Addr.(*ssa.FieldAddr); ok && clo.Signature.Recv() != nil && fa.X == ssa.Value(clo.Params[0]) {
				if c, ok := st.Val.(*ssa.Call); ok && an.IsCallTo(c, "builtin:append") && strings.HasPrefix(an.ShortType(c.Type()), "[]") {
					appendBlock = st.Block()
				}
			}
		}
	}
	if !r.Check(appendBlock != nil, short(clo)+"|collects", clo.Pos(), "the callback appends found files to the result list") {
		return
	}
	get := func(p an.DPath, atom string) (val, known bool) {
		if v, ok := p.Atoms[atom]; ok {
			return v, true
		}
		if v, ok := p.Atoms["not:"+atom]; ok {
			return !v, true
		}
		return false, false
	}
	bad := 0
	var rows []string
	for _, p := range paths {
		appended := false
		for _, b := range p.Blocks {
			if b == appendBlock {
				appended = true
			}
		}
		ret, _ := p.End.Instrs[len(p.End.Instrs)-1].(*ssa.Return)
		out := "?"
		if ret != nil {
			v := p.ResolveOnPath(ret.Results[0])
			switch {
			case an.IsNilConst(v):
				out = "nil"
			case v == ssa.Value(errP):
				out = "err"
			case an.Describe(v) == "global:filepath.SkipDir":
				out = "SkipDir"
			default:
				out = an.Describe(v)
			}
		}
		errNil, errKnown := get(p, "err-nil")
		reg, regK := get(p, "regular")
		suf, sufK := get(p, "suffix")
		dir, dirK := get(p, "dir")
		excluded, exclKnownFalse := false, true
		for a := range p.Atoms {
			name := strings.TrimPrefix(a, "not:")
			if name == "base-empty" || strings.HasPrefix(name, "first-is-") || strings.HasPrefix(name, "base-is-") {
				v, _ := get(p, name)
				if v {
					excluded = true
				}
			}
		}
		_ = exclKnownFalse
		// expected outcome on this path
		want, wantAppend := "nil", false
		switch {
		case errKnown && !errNil:
			want = "err"
		case regK && reg && sufK && suf:
			wantAppend = true
		case dirK && dir && excluded:
			want = "SkipDir"
		}
		// every decision must have been made on known atoms: a path that appends without testing regular+suffix is wrong
		ok := out == want && appended == wantAppend
		if appended && !(regK && reg && sufK && suf && errKnown && errNil) {
			ok = false
		}
		if out == "SkipDir" && !(dirK && dir && excluded && errKnown && errNil) {
			ok = false
		}
		// a directory with an excluded name must not fall through to nil
		rows = append(rows, fmt.Sprintf("%v -> %s append=%v", atomList(p.Atoms), out, appended))
		if !ok {
			bad++
			if bad <= 3 {
				r.Fail(short(clo)+"|row|"+strconvItoa(bad), p.End.Instrs[0].Pos(), "walk decision %s gives (%s, appended=%v), specified (%s, appended=%v)", atomList(p.Atoms), out, appended, want, wantAppend)
			}
		}
	}
	if bad > 3 {
		r.Fail(short(clo)+"|rows", clo.Pos(), "%d of the %d decision paths of the walk callback deviate from the specified table (first three listed above; the full table is in the evidence)", bad, len(paths))
	}
	if bad == 0 {
		r.Pass(short(clo)+"|table", clo.Pos(), "all %d paths of the walk callback decide as specified: append iff regular && .go; SkipDir iff directory with an excluded name; errors returned", len(paths))
	}
	r.Count("walk decision paths", len(paths))
	r.Min("walk decision paths", 9)
	r.Extra["C15_walk_table"] = rows
	want := setOf("suffix:.go", "first:.", "first:_", "name:testdata", "name:vendor")
	r.Check(sameSet(consts, want), short(clo)+"|constants", clo.Pos(), "the constants the walk compares with are exactly {\".go\", '.', '_', \"testdata\", \"vendor\"} (found %s)", joinSorted(consts))
	// completeness of exclusion: with all exclusion atoms false a directory is descended (covered by rows), and
	// each exclusion atom alone leads to SkipDir (covered by rows with that atom true)
}

func atomList(m map[string]bool) string {
	var ks []string
	for k, v := range m {
		ks = append(ks, k+"="+tf(v))
	}
	sort.Strings(ks)
	return strings.Join(ks, ",")
}

func c15NoSymlinks(r *an.Run) {
	r.Rule("R2-no-symlink-following")
	ff := fn(r, mainP, "findFiles")
	if ff == nil {
		return
	}
	reach := r.P.ReachableModuleFuncs(ff)
	forbidden := setOf("os.Stat", "os.Open", "os.OpenFile", "os.ReadDir", "path/filepath.EvalSymlinks", "os.Readlink", "os.ReadFile", "path/filepath.Glob", "(*os.File).Stat", "(*os.File).Readdir", "(*os.File).ReadDir")
	n := 0
	for _, e := range an.ExternalCalls(reach) {
		n++
		if forbidden[e.Callee] {
			r.Fail(short(e.In)+"|"+e.Callee, e.Site.Pos(), "target discovery calls %s, which follows symbolic links (or reads through them): files reached through a symlink could be processed", e.Callee)
		}
	}
	r.Pass("discovery-calls", 0, "%d external call sites in the %d functions of target discovery: none follows symbolic links", n, len(reach))
	_, clo, walk := walkCallback(r)
	if clo == nil || walk == nil {
		return
	}
	// the regular-file test is made on the callback's own entry parameter
	good := false
	for _, c := range an.Calls(clo) {
		if an.IsCallTo(c, "(io/fs.FileMode).IsRegular") {
			if m, ok := c.Common().Args[0].(*ssa.Call); ok && m.Call.IsInvoke() && m.Call.Value == ssa.Value(clo.Params[len(clo.Params)-2]) {
				good = true
			}
		}
	}
	r.Check(good, short(clo)+"|mode-of-entry", clo.Pos(), "IsRegular is asked of the entry the walker handed in (an Lstat result: a symlink is not regular)")
	r.Count("discovery external calls", n)
	r.Min("discovery external calls", 8)
}

func c15OnceInOrder(r *an.Run) {
	r.Rule("R3-each-file-once-in-fixed-order")
	c14FixedOrder(r, "R3-each-file-once-in-fixed-order")
	f := fn(r, mainP, "findFiles")
	if f == nil {
		return
	}
	ils := findIndexLoops(f, isLenOfPath("patterns"))
	if r.Check(len(ils) == 1, short(f)+"|patterns-loop", f.Pos(), "one loop over the patterns parameter itself (no filtered copy)") {
		il := ils[0]
		var call ssa.CallInstruction
		for _, c := range callsInLoop(il.Loop) {
			if an.StaticCallee(c) == r.P.Func(mainP, "findGoFiles") {
				call = c
			}
		}
		if r.Check(call != nil, short(f)+"|walks-each", il.If.Pos(), "each pattern is walked") {
			msg := il.CoversAll(call, nil)
			r.Check(msg == "" && il.Start == 0 && il.Step == 1 && elemOf(call.Common().Args[1], "patterns", il.Index), short(f)+"|covers-all", call.Pos(), "every argument is walked, including a file named explicitly under an excluded directory %s", msg)
			// all found files enter the map
			inner := findIndexLoops(f, func(v ssa.Value) bool {
				c, ok := v.(*ssa.Call)
				return ok && an.IsCallTo(c, "builtin:len") && derivesFrom(c.Call.Args[0], call.(*ssa.Call))
			})
			okInner := false
			for _, x := range inner {
				for b := range x.Loop.Blocks {
					for _, in := range b.Instrs {
						if mu, ok := in.(*ssa.MapUpdate); ok && x.CoversAll(mu, nil) == "" {
							okInner = true
						}
					}
				}
			}
			r.Check(okInner, short(f)+"|all-found-kept", call.Pos(), "every file a walk found is entered into the de-duplication map")
		}
	}
	// the patterns given to findFiles are the positional arguments, unfiltered
	if m := buildRunModel(r); m != nil {
		for _, c := range an.Calls(m.run) {
			if an.StaticCallee(c) != f {
				continue
			}
			allArgs := false
			if u, ok := c.Common().Args[1].(*ssa.UnOp); ok {
				if fa, ok := u.X.(*ssa.FieldAddr); ok && fieldNameOf(fa) == "Patterns" {
					allArgs = true
				}
			}
			r.Check(allArgs, short(m.run)+"|all-arguments", c.Pos(), "findFiles receives all positional arguments")
			files := valueOfExtract(c.(*ssa.Call), 0)
			bound, ok := m.loop.Bound.(*ssa.Call)
			r.Check(ok && an.IsCallTo(bound, "builtin:len") && bound.Call.Args[0] == files && m.loop.Start == 0 && m.loop.Step == 1, short(m.run)+"|iterates-once", m.loop.If.Pos(), "Run iterates exactly once over the slice findFiles returned")
			// the file processed in iteration i is element i
			r.Check(strings.HasSuffix(an.PathIn(m.filename, m.run), ".Absolute"), short(m.run)+"|element", m.readFile.Pos(), "the file read is the current element's absolute path")
		}
	}
}

func c15Normalisation(r *an.Run) {
	r.Rule("R4-argument-normalisation")
	f, _, walk := walkCallback(r)
	if f == nil || walk == nil {
		return
	}
	pathP := paramAt(f, 1)
	cwd := paramAt(f, 0)
	var trim *ssa.Call
	for _, c := range an.CallsTo(f, "strings.TrimSuffix") {
		call := c.(*ssa.Call)
		if s, ok := an.ConstString(call.Call.Args[1]); ok && s == "..." && call.Call.Args[0] == ssa.Value(pathP) {
			trim = call
		}
	}
	if !r.Check(trim != nil, short(f)+"|trim-dots", f.Pos(), "a trailing \"...\" of the argument is trimmed") {
		return
	}
	root := walk.Common().Args[0]
	phi, ok := root.(*ssa.Phi)
	if !r.Check(ok && len(phi.Edges) == 2, short(f)+"|root", walk.Pos(), "the walked root is chosen between the relative and the absolute form") {
		return
	}
	var isAbs *ssa.Call
	for _, c := range an.CallsTo(f, "path/filepath.IsAbs") {
		if c.Common().Args[0] == ssa.Value(trim) {
			isAbs = c.(*ssa.Call)
		}
	}
	if !r.Check(isAbs != nil, short(f)+"|is-abs", f.Pos(), "the trimmed argument is tested with filepath.IsAbs") {
		return
	}
	brs := an.BranchesOn(f, isAbs)
	goodRel, goodAbs := false, false
	for i, e := range phi.Edges {
		pred := phi.Block().Preds[i]
		c, isCall := e.(*ssa.Call)
		if !isCall {
			continue
		}
		switch {
		case an.IsCallTo(c, "path/filepath.Join"):
			// Join(cwd, trimmed) on the not-absolute side
			sl := an.BackSlice(c, an.SliceOpts{ThroughCalls: true, ThroughMemory: true})
			if sl[cwd] && sl[trim] && (unreachableWithout(pred, edgesWhen(brs, false)) || pred == isAbs.Block()) {
				goodRel = true
			}
		case an.IsCallTo(c, "path/filepath.Clean"):
			if c.Call.Args[0] == ssa.Value(trim) && (unreachableWithout(pred, edgesWhen(brs, true)) || pred == isAbs.Block()) {
				goodAbs = true
			}
		}
	}
	r.Check(goodRel, short(f)+"|relative", walk.Pos(), "a relative argument is resolved against the working directory (filepath.Join(cwd, arg))")
	r.Check(goodAbs, short(f)+"|absolute", walk.Pos(), "an absolute argument is cleaned (filepath.Clean)")
	// cwd is what Getwd returned
	if m := buildRunModel(r); m != nil {
		ff := r.P.Func(mainP, "findFiles")
		for _, c := range an.Calls(m.run) {
			if an.StaticCallee(c) == ff {
				ex, ok := c.Common().Args[0].(*ssa.Extract)
				good := false
				if ok {
					if gc, ok := ex.Tuple.(*ssa.Call); ok && an.Path(gc.Call.Value) == "cmd.Getwd" {
						good = true
					}
				}
				r.Check(good, short(m.run)+"|cwd", c.Pos(), "the working directory used is the one Getwd reported")
			}
		}
	}
}

// nameTestAtom classifies a comparison on a directory base name (subject
// recognised by isBase): base-empty, first-is-<c>, base-is-<s>; polarity of !=
// is encoded with a "not:" prefix. Constants are recorded in consts.
func nameTestAtom(c ssa.Value, isBase func(ssa.Value) bool, consts map[string]bool) string {
	if call, isCall := c.(*ssa.Call); isCall {
		switch {
		case an.IsCallTo(call, "strings.HasPrefix") && isBase(call.Call.Args[0]):
			// HasPrefix(base, ".") is len(base) > 0 && base[0] == '.'
			if s, ok := an.ConstString(call.Call.Args[1]); ok && len(s) == 1 {
				consts["first:"+s] = true
				return "first-is-" + s
			}
		case an.IsCallTo(call, "slices.Contains") && len(call.Call.Args) == 2 && isBase(call.Call.Args[1]):
			// membership in a fixed list of names
			if names := constantStringList(call.Call.Args[0]); len(names) > 0 {
				for _, n := range names {
					consts["name:"+n] = true
				}
				return "base-is-one-of-" + strings.Join(names, ",")
			}
		}
		return ""
	}
	x, ok := c.(*ssa.BinOp)
	if !ok || (x.Op != token.EQL && x.Op != token.NEQ) {
		return ""
	}
	name := ""
	if lc, ok := x.X.(*ssa.Call); ok && an.IsCallTo(lc, "builtin:len") && isBase(lc.Call.Args[0]) {
		if k, ok := an.ConstInt(x.Y); ok && k == 0 {
			name = "base-empty"
		}
	}
	var ixX, ixI ssa.Value
	switch ix := x.X.(type) {
	case *ssa.Lookup:
		ixX, ixI = ix.X, ix.Index
	case *ssa.Index:
		ixX, ixI = ix.X, ix.Index
	}
	if ixX != nil && isBase(ixX) {
		if i, ok := an.ConstInt(ixI); ok && i == 0 {
			if k, ok := an.ConstInt(x.Y); ok {
				consts["first:"+string(rune(k))] = true
				name = "first-is-" + string(rune(k))
			}
		}
	}
	if isBase(x.X) {
		if s, ok := an.ConstString(x.Y); ok {
			consts["name:"+s] = true
			name = "base-is-" + s
		}
	}
	if name == "" {
		return ""
	}
	if x.Op == token.NEQ {
		return "not:" + name
	}
	return name
}

// c15ExcludedHelper: a helper predicate over a base name returns true exactly
// when one of its name tests holds.
func c15ExcludedHelper(r *an.Run, h *ssa.Function, consts map[string]bool) {
	isBase := func(v ssa.Value) bool { return v == ssa.Value(h.Params[0]) }
	paths, err := an.EnumeratePaths(h, func(c ssa.Value) string { return nameTestAtom(c, isBase, consts) }, nil, 1024)
	if err != nil {
		r.Undecided(short(h)+"|table", h.Pos(), "cannot extract the decision table of the excluded-name predicate %s: %v", short(h), err)
		return
	}
	good := len(paths) >= 2
	for _, p := range paths {
		ret, ok := p.End.Instrs[len(p.End.Instrs)-1].(*ssa.Return)
		if !ok {
			good = false
			continue
		}
		v := p.ResolveOnPath(ret.Results[0])
		any := false
		for a, val := range p.Atoms {
			if strings.HasPrefix(a, "not:") {
				val = !val
			}
			if val {
				any = true
			}
		}
		k, isc := an.ConstBool(v)
		if !isc {
			// `return a || b` materialised: the returned value is the last test on the path
			if _, isCall := v.(*ssa.Call); isCall && nameTestAtom(v, isBase, consts) != "" {
				continue
			}
			if cmp, isCmp := v.(*ssa.BinOp); isCmp && nameTestAtom(cmp, isBase, consts) != "" {
				// path ends by returning that comparison: both outcomes possible, consistent by construction
				continue
			}
			good = false
			continue
		}
		if k != any {
			good = false
		}
	}
	r.Check(good, short(h)+"|table", h.Pos(), "%s is true exactly when the base name is empty, starts with an excluded character or is an excluded name (%d paths)", short(h), len(paths))
}

func strconvItoa(i int) string { return fmt.Sprintf("%d", i) }

// constantStringList: v is a []string whose elements are all string constants
// — a slice literal, or a package-level variable that is initialised with one
// and never assigned or written through anywhere in the module.
func constantStringList(v ssa.Value) []string {
	fromArray := func(sl ssa.Value) []string {
		s, ok := sl.(*ssa.Slice)
		if !ok || s.Low != nil || s.High != nil {
			return nil
		}
		al, ok := s.X.(*ssa.Alloc)
		if !ok || al.Referrers() == nil {
			return nil
		}
		var out []string
		for _, u := range *al.Referrers() {
			switch x := u.(type) {
			case *ssa.IndexAddr:
				for _, w := range *x.Referrers() {
					st, isStore := w.(*ssa.Store)
					if !isStore {
						return nil
					}
					c, isc := an.ConstString(st.Val)
					if !isc {
						return nil
					}
					out = append(out, c)
				}
			case *ssa.Slice, *ssa.DebugRef:
			default:
				return nil
			}
		}
		sort.Strings(out)
		return out
	}
	if out := fromArray(v); out != nil {
		return out
	}
	g := an.GlobalLoaded(v)
	if g == nil || g.Pkg == nil {
		return nil
	}
	var out []string
	writes := 0
	if an.Current == nil {
		return nil
	}
	{
		fns := an.Current.ModuleFuncs()
		if init := g.Pkg.Func("init"); init != nil {
			fns = append(fns, init) // the synthetic package initialiser
		}
		seenFn := map[*ssa.Function]bool{}
		for _, h := range fns {
			if seenFn[h] {
				continue
			}
			seenFn[h] = true
			for _, b := range h.Blocks {
				for _, in := range b.Instrs {
					switch x := in.(type) {
					case *ssa.Store:
						if x.Addr == ssa.Value(g) {
							writes++
							if h.Name() != "init" {
								return nil
							}
							out = fromArray(x.Val)
						}
					case *ssa.IndexAddr:
						// an element of the list addressed through the variable: a possible write
						if an.GlobalLoaded(x.X) == g {
							for _, w := range *x.Referrers() {
								if st, isStore := w.(*ssa.Store); isStore && st.Addr == ssa.Value(x) {
									return nil
								}
							}
						}
					}
				}
			}
		}
	}
	if writes != 1 {
		return nil
	}
	return out
}
