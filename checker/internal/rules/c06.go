package rules

import (
	"go/token"
	"strings"

	"golang.org/x/tools/go/ssa"

	"gpcheck/internal/an"
)

func init() {
	register(&Spec{
		ID:  "C06",
		Run: runC06,
		Explanation: "Decides, for every path of the per-file pipeline: R1 when (*patchRunner).Apply reports matched==false, nothing but a log line and — under --print-only — one write of the ORIGINAL bytes (the os.ReadFile result itself) to cmd.Stdout happens before the next file: no format.Node, imports.Process, diff, description, file-system mutator or any other call; the only error appended on that path is the failure of that very write; " +
			"R2 matched can become true only under a true c.Match verdict and is false on the path where c.Replace fails; R3 FileMatcher.Match reports a match only when at least one node matched; R4 patch.File.Apply returns its src parameter itself (and a nil error) whenever no change produced a file. " +
			"NOT decided: nothing about mtime/inode beyond 'no file-system mutator is called on that path'; behaviour of go/parser on the input." +
			" R1 also: under --print-only the echo of an unmatched file is unconditional; R4 also: the value tested against nil is nil unless a change produced a file." +
			" R5 each file is processed once." +
			" R6 the bytes kept until the echo are not a window into a re-used buffer (C03-R12)." +
			" R8 PosMatcher's verdict is validity equality (a token only one side has is a mismatch); R9 the import decision table has no further matching row." +
			" R10 every import guard is consulted (= C10-R4).",
		Trusted:     commonTrusted,
		Assumptions: commonAssumptions,
	})
}

func runC06(r *an.Run) {
	m := buildRunModel(r)
	if m != nil {
		c06NoEffectPath(r, m)
	}
	c06MatchedFlag(r)
	c06FileMatchNeedsNode(r)
	c06APIReturnsSrc(r)
	// an unmatched file is echoed once: every file is processed once per run (de-duplicated by absolute path)
	c15OnceInOrder(r)
	relabel(r, "R3-each-file-once-in-fixed-order", "R5-each-file-is-processed-once")
	// what is echoed for an unmatched file is what was read from it: the bytes kept until the echo are not a
	// window into a buffer that is rewound and filled again for another file
	noTransientBufferRetained(r, "R6-kept-bytes-are-not-a-window-into-a-reused-buffer")
	// a file in which nothing is an instance of the pattern is not reported as matched: a list pattern whose
	// last element is fixed does not accept a list that goes on after it
	c04AnchoringAndConsumption(r)
	relabel(r, "R3-anchoring-and-consumption", "R7-a-longer-list-is-not-a-match")
	relabel(r, "R4-recorded-run-is-skipped-run", "R7-a-longer-list-is-not-a-match")
	relabel(r, "R5-search-completeness", "R7-a-longer-list-is-not-a-match")
	// a file in which nothing is an instance of the pattern is not reported as matched: an optional token the
	// file has and the pattern lacks (f(xs...), type A = B, var ( x )) is a mismatch, as is the reverse
	r.Rule("R8-a-token-only-one-side-has-is-a-mismatch")
	posMatcherValidity(r)
	// ... and an unnamed patch import does not match a named file import (the matcher's four-row table)
	c10ImportTable(r)
	relabel(r, "R3-import-table", "R9-the-import-table-has-no-further-matching-row")
	c10AllImports(r)
	relabel(r, "R4-all-imports-must-match", "R10-every-import-guard-is-consulted")
}

func c06NoEffectPath(r *an.Run, m *runModel) {
	r.Rule("R1-unmatched-path-has-no-effect")
	f := m.run
	unmatched := m.hyp(nil, map[ssa.Value]bool{m.matched: false})
	nb := m.decides(unmatched)
	if !r.Check(nb >= 1, short(f)+"|branch-on-matched", m.apply.Pos(), "Run branches on the matched flag of (*patchRunner).Apply (%d branch(es))", nb) {
		return
	}
	region := m.iterationUnder(m.apply, unmatched)
	noPrint := m.hyp(map[string]bool{"Print": false}, nil)
	n := 0
	for _, c := range callsAfter(region, m.apply) {
		n++
		name := an.CalleeName(c)
		key := short(f) + "|unmatched|" + an.TrimModule(name)
		switch {
		case an.IsPurePredicate(an.StaticCallee(c), 0):
			r.Pass(key, c.Pos(), "effect-free predicate helper on the unmatched path")
		case an.IsCallTo(c, logPrintf):
			r.Pass(key, c.Pos(), "log line on the unmatched path")
		case an.IsCallTo(c, "builtin:append") || isAccRecord(m, c):
			// only the failure of the echo may be recorded
			ok := false
			for v := range an.BackSlice(c.Common().Args[len(c.Common().Args)-1], an.SliceOpts{ThroughCalls: true, ThroughMemory: true}) {
				if ex, isEx := v.(*ssa.Extract); isEx {
					if w, isCall := ex.Tuple.(*ssa.Call); isCall {
						if _, isW := isStdoutWrite(w); isW {
							ok = true
						}
					}
				}
				if hc, isCall := v.(*ssa.Call); isCall && echoHelperWrite(m, hc) != nil {
					ok = true // the error of the helper that does the echo (it returns the write's error only)
				}
			}
			r.Check(ok, key, c.Pos(), "the only error recorded on the unmatched path is the failure of the --print-only echo")
		default:
			if hc, isCall := c.(*ssa.Call); isCall {
				if w := echoHelperWrite(m, hc); w != nil {
					// the echo lives in a private helper that does nothing else
					h := an.StaticCallee(hc)
					r.Pass(key+"|bytes", c.Pos(), "--print-only echoes exactly the bytes read from the file (handed to %s, which writes that parameter to cmd.Stdout)", short(h))
					// inside the helper the flag may arrive as a parameter (emitUnchanged(opts.Print, content)): a
					// parameter has, under the hypothesis, the value of the argument it is bound to
					args := an.CallArgs(hc)
					inHelper := an.Assume(func(v ssa.Value) (bool, bool) {
						if prm, isParam := v.(*ssa.Parameter); isParam && prm.Parent() == h {
							for i, q := range h.Params {
								if q == prm && i < len(args) {
									return an.EvalUnder(args[i], nil, noPrint, 0)
								}
							}
						}
						return noPrint(v)
					})
					r.Check(!an.ReachUnder(h.Blocks[0], inHelper, nil)[w.Block()], key+"|only-print", w.Pos(), "the echo happens only under --print-only")
					continue
				}
			}
			if bs, isW := isStdoutWrite(c); isW {
				r.Check(an.Unwrap(bs) == m.content, key+"|bytes", c.Pos(), "--print-only echoes exactly the bytes read from the file (the os.ReadFile result), not a re-printed file")
				guarded := m.unreachableUnder(c.Block(), noPrint)
				r.Check(guarded, key+"|only-print", c.Pos(), "the echo happens only under --print-only")
				continue
			}
			r.Fail(key, c.Pos(), "when no change matched, Run still calls %s before moving to the next file: an unmatched file must not be formatted, diffed, described or written", an.TrimModule(name))
		}
	}
	r.Count("calls on the unmatched path", n)
	r.Min("calls on the unmatched path", 2)
	// and under --print-only the echo is not optional: with matched == false and Print == true every way to
	// the next file passes through it — nothing else (the state of the runner, what happened to earlier
	// files, the file's contents) decides whether an unmatched file is echoed
	var echo ssa.CallInstruction
	var echoInner *ssa.Call
	for _, c := range callsAfter(region, m.apply) {
		if bs, isW := isStdoutWrite(c); isW && an.Unwrap(bs) == m.content {
			echo = c
		}
		if hc, isCall := c.(*ssa.Call); isCall {
			if w := echoHelperWrite(m, hc); w != nil {
				echo, echoInner = c, w
			}
		}
	}
	if echo != nil {
		printing := m.hyp(map[string]bool{"Print": true, "Diff": false}, map[ssa.Value]bool{m.matched: false})
		hdr := m.loop.Loop.Header
		reach := an.ReachUnder(m.apply.Block(), printing, func(b *ssa.BasicBlock, i int) bool { return b == echo.Block() && b != m.apply.Block() })
		if echoInner != nil {
			// inside the helper: with Print set every way to a return passes the write
			h := echoInner.Parent()
			outer := m.hyp(map[string]bool{"Print": true, "Diff": false}, nil)
			hargs := an.CallArgs(echo)
			in := an.ReachUnder(h.Blocks[0], an.Assume(func(v ssa.Value) (bool, bool) {
				// a parameter of the helper has the value of the argument it is bound to
				if prm, isParam := v.(*ssa.Parameter); isParam && prm.Parent() == h {
					for i, q := range h.Params {
						if q == prm && i < len(hargs) {
							return an.EvalUnder(hargs[i], nil, outer, 0)
						}
					}
				}
				return outer(v)
			}), func(b *ssa.BasicBlock, i int) bool { return b == echoInner.Block() })
			for _, ret := range an.Returns(h) {
				if in[ret.Block()] && ret.Block() != echoInner.Block() {
					reach[hdr] = true
				}
			}
		}
		r.Check(!reach[hdr], short(f)+"|unmatched|echo-unconditional", echo.Pos(), "with --print-only every unmatched file is echoed: no other condition lies between the matched == false decision and the write of the original bytes")
	}
	// and the region really ends the iteration: no block of the matched pipeline is inside
	for _, c := range an.Calls(f) {
		if an.IsCallTo(c, formatNode, importsProcess) && region[c.Block()] {
			r.Fail(short(f)+"|unmatched|falls-through", c.Pos(), "the unmatched path falls through into the formatting pipeline")
		}
	}
}

func c06MatchedFlag(r *an.Run) {
	r.Rule("R2-matched-only-after-match")
	f := fn(r, mainP, "patchRunner.Apply")
	if f == nil {
		return
	}
	var vcs []an.VerdictCall
	for _, vc := range an.VerdictCalls(f) {
		if vc.Verdict != nil {
			vcs = append(vcs, vc)
		}
	}
	if !r.Check(len(vcs) == 1, short(f)+"|match-call", f.Pos(), "Apply calls Change.Match once per change and keeps its verdict (found %d)", len(vcs)) {
		return
	}
	trueEdges := edgesWhen(an.BranchesOn(f, vcs[0].Verdict), true)
	// every constant true flowing into the matched result must sit behind the verdict's true edge
	nres := f.Signature.Results().Len()
	seen := map[ssa.Value]bool{}
	ok, nTrue := true, 0
	var walk func(v ssa.Value, at *ssa.BasicBlock)
	walk = func(v ssa.Value, at *ssa.BasicBlock) {
		if b, isc := an.ConstBool(v); isc {
			if b {
				nTrue++
				if !unreachableWithout(at, trueEdges) {
					ok = false
					r.Fail(short(f)+"|matched-true", at.Instrs[0].Pos(), "matched becomes true on a path that does not pass a true Change.Match verdict")
				}
			}
			return
		}
		if seen[v] {
			return
		}
		seen[v] = true
		if phi, isPhi := v.(*ssa.Phi); isPhi {
			for i, e := range phi.Edges {
				walk(e, phi.Block().Preds[i])
			}
			return
		}
		ok = false
		r.Undecided(short(f)+"|matched-value", f.Pos(), "the matched result is computed by %s: cannot decide when it is true", v.String())
	}
	for _, ret := range an.Returns(f) {
		walk(ret.Results[nres-1], ret.Block())
	}
	if ok {
		r.Pass(short(f)+"|matched-true", vcs[0].Call.Pos(), "matched is true only behind a true Change.Match verdict (%d assignment(s) of true)", nTrue)
	}
	r.Check(nTrue >= 1, short(f)+"|matched-set", f.Pos(), "matched is set when a change applies")
	// Replace failure => matched false, error recorded
	for _, c := range an.Calls(f) {
		call, isCall := c.(*ssa.Call)
		if !isCall || !an.IsCallTo(c, "(*"+enginePath+".Change).Replace") {
			continue
		}
		errv := an.ExtractOf(call, 1)
		if len(errv) == 0 {
			r.Fail(short(f)+"|replace-error", c.Pos(), "the error of Change.Replace is discarded")
			continue
		}
		for _, cse := range an.EqCases(f, func(v ssa.Value) bool { return v == ssa.Value(errv[0]) }) {
			if !an.IsNilConst(cse.Key) {
				continue
			}
			// Else = non-nil successor
			ret := an.ReturnOf(cse.Else)
			good := ret != nil
			if good {
				b, isc := an.ConstBool(ret.Results[nres-1])
				good = isc && !b
			}
			r.Check(good, short(f)+"|replace-error", c.Pos(), "when Change.Replace fails, Apply returns matched == false (the file is left untouched)")
			stored := false
			for _, in := range an.FollowJumps(cse.Else).Instrs {
				if st, isSt := in.(*ssa.Store); isSt && derivesFrom(st.Val, errv[0]) {
					// the runner's error list: a field of the receiver (whatever the receiver is called)
					if fa, isFA := st.Addr.(*ssa.FieldAddr); isFA && isRunnerErrors(r, fa) && recvValue(f) != nil && fa.X == ssa.Value(recvValue(f)) {
						stored = true
					}
				}
			}
			r.Check(stored, short(f)+"|replace-error-recorded", c.Pos(), "the failure is appended to the runner's errors")
		}
	}
}

func c06FileMatchNeedsNode(r *an.Run) {
	r.Rule("R3-file-match-needs-a-node-match")
	ts := traversalState(r)
	if ts == nil || ts.apply == nil || ts.clo == nil {
		return
	}
	f, apply := ts.f, ts.apply
	// the list the callback appends to
	listCell := ""
	for _, in := range an.StoresIn(ts.clo) {
		if st, ok := in.(*ssa.Store); ok {
			if name, isCell := ts.cellOf(st.Addr); isCell && strings.HasSuffix(an.ShortType(st.Addr.Type()), "[]*engine.SearchResult") {
				listCell = name
			}
		}
	}
	var edges []an.CtrlEdge
	for _, c := range an.EqCases(f, func(v ssa.Value) bool {
		call, ok := v.(*ssa.Call)
		if !ok || !an.IsCallTo(call, "builtin:len") {
			return false
		}
		name, isCell := ts.parentLoadOf(call.Call.Args[0])
		return isCell && name == listCell && listCell != ""
	}) {
		if k, ok := an.ConstInt(c.Key); ok && k == 0 {
			edges = append(edges, edgeTo(c.If.Block(), c.Else))
		}
	}
	// every possibly-true return after the traversal needs len(matches) != 0
	idx, _ := an.VerdictIndex(f.Signature)
	var after []*ssa.Return
	for _, ret := range an.PossiblyTrueReturns(f, idx) {
		if apply.Block().Dominates(ret.Block()) {
			after = append(after, ret)
		}
	}
	good := len(edges) > 0 && len(after) > 0
	for _, e := range edges {
		if len(an.ReachableReturnsWithout(f, after, []an.CtrlEdge{e})) > 0 {
			good = false
		}
	}
	if len(edges) == 0 {
		good = false
	}
	r.Check(good, short(f)+"|needs-node-match", apply.Pos(), "FileMatcher.Match reports a match only when the traversal recorded at least one node (len(matches) != 0)")
}

func c06APIReturnsSrc(r *an.Run) {
	r.Rule("R4-api-returns-src-unchanged")
	f := fn(r, patchP, "File.Apply")
	if f == nil {
		return
	}
	src := paramAt(f, 1)
	found := false
	inGrp := map[*ssa.Function]bool{}
	for _, g := range helperGroup(f, 2) {
		inGrp[g] = true
	}
	for _, c := range an.EqCases(f, func(v ssa.Value) bool {
		if an.ShortType(v.Type()) != "*ast.File" {
			return false
		}
		if _, isPhi := v.(*ssa.Phi); isPhi {
			return true
		}
		// the change loop may live in a private helper that hands back the file it produced (or nil)
		if ex, ok := v.(*ssa.Extract); ok {
			if call, ok := ex.Tuple.(*ssa.Call); ok {
				if h := an.StaticCallee(call); h != nil && inGrp[h] && len(callsToGroup(h, "(*"+enginePath+".Change).Replace")) > 0 {
					return true
				}
			}
		}
		return false
	}) {
		if !an.IsNilConst(c.Key) {
			continue
		}
		found = true
		// the tested value is nil unless a change produced a file: its sources are nil and results of
		// Change.Replace — not the parsed input, which is never nil
		if why := nilUnlessReplaced(c.Subj, 0); why != "" {
			r.Fail(short(f)+"|fout-nil-means-unmatched", c.If.Pos(), "the value File.Apply tests against nil is not \"nil unless a change produced a file\": %s — for a file no change applies to it is never nil, so src is never handed back", why)
		}
		ret := an.ReturnOf(c.Target)
		good := ret != nil && ret.Results[0] == ssa.Value(src) && an.IsNilConst(ret.Results[1])
		r.Check(good, short(f)+"|fout-nil", c.If.Pos(), "when no change produced a file (fout == nil) File.Apply returns its src parameter itself and a nil error")
		// nothing is formatted before that decision
		for _, inner := range callsToGroup(f, formatNode, importsProcess) {
			call := siteIn(f, inner)
			if call == nil {
				continue
			}
			r.Check(c.If.Block().Dominates(call.Block()) && unreachableWithout(call.Block(), []an.CtrlEdge{edgeTo(c.If.Block(), c.Else)}),
				short(f)+"|format-after-decision|"+an.CalleeName(inner), call.Pos(), "formatting happens only after the fout != nil decision")
		}
	}
	r.Check(found, short(f)+"|fout-nil-test", f.Pos(), "File.Apply tests whether any change produced a file")
	_ = token.NoPos
}

// nilUnlessReplaced: every source of the *ast.File value v (through phis and
// through the result of a private helper) is the nil constant or a result of
// Change.Replace. It returns "" when that holds.
func nilUnlessReplaced(v ssa.Value, depth int) string {
	if depth > 3 {
		return "too deep"
	}
	for _, l := range phiLeaves(v) {
		if an.IsNilConst(l) {
			continue
		}
		ex, ok := l.(*ssa.Extract)
		if !ok {
			return "one of its sources is " + an.Describe(l)
		}
		call, ok := ex.Tuple.(*ssa.Call)
		if !ok {
			return "one of its sources is " + an.Describe(l)
		}
		if an.IsCallTo(call, "(*"+enginePath+".Change).Replace") {
			continue
		}
		h := an.StaticCallee(call)
		if h == nil || !an.InModule(h) || h.Blocks == nil {
			return "one of its sources is " + an.Describe(l)
		}
		for _, ret := range an.Returns(h) {
			if ex.Index >= len(ret.Results) {
				return "one of its sources is " + an.Describe(l)
			}
			if why := nilUnlessReplaced(ret.Results[ex.Index], depth+1); why != "" {
				return "in " + short(h) + ": " + why
			}
		}
	}
	return ""
}

// echoHelperWrite: call is a call (in Run) to a private function of package
// main that does the --print-only echo and nothing else: its only call is a
// write to cmd.Stdout of the parameter that is bound to the bytes read from
// the file, it stores nothing, and every error it returns is that write's.
// It returns the write, or nil.
func echoHelperWrite(m *runModel, call *ssa.Call) *ssa.Call {
	h := an.StaticCallee(call)
	if h == nil || !an.InModule(h) || h.Blocks == nil || an.FuncPkgPath(h) != an.FuncPkgPath(m.run) || h == m.run {
		return nil
	}
	var write *ssa.Call
	for _, b := range h.Blocks {
		for _, in := range b.Instrs {
			switch x := in.(type) {
			case *ssa.Store:
				if _, local := x.Addr.(*ssa.Alloc); !local {
					return nil
				}
			case *ssa.MapUpdate, *ssa.Go, *ssa.Defer, *ssa.Send:
				return nil
			case ssa.CallInstruction:
				bs, isW := isStdoutWrite(x)
				if !isW || write != nil {
					return nil
				}
				p, isParam := an.Unwrap(bs).(*ssa.Parameter)
				if !isParam {
					return nil
				}
				bound := false
				for i, q := range h.Params {
					if q == p && i < len(an.CallArgs(call)) && an.Unwrap(an.CallArgs(call)[i]) == m.content {
						bound = true
					}
				}
				if !bound {
					return nil
				}
				write, _ = x.(*ssa.Call)
			}
		}
	}
	if write == nil {
		return nil
	}
	for _, ret := range an.Returns(h) {
		for _, res := range ret.Results {
			if !an.IsErrorType(res.Type()) {
				continue
			}
			for _, l := range phiLeaves(res) {
				if an.IsNilConst(l) {
					continue
				}
				ex, ok := l.(*ssa.Extract)
				if !ok || ex.Tuple != ssa.Value(write) {
					return nil
				}
			}
		}
	}
	return write
}
