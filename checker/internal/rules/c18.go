package rules

import (
	"go/token"
	"strings"

	"golang.org/x/tools/go/ssa"

	"gpcheck/internal/an"
)

func init() {
	register(&Spec{
		ID:  "C18",
		Run: runC18,
		Explanation: "Decides: R1 gating and order — the only call of the generated-code predicate is control dependent on opts.SkipGenerated being true; when it returns true nothing but a log line precedes the next file (no apply, format, diff, print, description or write); the call dominates (*patchRunner).Apply and every output event; when the flag is false or the predicate false the pipeline continues to Apply; " +
			"R2 predicate — checkGeneratedCode returns true exactly under ast.IsGenerated(f) or when some comment of f.Doc (the package comment, not f.Comments) contains the constant \"@generated\" (strings.Contains), and false otherwise, including f.Doc == nil; " +
			"R3 precondition of ast.IsGenerated — the parser.ParseFile mode used for targets has the ParseComments bit, without which the marker is invisible. " +
			"NOT decided: ast.IsGenerated's own regular expression (standard library, matches the statement's wording)." +
			" R5 a skipped file leaves nothing behind (cross-file state)." +
			" R6 processing a file leaves nothing in the compiled patch (the read-only rule, atomic writes included): which files are processed before a file differs with the flag." +
			" R6 every load of the SkipGenerated option is tested right in front of the marker predicate, handed to an effect-free gate helper, or made in a pure accessor whose calls are.",
		Trusted:     append([]string{"go/ast.IsGenerated implements the '// Code generated ... DO NOT EDIT.' convention for comments before the package clause"}, commonTrusted...),
		Assumptions: commonAssumptions,
	})
}

func runC18(r *an.Run) {
	m := buildRunModel(r)
	if m != nil {
		c18Gating(r, m)
		c18ParserMode(r, m)
	}
	c18Predicate(r)
	if m != nil {
		everyParsedFileReachesApply(r, m, "R4-only-the-marker-predicate-skips-a-file")
		// "all other files are processed exactly as without the flag": a skipped file leaves the iteration
		// early, so nothing that outlives the iteration may have been touched before the skip — no variable
		// created outside the per-file loop is written or handed to a call inside it
		crossFileState(r, m, "R5-a-skipped-file-leaves-nothing-behind")
	}
	// … and the other way round: which files were processed before this one differs with the flag (a
	// generated file is processed without it and skipped with it), so a file without a marker is processed
	// "exactly as without the flag" only if processing a file leaves nothing behind in the compiled patch
	compiledProgramReadOnly(r, "R6-processing-a-file-leaves-nothing-in-the-compiled-patch")
	flagOnlyAtTheGate(r, "R6-the-flag-is-read-only-at-the-gate")
}

func c18Gating(r *an.Run, m *runModel) {
	r.Rule("R1-gating-and-order")
	f := m.run
	pred := r.P.Func(mainP, "checkGeneratedCode")
	if pred == nil {
		r.Undecided("anchor|main.checkGeneratedCode", token.NoPos, "checkGeneratedCode not found")
		return
	}
	var calls []*ssa.Call
	gate, inner, helper := generatedGate(r, m)
	if gate != nil {
		calls = append(calls, gate)
	}
	for _, g := range r.P.ModuleFuncs() {
		if g == f || g == helper {
			continue
		}
		for _, c := range an.Calls(g) {
			if an.StaticCallee(c) == pred && an.FuncPkgPath(g) == an.Module {
				r.Fail(short(g)+"|extra-predicate-call", c.Pos(), "checkGeneratedCode is also called from %s", short(g))
			}
		}
	}
	if !r.Check(len(calls) == 1, short(f)+"|predicate-call", f.Pos(), "Run calls the generated-code predicate exactly once per file (found %d)", len(calls)) {
		return
	}
	call := calls[0]
	flagOff := m.hyp(map[string]bool{"SkipGenerated": false}, nil)
	if helper == nil {
		r.Check(call.Call.Args[0] == m.parsed, short(f)+"|predicate-arg", call.Pos(), "the predicate inspects the file that was just parsed")
		r.Check(m.unreachableUnder(call.Block(), flagOff), short(f)+"|only-with-flag", call.Pos(), "the predicate is evaluated only under --skip-generated (without the flag the markers have no effect)")
	} else {
		// the decision lives in an effect-free helper: it is handed the parsed file, asks the predicate about
		// exactly that file, asks it only under the flag, and answers what the predicate answered
		arg := an.Unwrap(inner.Call.Args[0])
		prm, isParam := arg.(*ssa.Parameter)
		handed := false
		if isParam {
			for i, q := range helper.Params {
				if q == prm && i < len(an.CallArgs(call)) && an.Unwrap(an.CallArgs(call)[i]) == m.parsed {
					handed = true
				}
			}
		}
		r.Check(handed, short(f)+"|predicate-arg", call.Pos(), "the predicate inspects the file that was just parsed (handed to %s)", short(helper))
		r.Check(!an.ReachUnder(helper.Blocks[0], flagOff, nil)[inner.Block()], short(f)+"|only-with-flag", inner.Pos(), "the predicate is evaluated only under --skip-generated (without the flag the markers have no effect)")
		agrees := true
		for _, want := range []bool{true, false} {
			h := m.hyp(map[string]bool{"SkipGenerated": true}, map[ssa.Value]bool{ssa.Value(inner): want})
			if got, known := an.ResultUnder(helper, h, 0); !known || got != want {
				agrees = false
			}
		}
		r.Check(agrees, short(helper)+"|answers-the-predicate", helper.Pos(), "under --skip-generated %s answers exactly what the marker predicate answers for the file", short(helper))
	}
	// skip arm: only a log call, then next file
	brs := an.BranchesOn(f, call)
	if !r.Check(len(brs) > 0, short(f)+"|branch", call.Pos(), "Run branches on the predicate's result") {
		return
	}
	skipRegion := m.iterationFrom(call, edgesWhen(brs, false))
	for _, c := range callsAfter(skipRegion, call) {
		r.Check(an.IsCallTo(c, logPrintf), short(f)+"|skip-arm|"+an.TrimModule(an.CalleeName(c)), c.Pos(), "a generated file is left completely untouched: the skip arm only logs (found %s)", an.TrimModule(an.CalleeName(c)))
	}
	// errors are not touched on the skip arm
	skipOnly := an.Reach([]*ssa.BasicBlock{call.Block().Succs[brs[0].EdgeWhen(true)]}, func(b *ssa.BasicBlock, j int) bool { return b.Succs[j] == m.loop.Loop.Header })
	for _, rec := range m.acc.recordsIn(skipOnly) {
		r.Fail(short(f)+"|skip-arm|errors", rec.at.Pos(), "skipping a generated file records an error")
	}
	// order: before Apply and before every output
	r.Check(call.Block().Dominates(m.apply.Block()) || reachesOnlyAfter(m, call), short(f)+"|before-apply", call.Pos(), "the skip decision is taken before any change is applied")
	skipping := m.hyp(map[string]bool{"SkipGenerated": true}, map[ssa.Value]bool{ssa.Value(call): true})
	r.Check(!m.iterationUnder(m.loadSite, skipping)[m.apply.Block()], short(f)+"|flag-before-apply", call.Pos(), "with the flag set and the predicate true, (*patchRunner).Apply is not reached in that iteration")
	// not-skipped paths reach Apply
	cont := m.iterationFrom(call, edgesWhen(brs, true))
	r.Check(cont[m.apply.Block()], short(f)+"|not-generated-continues", call.Pos(), "a file that is not generated is processed exactly as without the flag (reaches Apply)")
	off := m.iterationUnder(m.loadSite, flagOff)
	if helper == nil {
		r.Check(off[m.apply.Block()] && !off[call.Block()], short(f)+"|flag-off-continues", call.Pos(), "without the flag the pipeline goes straight to Apply without evaluating the predicate")
	} else {
		skipArm := call.Block().Succs[brs[0].EdgeWhen(true)]
		r.Check(off[m.apply.Block()] && !off[skipArm], short(f)+"|flag-off-continues", call.Pos(), "without the flag the pipeline goes straight to Apply: the skip arm cannot be taken")
	}
	r.Count("predicate call sites", len(calls))
}

func valueOfExtract(c *ssa.Call, i int) ssa.Value {
	if ex := an.ExtractOf(c, i); len(ex) > 0 {
		return ex[0]
	}
	return nil
}

// reachesOnlyAfter: Apply is not reachable from the parse without passing the
// flag test (the predicate call itself cannot dominate Apply because it is
// conditional on the flag).
func reachesOnlyAfter(m *runModel, call *ssa.Call) bool {
	// every path from the predicate's true edge avoids Apply within the iteration
	brs := an.BranchesOn(m.run, call)
	region := m.iterationFrom(call, edgesWhen(brs, false))
	return !region[m.apply.Block()]
}

func c18ParserMode(r *an.Run, m *runModel) {
	r.Rule("R3-parse-comments")
	mode, ok := an.ConstInt(m.parse.Call.Args[3])
	const parseComments = 4 // go/parser.ParseComments
	pc := int64(parseComments)
	r.Check(ok && mode&pc != 0, short(m.run)+"|parser-mode", m.parse.Pos(), "targets are parsed with the ParseComments bit set (mode constant %d): ast.IsGenerated and f.Doc need the comments", mode)
}

func c18Predicate(r *an.Run) {
	r.Rule("R2-predicate")
	f := fn(r, mainP, "checkGeneratedCode")
	if f == nil {
		return
	}
	file := f.Params[0]
	// atoms
	var isGen *ssa.Call
	for _, c := range an.CallsTo(f, "go/ast.IsGenerated") {
		if c.Common().Args[0] == ssa.Value(file) {
			isGen = c.(*ssa.Call)
		}
	}
	if !r.Check(isGen != nil, short(f)+"|IsGenerated", f.Pos(), "the predicate consults ast.IsGenerated on its file") {
		return
	}
	var contains []*ssa.Call
	var cf *ssa.Call // slices.ContainsFunc(f.Doc.List, pred): the library form of the loop
	for _, c := range an.Calls(f) {
		call, ok := c.(*ssa.Call)
		if !ok || call == isGen || an.IsCallTo(c, "builtin:len") {
			continue
		}
		if an.IsCallTo(c, "strings.Contains") {
			contains = append(contains, call)
			continue
		}
		if an.IsCallTo(c, "slices.ContainsFunc") && cf == nil {
			cf = call
			continue
		}
		r.Fail(short(f)+"|extra-call|"+an.CalleeName(c), c.Pos(), "the predicate consults something besides ast.IsGenerated and strings.Contains: %s", an.CalleeName(c))
	}
	var ct *ssa.Call
	if cf != nil && len(contains) == 0 {
		// every element of f.Doc.List is handed to pred; pred is exactly the substring test
		var pred *ssa.Function
		switch v := cf.Call.Args[1].(type) {
		case *ssa.MakeClosure:
			pred, _ = v.Fn.(*ssa.Function)
		case *ssa.Function:
			pred = v
		}
		if !r.Check(pred != nil && pred.Blocks != nil && len(pred.Params) == 1, short(f)+"|Contains", cf.Pos(), "the element test handed to slices.ContainsFunc is a function of this module") {
			return
		}
		var inner []*ssa.Call
		for _, c := range an.Calls(pred) {
			if call, ok := c.(*ssa.Call); ok && an.IsCallTo(c, "strings.Contains") {
				inner = append(inner, call)
			} else {
				r.Fail(short(f)+"|extra-call|"+an.CalleeName(c), c.Pos(), "the predicate consults something besides ast.IsGenerated and strings.Contains: %s", an.CalleeName(c))
			}
		}
		if !r.Check(len(inner) == 1, short(f)+"|Contains", f.Pos(), "the predicate has one substring test (found %d)", len(inner)) {
			return
		}
		needle, ok := an.ConstString(inner[0].Call.Args[1])
		r.Check(ok && needle == "@generated", short(f)+"|needle", inner[0].Pos(), "the marker searched for is exactly \"@generated\" (got %q)", needle)
		hay := an.Path(inner[0].Call.Args[0])
		list := an.Path(cf.Call.Args[0])
		r.Check(hay == an.ParamName(pred.Params[0])+".Text" && list == "f.Doc.List", short(f)+"|haystack", inner[0].Pos(), "the marker is searched in the text of the package comment f.Doc.List[i].Text (got %q of %q) — not in f.Comments, so markers after the package clause do not count", hay, list)
		whole := true
		for _, ret := range an.Returns(pred) {
			if ret.Results[0] != ssa.Value(inner[0]) {
				whole = false
			}
		}
		r.Check(whole, short(f)+"|doc-loop-covers", cf.Pos(), "every comment of the package doc is inspected: the element test of slices.ContainsFunc returns the substring test itself")
		ct = cf
	} else {
		if !r.Check(len(contains) == 1, short(f)+"|Contains", f.Pos(), "the predicate has one substring test (found %d)", len(contains)) {
			return
		}
		ct = contains[0]
		needle, ok := an.ConstString(ct.Call.Args[1])
		r.Check(ok && needle == "@generated", short(f)+"|needle", ct.Pos(), "the marker searched for is exactly \"@generated\" (got %q)", needle)
		hay := an.Path(ct.Call.Args[0])
		r.Check(hay == "f.Doc.List[].Text", short(f)+"|haystack", ct.Pos(), "the marker is searched in the text of the package comment f.Doc.List[i].Text (got %q) — not in f.Comments, so markers after the package clause do not count", hay)
		// the loop over f.Doc.List covers all comments
		ils := findIndexLoops(f, isLenOfPath("f.Doc.List"))
		if r.Check(len(ils) == 1, short(f)+"|doc-loop", f.Pos(), "one loop over all comments of f.Doc") {
			il := ils[0]
			msg := il.CoversAll(ct, func(b *ssa.BasicBlock) bool {
				ret := an.ReturnOf(b)
				if ret == nil {
					return false
				}
				res := ret.Results[0]
				// single exit: the answer on this way out is the edge of the returned phi
				prev, cur := (*ssa.BasicBlock)(nil), b
				for n := 0; cur != ret.Block() && len(cur.Succs) == 1 && n < 8; n++ {
					prev, cur = cur, cur.Succs[0]
				}
				if phi, isPhi := res.(*ssa.Phi); isPhi && phi.Block() == cur && prev != nil {
					for i, p := range cur.Preds {
						if p == prev {
							res = phi.Edges[i]
						}
					}
				}
				v, ok := an.ConstBool(res)
				return ok && v
			})
			r.Check(msg == "" && il.Start == 0 && il.Step == 1, short(f)+"|doc-loop-covers", ct.Pos(), "every comment of the package doc is inspected; the loop is left early only to return true %s", msg)
		}
	}
	// decision: returns
	genBrs := an.BranchesOn(f, isGen)
	ctBrs := an.BranchesOn(f, ct)
	returnedDirectly := false // `return <the marker test>` as the last step
	for _, ret := range an.Returns(f) {
		if ret.Results[0] == ssa.Value(ct) {
			returnedDirectly = true
		}
	}
	// what is returned, and from where: a return of a constant, or — with a result variable and a single exit —
	// a constant that flows into the returned phi from a block
	type outcome struct {
		val ssa.Value
		at  *ssa.BasicBlock
		ret *ssa.Return
	}
	var outcomes []outcome
	for _, ret := range an.Returns(f) {
		var expand func(v ssa.Value, at *ssa.BasicBlock, depth int)
		expand = func(v ssa.Value, at *ssa.BasicBlock, depth int) {
			if phi, ok := v.(*ssa.Phi); ok && depth < 4 {
				for i, e := range phi.Edges {
					expand(e, phi.Block().Preds[i], depth+1)
				}
				return
			}
			outcomes = append(outcomes, outcome{v, at, ret})
		}
		expand(ret.Results[0], ret.Block(), 0)
	}
	for _, oc := range outcomes {
		if oc.val == ssa.Value(ct) {
			returnedDirectly = true // the marker test itself is (one way into) the answer
		}
	}
	for _, oc := range outcomes {
		ret := &struct {
			blk *ssa.BasicBlock
			pos token.Pos
		}{oc.at, oc.ret.Pos()}
		v, isc := an.ConstBool(oc.val)
		if !isc {
			// `return ast.IsGenerated(f) || ...` style: accept if it is one of the atoms
			if oc.val == ssa.Value(ct) {
				returnedDirectly = true
			}
			if oc.val == ssa.Value(isGen) || oc.val == ssa.Value(ct) {
				continue
			}
			r.Undecided(short(f)+"|return", oc.ret.Pos(), "the predicate returns a computed value: decision table cannot be extracted")
			continue
		}
		if v {
			// reachable only through a true atom
			edges := append(edgesWhen(genBrs, true), edgesWhen(ctBrs, true)...)
			r.Check(unreachableWithout(ret.blk, edges), short(f)+"|true-needs-marker", ret.pos, "the predicate returns true only when ast.IsGenerated or the @generated test succeeded")
		} else {
			// unreachable when IsGenerated is true
			r.Check(unreachableWithout(ret.blk, edgesWhen(genBrs, false)), short(f)+"|false-needs-not-generated", ret.pos, "the predicate returns false only when ast.IsGenerated is false")
			r.Check(returnedDirectly || len(ctBrs) > 0 && !reachableVia(ret.blk, edgesWhen(ctBrs, true)), short(f)+"|false-needs-no-marker", ret.pos, "a true @generated test never leads to false")
		}
	}
	r.Check(len(genBrs) > 0 && (len(ctBrs) > 0 || returnedDirectly), short(f)+"|branches", f.Pos(), "the predicate branches on both tests")
	// f.Doc == nil guard exists and yields false (no panic on files without a package comment)
	nilGuard := false
	for _, c := range an.EqCases(f, func(v ssa.Value) bool { return an.Path(v) == "f.Doc" && !isAddr(v) }) {
		if an.IsNilConst(c.Key) {
			if ret := an.ReturnOf(c.Target); ret != nil {
				if v, ok := an.ConstBool(ret.Results[0]); ok && !v {
					nilGuard = true
				}
			}
			// single exit: from the nil edge nothing that reads f.Doc's list is reachable (the marker test is
			// skipped; what is returned is ast.IsGenerated's answer, decided above)
			reach := an.Reach([]*ssa.BasicBlock{c.Target}, nil)
			if ct != nil && !reach[ct.Block()] {
				derefs := false
				for b := range reach {
					for _, in := range b.Instrs {
						if fa, ok := in.(*ssa.FieldAddr); ok && an.Path(fa.X) == "f.Doc" {
							derefs = true
						}
					}
				}
				if !derefs {
					nilGuard = true
				}
			}
		}
	}
	r.Check(nilGuard, short(f)+"|doc-nil", f.Pos(), "a file without a package comment is not generated by the @generated rule (f.Doc == nil returns false before it is dereferenced)")
	_ = strings.TrimSpace
}

// reachableVia reports whether b is reachable from the targets of the edges.
func reachableVia(b *ssa.BasicBlock, edges []an.CtrlEdge) bool {
	var starts []*ssa.BasicBlock
	for _, e := range edges {
		starts = append(starts, e.Block.Succs[e.Succ])
	}
	return an.Reach(starts, nil)[b]
}

// generatedGate finds where Run decides to skip a generated file: the call
// to the marker predicate itself, or a call to a private, effect-free helper
// that is handed the parsed file and calls the predicate on it (typically
// `opts.SkipGenerated && checkGeneratedCode(f)` as a method of the options).
// gate is the call in Run whose result is branched on, inner the predicate
// call (== gate when there is no helper) and helper the function in between.
func generatedGate(r *an.Run, m *runModel) (gate, inner *ssa.Call, helper *ssa.Function) {
	pred := r.P.Func(mainP, "checkGeneratedCode")
	if pred == nil {
		return nil, nil, nil
	}
	for _, c := range an.Calls(m.run) {
		call, ok := c.(*ssa.Call)
		if !ok {
			continue
		}
		sc := an.StaticCallee(c)
		if sc == pred {
			return call, call, nil
		}
		if sc == nil || !an.InModule(sc) || sc.Blocks == nil || !m.loop.Loop.Blocks[c.Block()] || !effectFreeAround(sc, pred) {
			continue
		}
		for _, ic := range an.Calls(sc) {
			if icall, ok := ic.(*ssa.Call); ok && an.StaticCallee(ic) == pred {
				gate, inner, helper = call, icall, sc
			}
		}
	}
	return gate, inner, helper
}

// effectFreeAround: g has a single boolean result, stores nothing, starts
// nothing, and calls only builtins, effect-free predicates and the function
// `around`.
func effectFreeAround(g, around *ssa.Function) bool {
	res := g.Signature.Results()
	if res.Len() != 1 || an.ShortType(res.At(0).Type()) != "bool" {
		return false
	}
	for _, b := range g.Blocks {
		for _, in := range b.Instrs {
			switch x := in.(type) {
			case *ssa.Store:
				if _, local := x.Addr.(*ssa.Alloc); !local {
					return false
				}
			case *ssa.MapUpdate, *ssa.Go, *ssa.Defer, *ssa.Send:
				return false
			case ssa.CallInstruction:
				sc := an.StaticCallee(x)
				switch {
				case sc == around:
				case strings.HasPrefix(an.CalleeName(x), "builtin:"):
				case sc != nil && an.IsPurePredicate(sc, 0):
				default:
					return false
				}
			}
		}
	}
	return true
}
