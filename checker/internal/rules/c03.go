package rules

import (
	"go/types"
	"sort"
	"strings"

	"golang.org/x/tools/go/ssa"

	"gpcheck/internal/an"
)

func init() {
	register(&Spec{
		ID:  "C03",
		Run: runC03,
		Explanation: "Decides: R1 sibling agreement — matcherCompiler.compile and replacerCompiler.compile special-case the same set of go/ast types, the three isDots predicates handed to compileSliceDots are pairwise the same functions on both sides (operation fingerprints), compileFile handles the same pgo node kinds on both sides; " +
			"R2 fresh copies — ValueReplacer is built only for scalar kinds and for the two typed-nil constants, and the Replace method of every structural replacer returns a value allocated in that very call (reflect.New / MakeSlice / Zero), never a value stored in the replacer; " +
			"R3 every field/element of the '+' pattern is compiled and reproduced (index loops cover all elements with the same index on both sides; the error of a nested Replace leaves the loop with that error); " +
			"R4 per-site bindings — in FileReplacer.Replace the data handed to the node replacer and the (parent, name, index) that designate the slot are fields of the same SearchResult element of the loop; " +
			"R5 data key/value type agreement of every Lookup/WithValue pair; R6 the matched slot is assigned exactly when the produced value's type is AssignableTo the slot (assigned only under the test, and the test's true edge always reaches the assignment — a site is left unchanged only when the replacement is not admissible); " +
			"R7 matching and replacing never write into the compiled program (matchers, replacers, compilers, Meta): a capture is a pure function of the matched value, no cache. " +
			"R8 every recorded site is rewritten; R9 what a metavariable captures is the code at the matched position — every matcher hands its sub-matchers projections (Elem / Field / Index / list elements) of its own candidate, never a rebuilt value (parentheses looked through, reflect.ValueOf of a part). " +
			"NOT decided: that the instantiation is textually the '+' pattern (go/printer), position bookkeeping, which sites are chosen." +
			" R11 a half-applied change is never emitted (a failed Change.Replace ends the file in the command and the library); R8 also: matches are replaced innermost first (F15)." +
			" R12 the text kept of a patch line is not a window into a buffered reader's buffer: the result of bufio.Scanner.Bytes / Reader.ReadSlice / ReadLine / Peek (and Bytes / Next of a bytes.Buffer that the same function rewinds) is only inspected, converted or copied — never stored in a field other than the reader's own current-line cache, a slice element, a map or a channel, nor returned to a caller that does so." +
			" R13 both compilers of a change are given the declaration table compileMeta returned." +
			" R15 the node kept as the pattern is reached from the parsed source through File.Decls, FuncDecl.Body, BlockStmt.List and ExprStmt.X only; R16 the tree handed to the snapshot and to the changes is the first result of parser.ParseFile in this call (both pipelines)." +
			" R17 where the section splitter searches for the end of a line by index, the not-found edge sets the offset to len(content)." +
			" R18 the reflect.Value.Set in setValue is handed setValue's own parameter; R19 = C04-R3..R5; R20 the list SliceDotsReplacer.Replace builds is nil, made there or its own earlier append, never a recorded run.",
		Trusted:     commonTrusted,
		Assumptions: commonAssumptions,
	})
}

func runC03(r *an.Run) {
	c03Siblings(r)
	c03FreshCopies(r)
	c03EveryFieldReproduced(r)
	c03PerSiteBindings(r)
	dataKeyAgreement(r, "R5-data-key-agreement")
	slotGuard(r, "R6-slot-assigned-iff-assignable")
	c03SlotAlwaysAssignedWhenAdmissible(r)
	compiledProgramReadOnly(r, "R7-compiled-program-is-read-only")
	c01AllMatchesReplaced(r)
	relabel(r, "R2-every-match-replaced", "R8-every-site-rewritten")
	candidateHandedDown(r, "R9-captured-code-is-the-candidate-itself")
	// every '+' line reaches the '+' pattern, whole: the splitter withholds a line only when its first
	// non-space byte is '#', and splitPatch routes '+' lines (minus the marker byte) and context lines to the
	// plus version
	c13CommentsSkipped(r)
	relabel(r, "R1-comment-lines-never-reach-the-parsers", "R10-every-plus-line-reaches-the-plus-pattern")
	c01SplitPatch(r)
	relabel(r, "R9-minus-plus-split", "R10-every-plus-line-reaches-the-plus-pattern")
	// a change is applied to a file whole or not at all: FileReplacer.Replace rewrites the sites in place one
	// after the other and stops at the first it cannot build, so a file on which Replace failed holds some
	// sites rewritten and other, equally admissible ones untouched — it must never be printed
	c06MatchedFlagAs(r, "R11-a-half-applied-change-is-never-emitted")
	c09APIFailure(r)
	relabel(r, "R4-failure-leaves-file-untouched", "R11-a-half-applied-change-is-never-emitted")
	// the '+' lines that reach the parser are the bytes of the patch: the text kept per line is not a
	// window into a reader's buffer that later reads overwrite
	noTransientBufferRetained(r, "R12-kept-text-is-not-a-window-into-a-read-buffer")
	bothSidesSeeTheSameDeclarations(r, "R13-both-sides-read-names-by-the-same-declarations")
	// a site can only be rewritten if it is found: the traversal visits every node, also below a node that matched
	// (a site inside the code an outer site carries over through "..." is a site of its own)
	c01Traversal(r)
	relabel(r, "R1-traversal-complete", "R14-every-site-is-found")
	// the '+' tokens appear verbatim only if the node kept as the pattern is the node that was written
	patternRootIsWhatWasWritten(r, "R15-the-pattern-root-is-what-was-written")
	// the code a metavariable stood for is taken from the file given, not from the output of an earlier call
	treeIsParsedFromTheBytesGiven(r, "R16-the-tree-rewritten-is-parsed-from-the-bytes-given")
	unterminatedLastLineIsALine(r, "R17-an-unterminated-last-line-is-a-line")
	slotTakesTheValueGenerated(r, "R18-a-slot-takes-the-value-that-was-generated")
	// the copy of what follows an elision is placed after the run the elision skipped: that run is recorded
	// with its region also when it is empty
	c04AnchoringAndConsumption(r)
	relabel(r, "R3-anchoring-and-consumption", "R19-the-run-an-elision-skipped-is-recorded-with-its-region")
	relabel(r, "R4-recorded-run-is-skipped-run", "R19-the-run-an-elision-skipped-is-recorded-with-its-region")
	relabel(r, "R5-search-completeness", "R19-the-run-an-elision-skipped-is-recorded-with-its-region")
	listBuiltIsNewMemory(r, "R20-the-list-built-is-new-memory")
}

func c03Siblings(r *an.Run) {
	r.Rule("R1-matcher-replacer-agree")
	gt := goastTypes(r)
	mf, rf := fn(r, engine, "matcherCompiler.compile"), fn(r, engine, "replacerCompiler.compile")
	if mf == nil || rf == nil || gt == nil {
		return
	}
	mc, _ := dispatchTable(r, mf, gt)
	rc, _ := dispatchTable(r, rf, gt)
	ms, rs := map[string]bool{}, map[string]bool{}
	for k := range mc {
		ms[k] = true
	}
	for k := range rc {
		rs[k] = true
	}
	r.Check(sameSet(ms, rs), "compile|case-sets", rf.Pos(), "matcher and replacer compilers special-case the same go/ast types (matcher: %s | replacer: %s)", joinSorted(ms), joinSorted(rs))
	r.Count("special-cased types", len(ms))
	r.Min("special-cased types", 8)
	// corresponding arms
	pairs := map[string][2]string{
		"*go/ast.Ident":   {"compileIdent", "compileIdent"},
		"[]go/ast.Stmt":   {"compileSliceDots", "compileSliceDots"},
		"[]go/ast.Expr":   {"compileSliceDots", "compileSliceDots"},
		"[]*go/ast.Field": {"compileSliceDots", "compileSliceDots"},
		"*go/ast.ForStmt": {"compileForStmt", "compileForStmt"},
	}
	if a, b := posArmFunc(r, "matcher"), posArmFunc(r, "replacer"); a != nil && b != nil {
		pairs["go/token.Pos"] = [2]string{a.Name(), b.Name()} // recognised by what they construct
	}
	for typ, p := range pairs {
		r.Check(strings.HasSuffix(mc[typ], "."+p[0]) && strings.HasSuffix(rc[typ], "."+p[1]), "compile|arm|"+typ, rf.Pos(), "%s is handled by %s / %s on the two sides (got %q / %q)", typ, p[0], p[1], mc[typ], rc[typ])
	}
	// isDots predicates: closures passed to compileSliceDots, per slice type
	dots := func(f *ssa.Function) map[string][]string {
		out := map[string][]string{}
		for _, arm := range typeArmsOf(r, f, gt) {
			for _, in := range arm.instrs() {
				call, ok := in.(*ssa.Call)
				if !ok || !strings.HasSuffix(an.CalleeName(call), "compileSliceDots") {
					continue
				}
				last := call.Call.Args[len(call.Call.Args)-1]
				for { // a conversion to a named func type
					ct, isCT := last.(*ssa.ChangeType)
					if !isCT {
						break
					}
					last = ct.X
				}
				var clo *ssa.Function
				switch v := last.(type) {
				case *ssa.Function:
					clo = v
				case *ssa.MakeClosure:
					clo, _ = v.Fn.(*ssa.Function)
				}
				if clo != nil {
					out[arm.typ] = fingerprint(clo)
				}
			}
		}
		return out
	}
	md, rd := dots(mf), dots(rf)
	for typ, fp := range md {
		r.Check(strings.Join(fp, "\n") == strings.Join(rd[typ], "\n"), "compile|isDots|"+typ, rf.Pos(), "the elision test for %s is the same on the matcher and the replacer side%s", typ, firstDiff(fp, rd[typ]))
	}
	r.Check(len(md) == 3 && len(rd) == 3, "compile|isDots-count", rf.Pos(), "three list types support elision on both sides (%d / %d)", len(md), len(rd))
	// compileFile siblings: same pgo node kinds
	kinds := func(f *ssa.Function) map[string]bool {
		out := map[string]bool{}
		for _, b := range f.Blocks {
			for _, in := range b.Instrs {
				if ta, ok := in.(*ssa.TypeAssert); ok && ta.CommaOk && strings.Contains(an.TypeString(ta.AssertedType), "/internal/pgo.") {
					out[an.ShortType(ta.AssertedType)] = true
				}
			}
		}
		return out
	}
	if a, b := fn(r, engine, "matcherCompiler.compileFile"), fn(r, engine, "replacerCompiler.compileFile"); a != nil && b != nil {
		ka, kb := kinds(a), kinds(b)
		r.Check(sameSet(ka, kb) && len(ka) == 4, "compileFile|kinds", b.Pos(), "both compileFile handle the same four pgo node kinds (%s | %s)", joinSorted(ka), joinSorted(kb))
	}
	// typed nil constants for comments / objects on the replacer side
	for _, typ := range []string{"*go/ast.CommentGroup", "*go/ast.Object"} {
		r.Check(strings.HasPrefix(rc[typ], "lit:") || strings.Contains(rc[typ], "ValueReplacer"), "compile|replacer-nil|"+typ, rf.Pos(), "the replacer never reproduces %s values of the '+' pattern (got %q)", typ, rc[typ])
	}
}

func c03FreshCopies(r *an.Run) {
	r.Rule("R2-fresh-copy-not-alias")
	// ValueReplacer literals: only in the default arm of compileGeneric and for typed nils in compile
	vrT := r.P.NamedType(engine, "ValueReplacer")
	if vrT == nil {
		r.Undecided("anchor|ValueReplacer", 0, "type ValueReplacer not found")
		return
	}
	// construction sites: a ValueReplacer literal, or a call to a private constructor whose body is nothing but
	// such a literal around its parameter (newValueReplacer(v)); the site is then the constructor's call
	type vrSite struct {
		f     *ssa.Function
		at    ssa.Instruction
		value ssa.Value // what goes into the Value field
	}
	literalValue := func(al *ssa.Alloc) ssa.Value {
		var v ssa.Value
		for _, u := range *al.Referrers() {
			if fa, ok := u.(*ssa.FieldAddr); ok {
				for _, w := range *fa.Referrers() {
					if st, ok := w.(*ssa.Store); ok {
						v = st.Val
					}
				}
			}
		}
		return v
	}
	isVRLiteral := func(in ssa.Instruction) (*ssa.Alloc, bool) {
		al, ok := in.(*ssa.Alloc)
		if !ok || al.Comment != "complit" || !types.Identical(al.Type().Underlying().(*types.Pointer).Elem(), vrT) {
			return nil, false
		}
		return al, true
	}
	constructors := map[*ssa.Function]int{} // constructor -> index of the parameter that becomes Value
	for _, f := range r.P.PkgFuncs(engine) {
		if f.Blocks == nil || len(f.Blocks) != 1 || f.Signature.Recv() != nil || f.Signature.Results().Len() != 1 || !types.Identical(f.Signature.Results().At(0).Type(), vrT) {
			continue
		}
		for _, in := range f.Blocks[0].Instrs {
			if al, ok := isVRLiteral(in); ok {
				if prm, isParam := literalValue(al).(*ssa.Parameter); isParam {
					for i, q := range f.Params {
						if q == prm {
							constructors[f] = i
						}
					}
				}
			}
		}
	}
	var sites []vrSite
	for _, f := range r.P.PkgFuncs(engine) {
		if _, isCtor := constructors[f]; isCtor {
			continue
		}
		for _, b := range f.Blocks {
			for _, in := range b.Instrs {
				if al, ok := isVRLiteral(in); ok {
					sites = append(sites, vrSite{f, al, literalValue(al)})
				}
				if c, ok := in.(*ssa.Call); ok {
					if pi, isCtor := constructors[an.StaticCallee(c)]; isCtor && pi < len(c.Call.Args) {
						sites = append(sites, vrSite{f, c, c.Call.Args[pi]})
					}
				}
			}
		}
	}
	for _, site := range sites {
		f, al := site.f, site.at
		{
			{
				switch short(f) {
				case "(*internal/engine.replacerCompiler).compileGeneric":
					// must be unreachable when any structural kind case is taken
					var edges []an.CtrlEdge
					n := 0
					for _, c := range an.EqCases(f, isCallOnParam(rvKind, "v")) {
						edges = append(edges, edgeTo(c.If.Block(), c.Else))
						n++
					}
					good := n >= 4
					for _, e := range edges {
						if !unreachableWithout(al.Block(), []an.CtrlEdge{e}) {
							good = false
						}
					}
					r.Check(good, short(f)+"|ValueReplacer-default-only", al.Pos(), "ValueReplacer (which hands out the pattern's own value) is used only when the kind is none of Ptr/Slice/Struct/Interface (%d kind cases)", n)
				case "(*internal/engine.replacerCompiler).compile":
					// Value must be reflect.ValueOf(typed nil)
					good := false
					if c, ok := site.value.(*ssa.Call); ok && an.IsCallTo(c, "reflect.ValueOf") {
						if mi, ok := c.Call.Args[0].(*ssa.MakeInterface); ok && an.IsNilConst(mi.X) {
							good = true
						}
					}
					r.Check(good, short(f)+"|ValueReplacer-typed-nil", al.Pos(), "in compile, ValueReplacer holds only a typed nil (comments / Ident.Obj are not reproduced)")
				default:
					r.Fail(short(f)+"|ValueReplacer-elsewhere", al.Pos(), "%s constructs a ValueReplacer: a pattern value would be aliased into every rewritten site", short(f))
				}
			}
		}
	}
	// structural replacers allocate per call
	n := 0
	for _, name := range []string{"PtrReplacer.Replace", "SliceReplacer.Replace", "StructReplacer.Replace", "InterfaceReplacer.Replace", "SliceDotsReplacer.Replace", "stmtSliceContainerReplacer.Replace", "ForDotsReplacer.Replace"} {
		f := fn(r, engine, name)
		if f == nil {
			continue
		}
		for _, ret := range an.Returns(f) {
			if len(ret.Results) != 2 {
				continue
			}
			// `return helper(...)`: value and error of one private helper call; the helper must allocate
			var viaHelper *ssa.Function
			if e0, ok := ret.Results[0].(*ssa.Extract); ok {
				if e1, ok := ret.Results[1].(*ssa.Extract); ok && e0.Tuple == e1.Tuple {
					if c, ok := e0.Tuple.(*ssa.Call); ok {
						if h := an.StaticCallee(c); h != nil && an.InModule(h) && h.Blocks != nil {
							viaHelper = h
						}
					}
				}
			}
			if viaHelper == nil && !an.IsNilConst(ret.Results[1]) {
				continue // error return
			}
			n++
			fresh := false
			var allocatesD func(v ssa.Value, depth int) bool
			allocatesD = func(v ssa.Value, depth int) bool {
				for x := range an.BackSlice(v, an.SliceOpts{ThroughCalls: true}) {
					if c, ok := x.(*ssa.Call); ok && an.IsCallTo(c, "reflect.New", "reflect.MakeSlice", "reflect.Zero") {
						return true
					}
				}
				// newValueOf(t, x): a private constructor every return of which is a value it allocated
				if c, ok := v.(*ssa.Call); ok && depth < 2 {
					if g := an.StaticCallee(c); g != nil && an.InModule(g) && g.Blocks != nil && g.Signature.Results().Len() == 1 {
						rets := an.Returns(g)
						all := len(rets) > 0
						for _, gr := range rets {
							if !allocatesD(gr.Results[0], depth+1) {
								all = false
							}
						}
						return all
					}
				}
				return false
			}
			allocates := func(v ssa.Value) bool { return allocatesD(v, 0) }
			if viaHelper != nil {
				fresh = true
				for _, hr := range an.Returns(viaHelper) {
					if len(hr.Results) == 2 && an.IsNilConst(hr.Results[1]) && !allocates(hr.Results[0]) {
						fresh = false
					}
				}
			} else {
				fresh = allocates(ret.Results[0])
			}
			if false {
				_ = fresh
			}
			r.Check(fresh, short(f)+"|allocates", ret.Pos(), "%s returns a value allocated in this call (reflect.New / MakeSlice / Zero): every site gets its own node", short(f))
		}
	}
	r.Count("structural replacer success returns", n)
	r.Min("structural replacer success returns", 7)
}

func c03EveryFieldReproduced(r *an.Run) {
	r.Rule("R3-every-field-and-element-reproduced")
	n := 0
	// compile side
	n += compileLoopCovers(r, engine, "replacerCompiler.compileStruct", rvField, "NumField(Type(v))", "replacer")
	n += compileLoopCovers(r, engine, "replacerCompiler.compileSlice", rvIndex, "Len(v)", "replacer")
	// replace side
	replaceLoop := func(name, items, dstAccessor string) {
		f := fn(r, engine, name)
		if f == nil {
			return
		}
		ils := findIndexLoops(f, isLenOfPath(items))
		if !r.Check(len(ils) == 1, short(f)+"|loop", f.Pos(), "%s has one index loop over %s (found %d)", short(f), items, len(ils)) {
			return
		}
		il := ils[0]
		var act *ssa.Call
		for _, c := range callsInLoop(il.Loop, replReplace) {
			call := c.(*ssa.Call)
			if elemOf(an.CallArgs(call)[0], items, il.Index) {
				act = call
			}
		}
		if !r.Check(act != nil, short(f)+"|replace-elem", il.If.Pos(), "the loop runs replacer i of %s", items) {
			return
		}
		msg := il.CoversAll(act, an.FailureExit)
		r.Check(msg == "" && il.Start == 0 && il.Step == 1, short(f)+"|covers-all", act.Pos(), "every element of %s is reproduced %s", items, msg)
		// placed at index i of the destination
		placed := false
		val := valueOfExtract(act, 0)
		for _, c := range callsInLoop(il.Loop) {
			call, ok := c.(*ssa.Call)
			if !ok {
				continue
			}
			args := an.CallArgs(call)
			if len(args) == 2 && args[1] == val {
				if d, ok := args[0].(*ssa.Call); ok && an.IsCallTo(d, dstAccessor) && d.Call.Args[1] == il.Index {
					placed = true
				}
			}
		}
		r.Check(placed, short(f)+"|placed-at-index", act.Pos(), "the value produced by replacer i is placed at %s(dst, i)", dstAccessor)
		// error propagated
		ev := errValue(act)
		prop := false
		for _, cse := range an.EqCases(f, func(v ssa.Value) bool { return v == ev }) {
			if an.IsNilConst(cse.Key) {
				if ret := an.ReturnOf(cse.Else); ret != nil && ret.Results[len(ret.Results)-1] == ev {
					prop = true
				}
			}
		}
		r.Check(prop, short(f)+"|error-propagated", act.Pos(), "an error of the nested replacer is returned")
		n++
	}
	replaceLoop("StructReplacer.Replace", "r.Fields", rvField)
	replaceLoop("SliceReplacer.Replace", "r.Items", rvIndex)
	r.Count("replacer element loops", n)
	r.Min("replacer element loops", 4)
}

func c03PerSiteBindings(r *an.Run) {
	r.Rule("R4-per-site-bindings")
	f := fn(r, engine, "FileReplacer.Replace")
	if f == nil {
		return
	}
	site := findSlotSite(r)
	if !r.Check(site != nil, short(f)+"|loop", f.Pos(), "one loop over fd.Matches that reads fd.Matches[i]") {
		return
	}
	il := site.il
	fieldOfElem := func(v ssa.Value, name string) bool {
		u, ok := v.(*ssa.UnOp)
		if !ok {
			return false
		}
		fa, ok := u.X.(*ssa.FieldAddr)
		return ok && site.isMatch(fa.X) && fieldNameOf(fa) == name
	}
	elemIs := site.isMatch
	calls := site.calls(replReplace)
	if !r.Check(len(calls) == 1, short(f)+"|replace-call", il.If.Pos(), "one node replacement per match") {
		return
	}
	call := calls[0].(*ssa.Call)
	a := an.CallArgs(call)
	r.Check(fieldOfElem(a[1], "data"), short(f)+"|site-data", call.Pos(), "the node replacer is given the bindings recorded for this very match (m.data)")
	// slot: Set destination derives from elem.parent/name/index
	for _, s := range site.calls(rvSet) {
		dst := an.CallArgs(s)[0]
		src := an.CallArgs(s)[1]
		sl := an.BackSlice(dst, an.SliceOpts{ThroughCalls: true})
		got := map[string]bool{}
		for v := range sl {
			for _, name := range []string{"parent", "name", "index"} {
				if fieldOfElem(v, name) {
					got[name] = true
				}
			}
			// the slot may be computed by a private helper from the match itself: helper(m)
			if c, ok := v.(*ssa.Call); ok {
				if h := an.StaticCallee(c); h != nil && an.InModule(h) && h.Blocks != nil {
					for i, a := range c.Call.Args {
						if !elemIs(a) || i >= len(h.Params) {
							continue
						}
						for _, hb := range h.Blocks {
							for _, hin := range hb.Instrs {
								if u, ok := hin.(*ssa.UnOp); ok {
									if fa, ok := u.X.(*ssa.FieldAddr); ok && fa.X == ssa.Value(h.Params[i]) {
										got[fieldNameOf(fa)] = true
									}
								}
							}
						}
					}
				}
			}
		}
		for k := range got {
			if k != "parent" && k != "name" && k != "index" {
				delete(got, k)
			}
		}
		r.Check(len(got) == 3, short(f)+"|site-slot", s.Pos(), "the slot assigned is designated by this match's parent, name and index (found %s)", joinSorted(got))
		r.Check(src == valueOfExtract(call, 0), short(f)+"|site-value", s.Pos(), "the value assigned is what the node replacer produced for this match")
	}
}

// c03SlotAlwaysAssignedWhenAdmissible: the true edge of the AssignableTo test
// always reaches the assignment within the iteration (no further condition
// can leave an admissible site unchanged).
func c03SlotAlwaysAssignedWhenAdmissible(r *an.Run) {
	r.Rule("R6-slot-assigned-iff-assignable")
	f := fn(r, engine, "FileReplacer.Replace")
	if f == nil {
		return
	}
	sets := an.CallsTo(f, rvSet)
	var siteLoop *an.Loop
	if site := findSlotSite(r); site != nil {
		f = site.fn // the node stage / the per-match step may live in a helper of Replace
		sets = site.calls(rvSet)
		siteLoop = site.loopInFn()
	}
	n := 0
	for _, b := range f.Blocks {
		iff, ok := b.Instrs[len(b.Instrs)-1].(*ssa.If)
		if !ok {
			continue
		}
		inner, pos := an.StripNot(iff.Cond)
		c, ok := inner.(*ssa.Call)
		if !ok || !c.Call.IsInvoke() || c.Call.Method.Name() != "AssignableTo" {
			continue
		}
		n++
		br := an.BranchOn{If: iff, Pos: pos}
		start := b.Succs[br.EdgeWhen(true)]
		good := false
		for _, s := range sets {
			lp := an.LoopOf(f, b)
			if lp == nil {
				lp = siteLoop
			}
			if mustPassOrLoop(start, s.Block(), lp) {
				good = true
			}
		}
		r.Check(good, short(f)+"|admissible-always-assigned", iff.Pos(), "when the produced value is assignable to the slot, the slot is always assigned (no additional condition leaves an admissible site unchanged)")
	}
	r.Check(n == 1, short(f)+"|one-admissibility-test", f.Pos(), "FileReplacer.Replace has one admissibility test (found %d)", n)
	// a helper predicate deciding admissibility would hide extra conditions
	for _, s := range sets {
		loop := an.LoopOf(f, s.Block())
		for _, cd := range r.P.AllCtrlDeps(s.Block()) {
			if loop != nil && !loop.Blocks[cd.Block] {
				continue
			}
			if loop == nil && siteLoop != nil {
				continue
			}
			iff := cd.Block.Instrs[len(cd.Block.Instrs)-1].(*ssa.If)
			inner, _ := an.StripNot(iff.Cond)
			if call, ok := inner.(*ssa.Call); ok && an.StaticCallee(call) != nil && an.InModule(an.StaticCallee(call)) {
				r.Fail(short(f)+"|admissibility-in-helper|"+short(an.StaticCallee(call)), iff.Pos(), "the slot assignment depends on the module predicate %s: whether it refuses admissible replacements cannot be seen here", short(an.StaticCallee(call)))
			}
		}
	}
}

// mustPassOrLoop: every path from start reaches `through` before leaving the
// current iteration (reaching the loop header again) or the function.
func mustPassOrLoop(start, through *ssa.BasicBlock, l *an.Loop) bool {
	if start == through {
		return true
	}
	var hdr *ssa.BasicBlock
	if l != nil {
		hdr = l.Header
	}
	reach := an.Reach([]*ssa.BasicBlock{start}, func(b *ssa.BasicBlock, i int) bool { return b.Succs[i] == through })
	for b := range reach {
		if b == hdr || len(b.Succs) == 0 {
			return false
		}
	}
	return true
}

// ---- compiled program is read-only (C03-R7, C14-R1) ------------------------

var compiledTypes = []string{"Program", "Change", "Meta", "FileMatcher", "FileReplacer", "ImportMatcher", "ImportsMatcher", "ImportReplacer", "ImportsReplacer",
	"matcherCompiler", "replacerCompiler", "compiler"}

// compiledProgramReadOnly: in code reachable from Change.Match / Change.Replace
// (and the two runners), no store, map update, in-place append or sort targets
// memory rooted at a package-level variable or at a receiver / parameter /
// captured variable of a compiled-program type (Program, Change, Meta, every
// Matcher and Replacer implementation, the compilers).
func compiledProgramReadOnly(r *an.Run, rule string) {
	r.Rule(rule)
	roots := []*ssa.Function{r.P.Func(engine, "Change.Match"), r.P.Func(engine, "Change.Replace"), r.P.Func(mainP, "patchRunner.Apply"), r.P.Func(patchP, "File.Apply")}
	for _, f := range roots {
		if f == nil {
			r.Undecided("anchor|apply-roots", 0, "an entry point of patch application was not found")
			return
		}
	}
	reach := r.P.ReachableModuleFuncs(roots...)
	// compile-time functions reachable only because captures compile matchers at match time are included on purpose:
	// they must not write shared state either, except into the compiler object they just created.
	closure := compiledTypeClosure(r)
	isCompiled := func(t types.Type) bool {
		if p, ok := t.(*types.Pointer); ok {
			t = p.Elem()
		}
		n, ok := t.(*types.Named)
		if !ok || n.Obj().Pkg() == nil || !strings.HasPrefix(n.Obj().Pkg().Path(), an.Module) {
			return false
		}
		if closure[n.Obj()] {
			return true
		}
		if n.Obj().Pkg().Path() != enginePath {
			return false
		}
		for _, c := range compiledTypes {
			if n.Obj().Name() == c {
				return true
			}
		}
		// Matcher / Replacer implementations
		mi, ri := r.P.NamedType(engine, "Matcher"), r.P.NamedType(engine, "Replacer")
		for _, it := range []*types.Named{mi, ri} {
			if it == nil {
				continue
			}
			ifc := it.Underlying().(*types.Interface)
			if types.Implements(n, ifc) || types.Implements(types.NewPointer(n), ifc) {
				return true
			}
		}
		return false
	}
	var fns []*ssa.Function
	for f := range reach {
		fns = append(fns, f)
	}
	sort.Slice(fns, func(i, j int) bool { return fns[i].String() < fns[j].String() })
	nStores, nBad := 0, 0
	for _, f := range fns {
		if an.FuncPkgPath(f) != enginePath {
			continue
		}
		sites := an.StoresIn(f)
		for _, c := range an.Calls(f) {
			if atomicWriteTarget(c) != nil {
				sites = append(sites, c)
			}
		}
		for _, in := range sites {
			var addr ssa.Value
			switch x := in.(type) {
			case *ssa.Store:
				addr = x.Addr
			case *ssa.MapUpdate:
				addr = x.Map
			case ssa.CallInstruction:
				// c.failed.Store(true), atomic.AddInt64(&m.hits, 1), m.once.Do(f), m.cache.Store(k, v): writes all the same
				addr = atomicWriteTarget(x)
			}
			nStores++
			root := an.Root(addr)
			// through loads: a store to m.cache[k] has root = load of field of receiver
			for {
				if u, ok := root.(*ssa.UnOp); ok {
					root = an.Root(u.X)
					continue
				}
				break
			}
			bad, what := false, ""
			switch x := root.(type) {
			case *ssa.Global:
				bad, what = true, "package-level variable "+x.Name()
			case *ssa.Parameter:
				if isCompiled(x.Type()) && pointerish(x.Type(), addr) {
					bad, what = true, "parameter/receiver "+x.Name()+" of compiled-program type "+an.ShortType(x.Type())
				}
			case *ssa.FreeVar:
				if isCompiled(x.Type()) || isCompiledCell(x.Type(), isCompiled) {
					// a captured local of the enclosing function (named result, loop variable) is not shared state
					if b := closureBinding(f, x); b != nil {
						if al, isLocal := b.(*ssa.Alloc); isLocal && !passesReference(addr, al) {
							break
						}
					}
					bad, what = true, "captured "+x.Name()+" of compiled-program type"
				}
			case *ssa.Alloc:
				// a spilled value receiver: writes go to the local copy unless the path passes a reference (map, slice, pointer field)
				if isCompiledCell(x.Type(), isCompiled) && passesReference(addr, x) {
					bad, what = true, "receiver copy "+x.Comment+" through a reference field (map / slice / pointer shared with the compiled program)"
				}
				// a local copy of a package-level variable: the copy shares every slice, map and pointer it holds
				if !bad && passesReference(addr, x) && x.Referrers() != nil {
					for _, ref := range *x.Referrers() {
						st, ok := ref.(*ssa.Store)
						if !ok || st.Addr != ssa.Value(x) {
							continue
						}
						for _, leaf := range phiLeaves(st.Val) {
							lr := an.Root(leaf)
							for {
								if u, ok := lr.(*ssa.UnOp); ok {
									lr = an.Root(u.X)
									continue
								}
								break
							}
							if g, ok := lr.(*ssa.Global); ok {
								bad, what = true, "a local copy of package-level variable "+g.Name()+", through a slice / map / pointer the copy shares with it"
							}
						}
					}
				}
			}
			if !bad {
				continue
			}
			// compile-time construction is allowed to fill the compiler it owns: (c *matcherCompiler) etc. while compiling
			if recv := recvValue(f); recv != nil && root == ssa.Value(recv) && strings.Contains(an.ShortType(recv.Type()), "ompiler") {
				if compileTimeOnly(r, f) {
					continue
				}
				// reached at match time only through MetavarMatcher captures, which build a private compiler:
				if privateCompilerOnly(r, f) {
					r.Pass(short(f)+"|own-compiler|"+an.Path(addr), in.Pos(), "%s fills the compiler object it belongs to; at match time such compilers are created per capture and never shared", short(f))
					continue
				}
			}
			nBad++
			r.Fail(short(f)+"|write|"+an.Path(addr), in.Pos(), "%s, reachable while matching/replacing, writes to %s: the compiled patch is shared by all files and all Apply calls and must not change after compilation", short(f), what)
		}
	}
	// append: writes into the backing array of its first argument when there is
	// spare capacity. A slice held by the compiled program (or a re-slice of it)
	// must never be appended to while matching / replacing.
	nApp := 0
	for _, f := range fns {
		if an.FuncPkgPath(f) != enginePath {
			continue
		}
		for _, c := range an.CallsTo(f, "builtin:append") {
			nApp++
			for _, o := range sliceOrigins(c.Common().Args[0]) {
				root := an.Root(o)
				for {
					if u, ok := root.(*ssa.UnOp); ok {
						root = an.Root(u.X)
						continue
					}
					break
				}
				if p, isParam := o.(*ssa.Parameter); isParam && reslicedOnTheWay(c.Common().Args[0]) {
					// x = p[:0]; x = append(x, …): an in-place filter of the caller's slice. Where that slice
					// comes from decides whether shared memory is overwritten.
					from := ssa.Value(p)
					if a := an.Actual(p); a != nil {
						from = a
					}
					if _, fresh := an.Root(from).(*ssa.MakeSlice); !fresh {
						nBad++
						r.Fail(short(f)+"|append|in-place:"+p.Name(), c.Pos(), "%s, reachable while matching/replacing, filters the slice %s in place (append into %s[:0]): the slice was handed in (at the only call site: %s) and may be held by the match data or the compiled program, whose other holders then see it compacted", short(f), p.Name(), p.Name(), an.Describe(from))
					}
					continue
				}
				if _, isLoad := o.(*ssa.UnOp); !isLoad {
					continue // a fresh slice, nil, a parameter slice, a call result
				}
				shared, what := false, ""
				switch x := root.(type) {
				case *ssa.Global:
					shared, what = true, "package-level variable "+x.Name()
				case *ssa.Parameter:
					if isCompiled(x.Type()) {
						shared, what = true, "field "+an.Path(o)+" of compiled-program type "+an.ShortType(x.Type())
					}
				case *ssa.Alloc:
					if isCompiledCell(x.Type(), isCompiled) {
						shared, what = true, "field "+an.Path(o)+" of the receiver copy (the backing array is shared with the compiled program)"
					}
				case *ssa.FreeVar:
					if isCompiled(x.Type()) || isCompiledCell(x.Type(), isCompiled) {
						shared, what = true, "field of captured "+x.Name()
					}
				}
				if !shared {
					continue
				}
				if recv := recvValue(f); recv != nil && root == ssa.Value(recv) && strings.Contains(an.ShortType(recv.Type()), "ompiler") && privateCompilerOnly(r, f) {
					continue // a compiler filling its own lists (created per capture at match time)
				}
				nBad++
				r.Fail(short(f)+"|append|"+an.Path(o), c.Pos(), "%s, reachable while matching/replacing, appends to a slice that is (a re-slice of) %s: with spare capacity append writes into the shared backing array, so one Match overwrites what another handed out", short(f), what)
			}
		}
	}
	r.Count("appends inspected", nApp)
	// sort.* / in-place mutators on compiled state
	for _, f := range fns {
		if an.FuncPkgPath(f) != enginePath || compileTimeOnly(r, f) {
			continue
		}
		for _, c := range an.Calls(f) {
			if isSortCall(c) || an.IsCallTo(c, "slices.Reverse") {
				r.Fail(short(f)+"|sort", c.Pos(), "%s sorts in place while matching/replacing", short(f))
			}
		}
	}
	if nBad == 0 {
		r.Pass("no-writes-to-compiled-program", 0, "%d stores / map updates in %d engine functions reachable from Match/Replace/Apply: none targets the compiled program or a package-level variable", nStores, len(fns))
	}
	r.Count("engine stores inspected", nStores)
	r.Min("engine stores inspected", 40)
}

func pointerish(t types.Type, addr ssa.Value) bool {
	_, isPtr := t.(*types.Pointer)
	return isPtr || an.IsPointerLike(t)
}

func isCompiledCell(t types.Type, isCompiled func(types.Type) bool) bool {
	if p, ok := t.(*types.Pointer); ok {
		return isCompiled(p.Elem()) || isCompiled(t)
	}
	return false
}

// passesReference reports whether the address path from alloc to addr goes
// through a load (i.e. dereferences a pointer/map/slice stored in the copy).
func passesReference(addr ssa.Value, al *ssa.Alloc) bool {
	v := addr
	for steps := 0; steps < 32; steps++ {
		switch x := v.(type) {
		case *ssa.FieldAddr:
			v = x.X
		case *ssa.IndexAddr:
			v = x.X
			if _, isSlice := x.X.Type().Underlying().(*types.Slice); isSlice {
				return true
			}
		case *ssa.UnOp:
			return true
		case *ssa.Alloc:
			return false
		default:
			if _, isMap := v.Type().Underlying().(*types.Map); isMap {
				return true
			}
			return false
		}
	}
	return false
}

// compileTimeOnly: f is not reachable from matching/replacing except through
// metavariable capture (which is handled by privateCompilerOnly).
func compileTimeOnly(r *an.Run, f *ssa.Function) bool {
	return false
}

// privateCompilerOnly: every match-time path into f starts at a compiler
// created inside MetavarMatcher.Match by newMatcherCompiler / newReplacerCompiler.
func privateCompilerOnly(r *an.Run, f *ssa.Function) bool {
	mm := r.P.Func(engine, "MetavarMatcher.Match")
	if mm == nil {
		return false
	}
	for _, c := range an.Calls(mm) {
		sc := an.StaticCallee(c)
		if sc == nil || !strings.HasSuffix(sc.Name(), "compile") {
			continue
		}
		recv := c.Common().Args[0]
		mk, ok := recv.(*ssa.Call)
		if !ok || (an.StaticCallee(mk) != r.P.Func(engine, "newMatcherCompiler") && an.StaticCallee(mk) != r.P.Func(engine, "newReplacerCompiler")) {
			return false
		}
	}
	return true
}

// closureBinding returns the value the enclosing function binds to free
// variable fv of closure f.
func closureBinding(f *ssa.Function, fv *ssa.FreeVar) ssa.Value {
	parent := f.Parent()
	if parent == nil {
		return nil
	}
	idx := -1
	for i, v := range f.FreeVars {
		if v == fv {
			idx = i
		}
	}
	if idx < 0 {
		return nil
	}
	for _, b := range parent.Blocks {
		for _, in := range b.Instrs {
			if mc, ok := in.(*ssa.MakeClosure); ok && mc.Fn == ssa.Value(f) && idx < len(mc.Bindings) {
				return mc.Bindings[idx]
			}
		}
	}
	return nil
}

// compiledTypeClosure returns the named module types reachable through fields
// from engine.Program and engine.Change: everything a compiled patch is made
// of, whatever it is called.
func compiledTypeClosure(r *an.Run) map[*types.TypeName]bool {
	out := map[*types.TypeName]bool{}
	var visit func(t types.Type, depth int)
	visit = func(t types.Type, depth int) {
		if depth > 12 {
			return
		}
		switch u := t.(type) {
		case *types.Pointer:
			visit(u.Elem(), depth+1)
		case *types.Slice:
			visit(u.Elem(), depth+1)
		case *types.Array:
			visit(u.Elem(), depth+1)
		case *types.Map:
			visit(u.Key(), depth+1)
			visit(u.Elem(), depth+1)
		case *types.Named:
			o := u.Obj()
			if o.Pkg() == nil || !strings.HasPrefix(o.Pkg().Path(), an.Module) {
				return
			}
			if out[o] {
				return
			}
			out[o] = true
			if st, ok := u.Underlying().(*types.Struct); ok {
				for i := 0; i < st.NumFields(); i++ {
					visit(st.Field(i).Type(), depth+1)
				}
			}
		}
	}
	for _, name := range []string{"Program", "Change"} {
		if n := r.P.NamedType(engine, name); n != nil {
			visit(n, 0)
		}
	}
	// every Matcher / Replacer implementation and what hangs off it (a cache handed to each matcher,
	// a shared table): interface-typed fields hide them from the walk above
	mi, ri := r.P.NamedType(engine, "Matcher"), r.P.NamedType(engine, "Replacer")
	if pk := r.P.ByP[enginePath]; pk != nil {
		sc := pk.Types.Scope()
		for _, nm := range sc.Names() {
			tn, ok := sc.Lookup(nm).(*types.TypeName)
			if !ok || tn.IsAlias() {
				continue
			}
			if _, isIface := tn.Type().Underlying().(*types.Interface); isIface {
				continue
			}
			for _, it := range []*types.Named{mi, ri} {
				if it == nil {
					continue
				}
				ifc := it.Underlying().(*types.Interface)
				if types.Implements(tn.Type(), ifc) || types.Implements(types.NewPointer(tn.Type()), ifc) {
					visit(tn.Type(), 0)
				}
			}
		}
	}
	return out
}

// atomicWriteTarget: c is a write performed by package sync or sync/atomic —
// a Store/Swap/Add/CompareAndSwap/And/Or method of an atomic type, one of the
// package-level atomic functions of those names, sync.Once.Do, or a mutating
// method of sync.Map — and the result is the address written. Taking and
// releasing a lock is not such a write.
func atomicWriteTarget(c ssa.CallInstruction) ssa.Value {
	callee := c.Common().StaticCallee()
	if callee == nil || callee.Pkg == nil || len(c.Common().Args) == 0 {
		return nil
	}
	pkg := callee.Pkg.Pkg.Path()
	if pkg != "sync" && pkg != "sync/atomic" {
		return nil
	}
	name := callee.Name()
	mutates := false
	for _, pre := range []string{"Store", "Swap", "Add", "CompareAndSwap", "And", "Or", "Do", "LoadOrStore", "LoadAndDelete", "Delete", "CompareAndDelete", "Clear", "Put"} {
		if strings.HasPrefix(name, pre) {
			mutates = true
		}
	}
	if !mutates {
		return nil
	}
	a := c.Common().Args[0]
	if _, isPtr := a.Type().Underlying().(*types.Pointer); !isPtr {
		return nil
	}
	return a
}
