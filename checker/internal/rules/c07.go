package rules

import (
	"golang.org/x/tools/go/ssa"

	"gpcheck/internal/an"
)

func init() {
	register(&Spec{
		ID:  "C07",
		Run: runC07,
		Explanation: "Decides validate-before-emit on every path of both pipelines: R1 every byte slice that reaches an emission sink of mainCmd.Run (the atomic write, the --print-only write to cmd.Stdout, the modified side of the --diff preview) or is returned by patch.File.Apply is, along every phi edge, either the result of imports.Process (which parses its input as a complete file) or the src of a go/parser.ParseFile call, and the sink is reachable only through that call's err==nil edge; " +
			"R2 the err!=nil edges of format.Node / imports.Process / the re-parse record an error for the file and leave the iteration without reaching any sink (mainCmd.Run), resp. return a nil result and the error (File.Apply); " +
			"R3 the matched slot is assigned only under the AssignableTo test of FileReplacer.Replace. " +
			"NOT decided: that go/printer output of a valid AST parses (trusted); that the AssignableTo guard is sufficient (it is not — R1 is the real defence)." +
			" R4 every (*bufio.Reader).ReadLine call of the module looks at isPrefix.",
		Trusted:     append([]string{"imports.Process with FormatOnly parses its whole input with go/parser and returns an error when it does not parse (x/tools internal/imports)"}, commonTrusted...),
		Assumptions: commonAssumptions,
	})
}

func runC07(r *an.Run) {
	if m := buildRunModel(r); m != nil {
		c07ValidateBeforeEmit(r, m)
		c07ErrorEdgesSkipSinks(r, m)
		c07WrittenFileStartsEmpty(r, m)
	}
	c07API(r)
	slotGuard(r, "R3-slot-guard")
	// the new content implied by --diff is the validated content only if the lines diffed are its lines
	readLineKeepsLongLines(r, "R4-the-lines-diffed-are-the-lines-of-the-validated-bytes")
}

// errNilEdge returns, for a call returning (..., error), the edges taken when
// the error is nil, and whether the error is tested at all.
func errNilEdges(call *ssa.Call) []an.CtrlEdge {
	f := call.Parent()
	errv := errValue(call)
	if errv == nil {
		return nil
	}
	alias := an.CellAliases(errv)
	// an error variable shared by two alternative steps (`err = a()` / `x, err = b()` followed by one
	// `if err != nil`): the test of the merged value decides this call's error on the path through this call
	work := []ssa.Value{errv}
	for len(work) > 0 {
		x := work[len(work)-1]
		work = work[:len(work)-1]
		if x.Referrers() == nil {
			continue
		}
		for _, u := range *x.Referrers() {
			if phi, ok := u.(*ssa.Phi); ok && !alias[phi] {
				alias[phi] = true
				work = append(work, phi)
			}
		}
	}
	var out []an.CtrlEdge
	for _, c := range an.EqCases(f, func(v ssa.Value) bool { return alias[v] }) {
		if an.IsNilConst(c.Key) {
			out = append(out, edgeTo(c.If.Block(), c.Target))
		}
	}
	return out
}

// point is a program point: "in block blk", or — for phi inputs — "on the edge
// pred -> blk".
type point struct {
	pred, blk *ssa.BasicBlock
	// via: the value arrives at the point through this block (a phi edge taken earlier); a validating call
	// must dominate it, while "reachable only through the call's err == nil edge" is asked of the point itself
	via *ssa.BasicBlock
}

// reachedWithout reports whether the point can be reached from the call (one
// dynamic execution of it: the call's own block is not re-entered) when the
// given edges are removed.
func reachedWithout(call *ssa.Call, pt point, removed []an.CtrlEdge) bool {
	cb := call.Block()
	skip := func(b *ssa.BasicBlock, i int) bool {
		return b.Succs[i] == cb || skipEdges(removed)(b, i)
	}
	reach := an.ReachFromSuccs(cb, skip)
	if pt.pred == nil {
		return reach[pt.blk] || pt.blk == cb
	}
	if pt.pred != cb && !reach[pt.pred] {
		return false
	}
	for i, s := range pt.pred.Succs {
		if s == pt.blk && !skip(pt.pred, i) {
			return true
		}
	}
	return false
}

// validatedAt reports whether bytes value v, as seen at the program point,
// has been parsed successfully on every path.
func validatedAt(v ssa.Value, pt point, seen map[ssa.Value]bool) (bool, string) {
	v = an.Unwrap(v)
	if phi, ok := v.(*ssa.Phi); ok {
		if seen[v] {
			return true, ""
		}
		seen[v] = true
		for i, e := range phi.Edges {
			if ok, why := validatedAt(e, point{pred: phi.Block().Preds[i], blk: phi.Block()}, seen); !ok {
				// validated after the merge: `err = check(bs)` / `bs, err = process(bs)` followed by one
				// `if err != nil`: the point itself is reachable only through the nil edge of the step that
				// produced / checked this edge's value
				if pt.blk != phi.Block() || pt.pred != nil {
					fresh := map[ssa.Value]bool{}
					for k := range seen {
						if _, isPhi := k.(*ssa.Phi); isPhi {
							fresh[k] = true
						}
					}
					if ok2, _ := validatedAt(e, point{pred: pt.pred, blk: pt.blk, via: phi.Block().Preds[i]}, fresh); ok2 {
						continue
					}
				}
				return false, why
			}
		}
		return true, ""
	}
	f := pt.blk.Parent()
	// result of imports.Process
	if ex, ok := v.(*ssa.Extract); ok {
		if call, ok := ex.Tuple.(*ssa.Call); ok && an.IsCallTo(call, importsProcess) {
			edges := errNilEdges(call)
			if len(edges) == 0 {
				return false, "the error of imports.Process is not tested"
			}
			if !reachedWithout(call, pt, edges) {
				return true, ""
			}
			return false, "the result of imports.Process is used on a path where its error was not checked to be nil"
		}
	}
	// result of a module helper that itself only returns validated bytes (e.g. an extracted "render" step);
	// when the helper does not validate, the bytes may still be re-parsed by the caller (below)
	helperWhy := ""
	if ok, why, applies := validatedByHelper(v, pt, seen); applies {
		if ok {
			return true, ""
		}
		helperWhy = why
	}
	// handed to a private checking helper that parses it (checkSyntax(name, src) error): the helper's
	// parameter is the src of a parser.ParseFile whose error the helper returns, and the point is reachable
	// only when the helper's error was nil
	for _, c := range an.Calls(f) {
		call, ok := c.(*ssa.Call)
		h := an.StaticCallee(c)
		if !ok || h == nil || !an.InModule(h) || h.Blocks == nil || an.IsCallTo(c, parserParse) {
			continue
		}
		for i, a := range call.Call.Args {
			if an.Unwrap(a) != v || i >= len(h.Params) {
				continue
			}
			parses := false
			for _, pc := range an.CallsTo(h, parserParse) {
				pcall := pc.(*ssa.Call)
				if an.Unwrap(pcall.Call.Args[2]) != ssa.Value(h.Params[i]) {
					continue
				}
				// every nil error the helper returns is that parse's error being nil
				okRet := true
				for _, ret := range an.Returns(h) {
					ev := ret.Results[len(ret.Results)-1]
					for _, l := range phiLeaves(ev) {
						if an.IsNilConst(l) {
							if reachedWithout(pcall, point{pred: nil, blk: ret.Block()}, errNilEdges(pcall)) || len(errNilEdges(pcall)) == 0 {
								okRet = false
							}
							continue
						}
					}
					if ex, isEx := ev.(*ssa.Extract); isEx && ex.Tuple == ssa.Value(pcall) {
						continue // returns the parse's own error
					}
				}
				if okRet {
					parses = true
				}
			}
			if !parses {
				continue
			}
			edges := errNilEdges(call)
			at := pt.blk
			if pt.pred != nil {
				at = pt.pred
			}
			if pt.via != nil {
				at = pt.via
			}
			if len(edges) > 0 && !reachedWithout(call, pt, edges) && (call.Block() == at || call.Block().Dominates(at)) {
				return true, ""
			}
		}
	}
	// src of a parser.ParseFile
	for _, c := range an.CallsTo(f, parserParse) {
		call := c.(*ssa.Call)
		if an.Unwrap(call.Call.Args[2]) != v {
			continue
		}
		edges := errNilEdges(call)
		if len(edges) == 0 {
			continue
		}
		at := pt.blk
		if pt.pred != nil {
			at = pt.pred
		}
		if pt.via != nil {
			at = pt.via
		}
		if !reachedWithout(call, pt, edges) && (call.Block() == at || call.Block().Dominates(at)) {
			return true, ""
		}
	}
	if helperWhy != "" {
		return false, helperWhy
	}
	return false, "value " + v.Name() + " (" + an.Describe(v) + ") reaches the sink without having been parsed: neither an imports.Process result nor the src of a checked parser.ParseFile"
}

// validatedByHelper: v is the bytes result of a module function returning
// ([]byte, error); ok when that function only ever returns validated bytes and
// its error was checked on the way to the point.
func validatedByHelper(v ssa.Value, pt point, seen map[ssa.Value]bool) (ok bool, why string, applies bool) {
	if ex, ok := v.(*ssa.Extract); ok && ex.Index == 0 {
		if call, ok := ex.Tuple.(*ssa.Call); ok {
			if g := an.StaticCallee(call); g != nil && an.InModule(g) && g.Blocks != nil && !seen[call] {
				seen[call] = true
				res := g.Signature.Results()
				if res.Len() == 2 && an.ShortType(res.At(0).Type()) == "[]byte" && an.IsErrorType(res.At(1).Type()) {
					edges := errNilEdges(call)
					if len(edges) == 0 || reachedWithout(call, pt, edges) {
						return false, "the bytes returned by " + short(g) + " are used on a path where its error was not checked to be nil", true
					}
					for _, ret := range an.Returns(g) {
						if an.IsNilConst(ret.Results[0]) {
							continue // failure return
						}
						// `return imports.Process(...)`: bytes and error of the same validating call
						if e0, ok := ret.Results[0].(*ssa.Extract); ok {
							if e1, ok := ret.Results[1].(*ssa.Extract); ok && e0.Tuple == e1.Tuple {
								if c, ok := e0.Tuple.(*ssa.Call); ok && an.IsCallTo(c, importsProcess) {
									continue
								}
							}
						}
						if !an.IsNilConst(ret.Results[1]) {
							return false, short(g) + " returns bytes together with a possibly non-nil error", true
						}
						if ok, why := validatedAt(ret.Results[0], point{pred: nil, blk: ret.Block()}, seen); !ok {
							return false, "inside " + short(g) + ": " + why, true
						}
					}
					return true, "", true
				}
			}
		}
	}
	return false, "", false
}

// sinksOfRun lists (call, bytes argument, description) of the emission sinks in
// the matched part of Run's loop.
type sink struct {
	call  ssa.CallInstruction
	bytes ssa.Value
	what  string
	host  *ssa.Function // mainCmd.Run, or the function the output stage was moved to
}

func sinksOfRun(r *an.Run, m *runModel) []sink {
	var out []sink
	preview := r.P.Func(mainP, "mainCmd.preview")
	var scan func(host *ssa.Function, within map[*ssa.BasicBlock]bool, depth int)
	scan = func(host *ssa.Function, within map[*ssa.BasicBlock]bool, depth int) {
		for _, c := range an.Calls(host) {
			if within != nil && !within[c.Block()] {
				continue
			}
			if bs, ok := isStdoutWrite(c); ok && an.Unwrap(bs) != m.content && liftIn(m.run, bs) != m.content {
				out = append(out, sink{c, bs, "print-only write to cmd.Stdout", host})
				continue
			}
			sc := an.StaticCallee(c)
			if sc != nil && sc == preview {
				out = append(out, sink{c, c.Common().Args[3], "modified side of the --diff preview", host})
				continue
			}
			// any call that (transitively, inside the module) reaches a file-system mutator, with a []byte argument
			if sc != nil && an.InModule(sc) && reachesMutator(r, sc) {
				// an output stage that is handed the bytes and chooses the mode itself (it also previews or
				// prints): its sinks are the sinks of the iteration
				if depth < 2 && sc.Blocks != nil && an.FuncPkgPath(sc) == an.FuncPkgPath(m.run) && sc != m.run {
					choosesMode := false
					for _, ic := range an.Calls(sc) {
						if _, isOut := isStdoutWrite(ic); isOut || an.StaticCallee(ic) == preview && preview != nil {
							choosesMode = true
						}
					}
					if choosesMode {
						scan(sc, nil, depth+1)
						continue
					}
				}
				hasBytes := false
				for _, a := range c.Common().Args {
					if an.ShortType(a.Type()) == "[]byte" {
						out = append(out, sink{c, a, "bytes written to the target file by " + short(sc), host})
						hasBytes = true
					}
				}
				// the output stage as a function of its own: it is handed the file (not bytes) and prints,
				// validates and emits inside — its sinks are the sinks of the iteration
				if !hasBytes && depth < 2 && sc.Blocks != nil && an.FuncPkgPath(sc) == an.FuncPkgPath(m.run) && sc != m.run {
					scan(sc, nil, depth+1)
				}
			}
			if fsMutators[an.CalleeName(c)] {
				for _, a := range c.Common().Args {
					if an.ShortType(a.Type()) == "[]byte" {
						out = append(out, sink{c, a, "bytes written by " + an.CalleeName(c), host})
					}
				}
			}
		}
	}
	scan(m.run, m.loop.Loop.Blocks, 0)
	return out
}

func reachesMutator(r *an.Run, f *ssa.Function) bool {
	for _, e := range an.ExternalCalls(r.P.ReachableModuleFuncs(f)) {
		if classifyExt(e) == "fs-mutate" {
			return true
		}
	}
	return false
}

func c07ValidateBeforeEmit(r *an.Run, m *runModel) {
	r.Rule("R1-validate-before-emit")
	sinks := sinksOfRun(r, m)
	for _, s := range sinks {
		ok, why := validatedAt(s.bytes, point{pred: nil, blk: s.call.Block()}, map[ssa.Value]bool{})
		if !ok && s.host != m.run {
			// the output stage is a function of its own and is handed the bytes: they are validated where
			// Run hands them over
			if lv := liftIn(m.run, s.bytes); lv != nil {
				if site := siteIn(m.run, s.call); site != nil {
					if in, isInstr := lv.(ssa.Instruction); !isInstr || in.Parent() == m.run {
						ok, why = validatedAt(lv, point{pred: nil, blk: site.Block()}, map[ssa.Value]bool{})
					}
				}
			}
		}
		key := short(m.run) + "|sink|" + an.TrimModule(an.CalleeName(s.call))
		if ok {
			r.Pass(key, s.call.Pos(), "%s: on every path the bytes were parsed successfully (imports.Process result or checked parser.ParseFile) before this sink", s.what)
		} else {
			r.Fail(key, s.call.Pos(), "%s: %s", s.what, why)
		}
	}
	r.Count("emission sinks", len(sinks))
	r.Min("emission sinks", 3)
}

func c07ErrorEdgesSkipSinks(r *an.Run, m *runModel) {
	r.Rule("R2-invalid-output-is-reported-not-emitted")
	sinks := sinksOfRun(r, m)
	n := 0
	for _, c := range an.Calls(m.run) {
		call, ok := c.(*ssa.Call)
		if !ok || !m.loop.Loop.Blocks[c.Block()] {
			continue
		}
		if !an.IsCallTo(c, formatNode, importsProcess, parserParse) {
			// a private helper that runs validation steps and reports their failure as its own error
			h := an.StaticCallee(c)
			if h == nil || !an.InModule(h) || h.Blocks == nil || (an.FuncPkgPath(h) != an.FuncPkgPath(m.run) && !inSharedHelperPackage(h)) || errValue(call) == nil {
				continue
			}
			inner := 0
			for _, g := range helperGroup(h, 2) {
				for _, ic := range an.CallsTo(g, formatNode, importsProcess, parserParse) {
					icall, ok := ic.(*ssa.Call)
					if !ok {
						continue
					}
					inner++
					ikey := short(g) + "|on-error|" + an.CalleeName(ic)
					nilE := errNilEdges(icall)
					good := len(nilE) > 0
					if !good {
						// `_, err := parse(...); return err`: the call's error is what the helper returns
						ev := errValue(icall)
						all := ev != nil && len(an.Returns(g)) > 0
						for _, ret := range an.Returns(g) {
							if ret.Results[len(ret.Results)-1] != ev {
								all = false
							}
						}
						if all {
							r.Pass(ikey, ic.Pos(), "the error of %s is what the helper %s returns", an.CalleeName(ic), short(g))
							continue
						}
					}
					if !good && tupleReturnedWhole(icall) {
						// `return imports.Process(...)`: its error is the helper's error
						r.Pass(ikey, ic.Pos(), "the result of %s, error included, is what the helper %s returns", an.CalleeName(ic), short(g))
						continue
					}
					if good {
						// with the nil edges removed every reachable return of the helper is a failure
						reach := an.ReachFromSuccs(icall.Block(), skipEdges(nilE))
						for _, ret := range an.Returns(g) {
							if reach[ret.Block()] && !an.ReturnsFailure(ret.Block()) {
								good = false
							}
						}
						// and no sink that lives in the helper is reached on the way
						for _, s := range sinks {
							if s.host == g && reach[s.call.Block()] && s.call.Block() != icall.Block() {
								good = false
								r.Fail(ikey+"|sink", s.call.Pos(), "after %s fails, %s still reaches a sink (%s)", an.CalleeName(ic), short(g), s.what)
							}
						}
					}
					r.Check(good, ikey, ic.Pos(), "a failure of %s makes the helper %s fail", an.CalleeName(ic), short(g))
				}
			}
			if inner == 0 {
				continue
			}
			n += inner - 1
		} else if call == m.parse {
			continue
		}
		n++
		key := short(m.run) + "|on-error|" + an.CalleeName(c)
		nilEdges := errNilEdges(call)
		if len(nilEdges) == 0 {
			r.Fail(key, c.Pos(), "the error of %s is not tested: invalid output would be emitted", an.CalleeName(c))
			continue
		}
		// region after the error edge
		region := m.iterationFrom(call, nilEdges)
		bad := false
		for _, s := range sinks {
			if region[s.call.Block()] && s.call.Block() != call.Block() {
				bad = true
				r.Fail(key, s.call.Pos(), "after %s fails the iteration still reaches a sink (%s)", an.CalleeName(c), s.what)
			}
		}
		// the error is appended to errors on that path
		appended := false
		for _, rec := range m.acc.recordsIn(region) {
			if rec.derivesFromErr(errValue(call)) {
				appended = true
			}
		}
		if !appended {
			bad = true
			r.Fail(key, c.Pos(), "a failure of %s is not recorded in the per-file errors: gopatch would exit 0", an.CalleeName(c))
		}
		if !bad {
			r.Pass(key, c.Pos(), "a failure of %s is recorded for the file and no sink is reached in that iteration", an.CalleeName(c))
		}
	}
	r.Count("validation calls", n)
	r.Min("validation calls", 3)
}

func errValue(call *ssa.Call) ssa.Value {
	res := call.Call.Signature().Results()
	if res.Len() == 1 {
		return call
	}
	if ex := an.ExtractOf(call, res.Len()-1); len(ex) > 0 {
		return ex[0]
	}
	return nil
}

func c07API(r *an.Run) {
	r.Rule("R1-validate-before-emit")
	f := fn(r, patchP, "File.Apply")
	if f == nil {
		return
	}
	src := paramAt(f, 1)
	n := 0
	for _, ret := range an.Returns(f) {
		if len(ret.Results) != 2 || an.IsNilConst(ret.Results[0]) {
			// error return: the result must be nil
			continue
		}
		n++
		// `return f.render(...)`: bytes and error of one module call are returned together
		if e0, ok := ret.Results[0].(*ssa.Extract); ok {
			if e1, ok := ret.Results[1].(*ssa.Extract); ok && e0.Tuple == e1.Tuple {
				if call, ok := e0.Tuple.(*ssa.Call); ok {
					if g := an.StaticCallee(call); g != nil && an.InModule(g) {
						okAll := true
						why := ""
						for _, gr := range an.Returns(g) {
							if an.IsNilConst(gr.Results[0]) {
								continue
							}
							if x0, ok := gr.Results[0].(*ssa.Extract); ok {
								if x1, ok := gr.Results[1].(*ssa.Extract); ok && x0.Tuple == x1.Tuple {
									if c, ok := x0.Tuple.(*ssa.Call); ok && an.IsCallTo(c, importsProcess) {
										continue
									}
								}
							}
							if !an.IsNilConst(gr.Results[1]) {
								okAll, why = false, short(g)+" returns bytes together with a possibly non-nil error"
								continue
							}
							if ok2, w := validatedAt(gr.Results[0], point{pred: nil, blk: gr.Block()}, map[ssa.Value]bool{}); !ok2 {
								okAll, why = false, w
							}
						}
						r.Check(okAll, short(f)+"|returned-bytes", ret.Pos(), "bytes returned by File.Apply (through %s) were parsed successfully on every path %s", short(g), why)
						continue
					}
				}
			}
		}
		key := short(f) + "|returned-bytes"
		if ret.Results[0] == ssa.Value(src) {
			// the input itself; it was parsed at the top of Apply
			ok, why := validatedAt(src, point{pred: nil, blk: ret.Block()}, map[ssa.Value]bool{})
			r.Check(ok, key+"|src", ret.Pos(), "File.Apply returns src only after it parsed (%s)", why)
			continue
		}
		ok, why := validatedAt(ret.Results[0], point{pred: nil, blk: ret.Block()}, map[ssa.Value]bool{})
		r.Check(ok, key, ret.Pos(), "bytes returned by File.Apply were parsed successfully on every path %s", why)
	}
	r.Count("API success returns", n)
	r.Min("API success returns", 2)
	// error edges return a nil result
	r.Rule("R2-invalid-output-is-reported-not-emitted")
	var apiCalls []ssa.CallInstruction
	for _, g := range helperGroup(f, 2) {
		apiCalls = append(apiCalls, an.CallsTo(g, formatNode, importsProcess)...)
	}
	for _, c := range apiCalls {
		call := c.(*ssa.Call)
		// at every level between the call and Apply a failure returns no bytes and the error
		good := true
		cur := call
		for steps := 0; steps < 4; steps++ {
			if !failureReturnsNoBytes(cur) {
				good = false
			}
			if cur.Parent() == f {
				break
			}
			var next *ssa.Call
			for _, g := range helperGroup(f, 3) {
				for _, cc := range an.Calls(g) {
					if x, ok := cc.(*ssa.Call); ok && an.StaticCallee(cc) == cur.Parent() {
						next = x
					}
				}
			}
			if next == nil {
				good = false
				break
			}
			cur = next
		}
		r.Check(good, short(f)+"|on-error|"+an.CalleeName(c), c.Pos(), "when %s fails File.Apply returns no bytes and the error", an.CalleeName(c))
	}
}

// slotGuard: the top-level slot assignment in FileReplacer.Replace is
// dominated by the true edge of an AssignableTo test on the same pair
// (shared by C03-R6 and C07-R3).
func slotGuard(r *an.Run, rule string) {
	r.Rule(rule)
	f := fn(r, engine, "FileReplacer.Replace")
	if f == nil {
		return
	}
	sets := an.CallsTo(f, rvSet)
	if site := findSlotSite(r); site != nil {
		f = site.fn // the node stage / the per-match step may live in a helper of Replace
		sets = site.calls(rvSet)
	}
	for _, s := range sets {
		args := an.CallArgs(s)
		dst, src := args[0], args[1]
		good := false
		for _, b := range f.Blocks {
			iff, ok := b.Instrs[len(b.Instrs)-1].(*ssa.If)
			if !ok {
				continue
			}
			inner, pos := an.StripNot(iff.Cond)
			c, ok := inner.(*ssa.Call)
			if !ok || !c.Call.IsInvoke() || c.Call.Method.Name() != "AssignableTo" {
				continue
			}
			// give.Type().AssignableTo(v.Type())
			from := c.Call.Value
			to := c.Call.Args[0]
			if callOn(from, rvType, func(x ssa.Value) bool { return x == src }) && callOn(to, rvType, func(x ssa.Value) bool { return x == dst }) {
				br := an.BranchOn{If: iff, Pos: pos}
				if unreachableWithout(s.Block(), []an.CtrlEdge{{Block: b, Succ: br.EdgeWhen(true)}}) {
					good = true
				}
			}
		}
		r.Check(good, short(f)+"|slot-set", s.Pos(), "the matched slot is assigned only when the produced value's type is AssignableTo the slot's type (same two values)")
	}
	r.Count("slot assignments", len(sets))
	r.Min("slot assignments", 1)
}

// tupleReturnedWhole: the call's result tuple is returned as it is
// (`return f(...)`): every extract of it feeds the same Return, in order.
func tupleReturnedWhole(c *ssa.Call) bool {
	if c.Referrers() == nil {
		return false
	}
	n := c.Call.Signature().Results().Len()
	for _, u := range *c.Referrers() {
		if ret, ok := u.(*ssa.Return); ok && n == 1 && len(ret.Results) == 1 {
			return true
		}
	}
	found := 0
	for i := 0; i < n; i++ {
		for _, ex := range an.ExtractOf(c, i) {
			for _, u := range *ex.Referrers() {
				if ret, ok := u.(*ssa.Return); ok && i < len(ret.Results) && ret.Results[i] == ssa.Value(ex) {
					found++
				}
			}
		}
	}
	return found == n
}

// failureReturnsNoBytes: in the function that makes the call, a non-nil error
// of the call leads to `return nil, err`, or the call's results are returned as
// they are.
func failureReturnsNoBytes(call *ssa.Call) bool {
	if returnsTupleOf(call) || tupleReturnedWhole(call) {
		return true
	}
	ev := errValue(call)
	if ev == nil {
		return false
	}
	for _, cse := range an.EqCases(call.Parent(), func(v ssa.Value) bool { return v == ev }) {
		if !an.IsNilConst(cse.Key) {
			continue
		}
		if ret := an.ReturnOf(cse.Else); ret != nil && len(ret.Results) == 2 && an.IsNilConst(ret.Results[0]) && !an.IsNilConst(ret.Results[1]) {
			return true
		}
	}
	return false
}
