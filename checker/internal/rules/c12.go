package rules

import (
	"fmt"
	"go/token"
	"sort"
	"strings"

	"golang.org/x/tools/go/ssa"

	"gpcheck/internal/an"
)

func init() {
	register(&Spec{
		ID:  "C12",
		Run: runC12,
		Explanation: "Decides: R1 every call site, in module code reachable from main.main (static callees, all implementations of invoked interface methods, every function whose value is taken), of a file-system mutator or process spawn is — lifted through its module callers — control dependent on !opts.Diff AND !opts.Print in mainCmd.Run; calls that leave the module are classified by an explicit boundary table and a callee from an unclassified package is reported (inventory); " +
			"R2 the byte arguments of the three output arms (atomic write, --print-only write, modified side of --diff) are one and the same SSA value, the diff's original side is the os.ReadFile result and its file name the user-provided path; " +
			"R3 change descriptions flow only into fmt.Fprintf on cmd.Stderr inside printComments, which is called only on the matched path and only from the --diff and --print-only arms; " +
			"R4 the CLI and library pipelines agree: same parser mode, same imports.Options literal, format.Node before imports.Process, and main.cleanupFilePos and patch.cleanupFilePos have the same operation fingerprint (calls, comparisons, constants). " +
			"NOT decided: that applying the printed diff reproduces the bytes (pkg/diff is third-party); behaviour of the boundary functions themselves." +
			" R7 the library leaves an unmatched file as the command does." +
			" R4 also: what File.Apply returns for a rewritten file is the imports.Process result." +
			" R8 one FileSet for patch and targets in both pipelines; R9 every bufio.Writer made in the command or library is flushed on every exit; R10 ReadLine's isPrefix is looked at.",
		Trusted: append([]string{"boundary table: packages fmt strings bytes sort strconv unicode errors reflect io bufio log go/* path/filepath(pure part) multierr intervalset astutil pkg/diff go-flags x/tools/imports never create, modify or remove files through the functions gopatch calls; imports.Process is given FormatOnly:true"},
			commonTrusted...),
		Assumptions: commonAssumptions,
	})
}

func runC12(r *an.Run) {
	m := buildRunModel(r)
	if m == nil {
		return
	}
	c12NoMutationInDryRun(r, m)
	c12SameBytes(r, m)
	c12Descriptions(r, m)
	c12Siblings(r, m)
	// the modes can only agree if each file is processed once
	c15OnceInOrder(r)
	relabel(r, "R3-each-file-once-in-fixed-order", "R5-each-file-processed-once")
	// the file replaced in place is the file that was read: the atomic write renames onto the path it is
	// given (not a resolved / rewritten one), so a second name for the same file cannot be written twice
	c16AtomicReplace(r)
	relabel(r, "R1-no-destructive-open", "R6-in-place-mode-replaces-the-file-that-was-read")
	// a file no change applies to: every mode of the command leaves its bytes alone (C06-R1), so the library
	// must hand back its input as it is — not a re-printed copy of it
	c06APIReturnsSrc(r)
	relabel(r, "R4-api-returns-src-unchanged", "R7-library-leaves-an-unmatched-file-as-the-command-does")
	// both pipelines advance the astdiff snapshot after every change (the library copy must not fall behind)
	snapshotAdvances(r, "R4-cli-and-library-agree")
	// the library positions what it adds and deletes in the table the command uses: one FileSet for the
	// patch and the targets in both pipelines
	oneFileSet(r, "R8-one-position-table-in-both-pipelines")
	// what --print-only prints is what the default mode writes: also when another file of the run failed
	bufferedOutputIsFlushed(r, "R9-buffered-output-is-flushed-on-every-exit")
	readLineKeepsLongLines(r, "R10-the-lines-diffed-are-the-lines-of-the-content")
}

func c12NoMutationInDryRun(r *an.Run, m *runModel) {
	r.Rule("R1-dry-run-never-mutates-the-file-system")
	mainFn := r.P.Func(mainP, "main")
	if mainFn == nil {
		r.Undecided("anchor|main.main", token.NoPos, "main.main not found")
		return
	}
	reach := r.P.ReachableModuleFuncs(mainFn)
	ext := an.ExternalCalls(reach)
	classes := map[string]int{}
	diffOn, printOn := m.hyp(map[string]bool{"Diff": true}, nil), m.hyp(map[string]bool{"Print": true}, nil)
	nd, np := m.decides(diffOn), m.decides(printOn)
	if nd == 0 || np == 0 {
		// the mode switch may live in the function the output stage was moved to
		for _, g := range helperGroup(m.run, 2) {
			if g != m.run {
				nd += an.DecidedBranches(g, diffOn)
				np += an.DecidedBranches(g, printOn)
			}
		}
	}
	r.Check(nd > 0 && np > 0, short(m.run)+"|mode-branches", m.run.Pos(), "Run takes decisions that depend on opts.Diff (%d) and on opts.Print (%d), directly, through a boolean variable or through a predicate helper", nd, np)

	// guardedSite: the call site executes only when neither --diff nor --print-only is set
	var guardedSite func(site ssa.CallInstruction, depth int) (bool, string)
	guardedSite = func(site ssa.CallInstruction, depth int) (bool, string) {
		g := site.Parent()
		if g == m.run {
			b := site.Block()
			if m.unreachableUnder(b, diffOn) && m.unreachableUnder(b, printOn) {
				return true, ""
			}
			return false, fmt.Sprintf("the call at %s in mainCmd.Run is reachable with --diff or --print-only set", r.P.Pos(site.Pos()))
		}
		if depth > 5 {
			return false, "call chain too deep to lift to mainCmd.Run"
		}
		// the guard may be established in the function that makes the call (the options are one object per
		// process, identified by type): the call's block cannot execute there with either flag set
		if g.Parent() == nil && len(g.Blocks) > 0 {
			b := site.Block()
			if !an.ReachUnder(g.Blocks[0], diffOn, nil)[b] && !an.ReachUnder(g.Blocks[0], printOn, nil)[b] {
				return true, ""
			}
		}
		root := g
		for root.Parent() != nil { // closures (deferred cleanup etc.) run under their enclosing function
			root = root.Parent()
		}
		if root == m.run {
			return false, fmt.Sprintf("inside a closure of mainCmd.Run at %s: cannot establish the mode guard", r.P.Pos(site.Pos()))
		}
		if r.P.AddressTaken(root) {
			return false, short(root) + " is used as a function value: its callers cannot be enumerated"
		}
		callers := r.P.CallersOf(root)
		if len(callers) == 0 {
			return false, short(root) + " has no caller in the module call graph although it is reachable"
		}
		for _, c := range callers {
			if ok, why := guardedSite(c, depth+1); !ok {
				return false, why
			}
		}
		return true, ""
	}

	nSinks := 0
	for _, e := range ext {
		cl := classifyExt(e)
		classes[cl]++
		key := short(e.In) + "|" + e.Callee
		switch cl {
		case "fs-mutate", "spawn":
			nSinks++
			ok, why := guardedSite(e.Site, 0)
			if ok {
				r.Pass(key, e.Site.Pos(), "%s (%s) runs only when neither --diff nor --print-only is set (lifted to its call site(s) in mainCmd.Run)", e.Callee, cl)
			} else {
				r.Fail(key, e.Site.Pos(), "%s (%s) in %s can run in a dry-run mode: %s", e.Callee, cl, short(e.In), why)
			}
		case "unknown":
			r.Undecided(key, e.Site.Pos(), "call to %s (package %q) leaves the module and is not in the boundary table: it must be reviewed before 'dry-run never writes' can be decided", e.Callee, e.Pkg)
		}
	}
	r.Count("file-system mutator call sites", nSinks)
	r.Min("file-system mutator call sites", 1)
	r.Count("external call sites classified", len(ext))
	r.Min("external call sites classified", 100)
	r.Extra["C12_external_call_classes"] = classes
	r.Extra["C12_reachable_module_functions"] = len(reach)
	// positive control: the classifier recognises a mutator and an unknown package
	pc := classifyExt(an.ExtCall{Callee: "os.WriteFile", Pkg: "os"}) == "fs-mutate" && classifyExt(an.ExtCall{Callee: "net/http.Get", Pkg: "net/http"}) == "unknown" &&
		classifyExt(an.ExtCall{Callee: "os/exec.Command", Pkg: "os/exec"}) == "spawn"
	r.Check(pc, "positive-control|boundary-table", token.NoPos, "boundary table classifies os.WriteFile as mutator, os/exec as spawn and an unlisted package as unknown")
}

func c12SameBytes(r *an.Run, m *runModel) {
	r.Rule("R2-all-modes-emit-the-same-bytes")
	sinks := sinksOfRun(r, m)
	var first ssa.Value
	same := len(sinks) >= 3
	kinds := map[string]bool{}
	for _, s := range sinks {
		kinds[s.what] = true
		v := an.Unwrap(s.bytes)
		if s.host != m.run {
			// seen from Run: the sinks of an output stage that is handed the bytes all emit what Run handed over
			if lv := liftIn(m.run, s.bytes); lv != nil {
				v = an.Unwrap(lv)
			}
		}
		if first == nil {
			first = v
		} else if v != first {
			same = false
		}
	}
	r.Check(same, short(m.run)+"|same-value", m.run.Pos(), "the bytes written in place, printed by --print-only and diffed by --diff are the same SSA value (%d sinks: %s)", len(sinks), joinSorted(kinds))
	// ... and a module function that is handed them writes them unchanged: every Write into a file it
	// performs (itself or in its helpers) writes the parameter that carries them
	for _, s := range sinks {
		h := an.StaticCallee(s.call)
		if h == nil || !an.InModule(h) || h.Blocks == nil || h == r.P.Func(mainP, "mainCmd.preview") {
			continue
		}
		pi := -1
		for i, a := range s.call.Common().Args {
			if a == s.bytes && i < len(h.Params) {
				pi = i
			}
		}
		if pi < 0 {
			continue
		}
		nw := 0
		for _, g := range helperGroup(h, 2) {
			for _, c := range an.CallsTo(g, "(*os.File).Write", "(*os.File).WriteString", "os.WriteFile", "(io.Writer).Write", "(*bufio.Writer).Write") {
				nw++
				a := c.Common().Args
				w := a[len(a)-1]
				if an.IsCallTo(c, "os.WriteFile") {
					w = a[1]
				}
				same := an.Unwrap(w) == ssa.Value(h.Params[pi])
				if g != h {
					if p, ok := an.Unwrap(w).(*ssa.Parameter); ok && an.Actual(p) != nil {
						same = an.Unwrap(an.Actual(p)) == ssa.Value(h.Params[pi])
					}
				}
				r.Check(same, short(h)+"|writes-its-argument", c.Pos(), "%s writes exactly the bytes it was handed (the bytes the other output modes emit): nothing is converted or appended on the way to disk", short(h))
			}
		}
		r.Count("writes inside the in-place sink", nw)
	}
	r.Min("writes inside the in-place sink", 1)
	preview := r.P.Func(mainP, "mainCmd.preview")
	for _, c := range an.Calls(m.run) {
		if sc := an.StaticCallee(c); sc != nil && sc == preview {
			a := c.Common().Args
			r.Check(an.Unwrap(a[2]) == m.content, short(m.run)+"|diff-original", c.Pos(), "the original side of the diff is the os.ReadFile result")
			r.Check(strings.HasSuffix(an.Path(a[1]), ".Provided"), short(m.run)+"|diff-name", c.Pos(), "the diff is labelled with the user-provided path (got %q)", an.Path(a[1]))
		}
	}
	if preview != nil {
		// preview diffs original vs modified in that order
		for _, c := range an.CallsTo(preview, "github.com/pkg/diff.Text") {
			a := c.Common().Args
			good := an.Unwrap(a[2]) == ssa.Value(paramAt(preview, 1)) && an.Unwrap(a[3]) == ssa.Value(paramAt(preview, 2)) && an.Path(a[4]) == "cmd.Stdout"
			r.Check(good, short(preview)+"|diff.Text", c.Pos(), "preview diffs (original, modified) in that order and writes to cmd.Stdout")
		}
	}
}

func c12Descriptions(r *an.Run, m *runModel) {
	r.Rule("R3-descriptions-to-stderr-only")
	preview := fn(r, mainP, "mainCmd.preview")
	if preview == nil || m.comments == nil {
		return
	}
	// where the descriptions go: follow the value (and its elements) forward, into module functions it is
	// handed to; every place that finally consumes it must be a formatted write to cmd.Stderr
	type use struct {
		in  ssa.Instruction
		via ssa.Value
	}
	var terminal []use
	var printers []ssa.CallInstruction // the calls in Run (or the module calls in Run that lead to them) that print descriptions
	// the functions the output stage lives in: Run, and a function the sinks were moved to
	hosts := map[*ssa.Function]bool{m.run: true}
	for _, sk := range sinksOfRun(r, m) {
		hosts[sk.host] = true
	}
	type vt struct {
		v   ssa.Value
		top ssa.CallInstruction
	}
	seen := map[vt]bool{}
	var follow func(v ssa.Value, top ssa.CallInstruction)
	// followField follows field idx of the struct held in the local al: selections in the same function, and
	// — when the struct value is passed to a module function — the same field of the parameter there. It
	// reports whether every use of the struct could be followed.
	var followField func(al *ssa.Alloc, idx int, top ssa.CallInstruction, origin *ssa.Store) bool
	followAddr := func(addr ssa.Value, idx int, top ssa.CallInstruction) {
		if addr.Referrers() == nil {
			return
		}
		for _, u := range *addr.Referrers() {
			if fa, ok := u.(*ssa.FieldAddr); ok && fa.Field == idx && fa.Referrers() != nil {
				for _, w := range *fa.Referrers() {
					if ld, ok := w.(*ssa.UnOp); ok {
						follow(ld, top)
					}
				}
			}
		}
	}
	followField = func(al *ssa.Alloc, idx int, top ssa.CallInstruction, origin *ssa.Store) bool {
		if al.Referrers() == nil {
			return false
		}
		followAddr(al, idx, top)
		for _, u := range *al.Referrers() {
			ld, ok := u.(*ssa.UnOp)
			if !ok || ld.Referrers() == nil {
				continue
			}
			for _, w := range *ld.Referrers() {
				switch y := w.(type) {
				case *ssa.DebugRef:
				case *ssa.Field:
					if y.Field == idx {
						follow(y, top)
					}
				case ssa.CallInstruction:
					h := an.StaticCallee(y)
					if h == nil || !an.InModule(h) || h.Blocks == nil {
						return false
					}
					t := top
					if t == nil && y.Parent() == m.run {
						t = y
					}
					for i, a := range y.Common().Args {
						if a != ssa.Value(ld) || i >= len(h.Params) || h.Params[i].Referrers() == nil {
							continue
						}
						for _, pu := range *h.Params[i].Referrers() {
							switch z := pu.(type) {
							case *ssa.Store: // the parameter spilled to a local
								if z.Val == ssa.Value(h.Params[i]) {
									followAddr(z.Addr, idx, t)
								}
							case *ssa.Field:
								if z.Field == idx {
									follow(z, t)
								}
							}
						}
					}
				default:
					return false
				}
			}
		}
		return true
	}
	follow = func(v ssa.Value, top ssa.CallInstruction) {
		if v == nil || seen[vt{v, top}] {
			return
		}
		seen[vt{v, top}] = true
		refs := v.Referrers()
		if refs == nil {
			return
		}
		for _, u := range *refs {
			switch x := u.(type) {
			case *ssa.DebugRef:
			case *ssa.Phi, *ssa.MakeInterface, *ssa.ChangeType, *ssa.Convert, *ssa.Slice:
				follow(x.(ssa.Value), top)
			case *ssa.IndexAddr:
				follow(x, top)
			case *ssa.Index:
				follow(x, top)
			case *ssa.UnOp:
				follow(x, top)
			case *ssa.Range, *ssa.Next:
				follow(x.(ssa.Value), top)
			case *ssa.Extract:
				follow(x, top)
			case *ssa.Store:
				if x.Val != v {
					continue
				}
				if ia, ok := x.Addr.(*ssa.IndexAddr); ok {
					if al, ok := ia.X.(*ssa.Alloc); ok {
						for _, w := range *al.Referrers() {
							if sl, ok := w.(*ssa.Slice); ok {
								follow(sl, top)
							}
						}
						continue
					}
				}
				// the value travels as a field of a local struct that is handed to a module function whole
				if fa, ok := x.Addr.(*ssa.FieldAddr); ok {
					if al, ok := fa.X.(*ssa.Alloc); ok && followField(al, fa.Field, top, x) {
						continue
					}
				}
				terminal = append(terminal, use{x, v})
			case *ssa.BinOp:
				// a description built into a longer string (filename + ":" + c) is still the description
				if x.Op == token.ADD {
					follow(x, top)
				}
			case ssa.CallInstruction:
				if an.IsCallTo(x, "builtin:len") {
					continue
				}
				// collected or joined before it is printed: the list / the string built is followed on
				if an.IsCallTo(x, "builtin:append", "strings.Join", "strings.Repeat", "strings.TrimSpace", "strings.TrimRight", "strings.TrimSuffix", "fmt.Sprintf", "fmt.Sprint", "fmt.Sprintln") {
					if val := x.Value(); val != nil {
						follow(val, top)
					}
					continue
				}
				t := top
				if (t == nil || t.Parent() == m.run && hosts[x.Parent()] && x.Parent() != m.run) && hosts[x.Parent()] {
					t = x // the call in the output stage's own function is the site whose guards are examined
				}
				if h := an.StaticCallee(x); h != nil && an.InModule(h) && h.Blocks != nil {
					for i, a := range x.Common().Args {
						if a == v && i < len(h.Params) {
							follow(h.Params[i], t)
						}
					}
					continue
				}
				terminal = append(terminal, use{x, v})
				if t != nil {
					printers = append(printers, t)
				}
			default:
				terminal = append(terminal, use{u, v})
			}
		}
	}
	follow(m.comments, nil)
	nPrint := 0
	for _, t := range terminal {
		c, isCall := t.in.(ssa.CallInstruction)
		good := false
		what := t.in.String()
		if isCall {
			what = an.CalleeName(c)
			if an.IsCallTo(c, "fmt.Fprintf", "fmt.Fprintln", "fmt.Fprint") {
				w := an.PathIn(c.Common().Args[0], m.run)
				good = w == "cmd.Stderr"
				what += " to " + w
				nPrint++
			}
		}
		r.Check(good, short(t.in.Parent())+"|description-sink|"+what, t.in.Pos(), "descriptions are only ever formatted to cmd.Stderr (found: %s)", what)
	}
	r.Count("description print sites", nPrint)
	r.Min("description print sites", 1)
	// call sites: only on the matched path, only in the diff / print arms
	unmatched := m.hyp(nil, map[ssa.Value]bool{m.matched: false})
	neither := m.hyp(map[string]bool{"Diff": false, "Print": false}, nil)
	n := 0
	done := map[ssa.CallInstruction]bool{}
	for _, c := range printers {
		if done[c] {
			continue
		}
		done[c] = true
		n++
		site := c // where Run makes (or leads to) the call
		inDryRun := m.unreachableUnder(c.Block(), neither)
		if c.Parent() != m.run {
			inDryRun = !an.ReachUnder(c.Parent().Blocks[0], neither, nil)[c.Block()]
			if sc, ok := siteIn(m.run, c).(ssa.CallInstruction); ok {
				site = sc
			}
		}
		onMatched := site.Parent() == m.run && m.unreachableUnder(site.Block(), unmatched)
		r.Check(onMatched, short(m.run)+"|described-only-when-applied|"+an.TrimModule(an.CalleeName(c)), c.Pos(), "descriptions are printed only for files to which a change applied")
		r.Check(inDryRun, short(m.run)+"|described-only-in-dry-run|"+an.TrimModule(an.CalleeName(c)), c.Pos(), "descriptions are printed only in the --diff / --print-only arms")
	}
	r.Count("description call sites", n)
	r.Min("description call sites", 2)
}

// fingerprint summarises what a function does, independent of local names,
// of the order of independent statements, of loop form (range / index), of the
// polarity in which a comparison is written (a < b vs !(a >= b), De Morgan) and
// of private helpers it may have been split into: the multiset of
//   - resolved callees outside the function's own helper group,
//   - comparison classes  eq(x,y)  /  lt(x,y)  over operand descriptors
//     (constants by value, calls by callee, loaded struct fields by name),
//   - string constants handed to calls, and map updates.
func fingerprint(f *ssa.Function) []string { return fingerprintDepth(f, 2) }

// fingerprintDepth is fingerprint with the given helper-inlining depth.
func fingerprintDepth(f *ssa.Function, depth int) []string {
	group := helperGroup(f, depth)
	if depth == 0 {
		group = []*ssa.Function{f}
	}
	in := map[*ssa.Function]bool{}
	for _, g := range group {
		in[g] = true
	}
	var out []string
	for _, g := range group {
		// the test that governs a loop (i < n, i >= 0, the ok of a range) is loop form, not content
		loopTest := map[ssa.Value]bool{}
		for _, l := range an.Loops(g) {
			if iff, ok := l.Header.Instrs[len(l.Header.Instrs)-1].(*ssa.If); ok {
				c, _ := an.StripNot(iff.Cond)
				loopTest[c] = true
			}
		}
		for _, b := range g.Blocks {
			for _, instr := range b.Instrs {
				if v, ok := instr.(ssa.Value); ok && loopTest[v] {
					continue
				}
				switch x := instr.(type) {
				case ssa.CallInstruction:
					if sc := an.StaticCallee(x); sc != nil && in[sc] {
						continue
					}
					name := an.CalleeName(x)
					if name == "builtin:len" || name == "builtin:append" || name == "builtin:cap" || strings.HasPrefix(name, "closure:") {
						continue
					}
					if strings.HasPrefix(name, "sort.") || strings.HasPrefix(name, "slices.Sort") || name == "slices.Reverse" {
						// how a sequence is brought into order (sort.Ints + reverse loop, sort.Sort(sort.Reverse(..)))
						// is an implementation detail: one entry however often and through whichever entry point
						sortSeen := false
						for _, o := range out {
							if o == "call sort" {
								sortSeen = true
							}
						}
						if !sortSeen {
							out = append(out, "call sort")
						}
						continue
					}
					out = append(out, "call "+name)
					for _, a := range x.Common().Args {
						if s, ok := an.ConstString(a); ok {
							out = append(out, "const-arg "+s)
						}
					}
				case *ssa.BinOp:
					a, bb := operandKind(x.X), operandKind(x.Y)
					switch x.Op {
					case token.EQL, token.NEQ:
						if a > bb {
							a, bb = bb, a
						}
						out = append(out, "eq("+a+","+bb+")")
					case token.LSS, token.GEQ:
						out = append(out, "lt("+a+","+bb+")")
					case token.GTR, token.LEQ:
						out = append(out, "lt("+bb+","+a+")")
					}
				case *ssa.MapUpdate:
					out = append(out, "mapupdate")
				}
			}
		}
	}
	sort.Strings(out)
	return out
}

// essentialOps is the set of fingerprint entries of f (helpers inlined) that
// involve positions, the syntax tree or the module's own packages.
func essentialOps(f *ssa.Function) []string {
	seen := map[string]bool{}
	var out []string
	for _, e := range fingerprint(f) {
		if !(strings.Contains(e, "go/token") || strings.Contains(e, "token.") || strings.Contains(e, "go/ast") || strings.Contains(e, "ast.") || strings.Contains(e, an.Module)) {
			continue
		}
		if !seen[e] {
			seen[e] = true
			out = append(out, e)
		}
	}
	sort.Strings(out)
	return out
}

func operandKind(v ssa.Value) string {
	if c, ok := v.(*ssa.Const); ok {
		if c.Value == nil {
			return "nil"
		}
		return "const:" + c.Value.ExactString()
	}
	if c, ok := v.(*ssa.Call); ok {
		return "call:" + an.CalleeName(c)
	}
	if ex, ok := v.(*ssa.Extract); ok {
		if c, ok := ex.Tuple.(*ssa.Call); ok {
			return "result:" + an.CalleeName(c)
		}
	}
	return an.ShortType(v.Type())
}

func c12Siblings(r *an.Run, m *runModel) {
	r.Rule("R4-cli-and-library-agree")
	api := fn(r, patchP, "File.Apply")
	if api == nil {
		return
	}
	// parser mode
	var apiParse *ssa.Call
	for _, g := range helperGroup(api, 2) {
		for _, c := range an.CallsTo(g, parserParse) {
			if call, ok := c.(*ssa.Call); ok && apiParse == nil {
				apiParse = call
			}
		}
	}
	if apiParse != nil {
		a, aok := an.ConstInt(m.parse.Call.Args[3])
		b, bok := an.ConstInt(apiParse.Call.Args[3])
		r.Check(aok && bok && a == b, "parser-mode", apiParse.Pos(), "CLI and library parse targets with the same parser.Mode (%d vs %d)", a, b)
	} else {
		r.Fail("parser-mode", api.Pos(), "File.Apply does not parse its input with go/parser")
	}
	// imports.Options literals
	lit := func(f0 *ssa.Function) (map[string]string, ssa.CallInstruction) {
		var calls []ssa.CallInstruction
		for _, g := range helperGroup(f0, 2) {
			calls = append(calls, an.CallsTo(g, importsProcess)...)
		}
		for _, c := range calls {
			lits := optionsLiterals(c)
			if len(lits) == 0 {
				return nil, c
			}
			out := map[string]string{}
			for _, al := range lits {
				for _, u := range *al.Referrers() {
					if fa, ok := u.(*ssa.FieldAddr); ok {
						for _, w := range *fa.Referrers() {
							if st, ok := w.(*ssa.Store); ok {
								d := an.Describe(st.Val)
								if prev, dup := out[fieldNameOf(fa)]; dup && prev != d {
									d = prev + "|" + d
								}
								out[fieldNameOf(fa)] = d
							}
						}
					}
				}
			}
			return out, c
		}
		return nil, nil
	}
	la, ca := lit(m.run)
	lb, cb := lit(api)
	if ca == nil || cb == nil || la == nil || lb == nil {
		r.Fail("imports-options", api.Pos(), "imports.Process with a literal options value not found in both pipelines")
	} else {
		r.Check(fmt.Sprint(la) == fmt.Sprint(lb), "imports-options", cb.Pos(), "both pipelines pass the same imports.Options (%v vs %v)", la, lb)
		r.Check(la["FormatOnly"] == "const:true" && lb["FormatOnly"] == "const:true", "imports-format-only", ca.Pos(), "FormatOnly is the constant true in both pipelines (imports are never added or removed by formatting)")
	}
	// format.Node feeds imports.Process
	for _, f := range []*ssa.Function{m.run, api} {
		var fnodes, procs []ssa.CallInstruction
		for _, g := range helperGroup(f, 2) {
			fnodes = append(fnodes, an.CallsTo(g, formatNode)...)
			procs = append(procs, an.CallsTo(g, importsProcess)...)
		}
		good := len(fnodes) == 1 && len(procs) == 1
		if good {
			if fnodes[0].Parent() == procs[0].Parent() {
				good = an.InstrDominates(fnodes[0], procs[0])
			} else {
				a, b := siteIn(f, fnodes[0]), siteIn(f, procs[0])
				good = a != nil && b != nil && an.InstrDominates(a, b)
			}
		}
		if good {
			// the bytes processed are the printer's buffer
			good = derivesFromAcrossIn(f, procs[0].Common().Args[1], an.Unwrap(fnodes[0].Common().Args[0]))
		}
		r.Check(good, short(f)+"|format-then-process", f.Pos(), "%s prints with format.Node and hands exactly that buffer to imports.Process", short(f))
	}
	// the command runs imports.Process on every rewritten file unless --skip-import-processing is given; the
	// library has no such option, so every byte slice it hands back for a rewritten file is what
	// imports.Process returned (a fast path around it returns differently grouped imports than the command writes)
	{
		src := paramAt(api, 1)
		var leaves []ssa.Value
		for _, l := range returnedLeaves(api, 0, 0) {
			leaves = append(leaves, phiLeaves(l)...)
		}
		for _, leaf := range leaves {
			if an.IsNilConst(leaf) || leaf == ssa.Value(src) {
				continue
			}
			good := false
			if ex, ok := leaf.(*ssa.Extract); ok && ex.Index == 0 {
				if c, ok := ex.Tuple.(*ssa.Call); ok && an.IsCallTo(c, importsProcess) {
					good = true
				}
			}
			r.Check(good, short(api)+"|library-always-processes-imports", leaf.Pos(), "the bytes File.Apply returns for a rewritten file are the result of imports.Process, as in the command's default mode (got %s)", an.Describe(leaf))
		}
	}
	// cleanupFilePos siblings
	cleanups := cleanupFuncs(r)
	switch len(cleanups) {
	case 1:
		r.Pass("cleanupFilePos-siblings", cleanups[0].Pos(), "CLI and library share one clean-up function (%s)", short(cleanups[0]))
	case 2:
		// what the two copies do to positions, comments and the changelog — as a set: how a copy iterates,
		// sorts, clamps an index (an if, or the builtin max) or splits its work into passes is its own business
		fa, fb := essentialOps(cleanups[0]), essentialOps(cleanups[1])
		r.Check(strings.Join(fa, "\n") == strings.Join(fb, "\n"), "cleanupFilePos-siblings", cleanups[1].Pos(), "%s and %s perform the same operations on positions, comments and the changelog (%d vs %d distinct operations)%s", short(cleanups[0]), short(cleanups[1]), len(fa), len(fb), firstDiff(fa, fb))
	default:
		r.Undecided("cleanupFilePos-siblings", api.Pos(), "expected one shared or two sibling clean-up functions reaching token.File.MergeLine, found %d", len(cleanups))
	}
	isCleanup := func(c ssa.CallInstruction) bool {
		sc := an.StaticCallee(c)
		for _, cf := range cleanups {
			if sc == cf {
				return true
			}
		}
		return false
	}
	// the change loop of both pipelines makes the same engine calls
	eng := func(f *ssa.Function) string {
		var out []string
		for _, c := range an.Calls(f) {
			n := an.CalleeName(c)
			if isCleanup(c) {
				out = append(out, "clean-up")
				continue
			}
			if strings.Contains(n, "/internal/engine") || strings.Contains(n, "/internal/astdiff") {
				n = strings.TrimPrefix(n, an.Module+"/patch.")
				n = strings.TrimPrefix(n, an.Module+".")
				out = append(out, an.TrimModule(n))
			}
		}
		return strings.Join(out, " ; ")
	}
	pr := fn(r, mainP, "patchRunner.Apply")
	if pr != nil {
		a, b := eng(changeLoopHost(r, pr)), eng(changeLoopHost(r, api))
		r.Check(a == b, "change-loop-siblings", api.Pos(), "both change loops call Match, NewChangelog, Replace, Diff, cleanupFilePos in the same order (CLI: %s | API: %s)", a, b)
	}
}

func firstDiff(a, b []string) string {
	am, bm := map[string]int{}, map[string]int{}
	for _, x := range a {
		am[x]++
	}
	for _, x := range b {
		bm[x]++
	}
	for k, v := range am {
		if bm[k] != v {
			return fmt.Sprintf(" — differs at %q (%d vs %d)", k, v, bm[k])
		}
	}
	for k, v := range bm {
		if am[k] != v {
			return fmt.Sprintf(" — differs at %q (%d vs %d)", k, am[k], v)
		}
	}
	return ""
}
