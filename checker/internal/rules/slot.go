package rules

import (
	"golang.org/x/tools/go/ssa"

	"gpcheck/internal/an"
)

// slotSite is the structural view of "FileReplacer.Replace resolves and
// assigns every recorded slot", wherever a clean-up may have put its parts:
//
//   - anchor: FileReplacer.Replace
//   - loopFn, il: the function that holds the loop over fd.Matches (Replace
//     itself or a helper it hands fd.Matches to) and that loop
//   - fn: the function that holds the node replacement and the guarded
//     assignment of one slot — loopFn, or a per-match helper called from the
//     loop (a method of the match, a function taking it)
//   - isMatch: "v is the current match" as seen in fn (the loop element, or
//     the parameter of the per-match helper the element is bound to)
//   - region: the blocks of fn that make up one iteration (the loop's blocks,
//     or all of fn for a per-match helper)
type slotSite struct {
	anchor, loopFn, fn *ssa.Function
	il                 *an.IndexLoop
	isMatch            func(ssa.Value) bool
	region             map[*ssa.BasicBlock]bool
	perMatchCall       ssa.CallInstruction // the call in the loop to fn, when fn != loopFn
}

func findSlotSite(r *an.Run) *slotSite {
	anchor, holder, il := matchLoop(r)
	if anchor == nil || holder == nil || il == nil {
		return nil
	}
	s := &slotSite{anchor: anchor, loopFn: holder, il: il, fn: holder, region: il.Loop.Blocks}
	// the loop element
	var elem ssa.Value
	for b := range il.Loop.Blocks {
		for _, in := range b.Instrs {
			if u, ok := in.(*ssa.UnOp); ok && elemOfIn(anchor, u, "fd.Matches", il.Index) {
				elem = u
			}
		}
	}
	if elem == nil {
		return nil
	}
	s.isMatch = func(v ssa.Value) bool { return v == elem }
	if len(callsInLoop(il.Loop, rvSet)) > 0 {
		return s
	}
	// a per-match helper: a module function called in the loop with the element as receiver / argument
	for _, c := range callsInLoop(il.Loop) {
		h := an.StaticCallee(c)
		if h == nil || !an.InModule(h) || h.Blocks == nil || len(an.CallsTo(h, rvSet)) == 0 {
			continue
		}
		pi := -1
		for i, a := range c.Common().Args {
			if a == elem && i < len(h.Params) {
				pi = i
			}
		}
		if pi < 0 {
			continue
		}
		prm := h.Params[pi]
		s.fn, s.perMatchCall = h, c
		s.region = map[*ssa.BasicBlock]bool{}
		for _, b := range h.Blocks {
			s.region[b] = true
		}
		s.isMatch = func(v ssa.Value) bool {
			if v == ssa.Value(prm) {
				return true
			}
			// spilled parameter
			if u, ok := v.(*ssa.UnOp); ok {
				if a, ok := u.X.(*ssa.Alloc); ok && a.Comment == prm.Name() {
					return true
				}
			}
			return false
		}
		return s
	}
	return s
}

// calls lists the calls of one iteration (in the region of fn) to the named callees.
func (s *slotSite) calls(names ...string) []ssa.CallInstruction {
	var out []ssa.CallInstruction
	for _, b := range s.fn.Blocks {
		if !s.region[b] {
			continue
		}
		for _, in := range b.Instrs {
			if c, ok := in.(ssa.CallInstruction); ok && (len(names) == 0 || an.IsCallTo(c, names...)) {
				out = append(out, c)
			}
		}
	}
	return out
}

// loopInFn returns the natural loop of fn the iteration lives in (nil for a per-match helper).
func (s *slotSite) loopInFn() *an.Loop {
	if s.fn == s.loopFn {
		return s.il.Loop
	}
	return nil
}
