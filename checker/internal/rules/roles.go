package rules

import (
	_ "embed"
	"encoding/json"
	"go/types"
	"strings"

	"golang.org/x/tools/go/ssa"

	"gpcheck/internal/an"
)

// Anchors by role: when a private function of package main was renamed, the
// rules still find it by what it does. Each resolver must pick exactly one
// function, otherwise the anchor stays unresolved (and the rule undecided).

//go:embed baseline_schema.json
var baselineSchemaJSON []byte

func init() {
	an.RoleResolver = resolveRole
	an.CanonicalLocal = canonicalLocal
	var s struct {
		Structs an.Schema                      `json:"structs"`
		Params  map[string]map[string][]string `json:"params"`
	}
	if err := json.Unmarshal(baselineSchemaJSON, &s); err == nil {
		an.BaselineSchema, an.BaselineParams = s.Structs, s.Params
	}
}

// canonicalLocal: the local record a function of package engine looks its
// match data up into is named after its type, not after the local.
var canonicalLocalNames = map[string]string{
	"fileMatchData": "fd", "forDotsData": "fd", "stmtListData": "sd", "sliceDotsData": "sd",
	"importsData": "impData", "importMetavarData": "mdata", "metavarData": "md", "searchResultData": "sr",
}

func canonicalLocal(a *ssa.Alloc) string {
	p, ok := a.Type().Underlying().(*types.Pointer)
	if !ok {
		return ""
	}
	n, ok := p.Elem().(*types.Named)
	if !ok || n.Obj().Pkg() == nil || n.Obj().Pkg().Path() != enginePath {
		return ""
	}
	if a.Comment == "complit" || a.Comment == "" {
		return ""
	}
	return canonicalLocalNames[an.CanonTypeName(n.Obj())]
}

func resolveRole(p *an.Prog, rel, spec string) *ssa.Function {
	if rel == engine {
		return resolveEngineRole(p, spec)
	}
	if rel != mainP {
		return nil
	}
	fns := p.PkgFuncs(mainP)
	top := func(pred func(*ssa.Function) bool) *ssa.Function {
		var out *ssa.Function
		for _, f := range fns {
			if f.Parent() != nil || f.Blocks == nil || f.Synthetic != "" {
				continue
			}
			if pred(f) {
				if out != nil {
					return nil // ambiguous
				}
				out = f
			}
		}
		return out
	}
	calls := func(f *ssa.Function, names ...string) bool { return len(an.CallsTo(f, names...)) > 0 }
	callsFn := func(f, g *ssa.Function) bool {
		if g == nil {
			return false
		}
		for _, c := range an.Calls(f) {
			if an.StaticCallee(c) == g {
				return true
			}
		}
		return false
	}
	resultTypes := func(f *ssa.Function) string { return strings.Join(an.ResultTypeNames(f.Signature), ",") }
	isMethod := func(f *ssa.Function) bool { return f.Signature.Recv() != nil }
	switch spec {
	case "runMain":
		mainFn := p.Func(mainP, "main")
		if mainFn == nil {
			return nil
		}
		for _, c := range an.CallsTo(mainFn, "os.Exit") {
			if call, ok := c.Common().Args[0].(*ssa.Call); ok {
				return an.StaticCallee(call)
			}
		}
	case "findGoFiles":
		return top(func(f *ssa.Function) bool {
			return !isMethod(f) && calls(f, "path/filepath.Walk", "path/filepath.WalkDir")
		})
	case "findFiles":
		walker := p.Func(mainP, "findGoFiles")
		run := p.Func(mainP, "mainCmd.Run")
		return top(func(f *ssa.Function) bool { return !isMethod(f) && callsFn(f, walker) && run != nil && callsFn(run, f) })
	case "patchRunner.Apply":
		return top(func(f *ssa.Function) bool {
			if !isMethod(f) || f.Signature.Params().Len() != 2 {
				return false
			}
			return strings.HasSuffix(resultTypes(f), "ast.File,[]string,bool") && strings.HasSuffix(an.ShortType(f.Signature.Params().At(1).Type()), "ast.File")
		})
	case "newPatchRunner":
		apply := p.Func(mainP, "patchRunner.Apply")
		if apply == nil {
			return nil
		}
		recvT := apply.Signature.Recv().Type()
		return top(func(f *ssa.Function) bool {
			return !isMethod(f) && f.Signature.Results().Len() == 1 && types.Identical(f.Signature.Results().At(0).Type(), recvT)
		})
	case "loadPatches":
		run := p.Func(mainP, "mainCmd.Run")
		return top(func(f *ssa.Function) bool {
			return !isMethod(f) && strings.HasSuffix(resultTypes(f), "engine.Program,error") && run != nil && callsFn(run, f)
		})
	case "checkGeneratedCode":
		return top(func(f *ssa.Function) bool { return !isMethod(f) && calls(f, "go/ast.IsGenerated") })
	case "cleanupFilePos":
		return top(func(f *ssa.Function) bool { return calls(f, "(*go/token.File).MergeLine") })
	case "mainCmd.preview":
		return top(func(f *ssa.Function) bool { return isMethod(f) && calls(f, "github.com/pkg/diff.Text") })
	case "parseAndCompile":
		return top(func(f *ssa.Function) bool {
			ok1, ok2 := false, false
			for _, c := range an.Calls(f) {
				if sc := an.StaticCallee(c); sc != nil {
					switch short(sc) {
					case "internal/parse.Parse":
						ok1 = true
					case "internal/engine.Compile":
						ok2 = true
					}
				}
			}
			return !isMethod(f) && ok1 && ok2
		})
	case "newArgParser":
		return top(func(f *ssa.Function) bool { return calls(f, "github.com/jessevdk/go-flags.NewParser") })
	case "patchLoader.LoadReader":
		return top(func(f *ssa.Function) bool { return isMethod(f) && calls(f, "io.ReadAll", "io/ioutil.ReadAll") })
	case "patchLoader.LoadFile":
		lr := p.Func(mainP, "patchLoader.LoadReader")
		return top(func(f *ssa.Function) bool { return isMethod(f) && calls(f, "os.Open") && callsFn(f, lr) })
	case "patchLoader.LoadFileList":
		lf := p.Func(mainP, "patchLoader.LoadFile")
		return top(func(f *ssa.Function) bool {
			if !isMethod(f) || f == lf {
				return false
			}
			for _, g := range helperGroup(f, 2) {
				if g != lf && callsFn(g, lf) && calls(f, "os.Open") {
					return true
				}
			}
			return false
		})
	case "patchLoader.Programs":
		return top(func(f *ssa.Function) bool {
			return isMethod(f) && f.Signature.Params().Len() == 0 && strings.HasSuffix(resultTypes(f), "[]*engine.Program")
		})
	}
	return nil
}

// cleanupFuncs returns the function(s) that remove the comments and merge the
// lines of changed intervals after a change was applied: the module functions
// called from the two runners (patchRunner.Apply, patch.File.Apply and their
// helpers) that reach (*token.File).MergeLine. Two copies (CLI and library) or
// one shared function.
func cleanupFuncs(r *an.Run) []*ssa.Function {
	var out []*ssa.Function
	seen := map[*ssa.Function]bool{}
	reaches := func(f *ssa.Function) bool {
		for g := range r.P.ReachableModuleFuncs(f) {
			if len(an.CallsTo(g, "(*go/token.File).MergeLine")) > 0 {
				return true
			}
		}
		return false
	}
	for _, root := range []*ssa.Function{r.P.Func(mainP, "patchRunner.Apply"), r.P.Func(patchP, "File.Apply")} {
		if root == nil {
			continue
		}
		for _, g := range helperGroup(root, 2) {
			for _, c := range an.Calls(g) {
				sc := an.StaticCallee(c)
				if sc == nil || !an.InModule(sc) || seen[sc] || inGroup(root, sc) && len(an.CallsTo(sc, "(*go/token.File).MergeLine")) == 0 {
					continue
				}
				if reaches(sc) && !strings.Contains(an.FuncPkgPath(sc), "/internal/engine") && !strings.Contains(an.FuncPkgPath(sc), "/internal/astdiff") {
					seen[sc] = true
					out = append(out, sc)
				}
			}
		}
	}
	return out
}

// inCleanup reports whether f is one of the clean-up functions or a helper of one.
func inCleanup(r *an.Run, f *ssa.Function) bool {
	for _, c := range cleanupFuncs(r) {
		if inGroup(c, f) {
			return true
		}
	}
	return false
}

// runnerType returns the named type of the CLI's patch runner (the receiver of
// its Apply method).
func runnerType(r *an.Run) *types.Named {
	f := r.P.Func(mainP, "patchRunner.Apply")
	if f == nil || f.Signature.Recv() == nil {
		return nil
	}
	t := f.Signature.Recv().Type()
	if p, ok := t.(*types.Pointer); ok {
		t = p.Elem()
	}
	n, _ := t.(*types.Named)
	return n
}

func isRunnerType(r *an.Run, t types.Type) bool {
	rt := runnerType(r)
	if rt == nil {
		return false
	}
	if p, ok := t.(*types.Pointer); ok {
		t = p.Elem()
	}
	if _, named := t.(*types.Named); !named {
		return false // also go/ssa's private iterator type, which go/types cannot compare
	}
	return types.Identical(t, rt)
}

// isRunnerErrors: fa addresses the []error field of the patch runner.
func isRunnerErrors(r *an.Run, fa *ssa.FieldAddr) bool {
	if !isRunnerType(r, fa.X.Type()) {
		return false
	}
	st, ok := derefStruct(fa.X.Type())
	if !ok || fa.Field >= st.NumFields() {
		return false
	}
	sl, ok := st.Field(fa.Field).Type().Underlying().(*types.Slice)
	return ok && an.IsErrorType(sl.Elem())
}

// resolveEngineRole: the arms of the two compilers that build the position
// matcher / replacer are recognised by the receiver type and by what they
// construct, whatever they are called.
func resolveEngineRole(p *an.Prog, spec string) *ssa.Function {
	var recv, builds string
	switch spec {
	case "matcherCompiler.compilePosMatcher":
		recv, builds = "matcherCompiler", "PosMatcher"
	case "replacerCompiler.compilePosReplacer":
		recv, builds = "replacerCompiler", "PosReplacer"
	default:
		return nil
	}
	var out *ssa.Function
	for _, f := range p.PkgFuncs(engine) {
		if f.Parent() != nil || f.Blocks == nil || f.Synthetic != "" || f.Signature.Recv() == nil {
			continue
		}
		if !strings.HasSuffix(an.ShortType(f.Signature.Recv().Type()), "."+recv) {
			continue
		}
		constructs := false
		for _, b := range f.Blocks {
			for _, in := range b.Instrs {
				switch x := in.(type) {
				case *ssa.Alloc:
					if x.Comment == "complit" && strings.HasSuffix(an.ShortType(x.Type()), "engine."+builds) {
						constructs = true
					}
				case *ssa.MakeInterface:
					if strings.HasSuffix(an.ShortType(x.X.Type()), "engine."+builds) {
						constructs = true
					}
				}
			}
		}
		if constructs {
			if out != nil {
				return nil
			}
			out = f
		}
	}
	return out
}

// posArmName is the describe-string of the arm that compiles token.Pos values
// on the given side ("matcher" / "replacer").
func posArmFunc(r *an.Run, side string) *ssa.Function {
	if side == "matcher" {
		return fn(r, engine, "matcherCompiler.compilePosMatcher")
	}
	return fn(r, engine, "replacerCompiler.compilePosReplacer")
}
