package rules

import (
	"go/types"
	"sort"
	"strings"

	"golang.org/x/tools/go/ssa"

	"gpcheck/internal/an"
)

// errAcc is the per-file error accumulator of mainCmd.Run, in either of two
// forms: a []error carried around the file loop (`errors = append(errors, e)`),
// or a local object of a module type that holds such a slice and is fed
// through its methods (`errs.add(e)`, `errs.addf(format, args…)`).
type errAcc struct {
	run  *ssa.Function
	loop *an.Loop
	phi  *ssa.Phi   // form A
	obj  *ssa.Alloc // form B
	recs []errRecord
}

// errRecord is one place in the file loop where an error is recorded.
type errRecord struct {
	at ssa.Instruction // the append / the method call, in Run
	// vals: what is recorded — the appended elements, or the arguments of the method call
	vals []ssa.Value
	// formats: the record builds the error with fmt.Errorf from vals (directly, or inside the method)
	formats bool
}

func findErrAcc(r *an.Run, f *ssa.Function, loop *an.Loop) *errAcc {
	acc := &errAcc{run: f, loop: loop}
	for _, in := range loop.Header.Instrs {
		if phi, ok := in.(*ssa.Phi); ok && an.ShortType(phi.Type()) == "[]error" {
			acc.phi = phi
		}
	}
	if acc.phi != nil {
		// every append in the loop whose result reaches the phi
		reaches := map[ssa.Value]bool{}
		var mark func(v ssa.Value)
		mark = func(v ssa.Value) {
			if reaches[v] {
				return
			}
			reaches[v] = true
			switch x := v.(type) {
			case *ssa.Phi:
				for _, e := range x.Edges {
					mark(e)
				}
			case *ssa.Call:
				if an.IsCallTo(x, "builtin:append") {
					mark(x.Call.Args[0])
				} else if li, _, ok := appendHelper(an.StaticCallee(x)); ok && li < len(x.Call.Args) {
					mark(x.Call.Args[li])
				}
			}
		}
		mark(acc.phi)
		for b := range loop.Blocks {
			for _, in := range b.Instrs {
				if c, ok := in.(*ssa.Call); ok && an.IsCallTo(c, "builtin:append") && reaches[c] && an.ShortType(c.Type()) == "[]error" {
					rec := errRecord{at: c, vals: []ssa.Value{c.Call.Args[1]}}
					for v := range an.BackSlice(c.Call.Args[1], an.SliceOpts{ThroughMemory: true}) {
						if fc, ok := v.(*ssa.Call); ok && an.IsCallTo(fc, "fmt.Errorf") {
							rec.formats = true
						}
					}
					acc.recs = append(acc.recs, rec)
				}
				// `errors = logFailure(log, errors, name, cause, reported)`: a helper that returns its list
				// parameter with some of its other parameters appended
				if c, ok := in.(*ssa.Call); ok && reaches[c] {
					if _, elems, ok := appendHelper(an.StaticCallee(c)); ok {
						rec := errRecord{at: c}
						for _, ei := range elems {
							if ei < len(c.Call.Args) {
								rec.vals = append(rec.vals, c.Call.Args[ei])
								for v := range an.BackSlice(c.Call.Args[ei], an.SliceOpts{ThroughMemory: true}) {
									if fc, ok := v.(*ssa.Call); ok && an.IsCallTo(fc, "fmt.Errorf") {
										rec.formats = true
									}
								}
							}
						}
						acc.recs = append(acc.recs, rec)
					}
				}
			}
		}
		return acc
	}
	// form B: a local of a module type with a []error inside, created outside the loop
	for _, b := range f.Blocks {
		if loop.Blocks[b] {
			continue
		}
		for _, in := range b.Instrs {
			al, ok := in.(*ssa.Alloc)
			if !ok || !holdsErrorList(al.Type()) {
				continue
			}
			acc.obj = al
		}
	}
	if acc.obj == nil {
		return nil
	}
	for b := range loop.Blocks {
		for _, in := range b.Instrs {
			c, ok := in.(ssa.CallInstruction)
			if !ok {
				continue
			}
			h := an.StaticCallee(c)
			if h == nil || !an.InModule(h) || h.Blocks == nil || len(c.Common().Args) == 0 || an.Unwrap(c.Common().Args[0]) != ssa.Value(acc.obj) {
				continue
			}
			if !appendsToErrorList(h, 0) {
				continue
			}
			rec := errRecord{at: c, vals: c.Common().Args[1:]}
			for _, g := range helperGroup(h, 2) {
				if len(an.CallsTo(g, "fmt.Errorf")) > 0 {
					rec.formats = true
				}
			}
			for _, a := range rec.vals {
				for v := range an.BackSlice(a, an.SliceOpts{ThroughMemory: true}) {
					if fc, ok := v.(*ssa.Call); ok && an.IsCallTo(fc, "fmt.Errorf") {
						rec.formats = true
					}
				}
			}
			acc.recs = append(acc.recs, rec)
		}
	}
	return acc
}

func holdsErrorList(t types.Type) bool {
	if p, ok := t.Underlying().(*types.Pointer); ok {
		t = p.Elem()
	}
	n, ok := t.(*types.Named)
	if !ok || n.Obj().Pkg() == nil || !strings.HasPrefix(n.Obj().Pkg().Path(), an.Module) {
		return false
	}
	switch u := n.Underlying().(type) {
	case *types.Slice:
		return an.IsErrorType(u.Elem())
	case *types.Struct:
		for i := 0; i < u.NumFields(); i++ {
			if sl, ok := u.Field(i).Type().Underlying().(*types.Slice); ok && an.IsErrorType(sl.Elem()) {
				return true
			}
		}
	}
	return false
}

// appendsToErrorList: h (or a helper it calls with the same receiver) appends
// to the []error its parameter pi holds.
func appendsToErrorList(h *ssa.Function, depth int) bool {
	if depth > 2 || h == nil || h.Blocks == nil {
		return false
	}
	for _, c := range an.Calls(h) {
		if an.IsCallTo(c, "builtin:append") {
			if call, ok := c.(*ssa.Call); ok && an.ShortType(call.Type()) == "[]error" {
				return true
			}
			if call, ok := c.(*ssa.Call); ok {
				if sl, ok := call.Type().Underlying().(*types.Slice); ok && an.IsErrorType(sl.Elem()) {
					return true
				}
			}
		}
		if sc := an.StaticCallee(c); sc != nil && an.InModule(sc) && sc != h && len(c.Common().Args) > 0 && len(h.Params) > 0 && an.Unwrap(c.Common().Args[0]) == ssa.Value(h.Params[0]) {
			if appendsToErrorList(sc, depth+1) {
				return true
			}
		}
	}
	return false
}

// derivesFromErr: the record records something computed from e.
func (rec errRecord) derivesFromErr(e ssa.Value) bool {
	for _, v := range rec.vals {
		if derivesFrom(v, e) {
			return true
		}
	}
	return false
}

// everyPathRecords: every path from the start blocks to the end of the
// iteration (the loop header) passes a record accepted by ok; it also reports
// whether the header is reachable at all from there.
func (acc *errAcc) everyPathRecords(starts []*ssa.BasicBlock, ok func(errRecord) bool) (recorded, reachesHeader bool) {
	hdr := acc.loop.Header
	good := map[*ssa.BasicBlock]bool{}
	for _, rec := range acc.recs {
		if ok(rec) {
			good[rec.at.Block()] = true
		}
	}
	// blocks reachable without leaving a recording block
	reach := an.Reach(starts, func(b *ssa.BasicBlock, i int) bool { return good[b] || b.Succs[i] == hdr && false })
	recorded = true
	for b := range reach {
		for _, s := range b.Succs {
			if s == hdr {
				reachesHeader = true
				if !good[b] {
					recorded = false
				}
			}
		}
	}
	// paths that end in a recording block also reach the header eventually
	all := an.Reach(starts, func(b *ssa.BasicBlock, i int) bool { return b.Succs[i] == hdr })
	for b := range all {
		for _, s := range b.Succs {
			if s == hdr {
				reachesHeader = true
			}
		}
	}
	return recorded, reachesHeader
}

// recordsIn lists the records located in the given blocks.
func (acc *errAcc) recordsIn(region map[*ssa.BasicBlock]bool) []errRecord {
	var out []errRecord
	for _, rec := range acc.recs {
		if region[rec.at.Block()] {
			out = append(out, rec)
		}
	}
	return out
}

// feeds: v (the value Run finally returns) is computed from the accumulator.
func (acc *errAcc) feeds(sl map[ssa.Value]bool) bool {
	if acc.phi != nil {
		return sl[acc.phi]
	}
	return sl[acc.obj]
}

// isAccRecord: c is a recording call on the accumulator object.
func isAccRecord(m *runModel, c ssa.CallInstruction) bool {
	for _, rec := range m.acc.recs {
		if rec.at == ssa.Instruction(c) && m.acc.obj != nil {
			return true
		}
	}
	return false
}

// appendHelper: h is a module function with one result, a []error, and every
// return hands back `append(list, e…)` where list is h's parameter number li
// and every appended element is one of h's parameters (numbers elems).
func appendHelper(h *ssa.Function) (li int, elems []int, ok bool) {
	if h == nil || h.Blocks == nil || !an.InModule(h) || h.Signature.Results().Len() != 1 || an.ShortType(h.Signature.Results().At(0).Type()) != "[]error" {
		return 0, nil, false
	}
	pidx := func(v ssa.Value) int {
		for i, p := range h.Params {
			if v == ssa.Value(p) {
				return i
			}
		}
		return -1
	}
	li = -1
	seenElem := map[int]bool{}
	rets := an.Returns(h)
	if len(rets) == 0 {
		return 0, nil, false
	}
	for _, ret := range rets {
		c, isCall := ret.Results[0].(*ssa.Call)
		if !isCall || !an.IsCallTo(c, "builtin:append") {
			return 0, nil, false
		}
		i := pidx(c.Call.Args[0])
		if i < 0 || li >= 0 && li != i {
			return 0, nil, false
		}
		li = i
		els := appendedElements(c)
		if len(els) == 0 {
			return 0, nil, false
		}
		for _, e := range els {
			j := pidx(e)
			if j < 0 {
				return 0, nil, false
			}
			seenElem[j] = true
		}
	}
	for j := range seenElem {
		elems = append(elems, j)
	}
	sort.Ints(elems)
	return li, elems, true
}
