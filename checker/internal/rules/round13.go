package rules

import (
	"fmt"

	"golang.org/x/tools/go/ssa"

	"gpcheck/internal/an"
)

// Rules added after the thirteenth seeding round (aliasing and off-by-one).

// listBuiltIsNewMemory (C03, C04, C05): the list SliceDotsReplacer.Replace
// builds is memory of its own. The runs the matcher recorded for the "..."
// of one match share one backing array (they are sub-slices of the list
// matched); a list that starts out as one of those runs and is appended to
// afterwards overwrites the beginning of the next run before it is copied —
// an element of the source is lost and a generated one appears twice. So the
// accumulator every append of the function extends is nil, made here, or an
// earlier append of the same chain: never a slice that came from elsewhere.
func listBuiltIsNewMemory(r *an.Run, rule string) {
	r.Rule(rule)
	f := fn(r, engine, "SliceDotsReplacer.Replace")
	if f == nil {
		return
	}
	anchor := f
	if sec := findIndexLoopsGroup(f, isLenOfPathIn(f, "r.Sections")); len(sec) == 1 {
		f = sec[0].Loop.Header.Parent()
	}
	n := 0
	seen := map[ssa.Value]bool{}
	var walk func(v ssa.Value, from ssa.CallInstruction)
	walk = func(v ssa.Value, from ssa.CallInstruction) {
		if seen[v] {
			return
		}
		seen[v] = true
		switch x := v.(type) {
		case *ssa.Phi:
			for _, e := range x.Edges {
				walk(e, from)
			}
		case *ssa.Const:
			// nil
		case *ssa.MakeSlice:
		case *ssa.Call:
			if an.IsCallTo(x, "builtin:append") {
				walk(x.Call.Args[0], from)
				return
			}
			r.Fail(short(anchor)+"|accumulator-is-own-memory|call", from.Pos(), "the list being built starts from the result of a call (%s): appending to it may write into memory the matcher's recorded runs share", x.Call.Value.Name())
		case *ssa.Slice:
			// items[:0] of the accumulator itself is still the same memory
			walk(x.X, from)
		default:
			r.Fail(short(anchor)+"|accumulator-is-own-memory|"+fmt.Sprintf("%T", v), from.Pos(), "the list being built is (on some path) a slice taken from elsewhere (%s): the recorded runs of one match share a backing array, and appending to one of them overwrites the next", v.String())
		}
	}
	for _, c := range an.CallsTo(f, "builtin:append") {
		call, ok := c.(*ssa.Call)
		if !ok || an.ShortType(call.Type()) != "[]reflect.Value" {
			continue
		}
		n++
		walk(call.Call.Args[0], c)
	}
	r.Check(n >= 2, short(anchor)+"|appends-found", f.Pos(), "the list is built by appends (generated items and recorded runs): %d found", n)
}
