package rules

import (
	"go/constant"
	"go/types"
	"strings"

	"golang.org/x/tools/go/ssa"

	"gpcheck/internal/an"
)

func init() {
	register(&Spec{
		ID:  "C11",
		Run: runC11,
		Explanation: "Decides: R1 who may add or delete imports (closed inventory) — astutil.AddNamedImport/AddImport is called only from ImportReplacer.Replace, astutil.DeleteNamedImport/DeleteImport only from ImportsReplacer.Cleanup, and File.Imports is written only there (reset to nil when empty); " +
			"R2 only matched imports are deleted — the path handed to DeleteNamedImport is the current element of importsData.MatchedImports (filled by ImportsMatcher.Match with m.Path only after a true verdict), the call is reachable exactly under 'replaced by an added import' or 'name no longer used' (replaced || !usesNameAsTopLevel), the per-import lookup targets are fresh in every iteration, and usesNameAsTopLevel prunes the walk only below a selector whose operand is a plain identifier; " +
			"R3 only '+' imports are added — AddNamedImport receives the replacer's own Path, every import replacer of the '+' side is run, and the name used is the captured one unless the metavariable matched an unnamed import; R4 printing never adds or removes imports (FormatOnly is the constant true at both imports.Process sites). " +
			"R2 also: usesNameAsTopLevel gives no file-dependent answer before the walk (no shortcut through an index the parser built). NOT decided: the package-name guess for unnamed imports (filepath.Base of the path — a heuristic on strings; seed C11-5 changes it and is not detectable from the shape of the code); correctness of usesNameAsTopLevel as a use test (shadowing, Ident.Obj), astutil internals, grouping and comment placement." +
			" R6 what ImportMatcher.Match records is the file's own import (its four-row decision table)." +
			" R7 a package name guessed from an import path goes through a module function every return of which is cut at the first non-identifier character (never path.Base / filepath.Base taken raw)." +
			" R8 the name looked for before a matched import is deleted is not reset to \"\" behind the successful lookup of the import's record." +
			" R9 a failed change gives the file up (= C09-R4); R8 also rejects a guess made behind the successful lookup of the record.",
		Trusted:     append([]string{"astutil.AddNamedImport / DeleteNamedImport touch only the import they are given"}, commonTrusted...),
		Assumptions: commonAssumptions,
	})
}

const (
	astutilPath     = "golang.org/x/tools/go/ast/astutil"
	addNamedImport  = astutilPath + ".AddNamedImport"
	addImport       = astutilPath + ".AddImport"
	delNamedImport  = astutilPath + ".DeleteNamedImport"
	delImport       = astutilPath + ".DeleteImport"
	usesImportFn    = astutilPath + ".UsesImport"
	rewriteImportFn = astutilPath + ".RewriteImport"
)

func runC11(r *an.Run) {
	c11WhoMayEdit(r)
	c11OnlyMatchedDeleted(r)
	c11OnlyPlusAdded(r)
	formatOnly(r, "R4-formatting-never-adds-or-removes")
	objectResolutionOn(r, "R5-object-resolution-is-on")
	// what is deleted later is the import the matcher recorded: which file imports a patch import matches,
	// and the name recorded for it, follow the four-row table of ImportMatcher.Match (a "named patch import
	// matches an unnamed file import" row records a name under which the file has no import to delete)
	c10ImportTable(r)
	relabel(r, "R3-import-table", "R6-what-the-matcher-records-is-the-files-import")
	guessedPackageNameIsAnIdentifier(r, "R7-a-guessed-package-name-is-an-identifier")
	recordedNameDecidesDeletion(r, "R8-the-recorded-name-decides-whether-a-matched-import-is-still-used")
	// a change that failed half-way has rewritten code but neither added its '+' imports nor cleaned its '-' imports:
	// the file is given up, whatever other changes of the run did to it
	c06MatchedFlagAs(r, "R9-a-failed-change-gives-the-file-up")
}

func c11WhoMayEdit(r *an.Run) {
	r.Rule("R1-who-may-edit-imports")
	adder, deleter := "(internal/engine.ImportReplacer).Replace", "(internal/engine.ImportsReplacer).Cleanup"
	nAdd, nDel := 0, 0
	for _, f := range r.P.ModuleFuncs() {
		if strings.Contains(an.FuncPkgPath(f), "/tools") {
			continue
		}
		for _, c := range an.Calls(f) {
			switch an.CalleeName(c) {
			case addNamedImport, addImport:
				nAdd++
				r.Check(short(f) == adder || inGroupOf(r, engine, "ImportReplacer.Replace", f), short(f)+"|adds-import", c.Pos(), "imports are added only by %s or its private helpers (found in %s)", adder, short(f))
			case delNamedImport, delImport:
				nDel++
				r.Check(short(f) == deleter || inGroupOf(r, engine, "ImportsReplacer.Cleanup", f), short(f)+"|deletes-import", c.Pos(), "imports are deleted only by %s or its private helpers (found in %s)", deleter, short(f))
			case rewriteImportFn:
				r.Fail(short(f)+"|rewrites-import", c.Pos(), "%s rewrites import paths with astutil.RewriteImport", short(f))
			}
		}
		// writes to File.Imports or to the specs of import declarations
		for _, in := range an.StoresIn(f) {
			st, ok := in.(*ssa.Store)
			if !ok {
				continue
			}
			fa, ok := st.Addr.(*ssa.FieldAddr)
			if !ok {
				continue
			}
			if an.IsNamed(fa.X.Type(), "go/ast", "File") && fieldNameOf(fa) == "Imports" {
				good := short(f) == deleter && an.IsNilConst(st.Val)
				r.Check(good, short(f)+"|writes-File.Imports", st.Pos(), "File.Imports is only reset to nil (when empty) by %s", deleter)
			}
			if an.IsNamed(fa.X.Type(), "go/ast", "ImportSpec") {
				r.Fail(short(f)+"|writes-ImportSpec", st.Pos(), "%s writes a field of an import spec in place", short(f))
			}
			if an.IsNamed(fa.X.Type(), "go/ast", "GenDecl") && fieldNameOf(fa) == "Specs" {
				r.Fail(short(f)+"|writes-GenDecl.Specs", st.Pos(), "%s rewrites the spec list of a declaration in place", short(f))
			}
		}
	}
	r.Count("import add sites", nAdd)
	r.Count("import delete sites", nDel)
	r.Min("import add sites", 1)
	r.Min("import delete sites", 1)
}

func c11OnlyMatchedDeleted(r *an.Run) {
	r.Rule("R2-only-matched-imports-deleted")
	f := fn(r, engine, "ImportsReplacer.Cleanup")
	if f == nil {
		return
	}
	ils := findIndexLoopsGroup(f, isLenOfPathIn(f, "impData.MatchedImports"))
	if !r.Check(len(ils) == 1, short(f)+"|loop", f.Pos(), "Cleanup loops over the matched imports recorded by ImportsMatcher.Match (impData.MatchedImports)") {
		return
	}
	il := ils[0]
	anchor := f
	if g := il.Loop.Header.Parent(); g != f {
		f = g // the deletion loop lives in a helper of Cleanup
	}
	// impData comes from Lookup(d, importsKey, &impData)
	okSrc := false
	for _, c := range an.CallsTo(anchor, dataPath+".Lookup") {
		if strings.Contains(an.Describe(an.Unwrap(c.Common().Args[1])), "importsKey") && derivesFromAlloc(c.Common().Args[2], "impData") {
			okSrc = true
		}
	}
	r.Check(okSrc, short(f)+"|matched-list-source", f.Pos(), "impData is what the matcher stored under importsKey")
	dels := callsInLoop(il.Loop, delNamedImport, delImport)
	if !r.Check(len(dels) == 1, short(f)+"|delete-in-loop", il.If.Pos(), "one deletion site, inside the loop (found %d)", len(dels)) {
		return
	}
	del := dels[0]
	a := del.Common().Args
	r.Check(elemOfIn(anchor, a[len(a)-1], "impData.MatchedImports", il.Index), short(f)+"|deleted-path", del.Pos(), "the path deleted is the matched import of this iteration")
	fileParam := ssa.Value(paramAt(anchor, 1))
	delFrom := a[1]
	if p, ok := delFrom.(*ssa.Parameter); ok && p.Parent() != anchor && an.Actual(p) != nil {
		delFrom = an.Actual(p)
	}
	r.Check(delFrom == fileParam, short(f)+"|deleted-from", del.Pos(), "deleted from the file being rewritten")
	// condition: replaced || !uses
	var usesCall *ssa.Call
	for _, c := range callsInLoop(il.Loop) {
		if an.StaticCallee(c) == r.P.Func(engine, "usesNameAsTopLevel") {
			usesCall = c.(*ssa.Call)
		}
	}
	var replaced ssa.Value
	for b := range il.Loop.Blocks {
		for _, in := range b.Instrs {
			// membership of the name in the set of names the '+' imports were added under (either set form)
			if lk, ok := in.(*ssa.Lookup); ok {
				if mt, isMap := lk.X.Type().Underlying().(*types.Map); isMap && an.ShortType(mt.Key()) == "string" {
					for _, mv := range membershipValues(lk) {
						replaced = mv
					}
				}
			}
			// … or a linear search of the list of those names itself
			if c, ok := in.(*ssa.Call); ok && an.IsCallTo(c, "slices.Contains") && len(c.Call.Args) == 2 && an.ShortType(c.Call.Args[0].Type()) == "[]string" {
				if p, isParam := an.Unwrap(c.Call.Args[0]).(*ssa.Parameter); isParam && p.Parent() == anchor || derivesFromAcrossIn(anchor, c.Call.Args[0], paramAt(anchor, 2)) {
					replaced = c
				}
			}
		}
	}
	if r.Check(usesCall != nil && replaced != nil, short(f)+"|condition-atoms", del.Pos(), "the deletion is decided by 'replaced by an added import' and 'name still used'") {
		// path-sensitive decision table of one iteration over the atoms {replaced, uses}; every other
		// condition of the loop body is a free atom the outcome must not depend on
		hdr := il.Loop.Header
		paths, err := an.EnumeratePathsFrom(hdr.Succs[0], func(c ssa.Value) string {
			switch {
			case c == replaced:
				return "replaced"
			case c == ssa.Value(usesCall):
				return "uses"
			}
			return ""
		}, func(b *ssa.BasicBlock) bool { return b == hdr }, 4096, true)
		if err != nil {
			r.Undecided(short(f)+"|deletion-table", del.Pos(), "cannot extract the deletion decision of one iteration: %v", err)
		} else {
			okOnly, okAlways := true, true
			n := 0
			for _, p := range paths {
				deletes := false
				for _, b := range p.Blocks {
					if b == del.Block() {
						deletes = true
					}
				}
				rep, repKnown := p.Atoms["replaced"]
				use, useKnown := p.Atoms["uses"]
				n++
				// on this path, could (replaced || !uses) be false / true?
				mayBeFalse := !(repKnown && rep) && !(useKnown && !use)
				mustBeTrue := (repKnown && rep) || (useKnown && !use)
				if deletes && mayBeFalse && !mustBeTrue {
					// deletes although neither enabling atom is established on the path
					if !(repKnown && useKnown) || (!rep && use) {
						okOnly = false
					}
				}
				if !deletes && mustBeTrue {
					okAlways = false
				}
			}
			r.Check(okOnly, short(f)+"|only-when-unused-or-replaced", del.Pos(), "a matched import is deleted only when an added import replaces its name or the name is no longer used in the file (%d paths of one iteration)", n)
			r.Check(okAlways, short(f)+"|always-when-unused-or-replaced", del.Pos(), "and it is always deleted then ('-' imports that are no longer referred to are gone)")
		}
		usesOn := usesCall.Call.Args[0]
		if p, ok := usesOn.(*ssa.Parameter); ok && p.Parent() != anchor && an.Actual(p) != nil {
			usesOn = an.Actual(p)
		}
		r.Check(usesOn == fileParam, short(f)+"|uses-file", usesCall.Pos(), "usage is tested on the rewritten file")
	}
	// nothing is carried from one matched import to the next: besides the position in the list, the loop header
	// merges no value that an iteration assigns (names declared in front of the loop keep what the previous
	// import left in them when this one records nothing)
	for _, in := range il.Loop.Header.Instrs {
		phi, ok := in.(*ssa.Phi)
		if !ok || ssa.Value(phi) == il.Index || phi == il.Phi {
			continue
		}
		carries := false
		for i, e := range phi.Edges {
			if !il.Loop.Blocks[phi.Block().Preds[i]] || e == ssa.Value(phi) {
				continue
			}
			if add, ok := e.(*ssa.BinOp); ok && add.X == ssa.Value(phi) {
				if _, isc := an.ConstInt(add.Y); isc {
					continue
				}
			}
			carries = true
		}
		name := phi.Comment
		if name == "" {
			name = phi.Name()
		}
		r.Check(!carries, short(f)+"|carried|"+name, phi.Pos(), "%s does not carry the value of %s from one matched import to the next", short(f), name)
	}
	// per-iteration freshness of lookup targets
	for _, c := range callsInLoop(il.Loop, dataPath+".Lookup") {
		tgt := an.Root(an.Unwrap(c.Common().Args[2]))
		al, ok := tgt.(*ssa.Alloc)
		fresh := ok && il.Loop.Blocks[al.Block()]
		checked := false
		if call, isCall := c.(*ssa.Call); isCall && len(an.BranchesOn(f, call)) > 0 {
			checked = true
		}
		r.Check(fresh && checked, short(f)+"|per-import-state|"+an.Describe(an.Unwrap(c.Common().Args[1])), c.Pos(), "what is known about one matched import is looked up into a fresh variable in every iteration and used only when the lookup succeeded (nothing carries over from the previous import)")
	}
	// usesNameAsTopLevel: pruning rule
	if u := fn(r, engine, "usesNameAsTopLevel"); u != nil {
		insp := an.CallsTo(u, "go/ast.Inspect")
		if r.Check(len(insp) == 1 && an.Unwrap(insp[0].Common().Args[0]) == ssa.Value(paramAt(u, 0)), short(u)+"|inspect-file", u.Pos(), "the whole file is inspected") {
			var clo *ssa.Function
			switch v := an.Unwrap(insp[0].Common().Args[1]).(type) {
			case *ssa.MakeClosure:
				clo, _ = v.Fn.(*ssa.Function)
			case *ssa.Function:
				clo = v
			}
			// the answer "not used" is given only after the walk: no return of false before ast.Inspect ran
			early := successWithoutAction(u, insp[0])
			if early != nil {
				// a shortcut that looks only at the name (blank, empty) is no statement about the file
				onFile := false
				for _, cd := range r.P.AllCtrlDeps(early.Block()) {
					if iff, ok := cd.Block.Instrs[len(cd.Block.Instrs)-1].(*ssa.If); ok && derivesFrom(iff.Cond, paramAt(u, 0)) {
						onFile = true
					}
				}
				if !onFile {
					early = nil
				}
			}
			r.Check(early == nil, short(u)+"|no-answer-before-the-walk", insp[0].Pos(), "usesNameAsTopLevel answers only after walking the file as it is now: no shortcut (an index built by the parser such as File.Unresolved, a cache) decides before the walk — earlier changes of the same run have edited the tree in place")
			if r.Check(clo != nil, short(u)+"|callback", u.Pos(), "inspect callback is a function literal") {
				// return false only when sel.X is an *ast.Ident
				var identOK []an.CtrlEdge
				for _, b := range clo.Blocks {
					for _, in := range b.Instrs {
						ta, ok := in.(*ssa.TypeAssert)
						if !ok || !ta.CommaOk || an.ShortType(ta.AssertedType) != "*ast.Ident" {
							continue
						}
						for _, ex := range an.ExtractOf(ta, 1) {
							identOK = append(identOK, edgesWhen(an.BranchesOn(clo, ex), true)...)
						}
					}
				}
				var falseRets []*ssa.Return
				for _, ret := range an.Returns(clo) {
					if b, ok := an.ConstBool(ret.Results[0]); ok && !b {
						falseRets = append(falseRets, ret)
					} else if !ok {
						r.Undecided(short(clo)+"|return", ret.Pos(), "the inspect callback returns a computed value")
					}
				}
				bad := an.ReachableReturnsWithout(clo, falseRets, identOK)
				r.Check(len(identOK) > 0 && len(bad) == 0, short(clo)+"|prune-only-below-ident-selector", clo.Pos(), "the walk stops descending only below a selector whose operand is a plain identifier (nothing below it can refer to a package); chained selectors like pkg.New().Run() are still searched")
				// used is set only when name matches and Obj == nil
				for _, in := range an.StoresIn(clo) {
					st, ok := in.(*ssa.Store)
					if !ok {
						continue
					}
					if _, isFree := st.Addr.(*ssa.FreeVar); isFree {
						nameEq := false
						for _, cd := range r.P.AllCtrlDeps(st.Block()) {
							iff := cd.Block.Instrs[len(cd.Block.Instrs)-1].(*ssa.If)
							for v := range an.BackSlice(iff.Cond, an.SliceOpts{}) {
								if fv, ok := v.(*ssa.FreeVar); ok && fv.Name() == "name" {
									nameEq = true
								}
								if u, ok := v.(*ssa.UnOp); ok {
									if fv, ok := u.X.(*ssa.FreeVar); ok && fv.Name() == "name" {
										nameEq = true
									}
								}
							}
						}
						r.Check(nameEq, short(clo)+"|used-needs-name", st.Pos(), "a use is recorded only for selectors on the requested name")
					}
				}
			}
		}
	}
}

// mustPassIter: with the edges removed, every path from start reaches through
// before the next iteration or a function exit.
func mustPassIter(start, through *ssa.BasicBlock, l *an.Loop, removed []an.CtrlEdge) bool {
	if start == through {
		return true
	}
	skip := func(b *ssa.BasicBlock, i int) bool { return b.Succs[i] == through || skipEdges(removed)(b, i) }
	reach := an.Reach([]*ssa.BasicBlock{start}, skip)
	if reach[l.Header] {
		return false
	}
	for b := range reach {
		if len(b.Succs) == 0 {
			return false
		}
	}
	return true
}

func c11OnlyPlusAdded(r *an.Run) {
	r.Rule("R3-only-plus-imports-added")
	f := fn(r, engine, "ImportReplacer.Replace")
	if f == nil {
		return
	}
	for _, c := range an.CallsTo(f, addNamedImport, addImport) {
		// every '+' import is handed to astutil (which itself skips an import that is present with the same
		// name and path): no other way out of Replace except a failure
		skipped := successWithout(f, c)
		r.Check(skipped == nil, short(f)+"|always-added", c.Pos(), "an import on a '+' line is always handed to astutil.AddNamedImport: the only returns that come before it are failures (a shortcut such as 'the path is imported already under some name' leaves the '+' import missing)")
		a := c.Common().Args
		r.Check(an.Path(a[len(a)-1]) == "r.Path", short(f)+"|added-path", c.Pos(), "the import added is the '+' import's own path (r.Path)")
		r.Check(a[1] == ssa.Value(paramAt(f, 2)), short(f)+"|added-to", c.Pos(), "added to the file being rewritten")
		// name: empty, or the captured name
		if len(a) == 4 {
			nameOK := true
			leaves := valueLeaves(a[2], 0)
			if len(leaves) < 2 {
				nameOK = false // a single source: the name cannot be both "none" and "the captured one"
			}
			for _, e := range leaves {
				if s, ok := an.ConstString(e); ok && s == "" {
					continue
				}
				// must derive from r.Name.Replace(...)
				fromReplacer := false
				for v := range an.BackSlice(e, an.SliceOpts{ThroughCalls: true}) {
					if call, ok := v.(*ssa.Call); ok && an.IsCallTo(call, replReplace) && call.Parent().Signature.Recv() != nil && an.Path(an.CallArgs(call)[0]) == an.CanonParamName(call.Parent().Signature.Recv())+".Name" {
						fromReplacer = true
					}
				}
				if !fromReplacer {
					nameOK = false
				}
			}
			r.Check(nameOK, short(f)+"|added-name", c.Pos(), "the import is added unnamed, or under the name reproduced by the '+' side's name replacer (the captured name for a metavariable)")
		}
	}
	// Unnamed guard: the name replacer is skipped exactly when the metavariable matched an unnamed import
	unn := false
	for _, g := range helperGroup(f, 2) {
		for _, b := range g.Blocks {
			if iff, ok := b.Instrs[len(b.Instrs)-1].(*ssa.If); ok {
				inner, _ := an.StripNot(iff.Cond)
				// a test of what the import matcher recorded about the name (a flag, or a comparison of an
				// enum field with a constant)
				ops := []ssa.Value{inner}
				if cmp, ok := inner.(*ssa.BinOp); ok {
					ops = []ssa.Value{cmp.X, cmp.Y}
				}
				for _, o := range ops {
					if p := an.Path(o); strings.HasSuffix(p, ".Unnamed") || strings.HasPrefix(p, "mdata.") {
						unn = true
					}
				}
			}
		}
	}
	r.Check(unn, short(f)+"|unnamed-guard", f.Pos(), "a metavariable that matched an unnamed import keeps the import unnamed")
	// all '+' imports are processed
	if g := fn(r, engine, "ImportsReplacer.Replace"); g != nil {
		ils := findIndexLoops(g, isLenOfPath("r.Imports"))
		if r.Check(len(ils) == 1, short(g)+"|loop", g.Pos(), "one loop over all '+' imports") {
			var act ssa.CallInstruction
			for _, c := range callsInLoop(ils[0].Loop) {
				if an.StaticCallee(c) == f {
					act = c
				}
			}
			if r.Check(act != nil, short(g)+"|each", ils[0].If.Pos(), "each '+' import is added") {
				msg := ils[0].CoversAll(act, an.ReturnsFailure)
				r.Check(msg == "", short(g)+"|covers-all", act.Pos(), "every import on a '+' line is present afterwards %s", msg)
			}
		}
	}
	// compile side: Path from goast.ImportPath(imp), all imports compiled
	if g := fn(r, engine, "replacerCompiler.compileImports"); g != nil {
		ils := findIndexLoops(g, isLenOfPath("imps"))
		r.Check(len(ils) == 1, short(g)+"|loop", g.Pos(), "all '+' imports are compiled")
	}
}

// formatOnly: both imports.Process call sites pass FormatOnly: true (shared by
// C05-R4 and C11-R4), and no other import-fixing entry point is used.
func formatOnly(r *an.Run, rule string) {
	r.Rule(rule)
	n := 0
	for _, f := range r.P.ModuleFuncs() {
		for _, c := range an.Calls(f) {
			name := an.CalleeName(c)
			if strings.HasPrefix(name, "golang.org/x/tools/imports.") && name != importsProcess {
				r.Fail(short(f)+"|"+name, c.Pos(), "%s calls %s", short(f), name)
			}
			if name == "go/ast.SortImports" || name == "go/format.Source" {
				r.Info(short(f)+"|"+name, c.Pos(), "%s calls %s", short(f), name)
			}
			if name != importsProcess {
				continue
			}
			// the options value: a literal at the call, or what a module function returns (a literal on every return)
			lits := optionsLiterals(c)
			val := ""
			for i, al := range lits {
				v := ""
				for _, u := range *al.Referrers() {
					if fa, ok := u.(*ssa.FieldAddr); ok && fieldNameOf(fa) == "FormatOnly" {
						for _, w := range *fa.Referrers() {
							if st, ok := w.(*ssa.Store); ok {
								if v != "" && v != an.Describe(st.Val) {
									v = "several values"
								} else {
									v = an.Describe(st.Val)
								}
							}
						}
					}
				}
				if i > 0 && v != val {
					v = "differs between returns"
				}
				val = v
			}
			r.Check(val == "const:true", short(f)+"|FormatOnly", c.Pos(), "imports.Process is given an options literal with FormatOnly: true (it sorts and groups but never adds or removes an import); got %q", val)
		}
	}
	// both pipelines go through such a call (each its own, or one shared helper)
	for _, root := range []*ssa.Function{r.P.Func(mainP, "mainCmd.Run"), r.P.Func(patchP, "File.Apply")} {
		if root != nil && len(callsToGroup(root, importsProcess)) > 0 {
			n++
		}
	}
	r.Count("imports.Process call sites", n)
	r.Min("imports.Process call sites", 2)
}

// optionsLiterals resolves the options argument of an imports.Process call to
// the composite literal(s) it denotes: a literal at the call, or what a module
// function returns (a fresh literal on every return). Empty when it is
// anything else.
func optionsLiterals(c ssa.CallInstruction) []*ssa.Alloc {
	var lits []*ssa.Alloc
	switch o := c.Common().Args[2].(type) {
	case *ssa.Alloc:
		lits = append(lits, o)
	case *ssa.Call:
		if h := an.StaticCallee(o); h != nil && an.InModule(h) && h.Blocks != nil {
			for _, ret := range an.Returns(h) {
				if al, ok := ret.Results[0].(*ssa.Alloc); ok && len(ret.Results) == 1 {
					lits = append(lits, al)
				} else {
					return nil
				}
			}
		}
	}
	return lits
}

// valueLeaves resolves a value to the values it can be: through phis, through
// a field of a local struct (what was stored into that field, or the same
// field of a struct value that was assigned to it whole) and through a field
// of the struct a module helper returns (what the helper stored into that
// field of the value it returns).
func valueLeaves(v ssa.Value, depth int) []ssa.Value {
	if depth > 8 {
		return []ssa.Value{v}
	}
	switch x := v.(type) {
	case *ssa.Phi:
		var out []ssa.Value
		for _, e := range x.Edges {
			if e != v {
				out = append(out, valueLeaves(e, depth+1)...)
			}
		}
		return out
	case *ssa.UnOp:
		if fa, ok := x.X.(*ssa.FieldAddr); ok {
			if al, ok := fa.X.(*ssa.Alloc); ok {
				if out := fieldLeavesOfLocal(al, fa.Field, x.Type(), depth); len(out) > 0 {
					return out
				}
			}
		}
	case *ssa.Field:
		if out := fieldLeavesOfValue(x.X, x.Field, x.Type(), x.Parent(), depth); len(out) > 0 {
			return out
		}
	case *ssa.Extract:
		// one of several results of a helper of the module: what the helper returns there
		if call, ok := x.Tuple.(*ssa.Call); ok {
			if h := an.StaticCallee(call); h != nil && an.InModule(h) && h.Blocks != nil {
				var out []ssa.Value
				for _, ret := range an.Returns(h) {
					if x.Index < len(ret.Results) {
						out = append(out, valueLeaves(returnedValue(ret, x.Index), depth+1)...)
					}
				}
				if len(out) > 0 {
					return out
				}
			}
		}
	}
	return []ssa.Value{v}
}

// fieldLeavesOfLocal: the values field k of the local struct variable al can hold.
func fieldLeavesOfLocal(al *ssa.Alloc, k int, t types.Type, depth int) []ssa.Value {
	if al.Referrers() == nil {
		return nil
	}
	var out []ssa.Value
	n := 0
	whole := false
	for _, u := range *al.Referrers() {
		switch y := u.(type) {
		case *ssa.FieldAddr:
			if y.Field != k || y.Referrers() == nil {
				continue
			}
			for _, w := range *y.Referrers() {
				if st, ok := w.(*ssa.Store); ok && st.Addr == ssa.Value(y) {
					n++
					out = append(out, valueLeaves(st.Val, depth+1)...)
				}
			}
		case *ssa.Store:
			if y.Addr == ssa.Value(al) { // the struct assigned whole
				n++
				whole = true
				sub := fieldLeavesOfValue(y.Val, k, t, al.Parent(), depth+1)
				if len(sub) == 0 {
					return nil // what the field holds is not known (a parameter, a value from elsewhere)
				}
				out = append(out, sub...)
			}
		}
	}
	if n == 0 {
		return nil
	}
	if !whole && zeroPossible(al, k) {
		out = append(out, zeroOf(t, al.Parent()))
	}
	return out
}

// fieldLeavesOfValue: the values field k of the struct value sv can hold.
func fieldLeavesOfValue(sv ssa.Value, k int, t types.Type, in *ssa.Function, depth int) []ssa.Value {
	if depth > 8 {
		return nil
	}
	var call *ssa.Call
	idx := 0
	switch b := sv.(type) {
	case *ssa.Const:
		return []ssa.Value{zeroOf(t, in)}
	case *ssa.UnOp:
		if al, ok := b.X.(*ssa.Alloc); ok {
			out := fieldLeavesOfLocal(al, k, t, depth+1)
			if len(out) == 0 {
				out = []ssa.Value{zeroOf(t, in)} // a literal without that field
			}
			return out
		}
		return nil
	case *ssa.Phi:
		var out []ssa.Value
		for _, e := range b.Edges {
			out = append(out, fieldLeavesOfValue(e, k, t, in, depth+1)...)
		}
		return out
	case *ssa.Extract:
		call, _ = b.Tuple.(*ssa.Call)
		idx = b.Index
	case *ssa.Call:
		call = b
	}
	if call == nil {
		return nil
	}
	h := an.StaticCallee(call)
	if h == nil || !an.InModule(h) || h.Blocks == nil {
		return nil
	}
	var out []ssa.Value
	for _, ret := range an.Returns(h) {
		if idx < len(ret.Results) {
			out = append(out, fieldLeavesOfValue(ret.Results[idx], k, t, h, depth+1)...)
		}
	}
	return out
}

// zeroPossible: the field may still hold its zero value where the struct is
// read — there is no store to it in the entry block of the function.
func zeroPossible(al *ssa.Alloc, field int) bool {
	if al.Referrers() == nil {
		return true
	}
	for _, u := range *al.Referrers() {
		if fa, ok := u.(*ssa.FieldAddr); ok && fa.Field == field && fa.Referrers() != nil {
			for _, w := range *fa.Referrers() {
				if st, ok := w.(*ssa.Store); ok && st.Block() == al.Parent().Blocks[0] {
					return false
				}
			}
		}
	}
	return true
}

func zeroOf(t types.Type, f *ssa.Function) ssa.Value {
	if b, ok := t.Underlying().(*types.Basic); ok && b.Info()&types.IsString != 0 {
		return ssa.NewConst(constant.MakeString(""), t)
	}
	return ssa.NewConst(nil, t)
}
