package rules

import (
	"go/token"
	"sort"
	"strings"

	"golang.org/x/tools/go/ssa"

	"gpcheck/internal/an"
)

func init() {
	register(&Spec{
		ID:  "C10",
		Run: runC10,
		Explanation: "Decides: R1 guard order — in FileMatcher.Match the traversal is reachable only after the package test passed and ImportsMatcher.Match returned true; R2 the package guard rejects exactly when m.Package != \"\" and m.Package != file.Name.Name (full decision table over the two atoms); " +
			"R3 the import table of ImportMatcher.Match, extracted as a full decision table over the atoms {import absent, patch import unnamed, file import unnamed, patch name is a metavariable}, equals the documented one (absent -> no match; unnamed/unnamed -> match; unnamed/named -> no match; literal-named/unnamed -> no match; metavariable-named/unnamed -> verdict of the name matcher on a synthetic identifier carrying the patch-side name; named/named -> verdict of the name matcher on the file's name), and NameIsMetavar is LookupVar(name) == IdentMetavarType; " +
			"R4 every listed import must match (loop covers all, a failed import returns false; ok-discipline); R5 a fake package clause is ignored: pgo.Parse clears Package exactly when the first augmentation is a FakePackage; " +
			"R6 imports are looked up by unquoted path over all of file.Imports, and the lookup is a pure function of the file (no package-level state anywhere in the matching code). " +
			"R7 the guards reach the matcher — compileFile builds the FileMatcher's Package from file.Package and its Imports from compileImports(file.Imports) of the very pattern file it compiles, compileChange compiles the matcher from Patch.Minus, pgo.Parse fills Package/Imports from what go/parser read, and no other code constructs a pgo.File without copying both guard fields or overwrites them afterwards. " +
			"NOT decided: files importing one path twice in different forms (first spec wins); dot/blank forms are handled by the generic name matcher (covered by C01's rules)." +
			" R9 the guards never see a half-applied change.",
		Trusted:     commonTrusted,
		Assumptions: commonAssumptions,
	})
}

func runC10(r *an.Run) {
	c10GuardOrder(r)
	c10PackageGuard(r)
	c10ImportTable(r)
	c10AllImports(r)
	c10FakePackage(r)
	c10Lookup(r)
	noPackageLevelState(r, "R6-lookup-by-unquoted-path")
	c10GuardsReachMatcher(r)
	if m := buildRunModel(r); m != nil {
		everyParsedFileReachesApply(r, m, "R8-only-the-matcher-evaluates-the-guards")
	}
	// the guards of a change are evaluated against the tree the earlier changes of the run left behind.
	// FileReplacer.Replace renames the package clause before it runs the node replacers, which are what can
	// fail: a tree on which Replace failed carries a package clause the file never had, so once Replace
	// fails the runner must give the file up — no later change may be guarded by, and written with, that state
	c06MatchedFlagAs(r, "R9-guards-never-see-a-half-applied-change")
}

func c10GuardOrder(r *an.Run) {
	r.Rule("R1-guard-order")
	f, apply, _ := traversalClosure(r)
	if f == nil || apply == nil {
		return
	}
	var im *ssa.Call
	for _, vc := range an.VerdictCalls(f) {
		if an.StaticCallee(vc.Call) == r.P.Func(engine, "ImportsMatcher.Match") {
			im = vc.Call
			trueEdges := edgesWhen(an.BranchesOn(f, vc.Verdict), true)
			r.Check(len(trueEdges) > 0 && unreachableWithout(apply.Block(), trueEdges), short(f)+"|imports-before-traversal", apply.Pos(), "the file is traversed only after all import guards matched")
			r.Check(an.Path(an.CallArgs(vc.Call)[0]) == "m.Imports" && an.CallArgs(vc.Call)[1] == ssa.Value(paramAt(f, 0)), short(f)+"|imports-args", vc.Call.Pos(), "the import guards are m.Imports applied to the file")
		}
	}
	r.Check(im != nil, short(f)+"|imports-guard", f.Pos(), "FileMatcher.Match consults the import guards")
}

func c10PackageGuard(r *an.Run) {
	r.Rule("R2-package-guard")
	f := fn(r, engine, "FileMatcher.Match")
	if f == nil {
		return
	}
	var imBlock *ssa.BasicBlock
	for _, vc := range an.VerdictCalls(f) {
		if an.StaticCallee(vc.Call) == r.P.Func(engine, "ImportsMatcher.Match") {
			imBlock = vc.Call.Block()
		}
	}
	if imBlock == nil {
		return
	}
	classify := func(cond ssa.Value) string {
		cmp, ok := cond.(*ssa.BinOp)
		if !ok || (cmp.Op != token.NEQ && cmp.Op != token.EQL) {
			return ""
		}
		x, y := an.Path(cmp.X), an.Path(cmp.Y)
		cx, xc := an.ConstString(cmp.X)
		cy, yc := an.ConstString(cmp.Y)
		name := ""
		switch {
		case x == "m.Package" && yc && cy == "", y == "m.Package" && xc && cx == "":
			name = "patch-has-package"
		case x == "m.Package" && y == "file.Name.Name", y == "m.Package" && x == "file.Name.Name":
			name = "package-differs"
		default:
			return ""
		}
		if cmp.Op == token.EQL {
			return "!" + name
		}
		return name
	}
	paths, err := an.EnumeratePaths(f, func(c ssa.Value) string {
		n := classify(c)
		return strings.TrimPrefix(n, "!")
	}, func(b *ssa.BasicBlock) bool { return b == imBlock }, 64)
	if err != nil {
		r.Undecided(short(f)+"|table", f.Pos(), "cannot extract the package guard's decision table: %v", err)
		return
	}
	// polarity fix for == forms
	neg := map[string]bool{}
	for _, b := range f.Blocks {
		if iff, ok := b.Instrs[len(b.Instrs)-1].(*ssa.If); ok {
			inner, _ := an.StripNot(iff.Cond)
			if n := classify(inner); strings.HasPrefix(n, "!") {
				neg[strings.TrimPrefix(n, "!")] = true
			}
		}
	}
	_, table := an.FullTable(paths, func(p an.DPath) string {
		if p.End == imBlock {
			return "continue"
		}
		return "reject"
	})
	want := map[string]string{}
	for _, has := range []bool{false, true} {
		for _, diff := range []bool{false, true} {
			h, d := has != neg["patch-has-package"], diff != neg["package-differs"]
			key := "package-differs=" + tf(d) + ",patch-has-package=" + tf(h)
			if has && diff {
				want[key] = "reject"
			} else {
				want[key] = "continue"
			}
		}
	}
	good := len(table) == 4
	for k, v := range want {
		if table[k] != v {
			good = false
		}
	}
	r.Check(good, short(f)+"|table", f.Pos(), "the change is rejected for a file exactly when the patch names a package and the file's package differs (extracted table %v)", sortedTable(table))
	r.Count("package guard rows", len(table))
	r.Min("package guard rows", 4)
}

func tf(b bool) string {
	if b {
		return "T"
	}
	return "F"
}

func sortedTable(t map[string]string) []string {
	var out []string
	for k, v := range t {
		out = append(out, k+" -> "+v)
	}
	sort.Strings(out)
	return out
}

func c10ImportTable(r *an.Run) {
	r.Rule("R3-import-table")
	f := fn(r, engine, "ImportMatcher.Match")
	if f == nil {
		return
	}
	var spec *ssa.Call
	for _, c := range an.CallsTo(f, goastPath+".FindImportSpec") {
		spec = c.(*ssa.Call)
	}
	if !r.Check(spec != nil, short(f)+"|find", f.Pos(), "the import is looked up with goast.FindImportSpec") {
		return
	}
	r.Check(spec.Call.Args[0] == ssa.Value(paramAt(f, 0)) && an.Path(spec.Call.Args[1]) == "m.Path", short(f)+"|find-args", spec.Pos(), "looked up in the file under test by the patch import's path")
	isSpecName := func(v ssa.Value) bool {
		u, ok := v.(*ssa.UnOp)
		if !ok {
			return false
		}
		fa, ok := u.X.(*ssa.FieldAddr)
		return ok && fa.X == ssa.Value(spec) && fieldNameOf(fa) == "Name"
	}
	classify := func(cond ssa.Value) string {
		if an.Path(cond) == "m.NameIsMetavar" {
			return "name-is-metavar"
		}
		cmp, ok := cond.(*ssa.BinOp)
		if !ok || cmp.Op != token.EQL && cmp.Op != token.NEQ {
			return ""
		}
		var subj ssa.Value
		if an.IsNilConst(cmp.Y) {
			subj = cmp.X
		} else if an.IsNilConst(cmp.X) {
			subj = cmp.Y
		} else {
			return ""
		}
		name := ""
		switch {
		case subj == ssa.Value(spec):
			name = "absent"
		case an.Path(subj) == "m.Name":
			name = "patch-unnamed"
		case isSpecName(subj):
			name = "file-unnamed"
		default:
			return ""
		}
		if cmp.Op == token.NEQ {
			return "!" + name
		}
		return name
	}
	neg := map[string]bool{}
	paths, err := an.EnumeratePaths(f, func(c ssa.Value) string {
		n := classify(c)
		if strings.HasPrefix(n, "!") {
			neg[n[1:]] = true
			return n[1:]
		}
		return n
	}, nil, 128)
	if err != nil {
		r.Undecided(short(f)+"|table", f.Pos(), "cannot extract the import decision table: %v", err)
		return
	}
	vidx, _ := an.VerdictIndex(f.Signature)
	outcome := func(p an.DPath) string {
		ret, ok := p.End.Instrs[len(p.End.Instrs)-1].(*ssa.Return)
		if !ok {
			return "panic"
		}
		v := p.ResolveOnPath(ret.Results[vidx])
		if b, ok := an.ConstBool(v); ok {
			return tf(b)
		}
		if cmp, ok := v.(*ssa.BinOp); ok && cmp.Op == token.EQL {
			if an.IsNilConst(cmp.Y) && isSpecName(cmp.X) || an.IsNilConst(cmp.X) && isSpecName(cmp.Y) {
				return "file-unnamed?"
			}
		}
		if ex, ok := v.(*ssa.Extract); ok {
			if c, ok := ex.Tuple.(*ssa.Call); ok && an.IsCallTo(c, matcherMatch) && an.Path(an.CallArgs(c)[0]) == "m.Name" {
				// what is matched
				arg := an.CallArgs(c)[1]
				for v := range an.BackSlice(arg, an.SliceOpts{ThroughCalls: true, ThroughMemory: true}) {
					if isSpecName(v) {
						return "match(file-name)"
					}
				}
				for v := range an.BackSlice(arg, an.SliceOpts{ThroughCalls: true, ThroughMemory: true}) {
					if al, ok := v.(*ssa.Alloc); ok && strings.HasSuffix(an.ShortType(al.Type()), "ast.Ident") {
						// synthetic identifier: its Name must be m.NameS
						for _, u := range *al.Referrers() {
							if fa, ok := u.(*ssa.FieldAddr); ok && fieldNameOf(fa) == "Name" {
								for _, w := range *fa.Referrers() {
									if st, ok := w.(*ssa.Store); ok && an.Path(st.Val) == "m.NameS" {
										return "match(synthetic-ident-named-as-in-patch)"
									}
								}
							}
						}
						return "match(synthetic-ident)"
					}
				}
				return "match(?)"
			}
		}
		return "value:" + v.String()
	}
	_, table := an.FullTable(paths, outcome)
	// normalise polarity of atoms that the code tests in negated form
	expect := func(absent, pUnnamed, fUnnamed, meta bool) string {
		switch {
		case absent:
			return "F"
		case pUnnamed:
			return "file-unnamed?"
		case fUnnamed && !meta:
			return "F"
		case fUnnamed && meta:
			return "match(synthetic-ident-named-as-in-patch)"
		default:
			return "match(file-name)"
		}
	}
	good := true
	rows := 0
	var diffs []string
	for mask := 0; mask < 16; mask++ {
		vals := map[string]bool{"absent": mask&1 != 0, "patch-unnamed": mask&2 != 0, "file-unnamed": mask&4 != 0, "name-is-metavar": mask&8 != 0}
		var parts []string
		for _, a := range []string{"absent", "file-unnamed", "name-is-metavar", "patch-unnamed"} {
			parts = append(parts, a+"="+tf(vals[a] != neg[a]))
		}
		key := strings.Join(parts, ",")
		got, ok := table[key]
		if !ok {
			good = false
			diffs = append(diffs, key+": missing")
			continue
		}
		rows++
		want := expect(vals["absent"], vals["patch-unnamed"], vals["file-unnamed"], vals["name-is-metavar"])
		// when the file import is absent the spec.Name test is never reached: outcome F whatever the rest
		if got != want {
			good = false
			diffs = append(diffs, key+": got "+got+" want "+want)
		}
	}
	r.Check(good, short(f)+"|table", f.Pos(), "the 16-row decision table of ImportMatcher.Match equals the documented import table %v", diffs)
	r.Count("import table rows", rows)
	r.Min("import table rows", 16)
	r.Extra["C10_import_table"] = sortedTable(table)

	// NameIsMetavar := LookupVar(name) == IdentMetavarType
	if g := fn(r, engine, "matcherCompiler.compileImport"); g != nil {
		identT := engineConst(r, "IdentMetavarType")
		good := false
		for _, b := range g.Blocks {
			for _, in := range b.Instrs {
				cmp, ok := in.(*ssa.BinOp)
				if !ok || cmp.Op != token.EQL {
					continue
				}
				c, isCall := cmp.X.(*ssa.Call)
				k, isConst := an.ConstInt(cmp.Y)
				if isCall && isConst && an.StaticCallee(c) == r.P.Func(engine, "Meta.LookupVar") && k == identT {
					good = true
				}
			}
		}
		r.Check(good, short(g)+"|NameIsMetavar", g.Pos(), "NameIsMetavar is LookupVar(name) == IdentMetavarType: only an identifier metavariable may stand for 'any name or none'")
		r.Check(len(an.CallsTo(g, goastPath+".ImportPath")) == 1, short(g)+"|path", g.Pos(), "the guard's path is the unquoted import path of the patch import")
	}
}

func c10AllImports(r *an.Run) {
	r.Rule("R4-all-imports-must-match")
	f := fn(r, engine, "ImportsMatcher.Match")
	if f == nil {
		return
	}
	ils := findIndexLoops(f, isLenOfPath("m.Imports"))
	if !r.Check(len(ils) == 1, short(f)+"|loop", f.Pos(), "one loop over all import guards") {
		return
	}
	il := ils[0]
	var act *ssa.Call
	for _, c := range callsInLoop(il.Loop) {
		if an.StaticCallee(c) == r.P.Func(engine, "ImportMatcher.Match") {
			act = c.(*ssa.Call)
		}
	}
	if !r.Check(act != nil, short(f)+"|each", il.If.Pos(), "each import guard is evaluated") {
		return
	}
	msg := il.CoversAll(act, an.ReturnsFailure)
	r.Check(msg == "" && il.Start == 0 && il.Step == 1, short(f)+"|covers-all", act.Pos(), "every import of the '-' side must match; the loop is left early only with a false verdict %s", msg)
	// … and success is reported only after that loop: every return that may answer true lies behind the
	// loop's regular exit (no "nothing to check" shortcut in front of it that depends on anything but the
	// guard list itself being empty — an empty list leaves the loop at once anyway)
	vidx, _ := an.VerdictIndex(f.Signature)
	exit := il.If.Block().Succs[1]
	for _, ret := range an.PossiblyTrueReturns(f, vidx) {
		good := ret.Block() == exit || exit.Dominates(ret.Block())
		r.Check(good, short(f)+"|success-only-after-all-guards", ret.Pos(), "the import guards are reported as satisfied only after every one of them was evaluated (no success return that bypasses the loop)")
	}
	n := an.OkDiscipline(r, f)
	r.Count("import sub-match sites", n)
	r.Min("import sub-match sites", 1)
	// the matched list records m.Path of matched imports only
	for _, c := range an.CallsTo(f, "builtin:append") {
		call := c.(*ssa.Call)
		if an.ShortType(call.Type()) != "[]string" {
			continue
		}
		vc := an.VerdictCalls(f)
		okAfter := false
		for _, v := range vc {
			if v.Verdict != nil && unreachableWithout(call.Block(), edgesWhen(an.BranchesOn(f, v.Verdict), true)) {
				okAfter = true
			}
		}
		r.Check(okAfter, short(f)+"|matched-list", call.Pos(), "a path is recorded as matched only after its guard matched")
	}
}

func c10FakePackage(r *an.Run) {
	r.Rule("R5-fake-package-ignored")
	anchor := fn(r, pgoRel, "Parse")
	if anchor == nil {
		return
	}
	// clearing points: a store of "" into File.Package, or the edge on which "" flows into the value that
	// is stored there. Each must be reachable, and unreachable when the first augmentation is NOT the fake
	// package clause (hypothesis: the comma-ok of augs[0].(*augment.FakePackage) is false).
	type point struct {
		blk *ssa.BasicBlock
		pos token.Pos
	}
	n := 0
	for _, f := range helperGroup(anchor, 2) {
		var fakeOK []ssa.Value
		for _, b := range f.Blocks {
			for _, in := range b.Instrs {
				ta, ok := in.(*ssa.TypeAssert)
				if !ok || !ta.CommaOk || !strings.HasSuffix(an.ShortType(ta.AssertedType), "augment.FakePackage") {
					continue
				}
				firstAug := false
				if u, ok := ta.X.(*ssa.UnOp); ok {
					if ia, ok := u.X.(*ssa.IndexAddr); ok {
						if k, ok := an.ConstInt(ia.Index); ok && k == 0 {
							firstAug = true
						}
					}
				}
				if firstAug {
					for _, ex := range an.ExtractOf(ta, 1) {
						fakeOK = append(fakeOK, ex)
					}
				}
			}
		}
		var points []point
		for _, in := range an.StoresIn(f) {
			st, ok := in.(*ssa.Store)
			if !ok {
				continue
			}
			fa, ok := st.Addr.(*ssa.FieldAddr)
			if !ok || fieldNameOf(fa) != "Package" || !isPgoFile(fa.X.Type()) {
				continue
			}
			if s, isc := an.ConstString(st.Val); isc && s == "" {
				points = append(points, point{st.Block(), st.Pos()})
				continue
			}
			// "" arriving through a phi
			var walk func(v ssa.Value, seen map[ssa.Value]bool)
			walk = func(v ssa.Value, seen map[ssa.Value]bool) {
				phi, ok := v.(*ssa.Phi)
				if !ok || seen[v] {
					return
				}
				seen[v] = true
				for i, e := range phi.Edges {
					if s, isc := an.ConstString(e); isc && s == "" {
						points = append(points, point{phi.Block().Preds[i], phi.Pos()})
					}
					walk(e, seen)
				}
			}
			walk(st.Val, map[ssa.Value]bool{})
		}
		for _, pt := range points {
			n++
			notFake := func(v ssa.Value) (bool, bool) {
				for _, ex := range fakeOK {
					if v == ex {
						return false, true
					}
				}
				return false, false
			}
			reachable := an.Reach([]*ssa.BasicBlock{f.Blocks[0]}, nil)[pt.blk]
			guarded := len(fakeOK) > 0 && !an.ReachUnder(f.Blocks[0], notFake, nil)[pt.blk]
			r.Check(reachable && guarded, short(f)+"|clear-package", pt.pos, "the parsed package name is discarded exactly when the first augmentation is the fake package clause gopatch added itself")
		}
	}
	r.Check(n == 1, short(anchor)+"|clears", anchor.Pos(), "pgo.Parse has one place that clears the package name (found %d)", n)
}

func c10Lookup(r *an.Run) {
	r.Rule("R6-lookup-by-unquoted-path")
	f := fn(r, goastP, "FindImportSpec")
	if f == nil {
		return
	}
	ils := findIndexLoops(f, isLenOfPath("f.Imports"))
	if !r.Check(len(ils) == 1, short(f)+"|loop", f.Pos(), "FindImportSpec loops over all of f.Imports") {
		return
	}
	il := ils[0]
	var cmp *ssa.BinOp
	var call *ssa.Call
	for _, c := range callsInLoop(il.Loop) {
		if an.StaticCallee(c) == r.P.Func(goastP, "ImportPath") {
			call = c.(*ssa.Call)
		}
	}
	if !r.Check(call != nil && elemOf(call.Call.Args[0], "f.Imports", il.Index), short(f)+"|unquote-each", il.If.Pos(), "each import spec's path is unquoted with ImportPath") {
		return
	}
	for _, u := range *call.Referrers() {
		if b, ok := u.(*ssa.BinOp); ok && b.Op == token.EQL && (b.X == ssa.Value(paramAt(f, 1)) || b.Y == ssa.Value(paramAt(f, 1))) {
			cmp = b
		}
	}
	r.Check(cmp != nil, short(f)+"|compare", call.Pos(), "the unquoted path is compared for equality with the requested path")
	msg := il.CoversAll(call, func(b *ssa.BasicBlock) bool {
		ret := an.ReturnOf(b)
		return ret != nil && elemOf(ret.Results[0], "f.Imports", il.Index)
	})
	r.Check(msg == "", short(f)+"|covers-all", call.Pos(), "all imports are inspected; the loop is left early only by returning the spec just compared %s", msg)
	if g := fn(r, goastP, "ImportPath"); g != nil {
		n := len(an.CallsTo(g, "strconv.Unquote"))
		r.Check(n == 1, short(g)+"|unquote", g.Pos(), "ImportPath unquotes the path literal")
	}
}

// noPackageLevelState: no function of the engine/goast/data/pgo packages that
// is reachable while matching or replacing writes a package-level variable
// (memoisation across files or changes).
func noPackageLevelState(r *an.Run, rule string) {
	r.Rule(rule)
	roots := []*ssa.Function{r.P.Func(engine, "Change.Match"), r.P.Func(engine, "Change.Replace")}
	for _, f := range roots {
		if f == nil {
			r.Undecided("anchor|Change.Match/Replace", 0, "Change.Match / Change.Replace not found")
			return
		}
	}
	reach := r.P.ReachableModuleFuncs(roots...)
	n := 0
	bad := 0
	var fns []*ssa.Function
	for f := range reach {
		fns = append(fns, f)
	}
	sort.Slice(fns, func(i, j int) bool { return fns[i].String() < fns[j].String() })
	for _, f := range fns {
		for _, in := range an.StoresIn(f) {
			n++
			var addr ssa.Value
			switch x := in.(type) {
			case *ssa.Store:
				addr = x.Addr
			case *ssa.MapUpdate:
				addr = x.Map
			}
			root := an.Root(addr)
			for {
				if u, ok := root.(*ssa.UnOp); ok {
					root = an.Root(u.X)
					continue
				}
				break
			}
			if g, ok := root.(*ssa.Global); ok {
				bad++
				r.Fail(short(f)+"|global-write|"+g.Name(), in.Pos(), "%s, reachable while matching/replacing, writes package-level variable %s: results for one change or file would depend on what was processed before", short(f), g.Name())
			}
		}
	}
	if bad == 0 {
		r.Pass("no-package-level-writes", 0, "%d stores in %d functions reachable from Change.Match/Replace: none writes a package-level variable", n, len(fns))
	}
	r.Count("stores reachable from Match/Replace", n)
	r.Min("stores reachable from Match/Replace", 60)
}
