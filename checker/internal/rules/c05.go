package rules

import (
	"go/types"
	"sort"
	"strings"

	"golang.org/x/tools/go/ssa"

	"gpcheck/internal/an"
)

func init() {
	register(&Spec{
		ID:  "C05",
		Run: runC05,
		Explanation: "Decides: R1 ownership of writes to the target AST (closed inventory) — in code reachable from Change.Match nothing writes a field of a go/ast node that is not freshly allocated in the same function; in code reachable from Change.Replace and the two cleanupFilePos the stores to go/ast fields are exactly: the package name under r.Package != \"\", the paren reset and File.Imports reset of the import cleanup, and the comment-list filter; every other change goes through the guarded slot assignment; " +
			"R2 container rebuild copies every other field — stmtSliceContainerMatcher.Match sends each field index to exactly one of {the statements field, the other fields} and the replacer writes all recorded other fields plus the statements field into a fresh node of the recorded type (ForDots likewise, C04-R8); " +
			"R3 the paren reset touches import declarations only; R4 printing adds or removes nothing (FormatOnly is the constant true at both imports.Process sites); " +
			"R5 no stale slot — in FileReplacer.Replace nothing that can insert or delete declarations (import add/delete) runs before all recorded (parent, name, index) slots have been resolved; " +
			"R6 elided elements are reproduced whole — the recorded run is the skipped run (C04-R4) and it is appended completely and unconditionally (C04-R6). " +
			"R7 a package clause on a context line cannot change the file's clause: the replacer writes the patch's package name, and the matcher admits a file only when that name equals the file's (exact decision table of the guard). " +
			"R8 the written file is the file read: in Run the tree handed to Apply is the parse of the bytes read under this name in this iteration, the tree printed is the one Apply returned, and every sink that takes a path is given this file's path (or the Provided spelling of the same list element). R1 additionally requires every possible origin (all phi edges, all stores into locals) of a reflective assignment's destination to be a value allocated in that call. " +
			"NOT decided: effects of astdiff / line merging on layout; go/printer; whether elided statements inside a rebuilt container are syntactically unchanged (they are the same node pointers)." +
			" R10 the slot written is the slot matched; R11 the written file holds only the printed tree." +
			" R1 also: reflect writes through a helper are checked at its call sites; R12 matching writes no shared memory." +
			" R13 the bytes kept for a file are not a window into a buffer that is rewound and filled again (same rule as C03-R12)." +
			" R11 also: every emitted byte slice is the go/format + imports.Process result (no text-level pass of gopatch's own)." +
			" R15 a near-miss is not regenerated (PosMatcher validity equality; the structural guards of the matchers).",
		Trusted:     commonTrusted,
		Assumptions: commonAssumptions,
	})
}

func runC05(r *an.Run) {
	c05Ownership(r)
	c05ContainerRebuild(r)
	c05ParenReset(r)
	formatOnly(r, "R4-printing-adds-nothing")
	c05NoStaleSlot(r)
	slotIsTheRecordedSlot(r, "R10-the-slot-written-is-the-slot-matched")
	c04AnchoringAndConsumption(r)
	c04Reproduction(r)
	relabel(r, "R3-anchoring-and-consumption", "R6-elided-elements-reproduced-whole")
	relabel(r, "R4-recorded-run-is-skipped-run", "R6-elided-elements-reproduced-whole")
	relabel(r, "R5-search-completeness", "R6-elided-elements-reproduced-whole")
	relabel(r, "R6-reproduction", "R6-elided-elements-reproduced-whole")
	listBuiltIsNewMemory(r, "R6-elided-elements-reproduced-whole")
	// the package clause: FileReplacer writes the patch's package name into every matched file, so a
	// context-line package clause leaves the file's clause unchanged only if the matcher's guard is exact equality
	c10PackageGuard(r)
	relabel(r, "R2-package-guard", "R7-package-clause-unchanged-by-context-line")
	c05FileIdentity(r)
	// the library: what Apply returns for one file is not scratch space of the next call
	libraryFileImmutable(r, "R9-library-results-do-not-alias")
	// what ends up on disk is the printed tree and nothing else: a file that is not empty when the bytes are
	// written keeps the tail of the old source behind the new one — code outside every rewritten fragment,
	// twice
	// what one match recorded (the header fields of a "for ...", the statements an elision stood for) is not
	// overwritten while the next candidate is tried: matching writes no memory that outlives the attempt —
	// nothing rooted at a package-level variable (or a local copy sharing its slices), at the compiled program
	// or at a slice that was handed in
	compiledProgramReadOnly(r, "R12-matching-writes-no-shared-memory")
	if m := buildRunModel(r); m != nil {
		c07WrittenFileStartsEmpty(r, m)
		relabel(r, "R4-the-written-file-holds-exactly-the-validated-bytes", "R11-the-written-file-holds-only-the-printed-tree")
		// … and what is emitted in any mode is what go/format printed and imports.Process (FormatOnly) returned,
		// or the checked printer output itself: no text-level pass of gopatch's own (tidying, re-terminating
		// lines) runs over the whole file afterwards — such a pass also rewrites code no change touched
		c07ValidateBeforeEmit(r, m)
		relabel(r, "R1-validate-before-emit", "R11-the-written-file-holds-only-the-printed-tree")
	}
	// the bytes kept for a file (its source, its printed result) are that file's: not a window into a buffer
	// that is rewound and filled again for the next file
	noTransientBufferRetained(r, "R13-kept-bytes-are-not-a-window-into-a-reused-buffer")
	// the statements in front of the first pattern statement are reproduced once: the implicit leading elision is
	// added on both sides exactly when the patch does not itself begin with "..." at the patch start
	c04ImplicitDots(r)
	relabel(r, "R9-implicit-leading-and-trailing-elision", "R14-the-implicit-elision-is-added-once-on-both-sides")
	// context lines are regenerated from the pattern: a candidate that is only nearly an instance (an optional
	// token more, a longer list) and is matched all the same comes back altered although no '-'/'+' line touches it
	r.Rule("R15-a-near-miss-is-not-regenerated")
	posMatcherValidity(r)
	c01Guards(r)
	relabel(r, "R5-structural-guards", "R15-a-near-miss-is-not-regenerated")
}

// astWrites lists stores whose destination is a field of a go/ast (or
// go/token) struct, with the root of the address.
type astWrite struct {
	in    ssa.Instruction
	fn    *ssa.Function
	field string // Type.Field
	root  ssa.Value
}

func astWritesIn(fns []*ssa.Function) []astWrite {
	var out []astWrite
	for _, f := range fns {
		for _, in := range an.StoresIn(f) {
			st, ok := in.(*ssa.Store)
			if !ok {
				continue
			}
			fa, ok := st.Addr.(*ssa.FieldAddr)
			if !ok {
				// element of a slice held by an AST node
				if ia, ok := st.Addr.(*ssa.IndexAddr); ok {
					if p := an.Path(ia.X); p != "" {
						if u, ok := ia.X.(*ssa.UnOp); ok {
							if fa2, ok := u.X.(*ssa.FieldAddr); ok && isAstStruct(fa2.X.Type()) {
								out = append(out, astWrite{in, f, astTypeName(fa2.X.Type()) + "." + fieldNameOf(fa2) + "[]", an.Root(ia.X)})
							}
						}
					}
				}
				continue
			}
			if !isAstStruct(fa.X.Type()) {
				continue
			}
			out = append(out, astWrite{in, f, astTypeName(fa.X.Type()) + "." + fieldNameOf(fa), an.Root(fa.X)})
		}
	}
	return out
}

func isAstStruct(t types.Type) bool {
	if p, ok := t.Underlying().(*types.Pointer); ok {
		t = p.Elem()
	}
	n, ok := t.(*types.Named)
	if !ok || n.Obj().Pkg() == nil || n.Obj().Pkg().Path() != "go/ast" {
		return false
	}
	_, isStruct := n.Underlying().(*types.Struct)
	return isStruct
}

func astTypeName(t types.Type) string {
	if p, ok := t.Underlying().(*types.Pointer); ok {
		t = p.Elem()
	}
	if n, ok := t.(*types.Named); ok {
		return n.Obj().Name()
	}
	return "?"
}

func sortedFuncs(m map[*ssa.Function]bool) []*ssa.Function {
	var out []*ssa.Function
	for f := range m {
		out = append(out, f)
	}
	sort.Slice(out, func(i, j int) bool { return out[i].String() < out[j].String() })
	return out
}

// allowedAstWrites: package-relative path -> go/ast field -> reason. The closed
// inventory of in-place edits of the target file; it is keyed by package and
// field, not by function, so moving an edit into a private helper changes
// nothing. The conditions under which each edit happens are checked where the
// store is (R1 package rename guard, R3 paren reset).
var allowedAstWrites = map[string]map[string]string{
	"internal/engine": {
		"Ident.Name":     "package clause renamed when the '+' side names a package (guarded by r.Package != \"\")",
		"GenDecl.Lparen": "parens of a single-spec import declaration removed (guarded by Tok == IMPORT)",
		"GenDecl.Rparen": "parens of a single-spec import declaration removed (guarded by Tok == IMPORT)",
		"File.Imports":   "reset to nil when empty",
	},
	"":      {"CommentGroup.List": "comments inside changed intervals removed"},
	"patch": {"CommentGroup.List": "comments inside changed intervals removed"},
}

func c05Ownership(r *an.Run) {
	r.Rule("R1-ownership-of-writes-to-the-target-AST")
	match, repl := r.P.Func(engine, "Change.Match"), r.P.Func(engine, "Change.Replace")
	cleanups := cleanupFuncs(r)
	if match == nil || repl == nil || len(cleanups) == 0 {
		r.Undecided("anchor|Change.Match/Replace/cleanupFilePos", 0, "an anchored function was not found")
		return
	}
	// matching never edits an existing node
	n := 0
	for _, w := range astWritesIn(sortedFuncs(r.P.ReachableModuleFuncs(match))) {
		n++
		_, fresh := w.root.(*ssa.Alloc)
		if strings.Contains(an.FuncPkgPath(w.fn), "/internal/pgo") || strings.Contains(an.FuncPkgPath(w.fn), "/internal/goast") {
			continue // pattern-side AST construction (pgo) / position transformation of pattern nodes
		}
		r.Check(fresh, short(w.fn)+"|match-writes|"+w.field, w.in.Pos(), "matching writes go/ast field %s only on a node it has just allocated (a synthetic identifier), never on the target file", w.field)
	}
	// replacing: closed inventory
	seen := map[string]bool{}
	for _, w := range astWritesIn(sortedFuncs(r.P.ReachableModuleFuncs(append([]*ssa.Function{repl}, cleanups...)...))) {
		if strings.Contains(an.FuncPkgPath(w.fn), "/internal/pgo") || strings.Contains(an.FuncPkgPath(w.fn), "/internal/goast") || strings.Contains(an.FuncPkgPath(w.fn), "/internal/astdiff") {
			continue
		}
		n++
		if _, fresh := w.root.(*ssa.Alloc); fresh {
			if a := w.root.(*ssa.Alloc); a.Comment == "complit" || strings.HasPrefix(a.Comment, "new") {
				continue
			}
		}
		rel := strings.TrimPrefix(strings.TrimPrefix(an.FuncPkgPath(w.fn), an.Module), "/")
		why, ok := allowedAstWrites[rel][w.field]
		if !ok && w.field == "CommentGroup.List" && inCleanup(r, w.fn) {
			// the clean-up step may live in a package of its own, shared by the
			// command and the library: it is identified by its role, not its package
			why, ok = allowedAstWrites[""][w.field], true
		}
		key := rel + "|writes|" + w.field
		if ok {
			if !seen[key] {
				r.Pass(key, w.in.Pos(), "inventoried in-place edit: %s", why)
				seen[key] = true
			}
			continue
		}
		r.Fail(key, w.in.Pos(), "%s writes go/ast field %s of the target file in place: an edit outside the matched slot that the inventory of owners does not know (code outside the rewritten fragment may be altered)", short(w.fn), w.field)
	}
	r.Count("go/ast field writes inspected", n)
	r.Min("go/ast field writes inspected", 5)
	// the package rename is guarded
	if f := fn(r, engine, "FileReplacer.Replace"); f != nil {
		for _, w := range astWritesIn([]*ssa.Function{f}) {
			if w.field != "Ident.Name" {
				continue
			}
			var edges []an.CtrlEdge
			for _, c := range an.EqCases(f, func(v ssa.Value) bool { return an.Path(v) == "r.Package" && !isAddr(v) }) {
				if s, ok := an.ConstString(c.Key); ok && s == "" {
					edges = append(edges, edgeTo(c.If.Block(), c.Else))
				}
			}
			st := w.in.(*ssa.Store)
			r.Check(len(edges) > 0 && unreachableWithout(st.Block(), edges) && an.Path(st.Val) == "r.Package", short(f)+"|package-rename-guarded", st.Pos(), "the package clause is rewritten only when the '+' side carries a package clause, and to that name")
		}
	}
	// reflect-based writes into the target: only the guarded slot assignment of FileReplacer.Replace (C03-R6), all others build fresh nodes
	for _, f := range sortedFuncs(r.P.ReachableModuleFuncs(repl)) {
		if an.FuncPkgPath(f) != enginePath {
			continue
		}
		type dstSite struct {
			call ssa.CallInstruction
			dst  ssa.Value
		}
		var sites []dstSite
		for _, s := range an.CallsTo(f, rvSet, "(reflect.Value).SetInt", "(reflect.Value).SetString", "(reflect.Value).SetLen") {
			sites = append(sites, dstSite{s, an.CallArgs(s)[0]})
		}
		// a call to a module helper that assigns by reflection into one of its parameters (setValue(dst, src))
		// is itself such a write, into the argument bound to that parameter
		for _, c := range an.Calls(f) {
			h := an.StaticCallee(c)
			if h == nil || !an.InModule(h) || h.Blocks == nil {
				continue
			}
			for _, k := range reflectDstParams(h) {
				if k < len(c.Common().Args) {
					sites = append(sites, dstSite{c, c.Common().Args[k]})
				}
			}
		}
		for _, site := range sites {
			s, dst := site.call, site.dst
			// every value the destination may be rooted at (all phi edges, all
			// stores into a local) is one this call allocated
			fresh, foreign := false, ""
			for _, o := range reflectOrigins(dst) {
				switch x := o.(type) {
				case *ssa.Call:
					if an.IsCallTo(x, "reflect.New", "reflect.MakeSlice", "reflect.Zero") {
						fresh = true
						continue
					}
				case *ssa.Parameter:
					isDst := false
					for _, k := range reflectDstParams(f) {
						if k < len(f.Params) && f.Params[k] == x {
							isDst = true
						}
					}
					if isDst {
						fresh = true // a helper like setValue(dst, src): the argument is checked at each of its call sites
						continue
					}
				}
				foreign = an.Describe(o)
			}
			fresh = fresh && foreign == ""
			if short(f) == "(internal/engine.SearchReplacer).Replace" || short(f) == "internal/data.Lookup" {
				continue
			}
			if site := findSlotSite(r); site != nil && site.fn == f && site.region[s.Block()] {
				continue // the guarded slot assignment of the match loop (C03-R6)
			}
			r.Check(fresh, short(f)+"|reflect-write", s.Pos(), "%s assigns by reflection only into a value it allocated in this call (reflect.New / MakeSlice), never into a node of the target file%s", short(f), ifNonEmpty(foreign, " — the destination may be "+foreign))
		}
	}
}

func c05ContainerRebuild(r *an.Run) {
	r.Rule("R2-container-rebuild-copies-every-other-field")
	f := fn(r, engine, "stmtSliceContainerMatcher.Match")
	if f != nil {
		var il *an.IndexLoop
		for _, l := range an.Loops(f) {
			if x := an.AsIndexLoop(l); x != nil {
				if c, ok := x.Bound.(*ssa.Call); ok && c.Call.IsInvoke() && c.Call.Method.Name() == "NumField" {
					il = x
				}
			}
		}
		if r.Check(il != nil && il.Start == 0 && il.Step == 1, short(f)+"|field-loop", f.Pos(), "one loop over all fields of the container") {
			// each iteration either stores the stmts field or appends to the others
			var storeStmts *ssa.Store
			var appendOthers *ssa.Call
			for b := range il.Loop.Blocks {
				for _, in := range b.Instrs {
					switch x := in.(type) {
					case *ssa.Store:
						if al, ok := x.Addr.(*ssa.Alloc); ok && al.Comment == "stmtsField" {
							storeStmts = x
						}
					case *ssa.Call:
						if an.IsCallTo(x, "builtin:append") && strings.HasSuffix(an.ShortType(x.Type()), "stmtListField") {
							appendOthers = x
						}
					}
				}
			}
			if r.Check(storeStmts != nil && appendOthers != nil, short(f)+"|partition", il.If.Pos(), "each field goes to the statements slot or to the list of other fields") {
				// no iteration does neither: every latch is dominated by one of the two blocks, and they are the two arms of one test
				good := true
				for _, lt := range il.Loop.Latch {
					a := storeStmts.Block() == lt || storeStmts.Block().Dominates(lt)
					b := appendOthers.Block() == lt || appendOthers.Block().Dominates(lt)
					if a || b {
						continue
					}
					// the latch is the join of the two arms
					for _, p := range lt.Preds {
						if !(p == storeStmts.Block() || p == appendOthers.Block() || storeStmts.Block().Dominates(p) || appendOthers.Block().Dominates(p)) {
							good = false
						}
					}
				}
				r.Check(good, short(f)+"|partition-total", il.If.Pos(), "no field is dropped: every iteration takes one of the two arms")
				// the captured value carries the loop's own index and v.Field(i)
				idxOK, valOK := false, false
				for b := range il.Loop.Blocks {
					for _, in := range b.Instrs {
						if st, ok := in.(*ssa.Store); ok {
							if fa, ok := st.Addr.(*ssa.FieldAddr); ok {
								switch fieldNameOf(fa) {
								case "FieldIdx":
									idxOK = idxOK || st.Val == il.Index
								case "Value":
									if c, ok := st.Val.(*ssa.Call); ok && an.IsCallTo(c, rvField) && c.Call.Args[1] == il.Index {
										valOK = true
									}
								}
							}
						}
					}
				}
				r.Check(idxOK && valOK, short(f)+"|captured-with-own-index", il.If.Pos(), "each captured field records its own index and value")
			}
		}
	}
	if g := fn(r, engine, "stmtSliceContainerReplacer.Replace"); g != nil {
		ils := findIndexLoops(g, isLenOfPath("sd.OtherFields"))
		if r.Check(len(ils) == 1, short(g)+"|other-fields-loop", g.Pos(), "one loop over all recorded other fields") {
			sets := callsInLoop(ils[0].Loop, rvSet)
			if r.Check(len(sets) == 1, short(g)+"|other-fields-set", ils[0].If.Pos(), "each recorded field is copied into the new node") {
				msg := ils[0].CoversAll(sets[0], nil)
				r.Check(msg == "", short(g)+"|other-fields-covered", sets[0].Pos(), "every non-statement field of the block / case / comm clause is reproduced %s", msg)
				// destination index = the field's own recorded index
				dst := an.CallArgs(sets[0])[0]
				ok := false
				if c, isCall := dst.(*ssa.Call); isCall && an.IsCallTo(c, rvField) && strings.HasSuffix(an.Path(c.Call.Args[1]), ".FieldIdx") {
					ok = true
				}
				r.Check(ok, short(g)+"|own-index", sets[0].Pos(), "each field is written back at its own recorded index")
			}
		}
		// the statements go to StmtFieldIdx, the node has the recorded type
		stm := false
		for _, s := range an.CallsTo(g, rvSet) {
			dst := an.CallArgs(s)[0]
			if c, ok := dst.(*ssa.Call); ok && an.IsCallTo(c, rvField) && strings.HasSuffix(an.Path(c.Call.Args[1]), ".StmtFieldIdx") {
				stm = true
			}
		}
		r.Check(stm, short(g)+"|stmts-field", g.Pos(), "the rebuilt statements are written to the recorded statements field")
	}
}

func c05ParenReset(r *an.Run) {
	r.Rule("R3-paren-reset-import-declarations-only")
	f := fn(r, engine, "ImportsReplacer.Cleanup")
	if f == nil {
		return
	}
	importTok := tokenConst(r, "IMPORT")
	n := 0
	for _, g := range helperGroup(f, 2) {
		n += c05ParenResetIn(r, g, importTok)
	}
	r.Check(n == 2, short(f)+"|paren-writes", f.Pos(), "two paren fields are reset (found %d)", n)
}

func c05ParenResetIn(r *an.Run, f *ssa.Function, importTok int64) int {
	var tokEdges []an.CtrlEdge
	for _, c := range an.EqCases(f, func(v ssa.Value) bool {
		u, ok := v.(*ssa.UnOp)
		if !ok {
			return false
		}
		fa, ok := u.X.(*ssa.FieldAddr)
		return ok && fieldNameOf(fa) == "Tok" && astTypeName(fa.X.Type()) == "GenDecl"
	}) {
		if k, ok := an.ConstInt(c.Key); ok && k == importTok {
			tokEdges = append(tokEdges, edgeTo(c.If.Block(), c.Target))
		}
	}
	n := 0
	for _, w := range astWritesIn([]*ssa.Function{f}) {
		if w.field != "GenDecl.Lparen" && w.field != "GenDecl.Rparen" {
			continue
		}
		n++
		st := w.in.(*ssa.Store)
		r.Check(len(tokEdges) > 0 && unreachableWithout(st.Block(), tokEdges), "paren-reset|"+w.field, st.Pos(), "parens are reset only on declarations whose token is IMPORT")
	}
	return n
}

// c05NoStaleSlot: matched nodes are recorded by index into their parent's
// slice; nothing that inserts or deletes declarations may run before all
// recorded slots were resolved and assigned.
func c05NoStaleSlot(r *an.Run) {
	r.Rule("R5-no-stale-slot")
	f := fn(r, engine, "FileReplacer.Replace")
	if f == nil {
		return
	}
	sets := an.CallsTo(f, rvSet)
	if site := findSlotSite(r); site != nil && site.loopFn == f && site.perMatchCall != nil {
		// the per-match step lives in a helper called from Replace's own loop: that call is the slot event
		sets = []ssa.CallInstruction{site.perMatchCall}
	}
	if _, holder, _ := matchLoop(r); holder != nil && holder != f {
		// the node stage lives in a helper: the slot events of Replace are its calls to that helper
		sets = nil
		for _, c := range an.Calls(f) {
			if an.StaticCallee(c) == holder {
				sets = append(sets, c)
			}
		}
		// and the helper itself must not edit declarations at all
		for _, c := range an.Calls(holder) {
			if sc := an.StaticCallee(c); sc != nil || an.IsCallTo(c, addNamedImport, addImport, delNamedImport, delImport) {
				edits := an.IsCallTo(c, addNamedImport, addImport, delNamedImport, delImport)
				if sc != nil && an.InModule(sc) {
					for _, e := range an.ExternalCalls(r.P.ReachableModuleFuncs(sc)) {
						switch e.Callee {
						case addNamedImport, addImport, delNamedImport, delImport:
							edits = true
						}
					}
				}
				if edits {
					r.Fail(short(holder)+"|edits-declarations-while-replacing", c.Pos(), "%s, which resolves the recorded slots, calls %s, which can insert or delete import declarations", short(holder), an.TrimModule(an.CalleeName(c)))
				}
			}
		}
	}
	if !r.Check(len(sets) >= 1, short(f)+"|slot-assignment", f.Pos(), "slot assignment found") {
		return
	}
	editsDecls := func(c ssa.CallInstruction) bool {
		sc := an.StaticCallee(c)
		if sc == nil || !an.InModule(sc) {
			return an.IsCallTo(c, addNamedImport, addImport, delNamedImport, delImport)
		}
		for _, e := range an.ExternalCalls(r.P.ReachableModuleFuncs(sc)) {
			switch e.Callee {
			case addNamedImport, addImport, delNamedImport, delImport:
				return true
			}
		}
		return false
	}
	n := 0
	for _, c := range an.Calls(f) {
		if !editsDecls(c) {
			continue
		}
		n++
		reach := an.ReachFromSuccs(c.Block(), nil)
		reach[c.Block()] = true
		bad := false
		for _, s := range sets {
			if reach[s.Block()] && !(s.Block() == c.Block() && an.InstrBlockIndex(s) < an.InstrBlockIndex(c)) {
				bad = true
			}
		}
		r.Check(!bad, short(f)+"|"+an.TrimModule(an.CalleeName(c)), c.Pos(), "%s, which can insert or delete import declarations, runs only after every recorded slot was resolved: indexes into file.Decls recorded while matching are still valid when they are used", an.TrimModule(an.CalleeName(c)))
	}
	r.Count("declaration-editing calls in Replace", n)
	r.Min("declaration-editing calls in Replace", 1)
}

// reflectDstParams returns the indexes of the parameters of h that are (a
// projection of) the destination of a reflect.Value.Set* call in h.
func reflectDstParams(h *ssa.Function) []int {
	var out []int
	seen := map[int]bool{}
	for _, s := range an.CallsTo(h, rvSet, "(reflect.Value).SetInt", "(reflect.Value).SetString", "(reflect.Value).SetLen") {
		for _, o := range reflectOrigins(an.CallArgs(s)[0]) {
			if p, ok := o.(*ssa.Parameter); ok && an.ShortType(p.Type()) == "reflect.Value" {
				for i, q := range h.Params {
					if q == p && !seen[i] {
						seen[i] = true
						out = append(out, i)
					}
				}
			}
		}
	}
	return out
}
