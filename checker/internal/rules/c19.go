package rules

import (
	"go/token"
	"go/types"
	"strings"

	"golang.org/x/tools/go/ssa"

	"gpcheck/internal/an"
)

func init() {
	register(&Spec{
		ID:  "C19",
		Run: runC19,
		Explanation: "Decides (narrow): R1 positioned-diagnostic discipline — in the sectioner, the patch parser and the patch compiler every error value is created inside one of the positioned helpers (programSplitter.errf, metaParser.onError/errf, parser.errf, compiler.errf), whose message is built from a token.Position obtained from the patch's own FileSet/File; " +
			"R2 token agreement — at every helper call site the position argument and the quoted entity derive from the same base value (decl.Type.Pos() with decl.Type.Name, name.Pos() with name.Name; the invalid-name offset is startOffset + shift + i with i and the quoted rune from the same validateChangeName call); metaParser's pos/tok/text come from one Scan(); the splitter's startOffset, text and pos are assigned together, per line, from the same line start; " +
			"R3 line map — ToBytes and splitPatch sample the buffer length before writing the line it describes and pair it with that line's own position; stripping the '-'/'+' byte is paired with StartPos++ in the same arm; every line of a section is mapped back with AddLineColumnInfo(offset, filename, line, column) taken from the matching fields, in that order, for all lines; " +
			"(and the token.File receiving the table is the one created for that section, identified by object, not by name); R4 rejection means no rewrite — when loadPatches fails Run returns before target discovery. " +
			"NOT decided: the arithmetic itself (off-by-one constants, token.File line-info semantics)." +
			" R2 also: no uncounted front cut between the header line and the validated name." +
			" R6 positions are resolved by the FileSet." +
			" R2 also: a diagnostic positioned at the current token (metaParser.errf) quotes only the current token." +
			" R7 every assignment of the splitter's text is content[startOffset:offset] or nil, of its pos file.Pos(startOffset) or NoPos." +
			" R8 every section.Line takes the splitter's text and pos as they are; R9 a rejected patch is reported (= C16-R6).",
		Trusted:     commonTrusted,
		Assumptions: commonAssumptions,
	})
}

func runC19(r *an.Run) {
	c19Discipline(r)
	c19TokenAgreement(r)
	c19LineMap(r)
	c19RejectionNoRewrite(r)
	lineInfoReceiver(r, "R3-line-map")
	r.Rule("R2-token-agreement")
	c19NameIndex(r)
	patchBytesUnaltered(r, "R5-positions-are-offsets-into-the-users-file")
	positionsReadBeforeStrip(r, "R3-line-map")
	positionsResolvedByTheFileSet(r, "R6-positions-are-resolved-by-the-fileset")
	splitterPositionsFollowTheOffsets(r, "R7-the-splitters-text-and-position-follow-its-offsets")
	lineKeepsTextAndPositionTogether(r, "R8-a-line-keeps-its-text-and-position-together")
	// every rejected patch yields a diagnostic: the error of a load step is not overwritten by a later step
	if m := buildRunModel(r); m != nil {
		c16Messages(r, m)
		relabel(r, "R6-messages-name-path-and-cause", "R9-a-rejected-patch-is-reported")
	}
}

var positionedHelpers = map[string]string{
	"(*internal/parse/section.programSplitter).errf": "p.file.Position(p.file.Pos(off))",
	"(*internal/parse.metaParser).onError":           "token.Position handed in by go/scanner or by errf",
	"(*internal/parse.parser).errf":                  "p.fset.Position(pos)",
	"(*internal/engine.compiler).errf":               "c.fset.Position(pos) when pos is valid",
	"(*internal/pgo.augmenter).errf":                 "a.adj.Position(pos)",
}

func c19Discipline(r *an.Run) {
	r.Rule("R1-positioned-diagnostic-discipline")
	n := 0
	for _, rel := range []string{sectRel, parseP} {
		for _, f := range r.P.PkgFuncs(rel) {
			for _, c := range an.CallsTo(f, "fmt.Errorf", "errors.New") {
				n++
				_, isHelper := positionedHelpers[short(f)]
				r.Check(isHelper, short(f)+"|error-created|"+an.CalleeName(c), c.Pos(), "an error value of the patch front end is created only inside a positioned helper (found in %s)", short(f))
			}
		}
	}
	for _, name := range []string{"compiler.compileMeta", "compiler.compileChange", "compiler.compileProgram"} {
		f := fn(r, engine, name)
		if f == nil {
			continue
		}
		for _, c := range an.CallsTo(f, "fmt.Errorf", "errors.New") {
			n++
			r.Fail(short(f)+"|error-created|"+an.CalleeName(c), c.Pos(), "%s creates an error without going through compiler.errf: the diagnostic carries no patch position", short(f))
		}
	}
	// each helper formats a Position
	for name, how := range positionedHelpers {
		var f *ssa.Function
		for _, g := range r.P.ModuleFuncs() {
			if short(g) == name {
				f = g
			}
		}
		if f == nil {
			r.Undecided("anchor|"+name, token.NoPos, "positioned helper %s not found", name)
			continue
		}
		n++
		good := false
		for _, c := range an.CallsTo(f, "fmt.Errorf", "fmt.Sprintf") {
			for v := range an.BackSlice(c.Common().Args[len(c.Common().Args)-1], an.SliceOpts{ThroughMemory: true}) {
				if strings.HasSuffix(an.ShortType(v.Type()), "token.Position") {
					good = true
				}
			}
		}
		r.Check(good, name+"|formats-position", f.Pos(), "%s puts a token.Position into the message (%s)", name, how)
	}
	// the Position comes from the patch's own file / file set
	if f := fn(r, sectRel, "programSplitter.errf"); f != nil {
		good := false
		for _, c := range an.CallsTo(f, "(*go/token.File).Position") {
			if an.Path(c.Common().Args[0]) == "p.file" {
				if pc, ok := c.Common().Args[1].(*ssa.Call); ok && an.IsCallTo(pc, "(*go/token.File).Pos") && an.Path(pc.Call.Args[0]) == "p.file" && pc.Call.Args[1] == ssa.Value(paramAt(f, 0)) {
					good = true
				}
			}
		}
		r.Check(good, short(f)+"|patch-file", f.Pos(), "the sectioner's diagnostics are positioned in the patch file itself, at the byte offset given")
	}
	r.Count("diagnostic sites and helpers", n)
	r.Min("diagnostic sites and helpers", 8)
}

func c19TokenAgreement(r *an.Run) {
	r.Rule("R2-token-agreement")
	errf := r.P.Func(engine, "compiler.errf")
	n := 0
	if f := fn(r, engine, "compiler.compileMeta"); f != nil && errf != nil {
		for _, c := range an.Calls(f) {
			if an.StaticCallee(c) != errf {
				continue
			}
			n++
			a := c.Common().Args
			pc, ok := a[1].(*ssa.Call)
			if !r.Check(ok && an.IsCallTo(pc, "(*go/ast.Ident).Pos"), short(f)+"|pos-of-ident", c.Pos(), "the diagnostic is positioned at an identifier of the declaration") {
				continue
			}
			base := an.Path(pc.Call.Args[0])
			quoted := false
			for v := range an.BackSlice(a[len(a)-1], an.SliceOpts{ThroughMemory: true}) {
				if an.Path(v) == base+".Name" && !isAddr(v) {
					quoted = true
				}
			}
			msg, _ := an.ConstString(a[2])
			r.Check(quoted && base != "", short(f)+"|agree|"+firstWords(msg), c.Pos(), "position (%s.Pos()) and quoted name (%s.Name) belong to the same identifier", base, base)
			if strings.HasPrefix(msg, "unknown") {
				r.Check(strings.HasSuffix(base, ".Type"), short(f)+"|unknown-type-at-type", c.Pos(), "an unknown metavariable type is reported at the type identifier, not at 'var' or the names")
			}
			if strings.HasPrefix(msg, "cannot define") {
				r.Check(!strings.HasSuffix(base, ".Type") && base != "", short(f)+"|duplicate-at-name", c.Pos(), "a duplicate metavariable is reported at the offending name")
			}
		}
	}
	// metaParser.errf reports at the current token (p.pos): what such a diagnostic quotes is the current token
	// — never a field of a node that was parsed before (its token has been consumed; the message would
	// point behind it). A complaint about an earlier token needs that token's own position.
	if h := r.P.Func(parseP, "metaParser.errf"); h != nil {
		atCurrent := false
		for _, c := range an.Calls(h) {
			if an.IsCallTo(c, "(*go/token.FileSet).Position") && strings.HasSuffix(an.Path(c.Common().Args[1]), ".pos") {
				atCurrent = true
			}
		}
		if r.Check(atCurrent, short(h)+"|reports-at-current-token", h.Pos(), "metaParser.errf positions its message at the current token (p.pos)") {
			for _, f := range r.P.PkgFuncs(parseP) {
				recv := recvValue(f)
				for _, c := range an.Calls(f) {
					if an.StaticCallee(c) != h || recv == nil {
						continue
					}
					n++
					a := c.Common().Args
					good, what := true, ""
					var elems []ssa.Value
					if call, ok := c.(*ssa.Call); ok && len(a) > 0 {
						if sl, ok := a[len(a)-1].(*ssa.Slice); ok {
							if al, ok := sl.X.(*ssa.Alloc); ok && al.Referrers() != nil {
								for _, u := range *al.Referrers() {
									if ia, ok := u.(*ssa.IndexAddr); ok {
										for _, w := range *ia.Referrers() {
											if st, ok := w.(*ssa.Store); ok {
												elems = append(elems, st.Val)
											}
										}
									}
								}
							}
						}
						_ = call
					}
					for _, e := range elems {
						v := an.Unwrap(e)
						if mi, ok := v.(*ssa.MakeInterface); ok {
							v = an.Unwrap(mi.X)
						}
						if _, isConst := v.(*ssa.Const); isConst {
							continue
						}
						if p := an.Path(v); strings.HasPrefix(p, an.ParamName(recv)+".") {
							continue
						}
						good, what = false, an.Describe(v)
					}
					msg, _ := an.ConstString(a[1])
					r.Check(good, short(f)+"|quotes-the-current-token|"+firstWords(msg), c.Pos(), "a diagnostic positioned at the current token quotes only the current token (p.tok, p.text); this one quotes %s, which belongs to a token consumed earlier — the position points behind it", what)
				}
			}
		}
	}
	// metaParser.next: pos, tok, text from one Scan
	if f := fn(r, parseP, "metaParser.next"); f != nil {
		scans := an.CallsTo(f, scannerScan)
		good := len(scans) == 1
		if good {
			got := map[string]int{}
			for _, in := range an.StoresIn(f) {
				if st, ok := in.(*ssa.Store); ok {
					if ex, ok := st.Val.(*ssa.Extract); ok && ex.Tuple == ssa.Value(scans[0].(*ssa.Call)) {
						got[lastSeg(an.Path(st.Addr))] = ex.Index
					}
				}
			}
			good = got["pos"] == 0 && got["tok"] == 1 && got["text"] == 2 && len(got) == 3
		}
		r.Check(good, short(f)+"|one-scan", f.Pos(), "the current token's position, kind and text are the three results of one Scan() call")
		n++
	}
	if f := fn(r, parseP, "metaParser.errf"); f != nil {
		good := false
		for _, c := range an.CallsTo(f, "(*go/token.FileSet).Position") {
			if an.Path(c.Common().Args[1]) == "p.pos" {
				good = true
			}
		}
		r.Check(good, short(f)+"|current-token", f.Pos(), "metaParser.errf reports at the current token's position")
		n++
	}
	// readName
	if f := fn(r, sectRel, "programSplitter.readName"); f != nil {
		perrf := r.P.Func(sectRel, "programSplitter.errf")
		vcn := r.P.Func(sectRel, "validateChangeName")
		for _, c := range an.Calls(f) {
			if an.StaticCallee(c) != perrf {
				continue
			}
			n++
			a := c.Common().Args
			msg, _ := an.ConstString(a[2])
			off := a[1]
			sl := an.BackSlice(off, an.SliceOpts{})
			hasStart := false
			for v := range sl {
				if an.Path(v) == "p.startOffset" && !isAddr(v) {
					hasStart = true
				}
			}
			r.Check(hasStart, short(f)+"|line-start|"+firstWords(msg), c.Pos(), "the header diagnostic is positioned relative to the start of the header line (p.startOffset)")
			if strings.HasPrefix(msg, "invalid name") {
				var idxOK, chOK, shiftOK bool
				var call *ssa.Call
				for v := range sl {
					if ex, ok := v.(*ssa.Extract); ok && ex.Index == 0 {
						if cc, ok := ex.Tuple.(*ssa.Call); ok && an.StaticCallee(cc) == vcn {
							idxOK, call = true, cc
						}
					}
					if phi, ok := v.(*ssa.Phi); ok && phi.Comment == "shift" {
						shiftOK = true
					}
				}
				for v := range an.BackSlice(a[len(a)-1], an.SliceOpts{ThroughMemory: true}) {
					if ex, ok := v.(*ssa.Extract); ok && ex.Index == 1 && call != nil && ex.Tuple == ssa.Value(call) {
						chOK = true
					}
				}
				r.Check(idxOK && chOK, short(f)+"|invalid-name-index", c.Pos(), "the offset includes the index returned by validateChangeName and the quoted rune is the one that call returned")
				r.Check(shiftOK || hasTrimCount(sl), short(f)+"|invalid-name-shift", c.Pos(), "the offset includes the number of bytes trimmed before the name (leading '@' and spaces)")
				// every byte cut off the front on the way from the line's text to the validated name is counted:
				// a front cut is a slice expression whose low bound is part of the offset's sum, never a
				// library trim (TrimSpace, TrimLeft, TrimPrefix …) that does not say how much it removed
				if call != nil {
					if cut := uncountedFrontCut(call.Call.Args[0], sl); cut != nil {
						r.Fail(short(f)+"|invalid-name-front-cut|"+an.Describe(cut), cut.Pos(), "on the way from the header line to the name that is validated, %s removes bytes from the front without their number entering the reported offset: for a header with leading white space the diagnostic points left of the offending character", an.Describe(cut))
					} else {
						r.Pass(short(f)+"|invalid-name-front-cut", call.Pos(), "every cut at the front of the header text on the way to the validated name is a slice whose low bound is part of the reported offset")
					}
				}
				// only + : no subtraction or other arithmetic
				okArith := true
				for v := range sl {
					if b, ok := v.(*ssa.BinOp); ok && b.Op != token.ADD {
						okArith = false
					}
				}
				r.Check(okArith, short(f)+"|invalid-name-sum", c.Pos(), "the offset is the plain sum startOffset + shift + i")
			}
		}
	}
	n += splitterKeepsTheLine(r)
	r.Count("token agreement sites", n)
	r.Min("token agreement sites", 7)
}

func hasTrimCount(sl map[ssa.Value]bool) bool {
	for v := range sl {
		if c, ok := v.(*ssa.Call); ok && an.IsCallTo(c, "strings.IndexFunc") {
			return true
		}
	}
	return false
}

func firstWords(s string) string {
	f := strings.Fields(s)
	if len(f) > 2 {
		f = f[:2]
	}
	return strings.Join(f, "-")
}

func c19LineMap(r *an.Run) {
	r.Rule("R3-line-map")
	n := 0
	// ToBytes
	if f := fn(r, sectRel, "ToBytes"); f != nil {
		var ils []*an.IndexLoop
		for _, il := range findIndexLoops(f, isLenOfPath("s")) {
			// the loop that copies the lines (another pass over the section may only measure it)
			if len(callsInLoop(il.Loop, "(*bytes.Buffer).Write")) > 0 {
				ils = append(ils, il)
			}
		}
		if r.Check(len(ils) == 1, short(f)+"|loop", f.Pos(), "ToBytes loops over all lines") {
			il := ils[0]
			var lenCall, write, posCall *ssa.Call
			for _, c := range callsInLoop(il.Loop) {
				call, ok := c.(*ssa.Call)
				if !ok {
					continue
				}
				switch {
				case an.IsCallTo(c, "(*bytes.Buffer).Len"):
					lenCall = call
				case an.IsCallTo(c, "(*bytes.Buffer).Write") && write == nil:
					write = call
				case strings.HasSuffix(an.CalleeName(c), "section.Line).Pos"):
					posCall = call
				}
			}
			// the line's position: line.Pos(), or the field it returns read directly (line.StartPos)
			var posBase ssa.Value
			var posAt ssa.Instruction
			if posCall != nil {
				posBase, posAt = posCall.Call.Args[0], posCall
			} else {
				for b := range il.Loop.Blocks {
					for _, in := range b.Instrs {
						if ld, ok := in.(*ssa.UnOp); ok && ld.Op == token.MUL {
							if fa, ok := ld.X.(*ssa.FieldAddr); ok && fieldNameOf(fa) == "StartPos" {
								posBase, posAt = fa.X, ld
							}
						}
					}
				}
			}
			if r.Check(lenCall != nil && write != nil && posBase != nil, short(f)+"|samples", il.If.Pos(), "each line records the buffer length and its own position") {
				r.Check(an.InstrDominates(lenCall, write), short(f)+"|offset-before-write", lenCall.Pos(), "the offset is sampled BEFORE the line is written (it is the offset of the line's first byte)")
				r.Check(elemOf(posBase, "s", il.Index) && elemOfField(write.Call.Args[1], "s", il.Index, "Text"), short(f)+"|same-line", posAt.Pos(), "offset, position and text belong to the same line")
				msg := il.CoversAll(lenCall, nil)
				r.Check(msg == "", short(f)+"|all-lines", lenCall.Pos(), "every line of the section gets an entry %s", msg)
			}
		}
		n++
	}
	// splitPatch
	if f := fn(r, parseP, "splitPatch"); f != nil {
		minusRoot, plusRoot := splitVersionRoots(f)
		for si, side := range []string{"minus", "plus"} {
			root := []*ssa.Alloc{minusRoot, plusRoot}[si]
			var ls *lengthSample
			if root != nil {
				ls = splitLengthSample(f, root)
			}
			if !r.Check(ls != nil, short(f)+"|"+side+"|samples", f.Pos(), "splitPatch samples the length of the %s buffer", side) {
				continue
			}
			lenSite := ls.site
			// before every write of the iteration
			before := true
			for _, c := range an.CallsTo(f, "(io.Writer).Write") {
				if an.InstrDominates(c, lenSite) {
					before = false
				}
				if !(lenSite.Block() == c.Block() && an.InstrBlockIndex(lenSite) < an.InstrBlockIndex(c)) && !reachesBlock(lenSite.Block(), c.Block()) {
					before = false
				}
			}
			r.Check(before, short(f)+"|"+side+"|offset-before-write", lenSite.Pos(), "the %s offset is sampled before the line is written", side)
			// paired with line.StartPos
			paired := ls.pos != nil && strings.HasSuffix(an.Path(ls.pos), ".StartPos")
			r.Check(paired, short(f)+"|"+side+"|paired-with-line-pos", lenSite.Pos(), "the sampled offset is paired with the (marker-adjusted) start position of that line")
			n++
		}
		// StartPos++ and Text[1:] happen together (same block), in splitPatch or in a helper it calls, and
		// both marker arms perform them
		group := helperGroup(f, 2)
		var incBlocks, sliceBlocks []*ssa.BasicBlock
		for _, g := range group {
			for _, b := range g.Blocks {
				for _, in := range b.Instrs {
					switch x := in.(type) {
					case *ssa.Store:
						if strings.HasSuffix(an.Path(x.Addr), ".StartPos") {
							if add, ok := x.Val.(*ssa.BinOp); ok && add.Op == token.ADD {
								if k, ok := an.ConstInt(add.Y); ok && k == 1 {
									incBlocks = append(incBlocks, b)
								} else {
									r.Fail(short(f)+"|startpos-step", x.Pos(), "StartPos is advanced by something other than 1")
								}
							}
						}
					case *ssa.Slice:
						if strings.HasSuffix(an.Path(x.X), ".Text") {
							sliceBlocks = append(sliceBlocks, b)
						}
					}
				}
			}
		}
		same := len(incBlocks) >= 1 && len(incBlocks) == len(sliceBlocks)
		for i := range incBlocks {
			if i < len(sliceBlocks) && incBlocks[i] != sliceBlocks[i] {
				same = false
			}
		}
		// both arms perform the pair
		arms := 0
		isFirstByte := func(v ssa.Value) bool {
			u, ok := v.(*ssa.UnOp)
			if !ok {
				return false
			}
			ia, ok := u.X.(*ssa.IndexAddr)
			if !ok {
				return false
			}
			i, isc := an.ConstInt(ia.Index)
			return isc && i == 0 && strings.HasSuffix(an.Path(ia.X), ".Text")
		}
		isInc := func(in ssa.Instruction) bool {
			st, ok := in.(*ssa.Store)
			return ok && strings.HasSuffix(an.Path(st.Addr), ".StartPos")
		}
		for _, c := range an.EqCases(f, isFirstByte) {
			if _, ok := an.ConstInt(c.Key); ok && regionHas(c.Target, c.Else, group, isInc) {
				arms++
			}
		}
		r.Check(same && arms == 2, short(f)+"|marker-strip-paired", f.Pos(), "stripping the '-'/'+' byte and advancing the line's start position by one happen together, in both arms (%d pair(s), %d arm(s))", len(incBlocks), arms)
	}
	// AddLineColumnInfo wiring, for all lines, in both users
	for _, name := range []string{"parser.parsePatchVersion", "parser.parseMeta"} {
		f := fn(r, parseP, name)
		if f == nil {
			continue
		}
		var call *ssa.Call
		for _, c := range an.CallsTo(f, "(*go/token.File).AddLineColumnInfo") {
			call = c.(*ssa.Call)
		}
		if !r.Check(call != nil, short(f)+"|maps-lines", f.Pos(), "%s maps lines back with AddLineColumnInfo", short(f)) {
			continue
		}
		l := an.LoopOf(f, call.Block())
		il := (*an.IndexLoop)(nil)
		if l != nil {
			il = an.AsIndexLoop(l)
		}
		if r.Check(il != nil && il.Start == 0 && il.Step == 1, short(f)+"|all-lines-loop", call.Pos(), "inside a forward loop over the line table") {
			msg := il.CoversAll(call, nil)
			boundOK := false
			if bc, ok := il.Bound.(*ssa.Call); ok && an.IsCallTo(bc, "builtin:len") {
				boundOK = true
			}
			r.Check(msg == "" && boundOK, short(f)+"|all-lines", call.Pos(), "every line of the section is anchored (lines after stripped comment lines keep their own patch line) %s", msg)
		}
		a := call.Call.Args
		fieldOf := func(v ssa.Value) string {
			switch x := v.(type) {
			case *ssa.Field:
				return fieldNameOfStruct(x.X.Type(), x.Field)
			case *ssa.UnOp:
				if fa, ok := x.X.(*ssa.FieldAddr); ok {
					return fieldNameOf(fa)
				}
			}
			return ""
		}
		got := []string{fieldOf(a[1]), fieldOf(a[2]), fieldOf(a[3]), fieldOf(a[4])}
		r.Check(strings.Join(got, ",") == "Offset,Filename,Line,Column", short(f)+"|argument-wiring", call.Pos(), "AddLineColumnInfo(offset, filename, line, column) receives the matching fields in that order (got %v)", got)
		// Position is that of the same line's Pos
		posOK := false
		for v := range an.BackSlice(a[3], an.SliceOpts{ThroughMemory: true, ThroughCalls: true}) {
			if c, ok := v.(*ssa.Call); ok && an.IsCallTo(c, "(*go/token.FileSet).Position") {
				if strings.HasSuffix(an.Path(c.Call.Args[1]), ".Pos") || fieldOf(c.Call.Args[1]) == "Pos" {
					posOK = true
				}
			}
		}
		r.Check(posOK, short(f)+"|position-of-line", call.Pos(), "line and column are those of the recorded position of the same table entry")
		n++
	}
	r.Count("line map sites", n)
	r.Min("line map sites", 5)
}

func fieldNameOfStruct(t types.Type, i int) string {
	if p, ok := t.Underlying().(*types.Pointer); ok {
		t = p.Elem()
	}
	if st, ok := t.Underlying().(*types.Struct); ok && i < st.NumFields() {
		return an.CanonFieldName(st.Field(i))
	}
	return ""
}

func reachesBlock(from, to *ssa.BasicBlock) bool {
	return an.Reach([]*ssa.BasicBlock{from}, nil)[to]
}

// elemOfField: v is s[idx].<field> (through a pointer element).
func elemOfField(v ssa.Value, path string, idx ssa.Value, field string) bool {
	u, ok := v.(*ssa.UnOp)
	if !ok {
		return false
	}
	fa, ok := u.X.(*ssa.FieldAddr)
	if !ok || fieldNameOf(fa) != field {
		return false
	}
	return elemOf(fa.X, path, idx)
}

func c19RejectionNoRewrite(r *an.Run) {
	r.Rule("R4-rejection-means-no-rewrite")
	m := buildRunModel(r)
	if m == nil {
		return
	}
	f := m.run
	var lp, ff *ssa.Call
	for _, c := range an.Calls(f) {
		switch an.StaticCallee(c) {
		case r.P.Func(mainP, "loadPatches"):
			lp = c.(*ssa.Call)
		case r.P.Func(mainP, "findFiles"):
			ff = c.(*ssa.Call)
		}
	}
	if ff == nil {
		// target discovery through a private helper of Run (getwd + findFiles)
		for _, g := range helperGroup(f, 2) {
			for _, c := range an.Calls(g) {
				if an.StaticCallee(c) == r.P.Func(mainP, "findFiles") {
					if site, ok := siteIn(f, c).(*ssa.Call); ok {
						ff = site
					}
				}
			}
		}
	}
	if !r.Check(lp != nil && ff != nil, short(f)+"|calls", f.Pos(), "Run loads the patches and discovers targets") {
		return
	}
	edges := errNilEdges(lp)
	r.Check(len(edges) > 0 && unreachableWithout(ff.Block(), edges) && unreachableWithout(m.loop.Loop.Header, edges), short(f)+"|load-before-discovery", lp.Pos(), "target discovery and the per-file loop are reachable only when all patches loaded without error")
	// and the error is returned
	ev := errValue(lp)
	ret := false
	for _, cse := range an.EqCases(f, func(v ssa.Value) bool { return v == ev }) {
		if an.IsNilConst(cse.Key) {
			if rt := an.ReturnOf(cse.Else); rt != nil && rt.Results[0] == ev {
				ret = true
			}
		}
	}
	r.Check(ret, short(f)+"|load-error-returned", lp.Pos(), "a rejected patch makes Run return the diagnostic")
}

// uncountedFrontCut walks from the validated name back to the line's text and
// returns the first operation that removes bytes from the front without the
// removed count being part of the offset slice sl (nil when there is none).
func uncountedFrontCut(name ssa.Value, sl map[ssa.Value]bool) ssa.Value {
	seen := map[ssa.Value]bool{}
	var visit func(v ssa.Value, depth int) ssa.Value
	visit = func(v ssa.Value, depth int) ssa.Value {
		if v == nil || seen[v] || depth > 40 {
			return nil
		}
		seen[v] = true
		switch x := v.(type) {
		case *ssa.Phi:
			for _, e := range x.Edges {
				if c := visit(e, depth+1); c != nil {
					return c
				}
			}
		case *ssa.Slice:
			if x.Low != nil {
				if k, isc := an.ConstInt(x.Low); !(isc && k >= 0) && !sl[x.Low] {
					// a computed low bound that the offset does not contain
					counted := false
					for w := range an.BackSlice(x.Low, an.SliceOpts{}) {
						if sl[w] {
							counted = true
						}
					}
					if !counted {
						return x
					}
				}
			}
			return visit(x.X, depth+1)
		case *ssa.Convert:
			return visit(x.X, depth+1)
		case *ssa.ChangeType:
			return visit(x.X, depth+1)
		case *ssa.Call:
			n := an.CalleeName(x)
			switch n {
			case "strings.TrimRight", "strings.TrimRightFunc", "strings.TrimSuffix", "bytes.TrimRight", "bytes.TrimRightFunc", "bytes.TrimSuffix", "strings.CutSuffix", "bytes.CutSuffix":
				return visit(x.Call.Args[0], depth+1)
			case "strings.CutPrefix", "bytes.CutPrefix":
				// a constant prefix is a constant number of bytes, like the constant low bound of text[1:]
				if _, isc := an.ConstString(x.Call.Args[1]); isc {
					return visit(x.Call.Args[0], depth+1)
				}
				return x
			case "strings.TrimSpace", "strings.Trim", "strings.TrimFunc", "strings.TrimLeft", "strings.TrimLeftFunc", "strings.TrimPrefix",
				"bytes.TrimSpace", "bytes.Trim", "bytes.TrimFunc", "bytes.TrimLeft", "bytes.TrimLeftFunc", "bytes.TrimPrefix",
				"strings.Fields", "strings.Split", "strings.SplitN", "strings.Cut":
				return x
			}
		case *ssa.Extract:
			return visit(x.Tuple, depth+1)
		}
		return nil
	}
	return visit(name, 0)
}

// splitterKeepsTheLine (part of C19-R2; also C01-R9, C03-R10, C13-R7): what the
// section splitter hands on as the text of a line is content[startOffset:offset]
// — the bytes of the line as written, neither trimmed nor normalised (blanks at
// the end of a line are part of a raw string literal that continues on the next
// line) — and its position is that of startOffset. Obligations go to the
// current rule; the result is the number of sites inspected.
func splitterKeepsTheLine(r *an.Run) int {
	n := 0
	// splitter.next: per-line assignment of startOffset, text, pos
	if f := fn(r, sectRel, "programSplitter.next"); f != nil {
		var loop *an.Loop
		for _, l := range an.Loops(f) {
			if loop == nil || len(l.Blocks) > len(loop.Blocks) {
				loop = l // the per-line loop is the outermost one (skipping to the end of the line may be a loop inside it)
			}
		}
		if r.Check(loop != nil, short(f)+"|line-loop", f.Pos(), "next() loops over lines") {
			var so, tx, ps *ssa.Store
			for b := range loop.Blocks {
				if in := an.LoopOf(f, b); in == nil || in.Header != loop.Header {
					continue
				}
				for _, in := range b.Instrs {
					if st, ok := in.(*ssa.Store); ok {
						switch an.Path(st.Addr) {
						case "p.startOffset":
							so = st
						case "p.text":
							tx = st
						case "p.pos":
							ps = st
						}
					}
				}
			}
			if so == nil || tx == nil || ps == nil {
				// the reading of one line as a method of its own (p.readLine()), called in the per-line loop
				for b := range loop.Blocks {
					for _, in := range b.Instrs {
						c, ok := in.(ssa.CallInstruction)
						if !ok {
							continue
						}
						h := an.StaticCallee(c)
						if h == nil || h == f || !inGroup(f, h) || h.Signature.Recv() == nil {
							continue
						}
						var hs, ht, hp *ssa.Store
						for _, hin := range an.StoresIn(h) {
							if st, ok := hin.(*ssa.Store); ok {
								switch an.Path(st.Addr) {
								case "p.startOffset":
									hs = st
								case "p.text":
									ht = st
								case "p.pos":
									hp = st
								}
							}
						}
						if hs != nil && ht != nil && hp != nil {
							so, tx, ps = hs, ht, hp
						}
					}
				}
			}
			if r.Check(so != nil && tx != nil && ps != nil, short(f)+"|per-line-state", f.Pos(), "startOffset, text and pos are (re)assigned inside the per-line loop: a header preceded by comment lines is still described by its own line") {
				r.Check(an.Path(so.Val) == "p.offset" && an.InstrDominates(so, tx) && an.InstrDominates(so, ps) && (tx.Block() == ps.Block() || tx.Block().Dominates(ps.Block()) || ps.Block().Dominates(tx.Block())),
					short(f)+"|assigned-together", so.Pos(), "the three are assigned together, startOffset first, from the offset at which the line begins")
				// "the start offset": a load of p.startOffset, or the very value that was stored into it
				isStart := func(v ssa.Value) bool { return an.Path(v) == "p.startOffset" || v == so.Val }
				sl, isSl := tx.Val.(*ssa.Slice)
				if !isSl {
					// text may be set from a local that holds the slice
					for _, in := range tx.Block().Instrs {
						if x, ok := in.(*ssa.Slice); ok && ssa.Value(x) == tx.Val {
							sl, isSl = x, true
						}
					}
				}
				r.Check(isSl && an.Path(sl.X) == "p.content" && isStart(sl.Low) && an.Path(sl.High) == "p.offset", short(f)+"|text-span", tx.Pos(), "text is content[startOffset:offset]")
				pc, isCall := ps.Val.(*ssa.Call)
				r.Check(isCall && an.IsCallTo(pc, "(*go/token.File).Pos") && isStart(pc.Call.Args[1]), short(f)+"|pos-of-line-start", ps.Pos(), "pos is the file position of startOffset")
			}
		}
		n++
	}
	return n
}
