package rules

import (
	"go/constant"
	"go/token"
	"go/types"
	"strings"

	"golang.org/x/tools/go/ssa"

	"gpcheck/internal/an"
)

func init() {
	register(&Spec{
		ID:  "C02",
		Run: runC02,
		Explanation: "Decides: R1 the kind table end to end — compileMeta maps exactly the strings \"identifier\"/\"expression\" to IdentMetavarType/ExprMetavarType and any other string to a positioned error and no entry; matcherCompiler.compileIdent maps those to isIdent/isExpression and undeclared names to the generic (matches-only-itself) matcher; isIdent is equality with the *ast.Ident reflect type, isExpression is Implements(ast.Expr); the replacer side treats exactly the undeclared names as literals; " +
			"R2 every true verdict of MetavarMatcher.Match is behind a true TypeMatches(got.Type()); R3 on the already-bound path the verdict is the captured matcher's verdict, evaluated against FRESH data (the result of data.New(), not the incoming data) and the data returned is the incoming one; the first occurrence captures a matcher and a replacer compiled from the matched value itself with no metavariable table; " +
			"R3b no sub-match verdict is dropped and the data of a FAILED sub-match never flows into a later attempt, in every verdict-returning function of the module (ok-discipline A4 with the failed-data rule); " +
			"R4 MetavarMatcher and MetavarReplacer use the same key conversion metavarKey(<receiver>.Name) and the same value type; R5 in compileMeta the table entry is written only for names that are not \"_\" and not already declared; " +
			"R6 no leakage between attempts: the traversal callback writes no captured variable except the match list, the data it starts every attempt from is the outer, never-reassigned value, and package data never writes into an existing Data node (persistent structure). " +
			"NOT decided: that structural comparison by the captured matcher equals 'syntactically identical' (that is C01's rule set applied to the captured matcher, built by the same compiler); user-visible behaviour for all fillers. R7 the compiler that builds the captured matcher is not reconfigured, and the matcher compiler's ignore set (C01-R6) holds, so 'identical' ignores nothing but comments, Ident.Obj and position values." +
			" R9 the name lists the failure memo consults are never overwritten (compilers are created per change; no field slice is truncated to length zero for re-use)." +
			" R9 also: a compiler list handed out in pieces is never sorted, reversed or written by index. R10 a nil candidate (absent optional identifier) is neither captured nor compared (decided under the hypothesis IsNil && Kind == Ptr).",
		Trusted:     commonTrusted,
		Assumptions: commonAssumptions,
	})
}

func runC02(r *an.Run) {
	c02KindTable(r)
	c02KindCheckedFirst(r)
	c02Consistency(r)
	okDisciplineAll(r, "R3b-ok-discipline-and-failed-data", 17)
	c02KeyAgreement(r)
	c02Duplicates(r)
	c02NoLeakage(r)
	c02CapturedCompilerUntweaked(r)
	c01IgnoreSet(r)
	relabel(r, "R6-ignore-set", "R7-captured-matcher-ignores-nothing-more")
	memoDependencies(r, "R8-failure-memo-sees-every-binding")
	// the name lists R8 relies on are slices of the matcher compiler's own list: they stay what
	// compilation made them only if that list is never re-used for the next change
	eachChangeOnItsOwn(r, "R9-name-lists-the-memo-consults-are-never-overwritten", true)
	metavariableBindsCode(r, "R10-a-metavariable-binds-code-not-an-absent-identifier")
}

// relabel renames the rule of obligations produced by a rule function shared
// with another property.
func relabel(r *an.Run, from, to string) {
	for i := range r.Obls {
		if r.Obls[i].Rule == from {
			r.Obls[i].Rule = to
			r.Obls[i].Key = strings.Replace(r.Obls[i].Key, from+"|", to+"|", 1)
		}
	}
}

// c02CapturedCompilerUntweaked: the matcher captured for a metavariable is
// built by a fresh compiler exactly as patterns are — no field of that
// compiler is set between its construction and compile(got).
func c02CapturedCompilerUntweaked(r *an.Run) {
	r.Rule("R7-captured-matcher-ignores-nothing-more")
	f := fn(r, engine, "MetavarMatcher.Match")
	if f == nil {
		return
	}
	for _, c := range an.Calls(f) {
		sc := an.StaticCallee(c)
		if sc != r.P.Func(engine, "matcherCompiler.compile") && sc != r.P.Func(engine, "replacerCompiler.compile") {
			continue
		}
		recv := c.Common().Args[0]
		mk, ok := recv.(*ssa.Call)
		direct := ok && (an.StaticCallee(mk) == r.P.Func(engine, "newMatcherCompiler") || an.StaticCallee(mk) == r.P.Func(engine, "newReplacerCompiler"))
		tweaked := false
		if direct {
			for _, in := range an.StoresIn(f) {
				if st, ok := in.(*ssa.Store); ok && an.Root(st.Addr) == ssa.Value(mk) {
					tweaked = true
				}
			}
		}
		r.Check(direct && !tweaked, short(f)+"|capture-compiler|"+sc.Name(), c.Pos(), "the captured matcher/replacer is produced by a freshly constructed compiler with no option changed: repeated occurrences are compared as strictly as patterns are")
	}
}

func engineConst(r *an.Run, name string) int64 {
	pk := r.P.ByP[enginePath]
	if pk == nil {
		return -1
	}
	c, ok := pk.Types.Scope().Lookup(name).(*types.Const)
	if !ok {
		return -1
	}
	v, _ := constant.Int64Val(c.Val())
	return v
}

// phiEdgesFrom returns the descriptions of the phi edges reached from block
// start without passing through the phi's block.
func phiEdgesFrom(phi *ssa.Phi, start *ssa.BasicBlock) map[string]bool {
	reach := an.Reach([]*ssa.BasicBlock{start}, func(b *ssa.BasicBlock, i int) bool { return b == phi.Block() })
	out := map[string]bool{}
	for i, pred := range phi.Block().Preds {
		if reach[pred] {
			out[an.Describe(phi.Edges[i])] = true
		}
	}
	return out
}

func c02KindTable(r *an.Run) {
	r.Rule("R1-kind-table")
	identT, exprT := engineConst(r, "IdentMetavarType"), engineConst(r, "ExprMetavarType")
	r.Check(identT > 0 && exprT > 0 && identT != exprT, "constants", token.NoPos, "IdentMetavarType (%d) and ExprMetavarType (%d) are distinct and non-zero (zero means 'not a metavariable')", identT, exprT)

	// compileMeta: string -> kind
	if f := fn(r, engine, "compiler.compileMeta"); f != nil {
		var phi *ssa.Phi
		for _, b := range f.Blocks {
			for _, in := range b.Instrs {
				if p, ok := in.(*ssa.Phi); ok && strings.HasSuffix(an.ShortType(p.Type()), "MetavarType") {
					phi = p
				}
			}
		}
		cases := an.EqCases(f, func(v ssa.Value) bool { return strings.HasSuffix(an.Path(v), ".Type.Name") && !isAddr(v) })
		table := map[string]string{}
		var lastElse *ssa.BasicBlock
		for _, c := range cases {
			k, ok := an.ConstString(c.Key)
			if !ok || phi == nil {
				continue
			}
			table[k] = joinSorted(phiEdgesFrom(phi, c.Target))
			lastElse = c.Else
		}
		// the switch as data: `t, known := table[decl.Type.Name]` on a package-level map of constants that only
		// the package initialiser writes
		var tableLookup *ssa.Lookup
		if len(cases) == 0 {
			for _, b := range f.Blocks {
				for _, in := range b.Instrs {
					lk, ok := in.(*ssa.Lookup)
					if !ok || !lk.CommaOk || !strings.HasSuffix(an.Path(lk.Index), ".Type.Name") {
						continue
					}
					if entries, okTab := constantMapEntries(r, lk.X); okTab {
						tableLookup = lk
						for k, v := range entries {
							table[k] = v
						}
					}
				}
			}
		}
		want := map[string]string{"identifier": "const:" + itoa(identT), "expression": "const:" + itoa(exprT)}
		for k, v := range want {
			r.Check(table[k] == v, short(f)+"|"+k, f.Pos(), "metavariable type %q is compiled to kind %s (got %q)", k, v, table[k])
		}
		for k := range table {
			if _, ok := want[k]; !ok {
				r.Fail(short(f)+"|extra|"+k, f.Pos(), "compileMeta accepts a metavariable type %q that the patch language does not define", k)
			}
		}
		// default arm: error, no entry
		upd, kindStored := declarationWrite(f)
		if tableLookup != nil {
			// table form: the kind is the looked-up value, an unknown name takes the !known edge
			var tv, okv ssa.Value
			for _, u := range *tableLookup.Referrers() {
				if ex, isEx := u.(*ssa.Extract); isEx {
					if ex.Index == 0 {
						tv = ex
					} else {
						okv = ex
					}
				}
			}
			if r.Check(upd != nil && tv != nil && okv != nil, short(f)+"|table-write", f.Pos(), "compileMeta writes the kind looked up for the declaration's type into the table") {
				r.Check(kindStored == tv, short(f)+"|table-value", upd.Pos(), "the value stored for a name is the kind selected by its declaration's type")
				brs := an.BranchesOn(f, okv)
				reportsErr := false
				unknownWrites := true
				if len(brs) > 0 {
					unknownWrites = !unreachableWithout(upd.Block(), edgesWhen(brs, true))
					outer := an.LoopOf(f, tableLookup.Block())
					for _, br := range brs {
						start := br.If.Block().Succs[br.EdgeWhen(false)]
						reach := an.Reach([]*ssa.BasicBlock{start}, func(b *ssa.BasicBlock, i int) bool { return outer != nil && b.Succs[i] == outer.Header })
						for b := range reach {
							for _, in := range b.Instrs {
								if c, ok := in.(*ssa.Call); ok && an.StaticCallee(c) == r.P.Func(engine, "compiler.errf") {
									reportsErr = true
								}
							}
						}
					}
				}
				r.Check(!unknownWrites && reportsErr, short(f)+"|unknown-type", tableLookup.Pos(), "an unknown metavariable type is reported through errf and creates no table entry")
			}
			r.Count("kind table entries", len(table))
		} else if r.Check(upd != nil && lastElse != nil && phi != nil, short(f)+"|table-write", f.Pos(), "compileMeta writes the kind computed by the type switch into the table") {
			r.Check(kindStored == ssa.Value(phi), short(f)+"|table-value", upd.Pos(), "the value stored for a name is the kind selected by its declaration's type")
			outer := an.LoopOf(f, cases[0].If.Block())
			for l := outer; l != nil; {
				// use the outermost loop containing the switch
				bigger := (*an.Loop)(nil)
				for _, cand := range an.Loops(f) {
					if cand.Blocks[l.Header] && len(cand.Blocks) > len(l.Blocks) {
						bigger = cand
					}
				}
				if bigger == nil {
					break
				}
				l = bigger
				outer = l
			}
			reach := an.Reach([]*ssa.BasicBlock{lastElse}, func(b *ssa.BasicBlock, i int) bool { return outer != nil && b.Succs[i] == outer.Header })
			reportsErr := false
			for b := range reach {
				for _, in := range b.Instrs {
					if c, ok := in.(*ssa.Call); ok && an.StaticCallee(c) == r.P.Func(engine, "compiler.errf") {
						reportsErr = true
					}
				}
			}
			r.Check(!reach[upd.Block()] && reportsErr, short(f)+"|unknown-type", lastElse.Instrs[0].Pos(), "an unknown metavariable type is reported through errf and creates no table entry")
		}
		if tableLookup == nil {
			r.Count("kind table entries", len(table))
		}
	}
	// compileIdent (matcher): kind -> predicate
	if f := fn(r, engine, "matcherCompiler.compileIdent"); f != nil {
		var phi *ssa.Phi
		for _, b := range f.Blocks {
			for _, in := range b.Instrs {
				if p, ok := in.(*ssa.Phi); ok && an.ShortType(p.Type()) == "func(reflect.Type) bool" {
					phi = p
				}
			}
		}
		isLookup := func(v ssa.Value) bool {
			c, ok := v.(*ssa.Call)
			return ok && an.StaticCallee(c) == r.P.Func(engine, "Meta.LookupVar")
		}
		table := map[int64]string{}
		var lastElse *ssa.BasicBlock
		for _, c := range an.EqCases(f, isLookup) {
			k, ok := an.ConstInt(c.Key)
			if !ok || phi == nil {
				continue
			}
			table[k] = joinSorted(phiEdgesFrom(phi, c.Target))
			lastElse = c.Else
		}
		// the kind switch as a function of its own: `pred := predicateFor(c.meta.LookupVar(name)); if pred == nil
		// { generic }` — the table is read off the helper's returns, nil is "not a metavariable"
		var viaHelper *ssa.Call
		if phi == nil {
			for _, c := range an.Calls(f) {
				call, ok := c.(*ssa.Call)
				h := an.StaticCallee(c)
				if !ok || h == nil || !an.InModule(h) || h.Blocks == nil || len(h.Params) != 1 || len(call.Call.Args) != 1 || !isLookup(call.Call.Args[0]) || an.ShortType(call.Type()) != "func(reflect.Type) bool" {
					continue
				}
				viaHelper = call
				for _, cse := range an.EqCases(h, func(v ssa.Value) bool { return v == ssa.Value(h.Params[0]) }) {
					k, isc := an.ConstInt(cse.Key)
					ret := an.ReturnOf(cse.Target)
					if !isc || ret == nil {
						continue
					}
					if fv, isFn := ret.Results[0].(*ssa.Function); isFn {
						table[k] = "func:" + short(fv)
					} else if !an.IsNilConst(ret.Results[0]) {
						table[k] = an.Describe(ret.Results[0])
					}
					if er := an.ReturnOf(cse.Else); er != nil && !an.IsNilConst(er.Results[0]) {
						if _, more := er.Results[0].(*ssa.Function); more {
							table[-1] = "a predicate for kinds other than the two"
						}
					}
				}
				for _, b := range f.Blocks {
					iff, ok := b.Instrs[len(b.Instrs)-1].(*ssa.If)
					if !ok {
						continue
					}
					cmp, ok := iff.Cond.(*ssa.BinOp)
					if !ok || (cmp.Op != token.EQL && cmp.Op != token.NEQ) || cmp.X != ssa.Value(call) || !an.IsNilConst(cmp.Y) {
						continue
					}
					if cmp.Op == token.EQL {
						lastElse = b.Succs[0]
					} else {
						lastElse = b.Succs[1]
					}
				}
			}
		}
		r.Check(table[identT] == "func:internal/engine.isIdent", short(f)+"|identifier", f.Pos(), "identifier metavariables use the predicate isIdent (got %q)", table[identT])
		r.Check(table[exprT] == "func:internal/engine.isExpression", short(f)+"|expression", f.Pos(), "expression metavariables use the predicate isExpression (got %q)", table[exprT])
		r.Check(len(table) == 2, short(f)+"|kinds", f.Pos(), "exactly the two metavariable kinds get a MetavarMatcher (found %d)", len(table))
		okDefault := false
		if lastElse != nil {
			if ret := an.ReturnOf(lastElse); ret != nil && strings.HasSuffix(an.Describe(ret.Results[0]), "matcherCompiler).compileGeneric") {
				okDefault = true
			}
		}
		r.Check(okDefault, short(f)+"|undeclared", f.Pos(), "a name that is not a declared metavariable is compiled as ordinary code (generic matcher: matches only itself)")
		// the MetavarMatcher carries the selected predicate and the identifier's own name
		good := false
		for _, in := range an.StoresIn(f) {
			st, ok := in.(*ssa.Store)
			if !ok {
				continue
			}
			if fa, ok := st.Addr.(*ssa.FieldAddr); ok && fieldNameOf(fa) == "TypeMatches" && (phi != nil && st.Val == ssa.Value(phi) || viaHelper != nil && st.Val == ssa.Value(viaHelper)) {
				good = true
			}
		}
		r.Check(good, short(f)+"|predicate-wired", f.Pos(), "the MetavarMatcher's TypeMatches is the predicate selected by the kind switch")
	}
	// predicates
	gt := goastTypes(r)
	if f := fn(r, engine, "isIdent"); f != nil {
		good := false
		for _, ret := range an.Returns(f) {
			if cmp, ok := ret.Results[0].(*ssa.BinOp); ok && cmp.Op == token.EQL {
				for _, pair := range [][2]ssa.Value{{cmp.X, cmp.Y}, {cmp.Y, cmp.X}} {
					if pair[0] == ssa.Value(f.Params[0]) {
						if g := an.GlobalLoaded(pair[1]); g != nil && gt[g.Name()] == "*go/ast.Ident" {
							good = true
						}
					}
				}
			}
		}
		r.Check(good && len(an.Returns(f)) == 1, short(f)+"|body", f.Pos(), "isIdent(t) is t == reflect type of *ast.Ident")
	}
	if f := fn(r, engine, "isExpression"); f != nil {
		good := false
		for _, ret := range an.Returns(f) {
			if c, ok := ret.Results[0].(*ssa.Call); ok && c.Call.IsInvoke() && c.Call.Method.Name() == "Implements" && c.Call.Value == ssa.Value(f.Params[0]) {
				if g := an.GlobalLoaded(c.Call.Args[0]); g != nil && gt[g.Name()] == "go/ast.Expr" {
					good = true
				}
			}
		}
		r.Check(good && len(an.Returns(f)) == 1, short(f)+"|body", f.Pos(), "isExpression(t) is t.Implements(ast.Expr)")
	}
	// replacer side: exactly the undeclared names are literals
	if f := fn(r, engine, "replacerCompiler.compileIdent"); f != nil {
		isLookup := func(v ssa.Value) bool {
			c, ok := v.(*ssa.Call)
			return ok && an.StaticCallee(c) == r.P.Func(engine, "Meta.LookupVar")
		}
		good := false
		for _, c := range an.EqCases(f, isLookup) {
			if k, ok := an.ConstInt(c.Key); ok && k == 0 {
				rt, re := an.ReturnOf(c.Target), an.ReturnOf(c.Else)
				if rt != nil && re != nil && strings.HasSuffix(an.Describe(rt.Results[0]), "replacerCompiler).compileGeneric") && strings.Contains(an.Describe(re.Results[0]), "MetavarReplacer") {
					good = true
				}
			}
		}
		r.Check(good, short(f)+"|table", f.Pos(), "on the '+' side a name is reproduced literally exactly when it is not a declared metavariable (LookupVar == 0), otherwise by a MetavarReplacer")
	}
	if f := fn(r, engine, "Meta.LookupVar"); f != nil {
		good := false
		for _, ret := range an.Returns(f) {
			if lk, ok := ret.Results[0].(*ssa.Lookup); ok && an.Path(lk.X) == "m.Vars" && lk.Index == ssa.Value(f.Params[1]) {
				good = true
			}
		}
		r.Check(good, short(f)+"|body", f.Pos(), "LookupVar(name) returns m.Vars[name] (zero for undeclared names)")
	}
	r.Min("kind table entries", 2)
}

func itoa(i int64) string { return constant.MakeInt64(i).ExactString() }

func c02KindCheckedFirst(r *an.Run) {
	r.Rule("R2-kind-checked-first")
	f := fn(r, engine, "MetavarMatcher.Match")
	if f == nil {
		return
	}
	var edges []an.CtrlEdge
	for _, b := range f.Blocks {
		iff, ok := b.Instrs[len(b.Instrs)-1].(*ssa.If)
		if !ok {
			continue
		}
		inner, pos := an.StripNot(iff.Cond)
		c, ok := inner.(*ssa.Call)
		if !ok || an.Path(c.Call.Value) != "m.TypeMatches" {
			continue
		}
		if !callOn(c.Call.Args[0], rvType, func(x ssa.Value) bool { return isParam(x, "got") }) {
			continue
		}
		br := an.BranchOn{If: iff, Pos: pos}
		edges = append(edges, an.CtrlEdge{Block: b, Succ: br.EdgeWhen(true)})
	}
	onlyVia(r, f, short(f)+"|kind", "kind predicate m.TypeMatches(got.Type())", edges)
}

func c02Consistency(r *an.Run) {
	r.Rule("R3-consistent-binding")
	f := fn(r, engine, "MetavarMatcher.Match")
	if f == nil {
		return
	}
	d := paramAt(f, 1)
	var lookups []*ssa.Call
	for _, c := range an.CallsTo(f, dataPath+".Lookup") {
		lookups = append(lookups, c.(*ssa.Call))
	}
	if !r.Check(len(lookups) == 1 && lookups[0].Call.Args[0] == ssa.Value(d), short(f)+"|lookup", f.Pos(), "Match looks the metavariable up once, in the incoming data") {
		return
	}
	lk := lookups[0]
	brs := an.BranchesOn(f, lk)
	if !r.Check(len(brs) > 0, short(f)+"|branch", lk.Pos(), "Match branches on whether the metavariable is already bound") {
		return
	}
	// bound path
	bound := an.Reach([]*ssa.BasicBlock{brs[0].If.Block().Succs[brs[0].EdgeWhen(true)]}, nil)
	nv := 0
	for _, vc := range an.VerdictCalls(f) {
		if !bound[vc.Call.Block()] {
			r.Fail(short(f)+"|sub-match-outside-bound-path", vc.Call.Pos(), "a sub-match is made although the metavariable is not bound yet")
			continue
		}
		nv++
		a := an.CallArgs(vc.Call)
		// receiver: the captured matcher of md
		r.Check(strings.HasSuffix(an.Path(a[0]), ".Matcher") || derivesFromAlloc(a[0], "md"), short(f)+"|captured-matcher", vc.Call.Pos(), "the later occurrence is matched by the matcher captured at the first occurrence")
		r.Check(a[1] == ssa.Value(paramAt(f, 0)), short(f)+"|same-candidate", vc.Call.Pos(), "the captured matcher is applied to the candidate itself")
		fresh := false
		if c, ok := a[2].(*ssa.Call); ok && an.IsCallTo(c, dataPath+".New") {
			fresh = true
		}
		r.Check(fresh, short(f)+"|fresh-data", vc.Call.Pos(), "the captured matcher runs against fresh data (data.New()), so nothing recorded while comparing leaks into the attempt's bindings")
	}
	r.Check(nv == 1, short(f)+"|one-sub-match", f.Pos(), "exactly one sub-match on the bound path (found %d)", nv)
	for _, ret := range an.Returns(f) {
		if bound[ret.Block()] {
			r.Check(ret.Results[0] == ssa.Value(d), short(f)+"|bound-returns-incoming-data", ret.Pos(), "on the bound path the incoming data is returned unchanged")
		}
	}
	// first occurrence: capture from `got` with a nil metavariable table
	unbound := an.Reach([]*ssa.BasicBlock{brs[0].If.Block().Succs[brs[0].EdgeWhen(false)]}, nil)
	nm, nr := 0, 0
	for _, c := range an.Calls(f) {
		if !unbound[c.Block()] {
			continue
		}
		sc := an.StaticCallee(c)
		switch {
		case sc == r.P.Func(engine, "newMatcherCompiler"), sc == r.P.Func(engine, "newReplacerCompiler"):
			r.Check(an.IsNilConst(c.Common().Args[1]), short(f)+"|capture-no-metavars|"+sc.Name(), c.Pos(), "the captured value is compiled with no metavariable table: names inside it are ordinary code")
		case sc == r.P.Func(engine, "matcherCompiler.compile"):
			nm++
			r.Check(c.Common().Args[1] == ssa.Value(paramAt(f, 0)), short(f)+"|capture-matcher-from-got", c.Pos(), "the captured matcher is compiled from the matched value")
		case sc == r.P.Func(engine, "replacerCompiler.compile"):
			nr++
			r.Check(c.Common().Args[1] == ssa.Value(paramAt(f, 0)), short(f)+"|capture-replacer-from-got", c.Pos(), "the captured replacer is compiled from the matched value")
		}
	}
	r.Check(nm == 1 && nr == 1, short(f)+"|captures", f.Pos(), "the first occurrence captures one matcher and one replacer (found %d/%d)", nm, nr)
	for _, ret := range an.Returns(f) {
		if !unbound[ret.Block()] || bound[ret.Block()] {
			continue
		}
		c, ok := ret.Results[0].(*ssa.Call)
		r.Check(ok && an.IsCallTo(c, dataPath+".WithValue") && c.Call.Args[0] == ssa.Value(d), short(f)+"|first-extends-incoming-data", ret.Pos(), "the first occurrence returns the incoming data extended by the binding")
	}
}

func derivesFromAlloc(v ssa.Value, comment string) bool {
	for x := range an.BackSlice(v, an.SliceOpts{ThroughMemory: false}) {
		if a, ok := x.(*ssa.Alloc); ok && a.Comment == comment {
			return true
		}
	}
	return false
}

func c02KeyAgreement(r *an.Run) {
	r.Rule("R4-key-agreement")
	n := 0
	for _, name := range []string{"MetavarMatcher.Match", "MetavarReplacer.Replace"} {
		f := fn(r, engine, name)
		if f == nil {
			continue
		}
		for _, c := range an.CallsTo(f, dataPath+".Lookup", dataPath+".WithValue") {
			n++
			k := c.Common().Args[1]
			mi, ok := k.(*ssa.MakeInterface)
			good := ok && strings.HasSuffix(an.ShortType(mi.X.Type()), "metavarKey")
			if good {
				inner := an.Unwrap(mi.X)
				good = len(f.Params) > 0 && an.Path(inner) == an.ParamName(f.Params[0])+".Name"
			}
			r.Check(good, short(f)+"|key|"+an.TrimModule(an.CalleeName(c)), c.Pos(), "the data key is metavarKey(m.Name) of the receiver")
		}
	}
	r.Count("metavariable key sites", n)
	r.Min("metavariable key sites", 3)
	// the replacer reproduces with the captured replacer against fresh data
	if f := fn(r, engine, "MetavarReplacer.Replace"); f != nil {
		good := false
		for _, c := range an.CallsTo(f, replReplace) {
			a := an.CallArgs(c)
			if cc, ok := a[1].(*ssa.Call); ok && an.IsCallTo(cc, dataPath+".New") {
				good = true
			}
		}
		r.Check(good, short(f)+"|fresh-data", f.Pos(), "the captured replacer reproduces the value from fresh data (a fresh copy each time)")
	}
}

func c02Duplicates(r *an.Run) {
	r.Rule("R5-duplicates-and-underscore")
	f := fn(r, engine, "compiler.compileMeta")
	if f == nil {
		return
	}
	upd, _ := declarationWrite(f)
	if upd == nil {
		r.Fail(short(f)+"|table-write", f.Pos(), "no write to the metavariable table found")
		return
	}
	resultIsTheDeclarations(r, f, upd)
	// "_" guard
	var underscore, conflict []an.CtrlEdge
	for _, c := range an.EqCases(f, func(v ssa.Value) bool { return strings.HasSuffix(an.Path(v), ".Name") && !isAddr(v) }) {
		if k, ok := an.ConstString(c.Key); ok && k == "_" {
			underscore = append(underscore, edgeTo(c.If.Block(), c.Else))
		}
	}
	for _, b := range f.Blocks {
		iff, ok := b.Instrs[len(b.Instrs)-1].(*ssa.If)
		if !ok {
			continue
		}
		inner, pos := an.StripNot(iff.Cond)
		ex, ok := inner.(*ssa.Extract)
		if !ok || ex.Index != 1 {
			continue
		}
		if lk, ok := ex.Tuple.(*ssa.Lookup); ok && lk.CommaOk && an.Path(lk.Index) != "" && an.Path(lk.Index) == an.Path(upd.Key) {
			br := an.BranchOn{If: iff, Pos: pos}
			conflict = append(conflict, an.CtrlEdge{Block: b, Succ: br.EdgeWhen(false)})
			// the map consulted is the one that records declarations (written next to the table)
			wr := false
			for _, in := range an.StoresIn(f) {
				if mu, ok := in.(*ssa.MapUpdate); ok && mu.Map == lk.X && mu.Block() == upd.Block() && an.Path(mu.Key) == an.Path(upd.Key) {
					wr = true
				}
			}
			r.Check(wr, short(f)+"|decl-recorded", lk.Pos(), "every accepted declaration is recorded in the map the duplicate test consults")
		}
	}
	r.Check(len(underscore) > 0 && unreachableWithout(upd.Block(), underscore), short(f)+"|underscore", upd.Pos(), "\"_\" never becomes a metavariable")
	r.Check(len(conflict) > 0 && unreachableWithout(upd.Block(), conflict), short(f)+"|duplicate", upd.Pos(), "a name is entered only if it was not declared before (a duplicate is reported, the first declaration stays)")
}

func c02NoLeakage(r *an.Run) {
	r.Rule("R6-no-leakage-between-attempts")
	ts := traversalState(r)
	if ts != nil && ts.clo != nil {
		f, clo := ts.f, ts.clo
		for _, in := range an.StoresIn(clo) {
			st, ok := in.(*ssa.Store)
			if !ok {
				continue
			}
			if name, isCell := ts.cellOf(st.Addr); isCell {
				r.Check(strings.HasSuffix(an.ShortType(st.Addr.Type()), "[]*engine.SearchResult"), short(clo)+"|captured-write|"+name, st.Pos(), "the traversal callback writes no shared traversal state except the match list (wrote %s)", name)
				continue
			}
			if _, isFree := an.Root(st.Addr).(*ssa.FreeVar); isFree {
				r.Fail(short(clo)+"|captured-write|"+an.Path(st.Addr), st.Pos(), "the traversal callback writes through a captured variable (%s)", an.Path(st.Addr))
			}
		}
		// the data each attempt starts from: a load of a state cell that is never written after the callback exists
		for _, vc := range an.VerdictCalls(clo) {
			a := an.CallArgs(vc.Call)
			cell, isCell := ts.loadedCell(a[2])
			if !r.Check(isCell, short(clo)+"|attempt-data", vc.Call.Pos(), "every match attempt starts from the outer data value held in the traversal state") {
				continue
			}
			created := ts.creation()
			sts := ts.parentStores(cell)
			for _, st := range sts {
				b2 := st.Block()
				if created.Block().Dominates(b2) && (b2 != created.Block() || an.InstrBlockIndex(st) > an.InstrBlockIndex(created)) {
					r.Fail(short(f)+"|outer-data-reassigned", st.Pos(), "the outer data is reassigned after the traversal started: later attempts would see earlier attempts' bindings")
				}
			}
			// the callback itself never writes it (checked above: only the match list is written)
			r.Check(len(sts) >= 1 || ts.stateAlloc == nil, short(f)+"|outer-data-cell", vc.Call.Pos(), "outer data cell found")
		}
	}
	// package data is persistent: no store into an existing node
	n := 0
	for _, g := range r.P.PkgFuncs(dataRel) {
		for _, in := range an.StoresIn(g) {
			n++
			switch x := in.(type) {
			case *ssa.Store:
				root := an.Root(x.Addr)
				_, isAlloc := root.(*ssa.Alloc)
				if !isAlloc {
					if c, ok := root.(*ssa.Call); ok && (an.IsCallTo(c, "reflect.ValueOf") || an.IsCallTo(c, rvElem)) {
						isAlloc = true
					}
				}
				r.Check(isAlloc, short(g)+"|store", x.Pos(), "package data only initialises freshly allocated nodes; it never writes into an existing Data value")
			case *ssa.MapUpdate:
				mk := rootedAtFreshAlloc(x.Map)
				r.Check(mk, short(g)+"|mapupdate", x.Pos(), "package data only fills maps it has just created")
			}
		}
	}
	r.Count("stores in package data", n)
	r.Min("stores in package data", 5)
}

// declarationWrite finds where compileMeta enters an accepted declaration: the
// map update keyed by the declared name whose value is the kind, or a record
// (struct) that holds the kind. It also returns the kind value that is stored.
func declarationWrite(f *ssa.Function) (*ssa.MapUpdate, ssa.Value) {
	var upd *ssa.MapUpdate
	var kind ssa.Value
	for _, in := range an.StoresIn(f) {
		mu, ok := in.(*ssa.MapUpdate)
		if !ok || !strings.HasSuffix(an.Path(mu.Key), ".Name") {
			continue
		}
		if strings.HasSuffix(an.ShortType(mu.Value.Type()), "MetavarType") {
			upd, kind = mu, mu.Value
			continue
		}
		// a record: a struct with exactly one kind field, built in a local and stored whole
		st, isStruct := mu.Value.Type().Underlying().(*types.Struct)
		if !isStruct {
			continue
		}
		ki := -1
		for i := 0; i < st.NumFields(); i++ {
			if strings.HasSuffix(an.ShortType(st.Field(i).Type()), "MetavarType") {
				if ki >= 0 {
					ki = -2
					break
				}
				ki = i
			}
		}
		if ki < 0 {
			continue
		}
		if ld, isLoad := mu.Value.(*ssa.UnOp); isLoad {
			if al, isAl := ld.X.(*ssa.Alloc); isAl && al.Referrers() != nil {
				for _, u := range *al.Referrers() {
					if fa, isFA := u.(*ssa.FieldAddr); isFA && fa.Field == ki {
						for _, w := range *fa.Referrers() {
							if s2, isSt := w.(*ssa.Store); isSt {
								if upd == nil || !strings.HasSuffix(an.ShortType(upd.Value.Type()), "MetavarType") {
									upd, kind = mu, s2.Val
								}
							}
						}
					}
				}
			}
		}
	}
	return upd, kind
}

// resultIsTheDeclarations: when declarations are entered into a map of records,
// the table compileMeta hands back is made from exactly those records: one
// entry per record, under the record's own name, with the record's kind.
func resultIsTheDeclarations(r *an.Run, f *ssa.Function, upd *ssa.MapUpdate) {
	if strings.HasSuffix(an.ShortType(upd.Value.Type()), "MetavarType") {
		return // the declarations are entered into the table itself
	}
	good := false
	for _, in := range an.StoresIn(f) {
		mu, ok := in.(*ssa.MapUpdate)
		if !ok || mu == upd || !strings.HasSuffix(an.ShortType(mu.Value.Type()), "MetavarType") {
			continue
		}
		// vars[name] = decl.Type with (name, decl) the key and value of a range over the declarations map
		kx, ok1 := mu.Key.(*ssa.Extract)
		var vx *ssa.Extract
		switch v := mu.Value.(type) {
		case *ssa.Field:
			vx, _ = v.X.(*ssa.Extract)
		case *ssa.UnOp:
			if fa, isFA := v.X.(*ssa.FieldAddr); isFA {
				if al, isAl := fa.X.(*ssa.Alloc); isAl && al.Referrers() != nil {
					for _, u := range *al.Referrers() {
						if s2, isSt := u.(*ssa.Store); isSt && s2.Addr == ssa.Value(al) {
							vx, _ = s2.Val.(*ssa.Extract)
						}
					}
				}
			}
		}
		if !ok1 || vx == nil || kx.Tuple != vx.Tuple || kx.Index != 1 || vx.Index != 2 {
			continue
		}
		nx, isNext := kx.Tuple.(*ssa.Next)
		if !isNext {
			continue
		}
		rg, isRange := nx.Iter.(*ssa.Range)
		if isRange && rg.X == upd.Map {
			good = true
		}
	}
	r.Check(good, short(f)+"|result-is-the-declarations", upd.Pos(), "the table handed back is built from the recorded declarations: one entry per record, under its own name, with its kind")
}

// constantMapEntries: m is a load of a package-level map[string]T whose
// initialiser is a literal of constants and that nothing else writes:
// key -> "const:<value>".
func constantMapEntries(r *an.Run, m ssa.Value) (map[string]string, bool) {
	g := an.GlobalLoaded(m)
	if g == nil || g.Pkg == nil {
		return nil, false
	}
	out := map[string]string{}
	var made ssa.Value
	fns := r.P.ModuleFuncs()
	if init := g.Pkg.Func("init"); init != nil {
		fns = append(append([]*ssa.Function{}, fns...), init)
	}
	seenFn := map[*ssa.Function]bool{}
	for _, h := range fns {
		if seenFn[h] {
			continue
		}
		seenFn[h] = true
		for _, b := range h.Blocks {
			for _, in := range b.Instrs {
				if st, ok := in.(*ssa.Store); ok && st.Addr == ssa.Value(g) {
					if h.Name() != "init" || made != nil {
						return nil, false
					}
					made = st.Val
				}
			}
		}
	}
	if made == nil {
		return nil, false
	}
	seenFn = map[*ssa.Function]bool{}
	for _, h := range fns {
		if seenFn[h] {
			continue
		}
		seenFn[h] = true
		for _, b := range h.Blocks {
			for _, in := range b.Instrs {
				mu, ok := in.(*ssa.MapUpdate)
				if !ok {
					continue
				}
				if mu.Map != made && an.GlobalLoaded(mu.Map) != g {
					continue
				}
				if h.Name() != "init" {
					return nil, false
				}
				k, okK := an.ConstString(mu.Key)
				v, okV := an.ConstInt(mu.Value)
				if !okK || !okV {
					return nil, false
				}
				out[k] = "const:" + itoa(v)
			}
		}
	}
	return out, len(out) > 0
}
