package rules

import (
	"go/token"
	"go/types"
	"strings"

	"golang.org/x/tools/go/ssa"

	"gpcheck/internal/an"
)

// memoDependencies checks the bookkeeping the failure memo of matchSections
// relies on (it was introduced by the repair of F11): a failure recorded for
// "sections k.. do not match from position i" may be reused only while the
// metavariables those sections refer to are bound the same way. The matcher
// knows which names a section refers to from the record the compiler keeps:
//
//	M1 compileIdent records *every occurrence* of a metavariable — a record
//	   that skips repeated occurrences makes a later section that re-uses X
//	   look independent of X, and a failure found under X=a is reused under
//	   X=b (a consistent site is then left unmatched);
//	M2 compileSliceDots cuts that record into per-section lists at the
//	   section boundaries (each list starts where the previous one ended);
//	M3 bindsAny examines every new binding against every recorded name, by
//	   linear search, and answers "no" only after all of them.
func memoDependencies(r *an.Run, rule string) {
	r.Rule(rule)
	ci := fn(r, engine, "matcherCompiler.compileIdent")
	cs := fn(r, engine, "matcherCompiler.compileSliceDots")
	ba := fn(r, engine, "bindsAny")
	if ci == nil || cs == nil || ba == nil {
		return
	}
	isRecordField := func(v ssa.Value) bool {
		fa, ok := v.(*ssa.FieldAddr)
		if !ok || fieldNameOf(fa) != "metavars" {
			return false
		}
		return an.IsNamed(fa.X.Type(), enginePath, "matcherCompiler")
	}
	var loadsRecord func(v ssa.Value) bool
	loadsRecord = func(v ssa.Value) bool {
		if u, ok := v.(*ssa.UnOp); ok {
			return u.Op == token.MUL && isRecordField(u.X)
		}
		// a parameter of a private helper that is handed the record at every call site
		if p, ok := v.(*ssa.Parameter); ok && p.Parent() != nil {
			callers := r.P.CallersOf(p.Parent())
			if len(callers) == 0 {
				return false
			}
			for i, q := range p.Parent().Params {
				if q != p {
					continue
				}
				for _, c := range callers {
					if c.Common().StaticCallee() != p.Parent() || i >= len(an.CallArgs(c)) || !loadsRecord(an.CallArgs(c)[i]) {
						return false
					}
				}
				return true
			}
		}
		return false
	}
	lenOfRecord := func(v ssa.Value) bool {
		c, ok := v.(*ssa.Call)
		return ok && an.IsCallTo(c, "builtin:len") && loadsRecord(c.Call.Args[0])
	}

	// ---- M1 ----------------------------------------------------------------
	group := helperGroup(ci, 2)
	isRecord := func(in ssa.Instruction) bool {
		st, ok := in.(*ssa.Store)
		if !ok || !isRecordField(st.Addr) {
			return false
		}
		app, ok := st.Val.(*ssa.Call)
		return ok && an.IsCallTo(app, "builtin:append") && loadsRecord(app.Call.Args[0])
	}
	// must-record summaries of the helpers (every path to a return records)
	must := map[*ssa.Function]bool{}
	recBlocks := func(g *ssa.Function) map[*ssa.BasicBlock]bool {
		out := map[*ssa.BasicBlock]bool{}
		for _, b := range g.Blocks {
			for _, in := range b.Instrs {
				if isRecord(in) {
					out[b] = true
				}
				if c, ok := in.(ssa.CallInstruction); ok {
					if sc := an.StaticCallee(c); sc != nil && must[sc] {
						out[b] = true
					}
				}
			}
		}
		return out
	}
	escapes := func(g *ssa.Function, want func(*ssa.Return) bool) *ssa.Return {
		rb := recBlocks(g)
		if rb[g.Blocks[0]] {
			return nil
		}
		reach := an.Reach([]*ssa.BasicBlock{g.Blocks[0]}, func(b *ssa.BasicBlock, i int) bool { return rb[b.Succs[i]] })
		for _, ret := range an.Returns(g) {
			if reach[ret.Block()] && !rb[ret.Block()] && want(ret) {
				return ret
			}
		}
		return nil
	}
	for changed := true; changed; {
		changed = false
		for _, g := range group[1:] {
			if !must[g] && len(recBlocks(g)) > 0 && escapes(g, func(*ssa.Return) bool { return true }) == nil {
				must[g] = true
				changed = true
			}
		}
	}
	nMeta := 0
	isMetaReturn := func(ret *ssa.Return) bool {
		if len(ret.Results) != 1 {
			return false
		}
		mi, ok := ret.Results[0].(*ssa.MakeInterface)
		return ok && an.IsNamed(mi.X.Type(), enginePath, "MetavarMatcher")
	}
	for _, ret := range an.Returns(ci) {
		if isMetaReturn(ret) {
			nMeta++
		}
	}
	bad := escapes(ci, isMetaReturn)
	pos := ci.Pos()
	if bad != nil {
		pos = bad.Pos()
	}
	r.Check(nMeta > 0 && bad == nil, short(ci)+"|every-occurrence-recorded", pos,
		"every path on which compileIdent returns a MetavarMatcher appends the name to the compiler's record of metavariable occurrences (unconditionally: a record without the repeated occurrences lets the failure memo of matchSections survive a different binding)")
	// what is recorded is the identifier's name
	nRec := 0
	for _, g := range group {
		for _, b := range g.Blocks {
			for _, in := range b.Instrs {
				if !isRecord(in) {
					continue
				}
				nRec++
				app := in.(*ssa.Store).Val.(*ssa.Call)
				fromName := false
				for v := range an.BackSlice(app.Call.Args[len(app.Call.Args)-1], an.SliceOpts{ThroughCalls: true, ThroughMemory: true}) {
					if fa, ok := v.(*ssa.FieldAddr); ok && fieldNameOf(fa) == "Name" {
						fromName = true
					}
					if p, ok := v.(*ssa.Parameter); ok && g != ci && an.ShortType(p.Type()) == "string" {
						fromName = true // helper(name)
					}
				}
				r.Check(fromName, short(g)+"|records-the-name", in.Pos(), "the recorded string is the identifier's name")
			}
		}
	}
	r.Count("metavariable record sites", nRec)
	r.Min("metavariable record sites", 1)

	// ---- M2 ----------------------------------------------------------------
	sgroup := helperGroup(cs, 2)
	nCuts := 0
	type cut struct {
		g   *ssa.Function
		b   *ssa.BasicBlock
		idx int
		low ssa.Value
		pos token.Pos
	}
	var cuts []cut
	for _, g := range sgroup {
		for _, b := range g.Blocks {
			for idx, in := range b.Instrs {
				sl, ok := in.(*ssa.Slice)
				if !ok || !loadsRecord(sl.X) {
					continue
				}
				nCuts++
				key := short(g) + "|section-list"
				r.Check(sl.High == nil || lenOfRecord(sl.High), key+"|up-to-now", sl.Pos(), "a section's list of names extends to the current end of the record")
				if sl.Low == nil {
					r.Fail(key+"|from-boundary", sl.Pos(), "a section's list of names starts at the beginning of the record: it includes the names of all earlier sections")
					continue
				}
				cuts = append(cuts, cut{g, b, idx, sl.Low, sl.Pos()})
			}
		}
	}
	// a cut whose start is a helper's parameter happens, as far as the boundary
	// is concerned, at the helper's call sites
	for depth := 0; depth < 2; depth++ {
		var next []cut
		for _, c := range cuts {
			p, isParam := c.low.(*ssa.Parameter)
			if !isParam || c.g == cs {
				next = append(next, c)
				continue
			}
			pi := -1
			for i, q := range c.g.Params {
				if q == p {
					pi = i
				}
			}
			lifted := false
			for _, site := range r.P.CallersOf(c.g) {
				call, ok := site.(*ssa.Call)
				if !ok || pi < 0 {
					continue
				}
				lifted = true
				next = append(next, cut{site.Parent(), site.Block(), an.InstrBlockIndex(call), an.CallArgs(site)[pi], site.Pos()})
			}
			if !lifted {
				next = append(next, c)
			}
		}
		cuts = next
	}
	for _, c := range cuts {
		g, b, low := c.g, c.b, c.low
		key := short(g) + "|section-list"
		// the start derives only from len(record) values
		onlyLens := true
		sawLen := false
		leaves(low, g, r.P.CallersOf, func(v ssa.Value) {
			if lenOfRecord(v) {
				sawLen = true
			} else {
				onlyLens = false
			}
		})
		r.Check(onlyLens && sawLen, key+"|from-boundary", c.pos, "a section's list of names starts at a position that was the length of the record at an earlier boundary")
		// when the cut can be executed again (inside a loop, or in a helper),
		// the boundary is moved to the current end right after it
		again := an.LoopOf(g, b) != nil || g != cs
		if !again {
			continue
		}
		moved := false
		for _, later := range b.Instrs[c.idx+1:] {
			if nl := valueOf(later); nl != nil && lenOfRecord(nl) && feedsBoundary(nl, low, g) {
				moved = true
			}
		}
		r.Check(moved, key+"|boundary-moved", c.pos, "after a section is closed the boundary moves to the current end of the record (otherwise every later list also contains the earlier sections' names, the memo is dropped at every level and the search is exponential again)")
	}
	r.Count("section-list cuts", nCuts)
	r.Min("section-list cuts", 1)
	// the lists are wired into the matcher and handed to the search
	wired := false
	for _, g := range sgroup {
		for _, b := range g.Blocks {
			for _, in := range b.Instrs {
				st, ok := in.(*ssa.Store)
				if !ok {
					continue
				}
				if fa, ok := st.Addr.(*ssa.FieldAddr); ok && fieldNameOf(fa) == "metavars" && an.IsNamed(fa.X.Type(), enginePath, "SliceDotsMatcher") {
					wired = true
				}
			}
		}
	}
	r.Check(wired, short(cs)+"|lists-wired", cs.Pos(), "the per-section lists are stored in the SliceDotsMatcher")

	// ---- M3 ----------------------------------------------------------------
	bgroup := helperGroup(ba, 2)
	inGroup := map[*ssa.Function]bool{}
	for _, g := range bgroup {
		inGroup[g] = true
	}
	nLoops := 0
	for _, g := range bgroup {
		for _, c := range an.Calls(g) {
			if _, isBuiltin := c.Common().Value.(*ssa.Builtin); isBuiltin {
				continue
			}
			sc := an.StaticCallee(c)
			okCall := (sc != nil && inGroup[sc]) || an.IsCallTo(c, "("+dataPath+".Data).Keys")
			// slices.Contains / slices.ContainsFunc are complete linear searches (equality with an element,
			// resp. a predicate that is itself such a search): each stands for one of the loops
			if an.IsCallTo(c, "slices.Contains") {
				okCall = true
				nLoops++
			}
			if an.IsCallTo(c, "slices.ContainsFunc") && len(c.Common().Args) == 2 {
				var pred *ssa.Function
				switch v := c.Common().Args[1].(type) {
				case *ssa.Function:
					pred = v
				case *ssa.MakeClosure:
					pred, _ = v.Fn.(*ssa.Function)
				}
				if pred != nil && inGroup[pred] {
					rets := an.Returns(pred)
					whole := len(rets) > 0
					for _, ret := range rets {
						rc, isCall := ret.Results[0].(*ssa.Call)
						if !isCall || !an.IsCallTo(rc, "slices.Contains", "slices.ContainsFunc") {
							whole = false
						}
					}
					if whole {
						okCall = true
						nLoops++
					}
				}
			}
			r.Check(okCall, short(g)+"|call|"+an.TrimModule(an.CalleeName(c)), c.Pos(), "bindsAny compares names by linear search over the recorded lists (no sorted search, no index: the lists are in order of appearance) — calls %s", an.TrimModule(an.CalleeName(c)))
		}
		for _, l := range an.Loops(g) {
			nLoops++
			il := an.AsIndexLoop(l)
			key := short(g) + "|" + loopTag(g, l, nLoops)
			if !r.Check(il != nil && il.Step == 1 && il.Start == 0, key+"|covers-all", loopPos(l), "every loop of bindsAny visits all elements (new keys, sections, names)") {
				continue
			}
			// early exits only to `return true`
			for b := range l.Blocks {
				for _, s := range b.Succs {
					if l.Blocks[s] || b == l.Header {
						continue
					}
					ret := an.ReturnOf(an.FollowJumps(s))
					good := false
					if ret != nil && len(ret.Results) == 1 {
						if k, isc := an.ConstBool(ret.Results[0]); isc && k {
							good = true
						}
					}
					r.Check(good, key+"|early-exit", loopPos(l), "a loop of bindsAny is left early only to answer true (a dependency was found)")
				}
			}
		}
	}
	r.Count("bindsAny loops", nLoops)
	r.Min("bindsAny loops", 3)
	// the new keys are those after the old ones
	newKeys := false
	for _, b := range ba.Blocks {
		for _, in := range b.Instrs {
			if sl, ok := in.(*ssa.Slice); ok && sl.High == nil && sl.Low != nil {
				if c, ok := sl.Low.(*ssa.Call); ok && an.IsCallTo(c, "builtin:len") {
					if kc, ok := c.Call.Args[0].(*ssa.Call); ok && an.IsCallTo(kc, "("+dataPath+".Data).Keys") && isParam(an.CallArgs(kc)[0], "d") {
						if xc, ok := sl.X.(*ssa.Call); ok && an.IsCallTo(xc, "("+dataPath+".Data).Keys") && isParam(an.CallArgs(xc)[0], "newD") {
							newKeys = true
						}
					}
				}
			}
		}
	}
	r.Check(newKeys, short(ba)+"|new-keys", ba.Pos(), "the bindings examined are newD.Keys()[len(d.Keys()):] — all keys added by the section")
	// string equality of the recorded name with the key
	eq := false
	for _, g := range bgroup {
		for _, b := range g.Blocks {
			for _, in := range b.Instrs {
				if bo, ok := in.(*ssa.BinOp); ok && bo.Op == token.EQL {
					if bt, ok := bo.X.Type().Underlying().(*types.Basic); ok && bt.Kind() == types.String {
						eq = true
					}
				}
				// or looked up in a set of names (membership in a string-keyed map is equality with a member)
				if lk, ok := in.(*ssa.Lookup); ok {
					if mt, isMap := lk.X.Type().Underlying().(*types.Map); isMap {
						if bt, ok := mt.Key().Underlying().(*types.Basic); ok && bt.Kind() == types.String && len(membershipValues(lk)) > 0 {
							eq = true
						}
					}
				}
			}
		}
	}
	for _, g := range bgroup {
		for _, c := range an.CallsTo(g, "slices.Contains") {
			if an.ShortType(c.Common().Args[0].Type()) == "[]string" {
				eq = true
			}
		}
	}
	r.Check(eq, short(ba)+"|name-equality", ba.Pos(), "names are compared for equality")
	keysAreInsertionOrdered(r)
}

// keysAreInsertionOrdered: bindsAny takes "the keys this section added" to be
// the suffix newD.Keys()[len(d.Keys()):]. That is only true if every
// implementation of data.Data lists its keys oldest first: the keys of the
// Data it was built on, then its own. The interface does not promise an order,
// so the contract is checked where it is relied upon (two cooperating sites in
// two packages: a Keys() that walks the chain newest-first still satisfies its
// own tests and silently breaks the failure memo of the elision search).
func keysAreInsertionOrdered(r *an.Run) {
	n := 0
	for _, f := range implementations(r, dataRel, "Data", "Keys") {
		n++
		key := short(f) + "|keys-oldest-first"
		recv := recvValue(f)
		rets := an.Returns(f)
		good, why := len(rets) > 0, ""
		for _, ret := range rets {
			v := ret.Results[0]
			// a copy of a list (make + copy) lists what the original lists, in the same order
			if ms, ok := v.(*ssa.MakeSlice); ok {
				for _, c := range an.CallsTo(f, "builtin:copy") {
					if c.Common().Args[0] == ssa.Value(ms) {
						v = c.Common().Args[1]
					}
				}
			}
			switch {
			case an.IsNilConst(v):
				// no keys
			case loadedField(v) != "" && recv != nil && an.Root(v) == ssa.Value(recv):
				// a stored list: it must have been filled from a Keys() call (checked where it is stored)
				field := loadedField(v)
				filled := false
				for _, g := range r.P.PkgFuncs(dataRel) {
					for _, in := range an.StoresIn(g) {
						st, ok := in.(*ssa.Store)
						if !ok {
							continue
						}
						fa, ok := st.Addr.(*ssa.FieldAddr)
						if !ok || fieldNameOf(fa) != field {
							continue
						}
						if c, ok := st.Val.(*ssa.Call); ok && c.Call.IsInvoke() && c.Call.Method.Name() == "Keys" {
							filled = true
						} else {
							good, why = false, "the stored key list is filled from something other than a Keys() result"
						}
					}
				}
				if !filled {
					good, why = false, "the stored key list is not filled from a Keys() result"
				}
			default:
				if phi, isPhi := v.(*ssa.Phi); isPhi && recv != nil {
					// the chain walked with a loop instead of recursion
					if msg := iterativeKeysOldestFirst(r, f, recv, phi); msg != "" {
						good, why = false, msg
					}
					continue
				}
				app, ok := v.(*ssa.Call)
				if !ok || !an.IsCallTo(app, "builtin:append") {
					good, why = false, "Keys() returns something other than append(<keys of the underlying Data>, <own key>)"
					continue
				}
				isKeysCall := func(x ssa.Value) bool {
					c, ok := x.(*ssa.Call)
					return ok && c.Call.IsInvoke() && c.Call.Method.Name() == "Keys"
				}
				base := app.Call.Args[0]
				parentFirst := isKeysCall(base)
				if inner, ok := base.(*ssa.Call); ok && !parentFirst && an.IsCallTo(inner, "builtin:append") && len(inner.Call.Args) == 2 {
					// a pre-sized copy: append(make([]T, 0, n), parent.Keys()...)
					if ms, ok := inner.Call.Args[0].(*ssa.MakeSlice); ok {
						if k, isc := an.ConstInt(ms.Len); isc && k == 0 && isKeysCall(inner.Call.Args[1]) {
							parentFirst = true
						}
					}
				}
				if !parentFirst {
					good, why = false, "the list Keys() appends to is not the Keys() of the Data it was built on"
					continue
				}
				// the appended element is the receiver's own key
				own := false
				for x := range an.BackSlice(app.Call.Args[1], an.SliceOpts{ThroughMemory: true}) {
					if recv != nil && loadedField(x) != "" && an.Root(x) == ssa.Value(recv) {
						own = true
					}
				}
				if !own {
					good, why = false, "the element appended last is not the receiver's own key"
				}
			}
		}
		r.Check(good, key, f.Pos(), "%s lists the keys of the Data it was built on first and its own key last (insertion order), which bindsAny relies on when it takes newD.Keys()[len(d.Keys()):] for the keys a section added%s", short(f), ifNonEmpty(why, ": "+why))
	}
	r.Count("Data.Keys implementations", n)
	r.Min("Data.Keys implementations", 3)
}

func valueOf(in ssa.Instruction) ssa.Value {
	v, _ := in.(ssa.Value)
	return v
}

// leaves visits the non-phi, non-cell sources of v inside g: phis are followed
// through their edges, loads of a local cell / captured variable / struct field
// through the stores into the same access path in g and g's enclosing function,
// parameters of a helper through the arguments at its call sites.
func leaves(v ssa.Value, g *ssa.Function, callers func(*ssa.Function) []ssa.CallInstruction, visit func(ssa.Value)) {
	seen := map[ssa.Value]bool{}
	var walk func(v ssa.Value, g *ssa.Function, depth int)
	walk = func(v ssa.Value, g *ssa.Function, depth int) {
		if seen[v] || depth > 12 {
			return
		}
		seen[v] = true
		switch x := v.(type) {
		case *ssa.Phi:
			for _, e := range x.Edges {
				walk(e, g, depth+1)
			}
			return
		case *ssa.Parameter:
			found := false
			if pf := x.Parent(); pf != nil && callers != nil {
				for i, p := range pf.Params {
					if p != x {
						continue
					}
					for _, c := range callers(pf) {
						found = true
						walk(an.CallArgs(c)[i], c.Parent(), depth+1)
					}
				}
			}
			if !found {
				visit(v)
			}
			return
		case *ssa.UnOp:
			if x.Op == token.MUL {
				path := an.Path(x.X)
				stores := 0
				fs := []*ssa.Function{g}
				if g.Parent() != nil {
					fs = append(fs, g.Parent())
					fs = append(fs, g.Parent().AnonFuncs...)
				}
				fs = append(fs, g.AnonFuncs...)
				// a field of a builder object that lives across calls: every store to that field of that struct
				// type in the package (the literal that creates the object, the method that moves the boundary)
				if fa, isFA := x.X.(*ssa.FieldAddr); isFA && an.Current != nil {
					if pt, isPtr := fa.X.Type().Underlying().(*types.Pointer); isPtr {
						n := 0
						for _, h := range an.Current.ModuleFuncs() {
							if h.Pkg != g.Pkg {
								continue
							}
							for _, b := range h.Blocks {
								for _, in := range b.Instrs {
									st, ok := in.(*ssa.Store)
									if !ok {
										continue
									}
									fb, ok := st.Addr.(*ssa.FieldAddr)
									if !ok || fb.Field != fa.Field {
										continue
									}
									pb, ok := fb.X.Type().Underlying().(*types.Pointer)
									if !ok || !types.Identical(pb.Elem(), pt.Elem()) {
										continue
									}
									if _, named := pt.Elem().(*types.Named); !named {
										continue
									}
									n++
									walk(st.Val, h, depth+1)
								}
							}
						}
						if n > 0 && h0IsHelperField(fa) {
							return
						}
					}
				}
				for _, h := range fs {
					for _, b := range h.Blocks {
						for _, in := range b.Instrs {
							if st, ok := in.(*ssa.Store); ok && an.Path(st.Addr) == path && sameCellKind(st.Addr, x.X) {
								stores++
								walk(st.Val, h, depth+1)
							}
						}
					}
				}
				if stores > 0 {
					return
				}
			}
		}
		visit(v)
	}
	walk(v, g, 0)
}

// sameCellKind: both addresses are local cells / captured variables, or both
// are fields (the access path alone would confuse a local named like a field).
func sameCellKind(a, b ssa.Value) bool {
	_, fa := a.(*ssa.FieldAddr)
	_, fb := b.(*ssa.FieldAddr)
	return fa == fb
}

// feedsBoundary reports whether the value nl becomes the boundary `low` was
// read from: it is an operand of a phi in low's phi web, or it is stored into
// the cell low was loaded from.
func feedsBoundary(nl, low ssa.Value, g *ssa.Function) bool {
	// cell form
	if u, ok := low.(*ssa.UnOp); ok && u.Op == token.MUL {
		path := an.Path(u.X)
		if refs := nl.Referrers(); refs != nil {
			for _, ref := range *refs {
				if st, ok := ref.(*ssa.Store); ok && st.Val == nl && an.Path(st.Addr) == path {
					return true
				}
			}
		}
		return false
	}
	// helper-parameter form: low is a parameter of a helper; the caller moves the boundary
	if p, ok := low.(*ssa.Parameter); ok {
		_ = p
		return false
	}
	// phi form
	web := map[*ssa.Phi]bool{}
	var grow func(v ssa.Value)
	grow = func(v ssa.Value) {
		if phi, ok := v.(*ssa.Phi); ok && !web[phi] {
			web[phi] = true
			for _, e := range phi.Edges {
				grow(e)
			}
		}
	}
	grow(low)
	// phis that merge web members also belong to it
	for changed := true; changed; {
		changed = false
		for _, b := range g.Blocks {
			for _, in := range b.Instrs {
				phi, ok := in.(*ssa.Phi)
				if !ok || web[phi] {
					continue
				}
				for _, e := range phi.Edges {
					if ep, ok := e.(*ssa.Phi); ok && web[ep] {
						web[phi] = true
						changed = true
					}
				}
			}
		}
	}
	for phi := range web {
		for _, e := range phi.Edges {
			if e == nl {
				return true
			}
		}
	}
	return false
}

// iterativeKeysOldestFirst decides the loop form of Keys():
//
//	newest := []any{d.k}                      // own key, then — walking DOWN the chain —
//	for link != nil { newest = append(newest, link.k); base, link = below(link) }
//	keys := base.Keys()                       // the keys of what the oldest link was built on
//	for i := len(newest)-1; i >= 0; i-- { keys = append(keys, newest[i]) }
//
// that is Keys(base) followed by the chain's keys from the oldest link up to
// the receiver's own — the same list as the recursive definition
// Keys(d) = Keys(d.Data) ++ [d.k] unrolled. It returns "" or what is wrong.
func iterativeKeysOldestFirst(r *an.Run, f *ssa.Function, recv *ssa.Parameter, keysPhi *ssa.Phi) string {
	l2 := an.LoopOf(f, keysPhi.Block())
	if l2 == nil || l2.Header != keysPhi.Block() {
		return "the list returned is not built by a loop"
	}
	il := an.AsIndexLoop(l2)
	if il == nil || !il.Descending || !il.Full() {
		return "the loop that builds the returned list does not run from the last index of the collected keys down to 0 (the chain is walked newest first, so its keys must be appended in reverse)"
	}
	lc, ok := il.Bound.(*ssa.Call)
	if !ok || !an.IsCallTo(lc, "builtin:len") {
		return "the reversing loop does not run over a list"
	}
	newest := lc.Call.Args[0]
	// keys = append(keys, newest[i]) and nothing else
	var k0 ssa.Value
	for i, e := range keysPhi.Edges {
		if !l2.Blocks[keysPhi.Block().Preds[i]] {
			k0 = e
			continue
		}
		app, ok := e.(*ssa.Call)
		if !ok || !an.IsCallTo(app, "builtin:append") || app.Call.Args[0] != ssa.Value(keysPhi) {
			return "inside the reversing loop the list is not extended by append"
		}
		els := appendedElements(app)
		if len(els) != 1 {
			return "the reversing loop appends something other than one collected key"
		}
		_, base, idx, isElem := elemAccess(els[0])
		if !isElem || base != newest || idx != il.Index {
			return "the reversing loop appends something other than element i of the collected keys"
		}
		if il.CoversAll(app, nil) != "" {
			return "the reversing loop skips collected keys"
		}
	}
	kc, ok := k0.(*ssa.Call)
	if !ok || !kc.Call.IsInvoke() || kc.Call.Method.Name() != "Keys" {
		return "the returned list does not start with the Keys() of the Data below the chain"
	}
	// the collecting loop
	newestPhi, ok := newest.(*ssa.Phi)
	if !ok {
		return "the collected keys are not built by a loop"
	}
	l1 := an.LoopOf(f, newestPhi.Block())
	if l1 == nil || l1.Header != newestPhi.Block() {
		return "the collected keys are not built by a loop"
	}
	link, st, fld := chainWalker(l1)
	if link == nil {
		return "the collecting loop does not walk down the chain link by link"
	}
	if !linkFieldIsSetOnceAtCreation(r, st, fld) {
		return "the link field of the chain is written after a link was created"
	}
	// the walk starts at the link below the receiver
	for i, e := range link.Edges {
		if l1.Blocks[link.Block().Preds[i]] {
			continue
		}
		if _, f0, isStep := chainStep(e, recv); !isStep || f0 != fld {
			return "the walk does not start at the link directly below the receiver"
		}
	}
	ownKeyField := -1
	keyOf := func(v ssa.Value, of ssa.Value) (int, bool) {
		ld, ok := v.(*ssa.UnOp)
		if !ok || ld.Op != token.MUL {
			return 0, false
		}
		fa, ok := ld.X.(*ssa.FieldAddr)
		if !ok || fa.X != of || fa.Field == fld {
			return 0, false
		}
		return fa.Field, true
	}
	for i, e := range newestPhi.Edges {
		if !l1.Blocks[newestPhi.Block().Preds[i]] {
			// the one-element literal [recv.key]
			sl, ok := e.(*ssa.Slice)
			if !ok || sl.Low != nil || sl.High != nil {
				return "the collected keys do not start as the one-element list of the receiver's own key"
			}
			al, ok := sl.X.(*ssa.Alloc)
			if !ok || al.Referrers() == nil {
				return "the collected keys do not start as the one-element list of the receiver's own key"
			}
			at, isArr := al.Type().Underlying().(*types.Pointer).Elem().Underlying().(*types.Array)
			if !isArr || at.Len() != 1 {
				return "the collected keys do not start as the one-element list of the receiver's own key"
			}
			for _, u := range *al.Referrers() {
				if ia, ok := u.(*ssa.IndexAddr); ok {
					for _, w := range *ia.Referrers() {
						if st, ok := w.(*ssa.Store); ok {
							if kf, isKey := keyOf(st.Val, recv); isKey {
								ownKeyField = kf
							} else {
								return "the first collected key is not the receiver's own key"
							}
						}
					}
				}
			}
			continue
		}
		app, ok := e.(*ssa.Call)
		if !ok || !an.IsCallTo(app, "builtin:append") || app.Call.Args[0] != ssa.Value(newestPhi) {
			return "inside the collecting loop the list is not extended by append"
		}
		els := appendedElements(app)
		if len(els) != 1 {
			return "the collecting loop appends something other than the key of the current link"
		}
		kf, isKey := keyOf(els[0], link)
		if !isKey || ownKeyField >= 0 && kf != ownKeyField {
			return "the collecting loop appends something other than the key of the current link"
		}
		if ownKeyField < 0 {
			ownKeyField = kf
		}
		for _, lt := range l1.Latch {
			if !(app.Block() == lt || app.Block().Dominates(lt)) {
				return "the collecting loop skips links"
			}
		}
	}
	// base: the Data below the last link walked
	basePhi, ok := kc.Call.Value.(*ssa.Phi)
	if !ok || basePhi.Block() != l1.Header {
		return "Keys() is not asked of the Data below the last link of the chain"
	}
	dataBelow := func(v ssa.Value, of ssa.Value) bool {
		if ld, ok := v.(*ssa.UnOp); ok && ld.Op == token.MUL {
			if fa, ok := ld.X.(*ssa.FieldAddr); ok && fa.X == of && fa.Field == fld {
				return true
			}
		}
		if ex, ok := v.(*ssa.Extract); ok {
			if c, ok := ex.Tuple.(*ssa.Call); ok {
				m := c.Call.StaticCallee()
				if m != nil && an.InModule(m) && m.Blocks != nil && len(c.Call.Args) > 0 && c.Call.Args[0] == of && len(m.Params) > 0 {
					all := len(an.Returns(m)) > 0
					for _, ret := range an.Returns(m) {
						ld, ok := ret.Results[ex.Index].(*ssa.UnOp)
						if !ok {
							all = false
							continue
						}
						fa, ok := ld.X.(*ssa.FieldAddr)
						if !ok || fa.X != ssa.Value(m.Params[0]) || fa.Field != fld {
							all = false
						}
					}
					return all
				}
			}
		}
		return false
	}
	for i, e := range basePhi.Edges {
		of := ssa.Value(link)
		if !l1.Blocks[basePhi.Block().Preds[i]] {
			of = recv
		}
		if !dataBelow(e, of) {
			return "the Data whose Keys() come first is not the one below the last link walked"
		}
	}
	return ""
}

// h0IsHelperField: the field belongs to a private struct type of the engine
// that is not one of the compilers or compiled matchers (a builder object).
func h0IsHelperField(fa *ssa.FieldAddr) bool {
	t := an.ShortType(fa.X.Type())
	return !strings.Contains(t, "ompiler") && !strings.Contains(t, "Matcher") && !strings.Contains(t, "Replacer")
}
