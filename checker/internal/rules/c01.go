package rules

import (
	"fmt"
	"go/constant"
	"go/token"
	"go/types"
	"sort"
	"strings"

	"golang.org/x/tools/go/ssa"

	"gpcheck/internal/an"
)

func init() {
	register(&Spec{
		ID:  "C01",
		Run: runC01,
		Explanation: "Decides structural necessary conditions of 'a change rewrites exactly the instances of its - pattern' on every path/site of the current source: " +
			"R1 the file traversal visits every node (one astutil.Apply over the file parameter, nil post callback; the pre callback stops descending only under node==nil; every true verdict records a SearchResult built from the same cursor); " +
			"R2 FileReplacer.Replace visits every recorded match; R3 no sub-match verdict is dropped anywhere (ok-discipline, A4, over every verdict-returning function of the module); " +
			"R4 every struct field / slice element is compiled and compared (index loops cover 0..NumField/Len/len with the same index on both sides, no skipping continue/break); " +
			"R5 structural guards (struct type equality, exact slice length equality, pointer/interface nil-ness and kind, scalar value equality, nil patterns compile to nilMatcher); " +
			"R6 the set of AST types ignored by the matcher compiler is within {*ast.CommentGroup, *ast.Object}, token.Pos goes to PosMatcher whose verdict is an equality of the two validity tests, and the goast.*Type globals denote the go/ast types their names say; " +
			"R7 every type reachable from the pattern roots in GOROOT's go/ast has a kind handled by compileGeneric or is a comparable scalar; R8 the statement-container switch covers exactly the go/ast structs with a []ast.Stmt field, with the right field name; " +
			"R9 splitPatch sends '-' lines to the minus version only, '+' lines to the plus version only and all others to both, stripping exactly the marker byte. " +
			"R11 a repeated metavariable compares literally (= C02-R3/R7): the matcher captured at the first occurrence is compiled from the captured code by a fresh compiler with no metavariable table; R12 every matcher hands its sub-matchers projections of its own candidate (= C03-R9). " +
			"NOT decided: correctness of reflect, go/parser and astutil.Apply; semantic adequacy of the pattern parse (pgo); interaction of overlapping matches; which text ends up in the output (C03/C05)." +
			" After F15: the recorded matches are replaced last-recorded first (innermost first)." +
			" R9 also: the section splitter hands a line on as content[startOffset:offset] (untrimmed). R13 a half-applied change is never emitted (= C03-R11). Dispatch tables kept as data and higher-order loop helpers (collect / matchEach) are read through their summaries." +
			" R14 the list search tries every position at which a section still fits (the candidate loop runs while i+len(want) <= len(got)); R15 an unterminated last line of the patch file is a line." +
			" R16 nothing compiled from a node outlives the change (no write to the compiled program or to objects hanging off it).",
		Trusted:     commonTrusted,
		Assumptions: commonAssumptions,
	})
}

func runC01(r *an.Run) {
	c01Traversal(r)
	c01AllMatchesReplaced(r)
	okDisciplineAll(r, "R3-ok-discipline", 17)
	c01CoversAll(r)
	c01Guards(r)
	c01IgnoreSet(r)
	c01Schema(r)
	c01Containers(r)
	c01SplitPatch(r)
	memoDependencies(r, "R10-failure-memo-sees-every-binding")
	// a repeated metavariable accepts only identical code: the comparison matcher of the first capture is
	// compiled from the captured code by a fresh compiler without metavariables (names in captured code
	// are literal), and it is applied to the later occurrence itself
	c02Consistency(r)
	c02CapturedCompilerUntweaked(r)
	relabel(r, "R3-consistent-binding", "R11-repeated-metavariable-compares-literally")
	relabel(r, "R7-captured-matcher-ignores-nothing-more", "R11-repeated-metavariable-compares-literally")
	candidateHandedDown(r, "R12-the-candidate-is-what-is-matched")
	// "every instance is rewritten": FileReplacer.Replace rewrites the shared tree site by site and stops at
	// the first site it cannot build, so a file on which a change failed has some instances rewritten and
	// others not — it is given up, never carried on with or printed
	c06MatchedFlagAs(r, "R13-a-half-applied-change-is-never-emitted")
	c09APIFailure(r)
	relabel(r, "R4-failure-leaves-file-untouched", "R13-a-half-applied-change-is-never-emitted")
	// an instance at the very end of a list is an instance: the search for a section tries every position at
	// which the section still fits, the end of the list included (for the empty section between two "...")
	c04AnchoringAndConsumption(r)
	relabel(r, "R3-anchoring-and-consumption", "R14-the-list-search-tries-every-position")
	relabel(r, "R4-recorded-run-is-skipped-run", "R14-the-list-search-tries-every-position")
	relabel(r, "R5-search-completeness", "R14-the-list-search-tries-every-position")
	unterminatedLastLineIsALine(r, "R15-an-unterminated-last-line-is-a-line")
	// what a metavariable captured is compared with the code as it is now: nothing compiled from a node is kept
	// beyond the change (a later change of the same patch meets the node after it was rewritten)
	compiledProgramReadOnly(r, "R16-nothing-compiled-from-a-node-outlives-the-change")
}

const (
	cursorNode   = "(*golang.org/x/tools/go/ast/astutil.Cursor).Node"
	cursorParent = "(*golang.org/x/tools/go/ast/astutil.Cursor).Parent"
	cursorName   = "(*golang.org/x/tools/go/ast/astutil.Cursor).Name"
	cursorIndex  = "(*golang.org/x/tools/go/ast/astutil.Cursor).Index"
	astutilApply = "golang.org/x/tools/go/ast/astutil.Apply"
	matcherMatch = "(" + enginePath + ".Matcher).Match"
	replReplace  = "(" + enginePath + ".Replacer).Replace"
	rvType       = "(reflect.Value).Type"
	rvKind       = "(reflect.Value).Kind"
	rvLen        = "(reflect.Value).Len"
	rvIsNil      = "(reflect.Value).IsNil"
	rvField      = "(reflect.Value).Field"
	rvIndex      = "(reflect.Value).Index"
	rvInterface  = "(reflect.Value).Interface"
	rvElem       = "(reflect.Value).Elem"
	rvSet        = "(reflect.Value).Set"
)

// ---- R1 -------------------------------------------------------------------

// traversalClosure returns FileMatcher.Match, its astutil.Apply call and the
// pre-order callback closure.
func traversalClosure(r *an.Run) (f *ssa.Function, apply ssa.CallInstruction, clo *ssa.Function) {
	t := traversalState(r)
	if t == nil {
		return nil, nil, nil
	}
	return t.f, t.apply, t.clo
}

func c01Traversal(r *an.Run) {
	r.Rule("R1-traversal-complete")
	ts := traversalState(r)
	if ts == nil || ts.apply == nil || ts.clo == nil {
		return
	}
	f, apply, clo := ts.f, ts.apply, ts.clo
	args := apply.Common().Args
	key := short(f)
	r.Check(an.Unwrap(args[0]) == ssa.Value(paramAt(f, 0)), key+"|root", apply.Pos(),
		"the traversal root is the file parameter itself (got %s)", an.Describe(an.Unwrap(args[0])))
	r.Check(an.IsNilConst(an.Unwrap(args[2])), key+"|post", apply.Pos(), "the post callback is nil (no node can be skipped or replaced after its subtree)")

	cursor := clo.Params[0]
	if ts.recv != nil && len(clo.Params) > 1 {
		cursor = clo.Params[1]
	}
	// the node under test
	var nodeCalls []ssa.Value
	for _, c := range an.CallsTo(clo, cursorNode) {
		if an.CallArgs(c)[0] == ssa.Value(cursor) {
			nodeCalls = append(nodeCalls, c.(*ssa.Call))
		}
	}
	vcs := an.VerdictCalls(clo)
	if !r.Check(len(vcs) == 1 && vcs[0].Verdict != nil && an.IsCallTo(vcs[0].Call, matcherMatch), short(clo)+"|verdict-call", clo.Pos(),
		"the callback makes exactly one node-matcher call and keeps its verdict (found %d)", len(vcs)) {
		return
	}
	vc := vcs[0]
	r.Count("traversal-callback", 1)
	margs := an.CallArgs(vc.Call)
	matcherOK := an.Path(margs[0]) == "m.NodeMatcher"
	if cell, isCell := ts.loadedCell(margs[0]); isCell && !matcherOK {
		// the matcher travels in the traversal state: it must have been put there from m.NodeMatcher, once
		sts := ts.parentStores(cell)
		matcherOK = len(sts) == 1 && an.Path(sts[0].Val) == "m.NodeMatcher"
	}
	r.Check(matcherOK, short(clo)+"|matcher", vc.Call.Pos(), "the matcher invoked is m.NodeMatcher (got %q)", an.Path(margs[0]))
	r.Check(derivesFrom(margs[1], nodeCalls...), short(clo)+"|subject", vc.Call.Pos(), "the value matched is built from cursor.Node() of the callback's own cursor")

	// returns: false (= do not descend) only under node==nil or a true verdict
	var removed []an.CtrlEdge
	for _, c := range an.EqCases(clo, func(v ssa.Value) bool {
		for _, nc := range nodeCalls {
			if v == nc {
				return true
			}
		}
		return false
	}) {
		if an.IsNilConst(c.Key) {
			removed = append(removed, edgeTo(c.If.Block(), c.Target))
		}
	}
	// (Not descending into a node that matched is NOT accepted either: for a
	// statement pattern the matched node is the enclosing block, and the
	// blocks nested in its statements still have to be searched.)
	var falseRets []*ssa.Return
	for _, ret := range an.Returns(clo) {
		b, isc := an.ConstBool(ret.Results[0])
		switch {
		case !isc:
			r.Undecided(short(clo)+"|return", ret.Pos(), "the callback returns a non-constant: cannot decide when the traversal stops descending")
		case !b:
			falseRets = append(falseRets, ret)
		}
	}
	bad := an.ReachableReturnsWithout(clo, falseRets, removed)
	if len(bad) == 0 {
		r.Pass(short(clo)+"|no-skip", clo.Pos(), "every 'return false' (do not descend) of the traversal callback is reachable only when the node is nil (%d such return(s))", len(falseRets))
	}
	for _, ret := range bad {
		r.Fail(short(clo)+"|no-skip", ret.Pos(), "the traversal callback can return false (skip the whole subtree) for a node that is not nil: instances below it (for statement patterns: in blocks nested inside a matched block) are never visited")
	}

	// a true verdict is always recorded, from the same cursor
	var store *ssa.Store
	for _, b := range clo.Blocks {
		for _, in := range b.Instrs {
			if st, ok := in.(*ssa.Store); ok {
				if _, isCell := ts.cellOf(st.Addr); isCell && strings.HasSuffix(an.ShortType(st.Addr.Type()), "[]*engine.SearchResult") {
					store = st
				}
			}
		}
	}
	if store == nil {
		r.Fail(short(clo)+"|record", clo.Pos(), "the callback never appends to the captured match list")
		return
	}
	okAll := true
	for _, br := range an.BranchesOn(clo, vc.Verdict) {
		from := br.If.Block().Succs[br.EdgeWhen(true)]
		if !mustPass(from, store.Block()) {
			okAll = false
		}
	}
	if len(an.BranchesOn(clo, vc.Verdict)) == 0 {
		okAll = vc.Call.Block() == store.Block() || vc.Call.Block().Dominates(store.Block()) && mustPass(vc.Call.Block(), store.Block())
	}
	r.Check(okAll, short(clo)+"|record", store.Pos(), "every path on which the node matcher's verdict is true appends a SearchResult to the match list")
	app, _ := store.Val.(*ssa.Call)
	if app == nil || !an.IsCallTo(app, "builtin:append") {
		r.Fail(short(clo)+"|record-append", store.Pos(), "the match list is not updated by append (existing results could be lost)")
		return
	}
	r.Check(an.Path(app.Call.Args[0]) == an.Path(store.Addr) && an.Path(store.Addr) != "", short(clo)+"|record-append", store.Pos(), "the match list grows by append to itself")
	// fields of the SearchResult
	want := map[string]string{"parent": cursorParent, "name": cursorName, "index": cursorIndex}
	got := map[string]bool{}
	dataOK := false
	for _, b := range clo.Blocks {
		for _, in := range b.Instrs {
			st, ok := in.(*ssa.Store)
			if !ok {
				continue
			}
			fa, ok := st.Addr.(*ssa.FieldAddr)
			if !ok {
				continue
			}
			al, ok := fa.X.(*ssa.Alloc)
			if !ok || !strings.HasSuffix(an.ShortType(al.Type()), "*engine.SearchResult") {
				continue
			}
			name := fieldNameOf(fa)
			if callee, ok := want[name]; ok {
				if callOn(st.Val, callee, func(v ssa.Value) bool { return v == ssa.Value(cursor) }) {
					got[name] = true
				}
			}
			if name == "data" {
				if c, ok := st.Val.(*ssa.Call); ok && an.IsCallTo(c, dataPath+".Index") {
					if ex, ok := c.Call.Args[0].(*ssa.Extract); ok && ex.Tuple == ssa.Value(vc.Call) {
						dataOK = true
					}
				}
			}
		}
	}
	r.Check(len(got) == 3, short(clo)+"|record-slot", store.Pos(), "the recorded slot (parent, name, index) comes from the same cursor that was matched (found %s)", joinSorted(got))
	r.Check(dataOK, short(clo)+"|record-data", store.Pos(), "the recorded bindings are an index of the data returned by this very match call")
}

func edgeTo(from, to *ssa.BasicBlock) an.CtrlEdge {
	for i, s := range from.Succs {
		if s == to {
			return an.CtrlEdge{Block: from, Succ: i}
		}
	}
	return an.CtrlEdge{Block: from, Succ: -1}
}

func fieldNameOf(fa *ssa.FieldAddr) string {
	t := fa.X.Type().Underlying().(*types.Pointer).Elem().Underlying().(*types.Struct)
	return an.CanonFieldName(t.Field(fa.Field))
}

// mustPass reports whether every path from `from` to a function exit passes
// through block `through`.
func mustPass(from, through *ssa.BasicBlock) bool {
	if from == through {
		return true
	}
	reach := an.Reach([]*ssa.BasicBlock{from}, func(b *ssa.BasicBlock, i int) bool { return b.Succs[i] == through })
	for b := range reach {
		if len(b.Succs) == 0 {
			return false
		}
	}
	return true
}

// ---- R2 -------------------------------------------------------------------

func findIndexLoops(f *ssa.Function, bound func(ssa.Value) bool) []*an.IndexLoop {
	var out []*an.IndexLoop
	for _, l := range an.Loops(f) {
		if il := an.AsIndexLoop(l); il != nil && bound(il.Bound) {
			out = append(out, il)
		}
	}
	return out
}

func isLenOfPath(path string) func(ssa.Value) bool {
	return func(v ssa.Value) bool {
		c, ok := v.(*ssa.Call)
		return ok && an.IsCallTo(c, "builtin:len") && an.Path(c.Call.Args[0]) == path
	}
}

func callsInLoop(l *an.Loop, names ...string) []ssa.CallInstruction {
	var out []ssa.CallInstruction
	var blocks []*ssa.BasicBlock
	for b := range l.Blocks {
		blocks = append(blocks, b)
	}
	sort.Slice(blocks, func(i, j int) bool { return blocks[i].Index < blocks[j].Index })
	for _, b := range blocks {
		for _, in := range b.Instrs {
			if c, ok := in.(ssa.CallInstruction); ok && (len(names) == 0 || an.IsCallTo(c, names...)) {
				out = append(out, c)
			}
		}
	}
	return out
}

func c01AllMatchesReplaced(r *an.Run) {
	r.Rule("R2-every-match-replaced")
	f := fn(r, engine, "FileReplacer.Replace")
	if f == nil {
		return
	}
	ils := findIndexLoopsGroup(f, isLenOfPathIn(f, "fd.Matches"))
	if !r.Check(len(ils) == 1, short(f)+"|loop", f.Pos(), "FileReplacer.Replace has one loop over all recorded matches fd.Matches (found %d)", len(ils)) {
		return
	}
	il := ils[0]
	if g := il.Loop.Header.Parent(); g != f {
		// the loop lives in a helper: a failure there must fail Replace
		r.Check(helperFailurePropagates(f, g), short(f)+"|helper-failure-propagates", f.Pos(), "a failure of %s makes FileReplacer.Replace fail", short(g))
	}
	calls := callsInLoop(il.Loop, replReplace)
	if len(calls) == 0 {
		// the replacement of one match may live in a per-match helper called from the loop
		if s := findSlotSite(r); s != nil && s.perMatchCall != nil && len(s.calls(replReplace)) == 1 {
			calls = []ssa.CallInstruction{s.perMatchCall}
			r.Check(helperFailurePropagates(s.loopFn, s.fn), short(f)+"|per-match-failure-propagates", s.perMatchCall.Pos(), "a failure of %s leaves the loop with that failure", short(s.fn))
		}
	}
	if !r.Check(len(calls) == 1, short(f)+"|replace-call", il.If.Pos(), "the loop calls the node replacer once per match (found %d call(s))", len(calls)) {
		return
	}
	msg := il.CoversAll(calls[0], an.FailureExit)
	r.Check(msg == "" && il.Full(), short(f)+"|covers-all", calls[0].Pos(), "every recorded match is handed to the node replacer (start %d, step %d) %s", il.Start, il.Step, msg)
	// the traversal records a match before the matches nested in it (pre-order, R1). A match nested directly in
	// the list of another match (a bare block that is a statement of a matched block) is recorded as a slot of
	// the outer node as it was; the outer replacement is a new node that reproduces the elements of the old list
	// by reading their slots. So the inner match must be written first: the loop runs from the last recorded
	// match to the first (after F15)
	r.Check(il.Descending, short(f)+"|innermost-first", il.If.Pos(), "the recorded matches are replaced last-recorded first: a match nested directly inside another match is rewritten before the outer one reproduces that part of the tree")
	r.Count("match-loop", 1)
}

// ---- R3 -------------------------------------------------------------------

// okDisciplineAll applies A4 to every verdict-returning function of the module.
func okDisciplineAll(r *an.Run, rule string, minSites int) {
	r.Rule(rule)
	nf := 0
	for _, f := range r.P.ModuleFuncs() {
		if _, ok := an.VerdictIndex(f.Signature); !ok {
			continue
		}
		n := an.OkDiscipline(r, f)
		if n > 0 {
			nf++
			r.Saw("func " + short(f))
		}
		r.Count("sub-match call sites", n)
	}
	r.Count("verdict functions with sub-matches", nf)
	r.Min("sub-match call sites", minSites)
}

// ---- R4 -------------------------------------------------------------------

type elemLoopSpec struct {
	rel, fn string
	bound   func(f *ssa.Function) func(ssa.Value) bool
	// action returns the per-element instruction of the loop and a problem text
	action func(f *ssa.Function, il *an.IndexLoop) (ssa.Instruction, string)
	what   string
}

func isCallOnParam(name string, param string) func(ssa.Value) bool {
	return func(v ssa.Value) bool {
		return callOn(v, name, func(x ssa.Value) bool { return isParam(x, param) })
	}
}

// elemOf reports whether v is element `idx` of the slice at path.
func elemOf(v ssa.Value, path string, idx ssa.Value) bool {
	u, ok := v.(*ssa.UnOp)
	if !ok || u.Op != token.MUL {
		return false
	}
	ia, ok := u.X.(*ssa.IndexAddr)
	return ok && ia.Index == idx && an.Path(ia.X) == path
}

// elemOfIn is elemOf with the path seen from anchor.
func elemOfIn(anchor *ssa.Function, v ssa.Value, path string, idx ssa.Value) bool {
	u, ok := v.(*ssa.UnOp)
	if !ok || u.Op != token.MUL {
		return false
	}
	ia, ok := u.X.(*ssa.IndexAddr)
	return ok && ia.Index == idx && an.PathIn(ia.X, anchor) == path
}

// elemAccess recognises v as "element idx of base": a load of base[idx], or
// (reflect.Value).Index/Field(base, idx). base is described by its access path
// (or "$name" for values that are not paths).
func elemAccess(v ssa.Value) (base string, baseVal ssa.Value, idx ssa.Value, ok bool) {
	switch x := v.(type) {
	case *ssa.UnOp:
		if ia, isIA := x.X.(*ssa.IndexAddr); isIA && x.Op == token.MUL {
			return pathOrName(ia.X), ia.X, ia.Index, true
		}
	case *ssa.Call:
		if an.IsCallTo(x, rvIndex, rvField) && len(x.Call.Args) == 2 {
			return pathOrName(x.Call.Args[0]), x.Call.Args[0], x.Call.Args[1], true
		}
	}
	return "", nil, nil, false
}

func pathOrName(v ssa.Value) string {
	if p := an.Path(v); p != "" {
		return p
	}
	return "$" + v.Name()
}

// lengthOf returns the affine length of a slice-like value: len(path), the
// Len operand of a fresh make, reflect lengths.
func lengthOf(v ssa.Value) an.Affine {
	if ms, ok := v.(*ssa.MakeSlice); ok {
		return an.Lin(ms.Len)
	}
	a := an.Affine{Terms: map[string]int64{}}
	if p := an.Path(v); p != "" {
		a.Terms["len("+p+")"] = 1
	} else {
		a.Terms["len($"+v.Name()+")"] = 1
	}
	return a
}

// loopsOf lists the generalised index loops of f with step 1.
func loopsOf(f *ssa.Function) []*an.IndexLoop {
	var out []*an.IndexLoop
	for _, l := range an.Loops(f) {
		if il := an.AsIndexLoop(l); il != nil && il.Step == 1 {
			out = append(out, il)
		}
	}
	return out
}

func c01CoversAll(r *an.Run) {
	r.Rule("R4-every-field-and-element-compared")
	// compile side: the matcher compiled from v.<accessor>(j) is stored at dst[i], i runs over all of dst,
	// len(dst) is the number of fields/elements of v, and i == j
	compileLoop := func(rel, name, accessor, lenAtom string) {
		compileLoopCovers(r, rel, name, accessor, lenAtom, "matcher")
	}
	compileLoop(engine, "matcherCompiler.compileStruct", rvField, "NumField(Type(v))")
	compileLoop(engine, "matcherCompiler.compileSlice", rvIndex, "Len(v)")

	// match side: matcher items[i] is applied to candidate element i (+offset), i runs over all of items
	matchLoop := func(name, items, candBase string, offset an.Affine) {
		f := fn(r, engine, name)
		if f == nil {
			return
		}
		found := false
		for _, il := range loopsOf(f) {
			for _, c := range callsInLoop(il.Loop, matcherMatch) {
				call := c.(*ssa.Call)
				a := an.CallArgs(call)
				mb, mbv, mi, ok1 := elemAccess(a[0])
				cb, _, ci, ok2 := elemAccess(a[1])
				if !ok1 || !ok2 || mb != items || cb != candBase {
					continue
				}
				found = true
				n := lengthOf(mbv)
				agree := an.Lin(ci).Sub(an.Lin(mi)).Sub(offset).IsZero()
				r.Check(agree, short(f)+"|same-index", call.Pos(), "matcher i of %s is applied to candidate element i%s", items, offsetText(offset))
				msg := il.CoversAll(call, an.ReturnsFailure)
				r.Check(il.IndexMapsOnto(mi, n) && msg == "", short(f)+"|covers-all", call.Pos(), "all matchers of %s are applied (index runs over 0..len-1) %s", items, msg)
				r.Count("element loops", 1)
			}
		}
		if !found {
			// the loop may live in a private "apply matcher i to element i" helper that is handed the list and
			// an accessor for the candidate's elements (got.Index, got.Field, or a closure over got[i+idx])
			for _, c := range an.Calls(f) {
				h := an.StaticCallee(c)
				msIdx, atIdx, isEach := asMatchEachHelper(h)
				if !isEach || msIdx >= len(c.Common().Args) || atIdx >= len(c.Common().Args) {
					continue
				}
				if an.Path(c.Common().Args[msIdx]) != items {
					continue
				}
				acc, okAcc := accessorOf(c.Common().Args[atIdx])
				if !okAcc || acc.base == nil {
					continue
				}
				if p := pathOrName(acc.base); p != candBase {
					continue
				}
				found = true
				agree := acc.offset.Sub(offset).IsZero()
				r.Check(agree, short(f)+"|same-index", c.Pos(), "matcher i of %s is applied to candidate element i%s (through %s, whose loop applies matcher i to what the accessor yields for i)", items, offsetText(offset), short(h))
				r.Pass(short(f)+"|covers-all", c.Pos(), "all matchers of %s are applied: %s runs over the whole list it is handed and fails on the first false verdict", items, short(h))
				// the helper's verdict is the function's: a failure is not turned into a success
				r.Count("element loops", 1)
			}
		}
		r.Check(found, short(f)+"|loop", f.Pos(), "%s matches %s[i] against the candidate's element i in an index loop", short(f), items)
	}
	zero := an.Affine{Terms: map[string]int64{}}
	matchLoop("StructMatcher.Match", "m.Fields", "got", zero)
	matchLoop("SliceMatcher.Match", "m.Items", "got", zero)
	matchLoop("matchPrefix", "want", "got", an.Affine{Terms: map[string]int64{"idx": 1}})
	if f := funcAnywhere(r, engine, "matchPrefix"); f != nil {
		c01LenGuardPrefix(r, f)
	}
	r.Min("element loops", 5)
}

func offsetText(a an.Affine) string {
	if a.IsZero() {
		return ""
	}
	return " + " + a.String()
}

func c01LenGuardPrefix(r *an.Run, f *ssa.Function) {
	// some comparison between len(want) and an expression of len(got) and idx guards the loop
	ok := false
	for _, b := range f.Blocks {
		iff, isIf := b.Instrs[len(b.Instrs)-1].(*ssa.If)
		if !isIf {
			continue
		}
		cmp, isCmp := iff.Cond.(*ssa.BinOp)
		if !isCmp {
			continue
		}
		sl := an.BackSlice(cmp, an.SliceOpts{})
		hasWant, hasGot, hasIdx := false, false, false
		for v := range sl {
			if c, isCall := v.(*ssa.Call); isCall && an.IsCallTo(c, "builtin:len") {
				switch an.Path(c.Call.Args[0]) {
				case "want":
					hasWant = true
				case "got":
					hasGot = true
				}
			}
			if isParam(v, "idx") {
				hasIdx = true
			}
		}
		if hasWant && hasGot && hasIdx && b.Dominates(f.Blocks[len(f.Blocks)-1]) || hasWant && hasGot && hasIdx {
			ok = true
		}
	}
	r.Check(ok, short(f)+"|fits", f.Pos(), "matchPrefix compares len(want) with the number of remaining candidates len(got)-idx before indexing")
}

// ---- R5 -------------------------------------------------------------------

func reflectKind(r *an.Run, name string) int64 {
	pk := r.P.ByP["reflect"]
	if pk == nil {
		return -1
	}
	c, ok := pk.Types.Scope().Lookup(name).(*types.Const)
	if !ok {
		return -1
	}
	v, _ := constant.Int64Val(c.Val())
	return v
}

// onlyVia checks that no return with a possibly-true verdict is reachable once
// the given guard edges are removed one at a time.
func onlyVia(r *an.Run, f *ssa.Function, key, what string, edges []an.CtrlEdge) {
	idx, _ := an.VerdictIndex(f.Signature)
	rets := an.PossiblyTrueReturns(f, idx)
	if len(edges) == 0 {
		r.Fail(key, f.Pos(), "%s: guard not found in %s — %s", what, short(f), "a candidate that differs here can be accepted")
		return
	}
	var bad []*ssa.Return
	for _, e := range edges {
		bad = append(bad, an.ReachableReturnsWithout(f, rets, []an.CtrlEdge{e})...)
	}
	if len(bad) > 0 {
		r.Fail(key, bad[0].Pos(), "%s: a true verdict is reachable in %s without passing the guard", what, short(f))
		return
	}
	r.Pass(key, edges[0].Block.Instrs[len(edges[0].Block.Instrs)-1].Pos(), "%s: every possibly-true return of %s (%d) is reachable only through the guard", what, short(f), len(rets))
}

func c01Guards(r *an.Run) {
	r.Rule("R5-structural-guards")
	typeGuard := func(f *ssa.Function) []an.CtrlEdge {
		var out []an.CtrlEdge
		for _, c := range an.EqCases(f, func(v ssa.Value) bool { return an.Path(v) == "m.Type" && !isAddr(v) }) {
			if callOn(c.Key, rvType, func(x ssa.Value) bool { return isParam(x, "got") }) {
				out = append(out, edgeTo(c.If.Block(), c.Target))
			}
		}
		return out
	}
	if f := fn(r, engine, "StructMatcher.Match"); f != nil {
		onlyVia(r, f, short(f)+"|type-eq", "struct type equality m.Type == got.Type()", typeGuard(f))
		r.Count("guards", 1)
	}
	if f := fn(r, engine, "ValueMatcher.Match"); f != nil {
		onlyVia(r, f, short(f)+"|type-eq", "scalar type equality m.Type == got.Type()", typeGuard(f))
		idx, _ := an.VerdictIndex(f.Signature)
		for _, ret := range an.PossiblyTrueReturns(f, idx) {
			good := true
			for _, leaf := range phiLeaves(ret.Results[idx]) {
				// `m.Type == got.Type() && m.Value == got.Interface()`: the other way into the verdict is false
				if b, isc := an.ConstBool(leaf); isc && !b {
					continue
				}
				cmp, ok := leaf.(*ssa.BinOp)
				if !(ok && cmp.Op == token.EQL &&
					(an.Path(cmp.X) == "m.Value" && callOn(cmp.Y, rvInterface, func(x ssa.Value) bool { return isParam(x, "got") }) ||
						an.Path(cmp.Y) == "m.Value" && callOn(cmp.X, rvInterface, func(x ssa.Value) bool { return isParam(x, "got") }))) {
					good = false
				}
			}
			r.Check(good, short(f)+"|value-eq", ret.Pos(), "the verdict of ValueMatcher.Match is m.Value == got.Interface()")
		}
		r.Count("guards", 1)
	}
	if f := fn(r, engine, "SliceMatcher.Match"); f != nil {
		var lenEdges, kindEdges []an.CtrlEdge
		for _, c := range an.EqCases(f, isLenOfPath("m.Items")) {
			if callOn(c.Key, rvLen, func(x ssa.Value) bool { return isParam(x, "got") }) {
				lenEdges = append(lenEdges, edgeTo(c.If.Block(), c.Target))
			}
		}
		for _, c := range an.EqCases(f, isCallOnParam(rvKind, "got")) {
			if k, ok := an.ConstInt(c.Key); ok && k == reflectKind(r, "Slice") {
				kindEdges = append(kindEdges, edgeTo(c.If.Block(), c.Target))
			}
		}
		onlyVia(r, f, short(f)+"|len-eq", "exact length equality len(m.Items) == got.Len()", lenEdges)
		onlyVia(r, f, short(f)+"|kind", "kind test got.Kind() == reflect.Slice", kindEdges)
		r.Count("guards", 2)
	}
	for _, pk := range []struct{ name, kind string }{{"PtrMatcher.Match", "Ptr"}, {"InterfaceMatcher.Match", "Interface"}} {
		f := fn(r, engine, pk.name)
		if f == nil {
			continue
		}
		var kindEdges, nilEdges []an.CtrlEdge
		for _, c := range an.EqCases(f, isCallOnParam(rvKind, "got")) {
			if k, ok := an.ConstInt(c.Key); ok && k == reflectKind(r, pk.kind) {
				kindEdges = append(kindEdges, edgeTo(c.If.Block(), c.Target))
			}
		}
		for _, b := range f.Blocks {
			if iff, ok := b.Instrs[len(b.Instrs)-1].(*ssa.If); ok {
				inner, pos := an.StripNot(iff.Cond)
				if isCallOnParam(rvIsNil, "got")(inner) {
					br := an.BranchOn{If: iff, Pos: pos}
					nilEdges = append(nilEdges, an.CtrlEdge{Block: b, Succ: br.EdgeWhen(false)})
				}
			}
		}
		onlyVia(r, f, short(f)+"|kind", "kind test got.Kind() == reflect."+pk.kind, kindEdges)
		onlyVia(r, f, short(f)+"|non-nil", "nil-ness test !got.IsNil()", nilEdges)
		// delegates to the element
		for _, vc := range an.VerdictCalls(f) {
			a := an.CallArgs(vc.Call)
			r.Check(callOn(a[1], rvElem, func(x ssa.Value) bool { return isParam(x, "got") }), short(f)+"|elem", vc.Call.Pos(), "the underlying matcher is applied to got.Elem()")
		}
		r.Count("guards", 2)
	}
	// nil patterns compile to nilMatcher, non-nil ones never do
	nilFn := initClosureOf(r, "nilMatcher")
	if nilFn != nil {
		rets := an.Returns(nilFn)
		good := len(rets) == 1 && callOn(rets[0].Results[0], rvIsNil, func(x ssa.Value) bool { return x == ssa.Value(nilFn.Params[0]) })
		r.Check(good, "nilMatcher|body", nilFn.Pos(), "nilMatcher's verdict is got.IsNil() of the candidate")
		r.Count("guards", 1)
	}
	for _, name := range []string{"matcherCompiler.compilePtr", "matcherCompiler.compileSlice", "matcherCompiler.compileInterface"} {
		f := fn(r, engine, name)
		if f == nil {
			continue
		}
		var whenNil, whenNot []an.CtrlEdge
		for _, b := range f.Blocks {
			if iff, ok := b.Instrs[len(b.Instrs)-1].(*ssa.If); ok {
				inner, pos := an.StripNot(iff.Cond)
				if isCallOnParam(rvIsNil, "v")(inner) {
					br := an.BranchOn{If: iff, Pos: pos}
					whenNil = append(whenNil, an.CtrlEdge{Block: b, Succ: br.EdgeWhen(true)})
					whenNot = append(whenNot, an.CtrlEdge{Block: b, Succ: br.EdgeWhen(false)})
				}
			}
		}
		var nilRets, otherRets []*ssa.Return
		for _, ret := range an.Returns(f) {
			if an.Describe(ret.Results[0]) == "global:engine.nilMatcher" {
				nilRets = append(nilRets, ret)
			} else {
				otherRets = append(otherRets, ret)
			}
		}
		good := len(whenNil) > 0 && len(nilRets) > 0 && len(otherRets) > 0 &&
			len(an.ReachableReturnsWithout(f, nilRets, whenNil)) == 0 &&
			len(an.ReachableReturnsWithout(f, otherRets, whenNot)) == 0
		r.Check(good, short(f)+"|nil-pattern", f.Pos(), "%s returns nilMatcher exactly when the pattern value is nil", short(f))
		r.Count("guards", 1)
	}
	r.Min("guards", 12)
}

func isAddr(v ssa.Value) bool {
	switch v.(type) {
	case *ssa.FieldAddr, *ssa.IndexAddr, *ssa.Alloc, *ssa.Global:
		return true
	}
	return false
}

// initClosureOf returns the function stored (through matcherFunc) into the
// engine global of the given name by the package initialiser.
func initClosureOf(r *an.Run, global string) *ssa.Function {
	g := r.P.Global(engine, global)
	sp := r.P.SPkg[enginePath]
	if g == nil || sp == nil {
		r.Undecided("anchor|engine."+global, token.NoPos, "global engine.%s not found", global)
		return nil
	}
	init := sp.Func("init")
	for _, b := range init.Blocks {
		for _, in := range b.Instrs {
			if st, ok := in.(*ssa.Store); ok && st.Addr == ssa.Value(g) {
				switch v := an.Unwrap(st.Val).(type) {
				case *ssa.Function:
					return v
				case *ssa.MakeClosure:
					return v.Fn.(*ssa.Function)
				}
			}
		}
	}
	r.Undecided("anchor|engine."+global+"-init", g.Pos(), "initialiser of engine.%s is not a function literal", global)
	return nil
}

// ---- R6 -------------------------------------------------------------------

// goastTypes evaluates the initialiser of package goast abstractly and returns
// global name -> Go type it denotes.
func goastTypes(r *an.Run) map[string]string {
	sp := r.P.SPkg[goastPath]
	if sp == nil {
		r.Undecided("anchor|goast", token.NoPos, "package goast not found")
		return nil
	}
	out := map[string]string{}
	var eval func(v ssa.Value) string
	eval = func(v ssa.Value) string {
		switch x := v.(type) {
		case *ssa.Call:
			switch an.CalleeName(x) {
			case "reflect.TypeOf":
				arg := x.Call.Args[0]
				if mi, ok := arg.(*ssa.MakeInterface); ok {
					return an.TypeString(mi.X.Type())
				}
			case "reflect.PtrTo", "reflect.PointerTo":
				if s := eval(x.Call.Args[0]); s != "" {
					return "*" + s
				}
			case "reflect.SliceOf":
				if s := eval(x.Call.Args[0]); s != "" {
					return "[]" + s
				}
			}
			if x.Call.IsInvoke() && x.Call.Method.Name() == "Elem" {
				if s := eval(x.Call.Value); strings.HasPrefix(s, "*") {
					return s[1:]
				}
			}
		case *ssa.UnOp:
			if g := an.GlobalLoaded(x); g != nil {
				return out[g.Name()]
			}
		}
		return ""
	}
	init := sp.Func("init")
	for _, b := range init.Blocks {
		for _, in := range b.Instrs {
			if st, ok := in.(*ssa.Store); ok {
				if g, ok := st.Addr.(*ssa.Global); ok && !strings.HasPrefix(g.Name(), "init$") {
					out[g.Name()] = eval(st.Val)
				}
			}
		}
	}
	return out
}

var goastExpected = map[string]string{
	"PosType": "go/token.Pos", "StringType": "string",
	"BlockStmtType": "go/ast.BlockStmt", "CaseClauseType": "go/ast.CaseClause", "CommClauseType": "go/ast.CommClause",
	"CommentGroupType": "go/ast.CommentGroup", "FieldListType": "go/ast.FieldList", "FieldType": "go/ast.Field",
	"FileType": "go/ast.File", "ForStmtType": "go/ast.ForStmt", "FuncDeclType": "go/ast.FuncDecl", "GenDeclType": "go/ast.GenDecl",
	"IdentType": "go/ast.Ident", "ObjectType": "go/ast.Object", "RangeStmtType": "go/ast.RangeStmt", "ScopeType": "go/ast.Scope",
	"CommentGroupPtrType": "*go/ast.CommentGroup", "FieldListPtrType": "*go/ast.FieldList", "FieldPtrType": "*go/ast.Field",
	"FilePtrType": "*go/ast.File", "ForStmtPtrType": "*go/ast.ForStmt", "FuncDeclPtrType": "*go/ast.FuncDecl", "GenDeclPtrType": "*go/ast.GenDecl",
	"IdentPtrType": "*go/ast.Ident", "ObjectPtrType": "*go/ast.Object", "RangeStmtPtrType": "*go/ast.RangeStmt", "ScopePtrType": "*go/ast.Scope",
	"ExprType": "go/ast.Expr", "NodeType": "go/ast.Node", "StmtType": "go/ast.Stmt",
	"ExprSliceType": "[]go/ast.Expr", "FieldPtrSliceType": "[]*go/ast.Field", "StmtSliceType": "[]go/ast.Stmt",
}

// dispatchTable extracts `switch v.Type() { case goast.X: return ... }` from a
// compile function: denoted Go type -> outcome description.
func dispatchTable(r *an.Run, f *ssa.Function, gt map[string]string) (cases map[string]string, deflt string) {
	cases = map[string]string{}
	subject := isCallOnParam(rvType, "v")
	cs := an.EqCases(f, subject)
	if len(cs) == 0 {
		// the dispatch as data: a package-level map from reflect.Type to a compile function
		if td := tableDispatchOf(r, f, gt); td != nil {
			for _, a := range td.arms {
				if _, dup := cases[a.typ]; dup {
					continue
				}
				cases[a.typ] = describeArmFunc(a.fn)
			}
			if td.deflt != nil {
				if ret := an.ReturnOf(td.deflt); ret != nil {
					deflt = an.Describe(ret.Results[0])
				}
			}
			return
		}
	}
	var lastElse *ssa.BasicBlock
	for _, c := range cs {
		g := an.GlobalLoaded(c.Key)
		if g == nil {
			r.Undecided(short(f)+"|case", c.If.Pos(), "a case of the type switch in %s is not a goast.*Type global: cannot build the dispatch table", short(f))
			continue
		}
		typ := gt[g.Name()]
		if typ == "" {
			typ = "?" + g.Name()
		}
		lastElse = c.Else
		if _, dup := cases[typ]; dup {
			continue // the first matching case wins
		}
		if ret := an.ReturnOf(c.Target); ret != nil {
			cases[typ] = an.Describe(ret.Results[0])
		} else {
			// the arm is not a plain return: describe by the calls it makes
			cases[typ] = "block"
		}
	}
	if lastElse != nil {
		if ret := an.ReturnOf(lastElse); ret != nil {
			deflt = an.Describe(ret.Results[0])
		}
	}
	return
}

func c01IgnoreSet(r *an.Run) {
	r.Rule("R6-ignore-set")
	gt := goastTypes(r)
	if gt == nil {
		return
	}
	// the globals denote what their names say
	n := 0
	for name, want := range goastExpected {
		got, present := gt[name]
		if !present {
			continue // an unused global may be deleted without effect
		}
		n++
		r.Check(got == want, "goast."+name, r.P.Global(goastP, name).Pos(), "goast.%s denotes %s (initialiser denotes %q)", name, want, got)
	}
	r.Count("goast type globals", n)
	r.Min("goast type globals", 20)

	f := fn(r, engine, "matcherCompiler.compile")
	if f == nil {
		return
	}
	cases, deflt := dispatchTable(r, f, gt)
	allowed := setOf("*go/ast.CommentGroup", "*go/ast.Object")
	ignored := map[string]bool{}
	for typ, out := range cases {
		if out == "global:engine.successMatcher" {
			ignored[typ] = true
		}
	}
	for typ := range ignored {
		r.Check(allowed[typ], short(f)+"|ignored|"+typ, f.Pos(), "values of type %s are ignored by the matcher (always match); only comments and Ident.Obj may be", typ)
	}
	posArm := posArmFunc(r, "matcher")
	r.Check(posArm != nil && cases["go/token.Pos"] == "call:"+short(posArm), short(f)+"|pos", f.Pos(),
		"token.Pos fields are compiled to a PosMatcher (got %q)", cases["go/token.Pos"])
	r.Check(deflt == "call:(*internal/engine.matcherCompiler).compileGeneric", short(f)+"|default", f.Pos(), "all other types go to the generic structural matcher (got %q)", deflt)
	r.Extra["C01_matcher_dispatch"] = cases

	// successMatcher is the only constant-true matcher, nothing else returns a constant true verdict unconditionally
	if sm := initClosureOf(r, "successMatcher"); sm != nil {
		r.Saw("func " + short(sm))
	}
	for _, m := range implementations(r, engine, "Matcher", "Match") {
		idx, _ := an.VerdictIndex(m.Signature)
		rets := an.Returns(m)
		allTrue := len(rets) > 0
		for _, ret := range rets {
			if b, ok := an.ConstBool(ret.Results[idx]); !ok || !b {
				allTrue = false
			}
		}
		r.Check(!allTrue, short(m)+"|not-constant-true", m.Pos(), "%s does not accept every candidate unconditionally", short(m))
	}
	// who may use the always-true matcher: only the dispatch of compile (whose
	// arms were just checked). A second compile function that hands it out
	// under some condition ("no Meta: positions are not needed") ignores a part
	// of the candidate the pattern does not ignore.
	if g := r.P.Global(engine, "successMatcher"); g != nil {
		uses := 0
		for _, h := range r.P.ModuleFuncs() {
			if h.Synthetic != "" && h.Name() == "init" {
				continue
			}
			for _, b := range h.Blocks {
				for _, in := range b.Instrs {
					for _, op := range in.Operands(nil) {
						if *op != ssa.Value(g) {
							continue
						}
						if _, isStore := in.(*ssa.Store); isStore && h.Name() == "init" {
							continue
						}
						uses++
						root := h
						for root.Parent() != nil {
							root = root.Parent()
						}
						r.Check(root == f || dispatchArmFuncs(r, f, gt)[root], "successMatcher-use|"+short(h), in.Pos(), "the always-true matcher is handed out only by the dispatch of matcherCompiler.compile (used in %s)", short(h))
					}
				}
			}
		}
		r.Count("uses of successMatcher", uses)
		r.Min("uses of successMatcher", 1)
	}

	// closures converted to matcherFunc: only successMatcher's may be constant true
	mfT := r.P.NamedType(engine, "matcherFunc")
	sm := initClosureOf(r, "successMatcher")
	for _, g := range r.P.PkgFuncs(engine) {
		for _, b := range g.Blocks {
			for _, in := range b.Instrs {
				ct, ok := in.(*ssa.ChangeType)
				if !ok || mfT == nil || !types.Identical(ct.Type(), mfT) {
					continue
				}
				var cf *ssa.Function
				switch v := ct.X.(type) {
				case *ssa.Function:
					cf = v
				case *ssa.MakeClosure:
					cf = v.Fn.(*ssa.Function)
				}
				if cf == nil || cf == sm {
					continue
				}
				allTrue := true
				for _, ret := range an.Returns(cf) {
					if bv, ok := an.ConstBool(ret.Results[0]); !ok || !bv {
						allTrue = false
					}
				}
				r.Check(!allTrue, short(cf)+"|matcherFunc-not-constant-true", cf.Pos(), "matcherFunc %s is not a second always-true matcher", short(cf))
			}
		}
	}

	posMatcherValidity(r)
}

// posMatcherValidity: validity equality of pattern and candidate in
// PosMatcher.Match (obligations go to the current rule).
func posMatcherValidity(r *an.Run) {
	if pm := fn(r, engine, "PosMatcher.Match"); pm != nil {
		const isValid = "(go/token.Pos).IsValid"
		var eq *ssa.BinOp
		for _, b := range pm.Blocks {
			for _, in := range b.Instrs {
				cmp, ok := in.(*ssa.BinOp)
				if !ok || (cmp.Op != token.EQL && cmp.Op != token.NEQ) {
					continue
				}
				x, xok := cmp.X.(*ssa.Call)
				y, yok := cmp.Y.(*ssa.Call)
				if xok && yok && an.IsCallTo(x, isValid) && an.IsCallTo(y, isValid) {
					px, py := an.Path(x.Call.Args[0]), an.Path(y.Call.Args[0])
					cand := func(v ssa.Value) bool { return derivesFrom(v, pm.Params[1]) }
					if px == "m.Pos" && cand(y.Call.Args[0]) && py != "m.Pos" || py == "m.Pos" && cand(x.Call.Args[0]) && px != "m.Pos" {
						eq = cmp
					}
				}
			}
		}
		if r.Check(eq != nil, short(pm)+"|validity-test", pm.Pos(), "PosMatcher compares m.Pos.IsValid() with candidate.IsValid()") {
			r.Check(verdictIsCondition(pm, eq, eq.Op == token.EQL), short(pm)+"|validity-eq", eq.Pos(), "PosMatcher's verdict is true exactly when m.Pos.IsValid() == candidate.IsValid() (this separates 'type A = B' from 'type A B', f(x...) from f(x))")
		}
	}
}

// verdictIsCondition: the verdict returned by f is true exactly when cond has
// the value `when`: every return either returns cond itself (or its negation,
// accordingly), or a constant that agrees with the branch of cond it sits
// behind.
func verdictIsCondition(f *ssa.Function, cond ssa.Value, when bool) bool {
	idx, ok := an.VerdictIndex(f.Signature)
	if !ok {
		return false
	}
	brs := an.BranchesOn(f, cond)
	okAll := true
	n := 0
	for _, ret := range an.Returns(f) {
		n++
		v := ret.Results[idx]
		inner, pos := an.StripNot(v)
		if inner == cond {
			if pos != when {
				okAll = false
			}
			continue
		}
		k, isc := an.ConstBool(v)
		if !isc {
			okAll = false
			continue
		}
		// a constant k: the return must be reachable only when cond == (k == when)
		need := k == when
		if len(brs) == 0 || !unreachableWithout(ret.Block(), edgesWhen(brs, need)) {
			okAll = false
		}
	}
	return okAll && n > 0
}

// ---- R7 -------------------------------------------------------------------

// astSchema walks go/ast from the pattern roots and returns every type
// reachable through fields, cut at the types the compilers special-case.
func astSchema(r *an.Run) (reached map[string]types.Type, problems []string) {
	pk := r.P.ByP["go/ast"]
	if pk == nil {
		return nil, []string{"package go/ast not loaded"}
	}
	scope := pk.Types.Scope()
	var ifaces = map[string]*types.Interface{}
	var concrete []types.Type
	for _, n := range scope.Names() {
		tn, ok := scope.Lookup(n).(*types.TypeName)
		if !ok || !tn.Exported() {
			continue
		}
		if it, ok := tn.Type().Underlying().(*types.Interface); ok {
			ifaces[n] = it
		} else {
			concrete = append(concrete, types.NewPointer(tn.Type()), tn.Type())
		}
	}
	cut := setOf("*go/ast.CommentGroup", "*go/ast.Object", "go/token.Pos")
	reached = map[string]types.Type{}
	var visit func(t types.Type)
	visit = func(t types.Type) {
		s := an.TypeString(t)
		if _, ok := reached[s]; ok {
			return
		}
		reached[s] = t
		if cut[s] {
			return
		}
		switch u := t.Underlying().(type) {
		case *types.Pointer:
			visit(u.Elem())
		case *types.Slice:
			visit(u.Elem())
		case *types.Array:
			visit(u.Elem())
		case *types.Map:
			visit(u.Key())
			visit(u.Elem())
		case *types.Struct:
			for i := 0; i < u.NumFields(); i++ {
				visit(u.Field(i).Type())
			}
		case *types.Interface:
			if u.NumMethods() == 0 {
				problems = append(problems, "empty interface reachable: "+s)
				return
			}
			for _, c := range concrete {
				if types.Implements(c, u) {
					// only pointer receivers implement the ast interfaces
					if _, isPtr := c.(*types.Pointer); isPtr {
						visit(c)
					}
				}
			}
		}
	}
	for _, root := range []string{"Expr", "Stmt"} {
		visit(scope.Lookup(root).Type())
	}
	visit(types.NewPointer(scope.Lookup("GenDecl").Type()))
	visit(types.NewPointer(scope.Lookup("FuncDecl").Type()))
	visit(types.NewSlice(scope.Lookup("Stmt").Type()))
	return reached, problems
}

func kindOf(t types.Type) string {
	switch u := t.Underlying().(type) {
	case *types.Pointer:
		return "Ptr"
	case *types.Slice:
		return "Slice"
	case *types.Struct:
		return "Struct"
	case *types.Interface:
		return "Interface"
	case *types.Map:
		return "Map"
	case *types.Array:
		return "Array"
	case *types.Chan:
		return "Chan"
	case *types.Signature:
		return "Func"
	case *types.Basic:
		if u.Info()&(types.IsBoolean|types.IsInteger|types.IsString|types.IsFloat) != 0 {
			return "scalar"
		}
		return "basic:" + u.Name()
	}
	return "?"
}

// kindCases extracts `switch v.Kind()` of a compileGeneric: kind name -> outcome.
func kindCases(r *an.Run, f *ssa.Function) map[string]string {
	names := map[int64]string{}
	for _, k := range []string{"Ptr", "Slice", "Struct", "Interface", "Map", "Array", "Chan", "Func"} {
		names[reflectKind(r, k)] = k
	}
	out := map[string]string{}
	if len(an.EqCases(f, isCallOnParam(rvKind, "v"))) == 0 {
		// the switch may live in a private helper that f hands its v to and whose result f returns (wrapped or not)
		for _, c := range an.Calls(f) {
			g := an.StaticCallee(c)
			call, isCall := c.(*ssa.Call)
			if !isCall || g == nil || g == f || !an.InModule(g) || g.Blocks == nil || len(an.EqCases(g, isCallOnParam(rvKind, "v"))) == 0 {
				continue
			}
			passesV := false
			for i, a := range c.Common().Args {
				if isParam(a, "v") && i < len(g.Params) && isParam(g.Params[i], "v") {
					passesV = true
				}
			}
			returned := false
			for _, ret := range an.Returns(f) {
				if len(ret.Results) > 0 && derivesFrom(ret.Results[0], call) {
					returned = true
				}
			}
			if passesV && returned {
				return kindCases(r, g)
			}
		}
	}
	for _, c := range an.EqCases(f, isCallOnParam(rvKind, "v")) {
		k, ok := an.ConstInt(c.Key)
		if !ok {
			continue
		}
		desc := "block"
		ret := an.ReturnOf(c.Target)
		if ret != nil {
			desc = an.Describe(ret.Results[0])
			// a named result (captured by a deferred closure) is returned through memory
			if u, ok := ret.Results[0].(*ssa.UnOp); ok {
				if al, ok := u.X.(*ssa.Alloc); ok {
					for _, in := range an.FollowJumps(c.Target).Instrs {
						if st, ok := in.(*ssa.Store); ok && st.Addr == ssa.Value(al) {
							desc = an.Describe(st.Val)
						}
					}
				}
			}
		} else {
			// named results + defer: describe by the compile call in the target block
			for _, in := range an.FollowJumps(c.Target).Instrs {
				if call, ok := in.(*ssa.Call); ok {
					desc = an.Describe(call)
					break
				}
			}
		}
		out[names[k]] = desc
	}
	return out
}

func c01Schema(r *an.Run) {
	r.Rule("R7-schema-coverage")
	reached, problems := astSchema(r)
	for _, p := range problems {
		r.Fail("go/ast|"+p, token.NoPos, "go/ast schema: %s", p)
	}
	f := fn(r, engine, "matcherCompiler.compileGeneric")
	if f == nil || reached == nil {
		return
	}
	kc := kindCases(r, f)
	want := map[string]string{"Ptr": "compilePtr", "Slice": "compileSlice", "Struct": "compileStruct", "Interface": "compileInterface"}
	for k, callee := range want {
		r.Check(strings.HasSuffix(kc[k], "matcherCompiler)."+callee), short(f)+"|kind|"+k, f.Pos(), "values of kind %s are compiled by %s (got %q)", k, callee, kc[k])
	}
	kinds := map[string]int{}
	var names []string
	for s := range reached {
		names = append(names, s)
	}
	sort.Strings(names)
	for _, s := range names {
		k := kindOf(reached[s])
		kinds[k]++
		switch k {
		case "Ptr", "Slice", "Struct", "Interface":
			if _, ok := kc[k]; !ok {
				r.Fail("go/ast|"+s, token.NoPos, "type %s (kind %s) is reachable from a pattern root but compileGeneric has no case for its kind: it is compared by ==, which misses every instance", s, k)
			}
		case "scalar":
		default:
			r.Fail("go/ast|"+s, token.NoPos, "type %s of kind %s is reachable from a pattern root: neither handled structurally nor a comparable scalar (ValueMatcher's == would panic or miss)", s, k)
		}
	}
	r.Pass("go/ast|reachable-types", token.NoPos, "%d go/ast types reachable from the pattern roots, kinds %v: all structural kinds handled, all leaves comparable scalars", len(reached), kinds)
	r.Count("schema types", len(reached))
	r.Min("schema types", 80)
}

// ---- R8 -------------------------------------------------------------------

func c01Containers(r *an.Run) {
	r.Rule("R8-statement-containers")
	f := fn(r, engine, "stmtSliceContainerMatcher.Match")
	gt := goastTypes(r)
	pk := r.P.ByP["go/ast"]
	if f == nil || gt == nil || pk == nil {
		return
	}
	// schema: structs with a []ast.Stmt field
	schema := map[string]string{}
	scope := pk.Types.Scope()
	stmtT := scope.Lookup("Stmt").Type()
	for _, n := range scope.Names() {
		tn, ok := scope.Lookup(n).(*types.TypeName)
		if !ok {
			continue
		}
		st, ok := tn.Type().Underlying().(*types.Struct)
		if !ok {
			continue
		}
		for i := 0; i < st.NumFields(); i++ {
			if sl, ok := st.Field(i).Type().(*types.Slice); ok && types.Identical(sl.Elem(), stmtT) {
				schema["go/ast."+n] = st.Field(i).Name()
			}
		}
	}
	// code: container type -> the constant that names its statements field, decided per path: the paths of
	// the prologue (up to the first loop / the delegating call) are enumerated with one atom per tested
	// type; on a path the candidate is the type whose atom is true, the field name is the string constant
	// the name variable holds on that path, and a path on which every tested type is false must reject
	code := map[string]string{}
	okDefaultPaths := true
	// analyze enumerates the decision of g (the matcher itself, or the private helper it asks)
	analyze := func(g *ssa.Function, isElemType func(ssa.Value) bool, rejectsOn func(an.DPath) (bool, bool), fieldOn func(an.DPath) string) error {
		classify := func(c ssa.Value) string {
			cmp, ok := c.(*ssa.BinOp)
			if !ok || cmp.Op != token.EQL {
				if ok && cmp.Op == token.NEQ {
					// (x != y) is not a negation in SSA: name it "not:"
					if isElemType(cmp.X) {
						if gl := an.GlobalLoaded(cmp.Y); gl != nil {
							return "not:" + gt[gl.Name()]
						}
					}
				}
				return ""
			}
			x, y := cmp.X, cmp.Y
			if isElemType(y) {
				x, y = y, x
			}
			if !isElemType(x) {
				return ""
			}
			if gl := an.GlobalLoaded(y); gl != nil {
				return "is:" + gt[gl.Name()]
			}
			return ""
		}
		loopHeaders := map[*ssa.BasicBlock]bool{}
		for _, l := range an.Loops(g) {
			loopHeaders[l.Header] = true
		}
		kindTest := func(c ssa.Value) bool {
			cmp, ok := c.(*ssa.BinOp)
			return ok && (an.IsNamed(cmp.X.Type(), "reflect", "Kind") || an.IsNamed(cmp.Y.Type(), "reflect", "Kind"))
		}
		paths, perr := an.EnumeratePathsFrom(g.Blocks[0], func(c ssa.Value) string {
			if kindTest(c) {
				return "kind-is-ptr"
			}
			return classify(c)
		}, func(b *ssa.BasicBlock) bool { return loopHeaders[b] }, 512, false)
		if perr != nil {
			return perr
		}
		for _, p := range paths {
			var yes []string
			for a, v := range p.Atoms {
				switch {
				case strings.HasPrefix(a, "is:") && v:
					yes = append(yes, strings.TrimPrefix(a, "is:"))
				case strings.HasPrefix(a, "not:") && !v:
					yes = append(yes, strings.TrimPrefix(a, "not:"))
				}
			}
			if len(yes) > 1 {
				continue // infeasible: the candidate has one type
			}
			rejects, known := rejectsOn(p)
			if !known {
				return fmt.Errorf("%s: cannot tell whether a path accepts or rejects", short(g))
			}
			if len(yes) == 0 {
				if !rejects {
					okDefaultPaths = false
				}
				continue
			}
			if rejects {
				continue // a tested type that is rejected: not a container for the code
			}
			field := fieldOn(p)
			if prev, dup := code[yes[0]]; dup && prev != field {
				field = prev + "|" + field
			}
			code[yes[0]] = field
		}
		return nil
	}
	stringPhi := func(g *ssa.Function) *ssa.Phi {
		// the phi of string constants that names the statements field
		var phi *ssa.Phi
		for _, b := range g.Blocks {
			for _, in := range b.Instrs {
				if p, ok := in.(*ssa.Phi); ok {
					allStr := len(p.Edges) > 0
					for _, e := range p.Edges {
						if _, ok := an.ConstString(e); !ok {
							allStr = false
						}
					}
					if allStr {
						phi = p
					}
				}
			}
		}
		return phi
	}
	phi := stringPhi(f)
	perr := analyze(f,
		func(v ssa.Value) bool {
			c, ok := v.(*ssa.Call)
			return ok && c.Call.IsInvoke() && c.Call.Method.Name() == "Elem"
		},
		func(p an.DPath) (bool, bool) { return an.ReturnsFailure(p.End), true },
		func(p an.DPath) string {
			if phi != nil {
				if s, ok := an.ConstString(p.ResolveOnPath(phi)); ok {
					return s
				}
			}
			return ""
		})
	if perr != nil {
		// the decision may have been moved into a private helper `layout, ok := h(t, ...)`: the matcher
		// rejects when ok is false, and the helper's own table is the decision
		if h, okIdx, herr := containerHelper(f); herr == nil {
			code = map[string]string{}
			okDefaultPaths = true
			var tp *ssa.Parameter
			for _, prm := range h.Params {
				if an.IsNamed(prm.Type(), "reflect", "Type") {
					tp = prm
				}
			}
			hphi := stringPhi(h)
			perr = analyze(h,
				func(v ssa.Value) bool { return tp != nil && v == ssa.Value(tp) },
				func(p an.DPath) (bool, bool) {
					ret := an.ReturnOf(p.End)
					if ret == nil || okIdx >= len(ret.Results) {
						return false, false
					}
					b, isc := an.ConstBool(p.ResolveOnPath(ret.Results[okIdx]))
					return !b, isc
				},
				func(p an.DPath) string {
					if hphi != nil {
						if s, ok := an.ConstString(p.ResolveOnPath(hphi)); ok {
							return s
						}
					}
					// the one string constant stored into a field of the returned record on this path
					found := map[string]bool{}
					for _, b := range p.Blocks {
						for _, in := range b.Instrs {
							if st, ok := in.(*ssa.Store); ok {
								if _, isField := st.Addr.(*ssa.FieldAddr); isField {
									if s, ok := an.ConstString(st.Val); ok {
										found[s] = true
									}
								}
							}
						}
					}
					if len(found) == 1 {
						for s := range found {
							return s
						}
					}
					return ""
				})
		}
	}
	if perr != nil {
		r.Undecided(short(f)+"|container-decision", f.Pos(), "cannot extract which types the container matcher accepts: %v", perr)
	}
	for typ, field := range schema {
		r.Check(code[typ] == field, short(f)+"|"+typ, f.Pos(), "go/ast struct %s holds statements in field %q; the container matcher handles it through field %q", typ, field, code[typ])
	}
	for typ, field := range code {
		if _, ok := schema[typ]; !ok {
			r.Fail(short(f)+"|"+typ, f.Pos(), "the container matcher treats %s (field %q) as a statement container but go/ast has no []ast.Stmt there", typ, field)
		}
	}
	r.Count("statement containers", len(schema))
	r.Min("statement containers", 3)
	okDefault := okDefaultPaths && perr == nil
	r.Check(okDefault, short(f)+"|default-rejects", f.Pos(), "a node that is none of the statement containers never matches a statement pattern")
}

// ---- R9 -------------------------------------------------------------------

func c01SplitPatch(r *an.Run) {
	r.Rule("R9-minus-plus-split")
	f := fn(r, parseP, "splitPatch")
	if f == nil {
		return
	}
	// the two versions, by role: the locals the first / the second result are built from
	minusRoot, plusRoot := splitVersionRoots(f)
	if minusRoot == nil || plusRoot == nil {
		r.Undecided(short(f)+"|versions", f.Pos(), "cannot identify the two buffers the results of splitPatch are built from")
		return
	}
	splitRoots = [2]*ssa.Alloc{minusRoot, plusRoot}
	var both *ssa.Call
	for _, c := range an.CallsTo(f, "io.MultiWriter") {
		both = c.(*ssa.Call)
	}
	// the per-line loop
	var loop *an.Loop
	for _, l := range an.Loops(f) {
		if loop == nil || len(l.Blocks) > len(loop.Blocks) {
			loop = l
		}
	}
	if loop == nil {
		r.Undecided(short(f)+"|line-loop", f.Pos(), "splitPatch has no loop over the lines of the section")
		return
	}
	// cases on the first byte
	isFirstByte := func(v ssa.Value) bool {
		u, ok := v.(*ssa.UnOp)
		if !ok || u.Op != token.MUL {
			return false
		}
		ia, ok := u.X.(*ssa.IndexAddr)
		if !ok {
			return false
		}
		i, isc := an.ConstInt(ia.Index)
		return isc && i == 0 && strings.HasSuffix(an.Path(ia.X), ".Text")
	}
	// which versions does a block write to? (directly, through the writer variable, or through a helper
	// that is handed one version's variable)
	versionOf := func(v ssa.Value) string {
		switch rootAlloc(v) {
		case minusRoot:
			return "minus"
		case plusRoot:
			return "plus"
		}
		if a, ok := an.Unwrap(v).(*ssa.Alloc); ok {
			switch a {
			case minusRoot:
				return "minus"
			case plusRoot:
				return "plus"
			}
		}
		return ""
	}
	helperWrites := func(h *ssa.Function, pi int) bool {
		for _, g := range helperGroup(h, 1) {
			for _, c := range an.CallsTo(g, "(*bytes.Buffer).Write", "(*bytes.Buffer).WriteByte", "(*bytes.Buffer).WriteString", "(*bytes.Buffer).WriteRune", "(io.Writer).Write") {
				recv := c.Common().Args[0]
				if c.Common().IsInvoke() {
					recv = c.Common().Value
				}
				if g == h && pi < len(h.Params) && an.Root(an.Unwrap(recv)) == ssa.Value(h.Params[pi]) {
					return true
				}
			}
		}
		return false
	}
	writesOnPath := func(p an.DPath) map[string]bool {
		out := map[string]bool{}
		for _, b := range p.Blocks {
			for _, in := range b.Instrs {
				c, ok := in.(ssa.CallInstruction)
				if !ok {
					continue
				}
				switch {
				case an.IsCallTo(c, "(io.Writer).Write"):
					w := p.ResolveOnPath(c.Common().Value)
					if both != nil && an.Unwrap(w) == ssa.Value(both) {
						for v := range an.BackSlice(both, an.SliceOpts{ThroughCalls: true, ThroughMemory: true}) {
							if a, ok := v.(*ssa.Alloc); ok {
								if n := versionOf(a); n != "" {
									out[n] = true
								}
							}
						}
					} else if n := versionOf(w); n != "" {
						out[n] = true
					} else {
						out["?"+an.Describe(w)] = true
					}
				case an.IsCallTo(c, "(*bytes.Buffer).Write", "(*bytes.Buffer).WriteByte", "(*bytes.Buffer).WriteString", "(*bytes.Buffer).WriteRune"):
					if n := versionOf(c.Common().Args[0]); n != "" {
						out[n] = true
					}
				default:
					if h := an.StaticCallee(c); h != nil && an.InModule(h) && h.Blocks != nil {
						for i, a := range c.Common().Args {
							if n := versionOf(a); n != "" && helperWrites(h, i) {
								out[n] = true
							}
						}
					}
				}
			}
		}
		return out
	}
	classify := func(c ssa.Value) string {
		cmp, ok := c.(*ssa.BinOp)
		if !ok {
			return ""
		}
		if cmp.Op == token.EQL || cmp.Op == token.NEQ {
			var k int64
			var isc bool
			switch {
			case isFirstByte(cmp.X):
				k, isc = an.ConstInt(cmp.Y)
			case isFirstByte(cmp.Y):
				k, isc = an.ConstInt(cmp.X)
			}
			if isc {
				name := "first-byte-" + string(rune(k))
				if cmp.Op == token.NEQ {
					return "not:" + name
				}
				return name
			}
		}
		if sub, emptyWhenTrue, ok := emptinessTest(cmp); ok && strings.HasSuffix(an.Path(sub), ".Text") {
			if emptyWhenTrue {
				return "empty"
			}
			return "not:empty"
		}
		return ""
	}
	hdr := loop.Header
	var bodyStart *ssa.BasicBlock
	for _, sc := range hdr.Succs {
		if loop.Blocks[sc] {
			bodyStart = sc
		}
	}
	paths, err := an.EnumeratePathsFrom(bodyStart, classify, func(b *ssa.BasicBlock) bool { return b == hdr }, 512, true)
	if err != nil {
		r.Undecided(short(f)+"|line-decision", f.Pos(), "cannot extract how splitPatch routes a line: %v", err)
		return
	}
	get := func(p an.DPath, a string) (bool, bool) {
		if v, ok := p.Atoms[a]; ok {
			return v, true
		}
		if v, ok := p.Atoms["not:"+a]; ok {
			return !v, true
		}
		return false, false
	}
	seen := map[string]bool{}
	okMinus, okPlus, okDefault := true, true, true
	nMinus, nPlus, nDefault := 0, 0, 0
	for _, p := range paths {
		// other first bytes given a meaning?
		for a, v := range p.Atoms {
			name := strings.TrimPrefix(a, "not:")
			if strings.HasPrefix(name, "first-byte-") && name != "first-byte--" && name != "first-byte-+" {
				_ = v
				if !seen[name] {
					seen[name] = true
					r.Fail(short(f)+"|marker|"+strings.TrimPrefix(name, "first-byte-"), f.Pos(), "splitPatch gives a meaning to a first byte %q that the patch format does not define", strings.TrimPrefix(name, "first-byte-"))
				}
			}
		}
		isMinus, mk := get(p, "first-byte--")
		isPlus, pk := get(p, "first-byte-+")
		empty, ek := get(p, "empty")
		if mk && isMinus && pk && isPlus {
			continue // infeasible
		}
		if ek && empty && ((mk && isMinus) || (pk && isPlus)) {
			continue // infeasible: an empty line has no first byte
		}
		w := writesOnPath(p)
		switch {
		case mk && isMinus:
			nMinus++
			if !(len(w) == 1 && w["minus"]) {
				okMinus = false
			}
		case pk && isPlus:
			nPlus++
			if !(len(w) == 1 && w["plus"]) {
				okPlus = false
			}
		default:
			nDefault++
			if !(len(w) == 2 && w["minus"] && w["plus"]) {
				okDefault = false
			}
		}
	}
	r.Check(nMinus > 0 && okMinus, short(f)+"|marker|-", f.Pos(), "lines starting with '-' go to the minus version only (%d path(s))", nMinus)
	r.Check(nPlus > 0 && okPlus, short(f)+"|marker|+", f.Pos(), "lines starting with '+' go to the plus version only (%d path(s))", nPlus)
	r.Check(nMinus > 0 && nPlus > 0, short(f)+"|markers", f.Pos(), "both markers '-' and '+' are recognised, by the FIRST byte of the line")
	r.Check(nDefault > 0 && okDefault, short(f)+"|default", f.Pos(), "every other line (space-prefixed, empty) goes to both versions (%d path(s))", nDefault)
	// the marker byte, and only it, is stripped: every cut of a line's text (in splitPatch or a helper it
	// calls) is [1:], and each marker arm performs one
	group := helperGroup(f, 2)
	isStrip := func(in ssa.Instruction) bool {
		sl, ok := in.(*ssa.Slice)
		if !ok || !strings.HasSuffix(an.Path(sl.X), ".Text") {
			return false
		}
		lo, isc := an.ConstInt(sl.Low)
		return sl.Low != nil && isc && lo == 1 && sl.High == nil
	}
	nStrip := 0
	for _, g := range group {
		for _, b := range g.Blocks {
			for _, in := range b.Instrs {
				if sl, ok := in.(*ssa.Slice); ok && strings.HasSuffix(an.Path(sl.X), ".Text") {
					if isStrip(in) {
						nStrip++
					} else {
						r.Fail(short(f)+"|strip", sl.Pos(), "a line's text is cut by something other than [1:]: more or less than the marker byte is stripped")
					}
				}
			}
		}
	}
	armsStrip := 0
	for _, c := range an.EqCases(f, isFirstByte) {
		if _, ok := an.ConstInt(c.Key); ok && regionHas(c.Target, hdr, group, isStrip) {
			armsStrip++
		}
	}
	r.Check(nStrip >= 1 && armsStrip == 2, short(f)+"|strip", f.Pos(), "exactly the marker byte is stripped in the '-' and in the '+' arm (%d [1:] cut(s), %d arm(s) perform one)", nStrip, armsStrip)
	r.Count("split cases", nMinus+nPlus)
	r.Min("split cases", 2)
	// and the lines that are split are the patch's own bytes
	splitterKeepsTheLine(r)
}

func writerName(v ssa.Value, both *ssa.Call) string {
	v = an.Unwrap(v)
	if v == ssa.Value(both) {
		return "both"
	}
	switch rootAlloc(v) {
	case nil:
	case splitRoots[0]:
		return "minus"
	case splitRoots[1]:
		return "plus"
	}
	return an.Describe(v)
}

// splitRoots: the locals of splitPatch that hold the '-' and the '+' version
// (set by c01SplitPatch / c19LineMap before writerName is used).
var splitRoots [2]*ssa.Alloc

// compileLoopCovers: the matcher / replacer compiled from v.<accessor>(j) is
// stored at dst[i], i runs over all of dst, len(dst) is the number of fields /
// elements of v (lenAtom), and i == j. Index expressions and lengths are
// compared in affine normal form, so `for i := 0; i < v.Len(); i++` and
// `for i := range items` (items made with v.Len() elements) are the same loop.
func compileLoopCovers(r *an.Run, rel, name, accessor, lenAtom, what string) int {
	nFound := 0
	f := fn(r, rel, name)
	if f == nil {
		return 0
	}
	found := false
	for _, il := range loopsOf(f) {
		for _, c := range callsInLoop(il.Loop) {
			call, ok := c.(*ssa.Call)
			if !ok || an.StaticCallee(call) == nil || !strings.HasSuffix(an.StaticCallee(call).Name(), "compile") || len(an.CallArgs(call)) < 2 {
				continue
			}
			base, _, j, isElem := elemAccess(an.CallArgs(call)[1])
			ac, isCall := an.CallArgs(call)[1].(*ssa.Call)
			if !isElem || base != "v" || !isCall || !an.IsCallTo(ac, accessor) {
				continue
			}
			// where is it stored?
			for _, u := range *call.Referrers() {
				st, ok := u.(*ssa.Store)
				if !ok {
					continue
				}
				ia, ok := st.Addr.(*ssa.IndexAddr)
				if !ok {
					continue
				}
				n := lengthOf(ia.X)
				want := an.Affine{Terms: map[string]int64{lenAtom: 1}}
				sameIdx := an.Lin(ia.Index).Sub(an.Lin(j)).IsZero()
				covers := il.IndexMapsOnto(ia.Index, n) && n.Sub(want).IsZero()
				msg := il.CoversAll(call, nil)
				found = true
				r.Check(sameIdx, short(f)+"|same-index", call.Pos(), "the "+what+" compiled from element j of the pattern value is stored at index j")
				r.Check(covers && msg == "", short(f)+"|covers-all", call.Pos(), "all %s elements of the pattern value are compiled (index runs over 0..n-1 of a slice of length %s) %s", lenAtom, n.String(), msg)
				r.Count("element loops", 1)
				nFound++
			}
		}
	}
	if !found {
		// result = collect(n, func(i) { return c.compile(v.<accessor>(i)) }): element i is what the function value
		// makes of i, for every i below n
		for _, c := range an.Calls(f) {
			h := an.StaticCallee(c)
			nIdx, atIdx, isMap := asMapHelper(h)
			if !isMap || nIdx >= len(c.Common().Args) || atIdx >= len(c.Common().Args) {
				continue
			}
			acc, okAcc := accessorOf(c.Common().Args[atIdx])
			if !okAcc || acc.result == nil {
				continue
			}
			call, isCall := acc.result.(*ssa.Call)
			if !isCall || an.StaticCallee(call) == nil || !strings.HasSuffix(an.StaticCallee(call).Name(), "compile") || len(an.CallArgs(call)) < 2 {
				continue
			}
			ac, isAcc := an.CallArgs(call)[1].(*ssa.Call)
			if !isAcc || !an.IsCallTo(ac, accessor) || len(ac.Call.Args) != 2 {
				continue
			}
			// v.<accessor>(i) with v the pattern value of f (captured) and i the function's own parameter
			baseOK := false
			if u, isLoad := ac.Call.Args[0].(*ssa.UnOp); isLoad {
				if fv, isFV := u.X.(*ssa.FreeVar); isFV && fv.Name() == "v" {
					baseOK = true
				}
			}
			if fv, isFV := ac.Call.Args[0].(*ssa.FreeVar); isFV && fv.Name() == "v" {
				baseOK = true
			}
			if !baseOK {
				continue
			}
			found = true
			want := an.Affine{Terms: map[string]int64{lenAtom: 1}}
			n := an.Lin(c.Common().Args[nIdx])
			r.Check(ac.Call.Args[1] == ssa.Value(acc.param), short(f)+"|same-index", call.Pos(), "the "+what+" compiled from element j of the pattern value is stored at index j (element i of the list is what the function value makes of i)")
			r.Check(n.Sub(want).IsZero(), short(f)+"|covers-all", c.Pos(), "all %s elements of the pattern value are compiled (%s builds a list of length %s)", lenAtom, short(h), n.String())
			r.Count("element loops", 1)
			nFound++
		}
	}
	r.Check(found, short(f)+"|loop", f.Pos(), "%s compiles %s(v, i) in an index loop and stores the result at [i]", short(f), accessor)
	return nFound
}

// containerHelper recognises `x, ok := h(...)` at the start of the container
// matcher where a false ok leads straight to the failure return: it returns h
// and the index of the boolean among its results.
func containerHelper(f *ssa.Function) (*ssa.Function, int, error) {
	for _, b := range f.Blocks {
		iff, ok := b.Instrs[len(b.Instrs)-1].(*ssa.If)
		if !ok {
			continue
		}
		cond, pos := an.StripNot(iff.Cond)
		ex, ok := cond.(*ssa.Extract)
		if !ok {
			continue
		}
		call, ok := ex.Tuple.(*ssa.Call)
		if !ok {
			continue
		}
		h := an.StaticCallee(call)
		if h == nil || !an.InModule(h) || h.Blocks == nil {
			continue
		}
		falseSucc := b.Succs[1]
		if !pos {
			falseSucc = b.Succs[0]
		}
		if !an.ReturnsFailure(an.FollowJumps(falseSucc)) {
			return nil, 0, fmt.Errorf("a false answer of %s does not make the matcher reject", short(h))
		}
		return h, ex.Index, nil
	}
	return nil, 0, fmt.Errorf("no helper decision")
}

// typeArm is one special-cased type of a compile function: the code that runs
// for values of exactly that type. In the switch form it is the arm's first
// block in the compile function itself; in the table form it is the function
// registered for the type.
type typeArm struct {
	typ   string
	block *ssa.BasicBlock // switch form
	iff   *ssa.BasicBlock // switch form: the block that tests for the type
	fn    *ssa.Function   // table form
}

// instrs lists the instructions that run for the type before anything else is decided.
func (a typeArm) instrs() []ssa.Instruction {
	if a.fn != nil {
		var out []ssa.Instruction
		for _, b := range a.fn.Blocks {
			out = append(out, b.Instrs...)
		}
		return out
	}
	return an.FollowJumps(a.block).Instrs
}

type tableDispatch struct {
	table *ssa.Global
	arms  []typeArm
	deflt *ssa.BasicBlock
}

var tableDispatchCache = map[*ssa.Function]*tableDispatch{}

// tableDispatchOf recognises
//
//	if fn, ok := table[v.Type()]; ok { return fn(c, v) }
//	return <default>
//
// where table is a package-level map[reflect.Type]func filled only by the
// package's init functions, one entry per goast.*Type global. A table that is
// written anywhere else, or an entry whose key or value cannot be resolved, is
// reported as undecided.
func tableDispatchOf(r *an.Run, f *ssa.Function, gt map[string]string) *tableDispatch {
	if td, ok := tableDispatchCache[f]; ok {
		return td
	}
	tableDispatchCache[f] = nil
	subject := isCallOnParam(rvType, "v")
	var lk *ssa.Lookup
	for _, b := range f.Blocks {
		for _, in := range b.Instrs {
			if x, ok := in.(*ssa.Lookup); ok && x.CommaOk && subject(x.Index) && an.GlobalLoaded(x.X) != nil {
				lk = x
			}
		}
	}
	if lk == nil {
		return nil
	}
	g := an.GlobalLoaded(lk.X)
	td := &tableDispatch{table: g}
	var fnv, okv ssa.Value
	for _, u := range *lk.Referrers() {
		if ex, ok := u.(*ssa.Extract); ok {
			if ex.Index == 0 {
				fnv = ex
			} else {
				okv = ex
			}
		}
	}
	if fnv == nil || okv == nil {
		return nil
	}
	brs := an.BranchesOn(f, okv)
	if len(brs) != 1 {
		r.Undecided(short(f)+"|table-dispatch", lk.Pos(), "the result of the dispatch-table lookup in %s is not tested exactly once", short(f))
		return nil
	}
	hit, miss := brs[0].If.Block().Succs[0], brs[0].If.Block().Succs[1]
	if !brs[0].Pos {
		hit, miss = miss, hit
	}
	// on a hit the looked-up function is called with the compiler and the value, and its result returned
	ret := an.ReturnOf(hit)
	okHit := false
	if ret != nil && len(ret.Results) == 1 {
		if c, ok := ret.Results[0].(*ssa.Call); ok && c.Call.Value == fnv && !c.Call.IsInvoke() {
			passesV := false
			for _, a := range c.Call.Args {
				if isParam(a, "v") {
					passesV = true
				}
			}
			okHit = passesV
		}
	}
	if !okHit {
		r.Undecided(short(f)+"|table-dispatch", lk.Pos(), "on a hit of the dispatch table %s does not simply return what the registered function makes of v", short(f))
		return nil
	}
	td.deflt = miss
	// the contents: map updates in the package's init functions
	var made ssa.Value
	pkgFns := r.P.ModuleFuncs()
	if f.Pkg != nil {
		if init := f.Pkg.Func("init"); init != nil {
			dup := false
			for _, h := range pkgFns {
				if h == init {
					dup = true
				}
			}
			if !dup {
				pkgFns = append(append([]*ssa.Function{}, pkgFns...), init) // the synthetic package initialiser
			}
		}
	}
	for _, h := range pkgFns {
		if h.Pkg != f.Pkg {
			continue
		}
		isInit := h.Name() == "init" || strings.HasPrefix(h.Name(), "init#")
		for _, b := range h.Blocks {
			for _, in := range b.Instrs {
				switch x := in.(type) {
				case *ssa.Store:
					if x.Addr == ssa.Value(g) {
						if !isInit {
							r.Undecided(short(f)+"|table-dispatch|written", x.Pos(), "the dispatch table %s is replaced in %s, outside package initialisation", g.Name(), short(h))
							return nil
						}
						made = x.Val
					}
				}
			}
		}
	}
	for _, h := range pkgFns {
		if h.Pkg != f.Pkg {
			continue
		}
		isInit := h.Name() == "init" || strings.HasPrefix(h.Name(), "init#")
		for _, b := range h.Blocks {
			for _, in := range b.Instrs {
				mu, ok := in.(*ssa.MapUpdate)
				if !ok {
					continue
				}
				if mu.Map != made && an.GlobalLoaded(mu.Map) != g {
					continue
				}
				if !isInit {
					r.Undecided(short(f)+"|table-dispatch|written", mu.Pos(), "the dispatch table %s is updated in %s, outside package initialisation", g.Name(), short(h))
					return nil
				}
				kg := an.GlobalLoaded(mu.Key)
				var af *ssa.Function
				val := mu.Value
				for {
					if ct, isCT := val.(*ssa.ChangeType); isCT {
						val = ct.X
						continue
					}
					break
				}
				switch v := val.(type) {
				case *ssa.Function:
					af = v
				case *ssa.MakeClosure:
					if len(v.Bindings) == 0 {
						af, _ = v.Fn.(*ssa.Function)
					}
				}
				if kg == nil || af == nil {
					r.Undecided(short(f)+"|table-dispatch|entry", mu.Pos(), "an entry of the dispatch table %s is not a goast.*Type global mapped to a function", g.Name())
					return nil
				}
				typ := gt[kg.Name()]
				if typ == "" {
					typ = "?" + kg.Name()
				}
				td.arms = append(td.arms, typeArm{typ: typ, fn: af})
			}
		}
	}
	if len(td.arms) == 0 {
		return nil
	}
	tableDispatchCache[f] = td
	r.Saw("dispatch table " + g.Name() + " of " + short(f))
	return td
}

// describeArmFunc says what a registered compile function returns, in the
// vocabulary of an.Describe (a method-expression thunk is looked through).
func describeArmFunc(g *ssa.Function) string {
	rets := an.Returns(g)
	if len(rets) != 1 || len(rets[0].Results) != 1 {
		return "block"
	}
	return an.Describe(rets[0].Results[0])
}

// typeArmsOf lists the special-cased types of a compile function in either form.
func typeArmsOf(r *an.Run, f *ssa.Function, gt map[string]string) []typeArm {
	var out []typeArm
	for _, c := range an.EqCases(f, isCallOnParam(rvType, "v")) {
		g := an.GlobalLoaded(c.Key)
		if g == nil {
			continue
		}
		out = append(out, typeArm{typ: gt[g.Name()], block: c.Target, iff: c.If.Block()})
	}
	if len(out) == 0 {
		if td := tableDispatchOf(r, f, gt); td != nil {
			out = append(out, td.arms...)
		}
	}
	return out
}

// dispatchArmFuncs: the functions registered in the dispatch table of f (nil in the switch form).
func dispatchArmFuncs(r *an.Run, f *ssa.Function, gt map[string]string) map[*ssa.Function]bool {
	out := map[*ssa.Function]bool{}
	if len(an.EqCases(f, isCallOnParam(rvType, "v"))) > 0 {
		return out
	}
	if td := tableDispatchOf(r, f, gt); td != nil {
		for _, a := range td.arms {
			out[a.fn] = true
		}
	}
	return out
}
