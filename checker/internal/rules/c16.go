package rules

import (
	"go/token"
	"go/types"
	"strings"

	"golang.org/x/tools/go/ssa"

	"gpcheck/internal/an"
)

func init() {
	register(&Spec{
		ID:  "C16",
		Run: runC16,
		Explanation: "Decides: R1 no reachable code of package main opens a file destructively (os.WriteFile, os.Create, os.OpenFile, os.Truncate, ioutil.WriteFile); the only replacement of a target is temp-file-in-the-same-directory -> write -> close -> rename, where the rename is reachable only through the err==nil edges of the write and of a close, its source is the temp file's name and its destination the target parameter, and every failing exit after the temp file exists removes it (explicitly or by a deferred cleanup guarded by the error result); " +
			"R2 every error value that package main tests against nil is also used (returned, wrapped, appended) — not merely compared; R3 no error result is dropped in main.go/loader.go (listed exceptions: diagnostics printed to cmd.Stderr), and a bufio.Scanner loop consults Scanner.Err; " +
			"R4 inside the per-file loop there is no return, and every err!=nil edge records an error that derives from that err in the accumulator before the next file; R5 Run returns Combine(per-file errors ++ runner errors) and runMain maps non-nil to exit status 1 after printing it to stderr; " +
			"R6 every error recorded for a file is a fmt.Errorf naming the file and wrapping the cause, or the unwrapped error of a call that was given the path; patch loading errors are wrapped with the patch path. " +
			"R7 a file that fails is skipped without changing the result for any other file: nothing created outside the per-file loop (buffers, maps, pointers) is written or handed to a mutating call inside it, apart from the position table, the error accumulators, the logger and the runner. " +
			"NOT decided: the operating system's rename atomicity and crash behaviour (no fsync is required by the rule); whether messages are well worded." +
			" R7 also: runner state is write-only while files are processed; R5 also: no deferred overwrite of Run's error." +
			" R11 an unprocessable patch is reported (connectDots covers every '+' elision)." +
			" R5 also: the patch runner is never copied by value (no value receiver, no struct load)." +
			" R12 the reader under io.ReadAll does not end early by construction; R13 behind the library's change loop no nil-error return is reachable without the nothing-collected edge of the accumulator test; R14 = C12-R9; R5 accepts a non-zero status with a nil Run error only behind another failed step.",
		Trusted:     commonTrusted,
		Assumptions: append([]string{"os.Rename within one directory replaces the destination atomically (POSIX)", "errors returned by package os for a path (*PathError, *LinkError) name that path"}, commonAssumptions...),
	})
}

func runC16(r *an.Run) {
	m := buildRunModel(r)
	c16AtomicReplace(r)
	c16GuardedErrorsUsed(r)
	c16NoErrorDropped(r)
	if m != nil {
		c16CollectAndContinue(r, m)
		c16ExitStatus(r, m)
		c16Messages(r, m)
		crossFileState(r, m, "R7-one-file-failure-does-not-affect-others")
	}
	runnerNeverCopied(r, "R5-exit-status")
	// a bad argument can only be reported if every argument is examined
	c15OnceInOrder(r)
	relabel(r, "R3-each-file-once-in-fixed-order", "R8-every-argument-examined")
	// a change that fails leaves the file unwritten (its partial edits of the tree never reach the disk)
	c06MatchedFlagAs(r, "R9-a-failed-change-leaves-the-file-unwritten")
	// every patch of a -P list is loaded or reported
	c09Collection(r)
	relabel(r, "R1-order-preserving-collection", "R10-every-listed-patch-is-loaded-or-reported")
	partialLineAtEOF(r, "R10-every-listed-patch-is-loaded-or-reported")
	// a patch that cannot be processed is reported: a '+' elision without a '-' counterpart is a compile error
	// (connectDots looks at every '+' elision before it reports success, and compileChange records its error)
	c04AssociationReported(r)
	relabel(r, "R7-association-errors-reported", "R11-an-unprocessable-patch-is-reported")
	patchIsReadWhole(r, "R12-a-patch-is-read-whole")
	failuresLookedAtBeforeSuccess(r, "R13-collected-failures-are-looked-at-before-success")
	bufferedOutputIsFlushed(r, "R14-buffered-output-is-flushed-on-every-exit")
}

var destructiveOpens = setOf("os.WriteFile", "os.Create", "os.OpenFile", "os.Truncate", "io/ioutil.WriteFile", "(*os.File).Truncate")

func mainReachable(r *an.Run) map[*ssa.Function]bool {
	mainFn := r.P.Func(mainP, "main")
	if mainFn == nil {
		r.Undecided("anchor|main.main", token.NoPos, "main.main not found")
		return nil
	}
	return r.P.ReachableModuleFuncs(mainFn)
}

func c16AtomicReplace(r *an.Run) {
	r.Rule("R1-no-destructive-open")
	reach := mainReachable(r)
	if reach == nil {
		return
	}
	var renames []an.ExtCall
	for _, e := range an.ExternalCalls(reach) {
		if destructiveOpens[e.Callee] {
			r.Fail(short(e.In)+"|"+e.Callee, e.Site.Pos(), "%s truncates or opens its target in place: a write that fails or is cut short leaves a partial file (use temp file + rename)", e.Callee)
		}
		if e.Callee == "os.Rename" {
			renames = append(renames, e)
		}
	}
	r.Pass("no-destructive-open", token.NoPos, "no reachable call of %s", joinSorted(destructiveOpens))
	if !r.Check(len(renames) >= 1, "rename-present", token.NoPos, "patched files are put in place by os.Rename (%d site(s))", len(renames)) {
		return
	}
	for _, e := range renames {
		f := e.In
		key := short(f) + "|"
		args := e.Site.Common().Args
		// destination: a parameter (the target path)
		_, dstIsParam := args[1].(*ssa.Parameter)
		r.Check(dstIsParam, key+"rename-dst", e.Site.Pos(), "the rename destination is the target path parameter")
		// source: Name() of the temp file created by os.CreateTemp
		temps := an.CallsTo(f, "os.CreateTemp")
		if !r.Check(len(temps) == 1, key+"createtemp", f.Pos(), "the replacement is written to one os.CreateTemp file (found %d)", len(temps)) {
			continue
		}
		ct := temps[0].(*ssa.Call)
		srcOK := false
		if c, ok := args[0].(*ssa.Call); ok && an.IsCallTo(c, "(*os.File).Name") && derivesFrom(c.Call.Args[0], ct) {
			srcOK = true
		}
		r.Check(srcOK, key+"rename-src", e.Site.Pos(), "the rename source is the temp file's own name")
		// same directory
		dirOK := false
		if c, ok := ct.Call.Args[0].(*ssa.Call); ok && an.IsCallTo(c, "path/filepath.Dir") && c.Call.Args[0] == args[1] {
			dirOK = true
		}
		r.Check(dirOK, key+"same-dir", ct.Pos(), "the temp file is created in filepath.Dir(target): rename never crosses file systems")
		// rename only after successful write and close
		need := map[string]bool{"(*os.File).Write": false, "(*os.File).Close": false}
		for _, c := range an.Calls(f) {
			call, ok := c.(*ssa.Call)
			if !ok {
				continue
			}
			name := an.CalleeName(c)
			if _, want := need[name]; !want || !derivesFrom(call.Call.Args[0], ct) {
				continue
			}
			edges := errNilEdges(call)
			if len(edges) > 0 && !reachedWithout(call, point{pred: nil, blk: e.Site.Block()}, edges) && call.Block().Dominates(e.Site.Block()) {
				need[name] = true
			}
		}
		// the writing may be a private helper of its own — writeAndClose(tmp, data, mode) error: the rename is
		// reachable only through the helper's err==nil edge, and the helper answers nil only after its Write
		// and its Close of the file it was handed succeeded
		if !need["(*os.File).Write"] || !need["(*os.File).Close"] {
			for _, c := range an.Calls(f) {
				call, ok := c.(*ssa.Call)
				h := an.StaticCallee(c)
				if !ok || h == nil || !an.InModule(h) || h.Blocks == nil || errValue(call) == nil {
					continue
				}
				fi := -1
				for i, a := range call.Call.Args {
					if derivesFrom(a, ct) && strings.HasSuffix(an.ShortType(a.Type()), "os.File") {
						fi = i
					}
				}
				if fi < 0 || fi >= len(h.Params) {
					continue
				}
				edges := errNilEdges(call)
				if len(edges) == 0 || reachedWithout(call, point{pred: nil, blk: e.Site.Block()}, edges) {
					continue
				}
				failEdges := errorFailEdges(h)
				for name := range need {
					if need[name] {
						continue
					}
					// every return of the helper that may answer nil is the step's own error handed on, or lies
					// behind the step's err==nil edge; every other return lies on a failure path (behind an
					// err != nil edge) and hands on a computed, non-nil error
					var steps []*ssa.Call
					for _, ic := range an.CallsTo(h, name) {
						if icall, ok := ic.(*ssa.Call); ok && icall.Call.Args[0] == ssa.Value(h.Params[fi]) {
							steps = append(steps, icall)
						}
					}
					good := len(steps) > 0
					for _, ret := range an.Returns(h) {
						res := ret.Results[len(ret.Results)-1]
						direct := false
						if ex, isEx := res.(*ssa.Extract); isEx {
							_, direct = ex.Tuple.(*ssa.Call)
						}
						if _, isCall := res.(*ssa.Call); isCall && an.IsErrorType(res.Type()) {
							if c := res.(*ssa.Call); !an.IsCallTo(c, "go.uber.org/multierr.Append", "go.uber.org/multierr.Combine", "fmt.Errorf", "errors.New", "errors.Join") {
								direct = true
							}
						}
						mayBeNil := an.IsNilConst(res) || direct
						if !mayBeNil {
							if len(failEdges) == 0 || !unreachableWithout(ret.Block(), failEdges) {
								good = false
							}
							continue
						}
						implied := false
						for _, st := range steps {
							if res == errValue(st) {
								implied = true
							}
							if ne := errNilEdges(st); len(ne) > 0 && unreachableWithout(ret.Block(), ne) {
								implied = true
							}
						}
						if !implied {
							good = false
						}
					}
					if good {
						need[name] = true
					}
				}
			}
		}
		r.Check(need["(*os.File).Write"], key+"write-ok-before-rename", e.Site.Pos(), "os.Rename is reachable only through the err==nil edge of the temp file's Write")
		r.Check(need["(*os.File).Close"], key+"close-ok-before-rename", e.Site.Pos(), "os.Rename is reachable only through the err==nil edge of the temp file's Close")
		// the written bytes are the data parameter
		for _, c := range an.CallsTo(f, "(*os.File).Write") {
			_, isParam := c.Common().Args[1].(*ssa.Parameter)
			r.Check(isParam, key+"write-data", c.Pos(), "the temp file receives the data parameter unchanged")
		}
		// cleanup on failure
		c16TempCleanup(r, f, ct, e.Site)
	}
	r.Count("atomic replace sites", len(renames))
}

// c16TempCleanup: every return after the temp file exists, other than the one
// that follows the rename, passes an os.Remove of the temp or is covered by a
// deferred closure that removes it when the error result is non-nil.
func c16TempCleanup(r *an.Run, f *ssa.Function, ct *ssa.Call, rename ssa.CallInstruction) {
	key := short(f) + "|temp-removed-on-failure"
	okEdges := errNilEdges(ct)
	if len(okEdges) == 0 {
		r.Fail(key, ct.Pos(), "the error of os.CreateTemp is not tested")
		return
	}
	var created []*ssa.BasicBlock
	for _, e := range okEdges {
		created = append(created, e.Block.Succs[e.Succ])
	}
	after := an.Reach(created, nil)
	// deferred cleanup?
	var deferAt *ssa.Defer
	for _, b := range f.Blocks {
		for _, in := range b.Instrs {
			d, ok := in.(*ssa.Defer)
			if !ok {
				continue
			}
			var clo *ssa.Function
			switch v := d.Call.Value.(type) {
			case *ssa.MakeClosure:
				clo, _ = v.Fn.(*ssa.Function)
			case *ssa.Function:
				clo = v
			}
			if clo == nil {
				continue
			}
			for _, rm := range an.CallsTo(clo, "os.Remove") {
				// guarded by the captured error result being non-nil
				guarded := false
				for _, cse := range an.EqCases(clo, func(v ssa.Value) bool { return types.Identical(v.Type(), types.Universe.Lookup("error").Type()) }) {
					if an.IsNilConst(cse.Key) && an.Path(cse.If.Cond.(*ssa.BinOp).X) == "err" || an.IsNilConst(cse.Key) {
						if unreachableWithout(rm.Block(), []an.CtrlEdge{edgeTo(cse.If.Block(), cse.Else)}) {
							guarded = true
						}
					}
				}
				if guarded {
					deferAt = d
				}
			}
		}
	}
	bad := 0
	for _, ret := range an.Returns(f) {
		if !after[ret.Block()] {
			continue
		}
		followsRename := false
		if rc, isCall := rename.(*ssa.Call); isCall {
			// `if err == nil { err = os.Rename(…) }; if err != nil { …remove… }; return nil`: the plain return is
			// reachable only on the edges taken when the rename's error is nil
			if ne := errNilEdges(rc); len(ne) > 0 && unreachableWithout(ret.Block(), ne) {
				if len(ret.Results) > 0 && an.IsNilConst(ret.Results[len(ret.Results)-1]) {
					followsRename = true
				}
			}
		}
		if followsRename {
			continue
		}
		if rename.Block() == ret.Block() || rename.Block().Dominates(ret.Block()) {
			// the return that reports the rename's own result: on failure the deferred cleanup (if any) still runs
			if deferAt == nil {
				// explicit style: a failed rename must remove the temp
				continue
			}
			continue
		}
		covered := deferAt != nil && (deferAt.Block() == ret.Block() || deferAt.Block().Dominates(ret.Block()))
		if !covered {
			// explicit removal on this path
			for _, rm := range an.CallsTo(f, "os.Remove") {
				if rm.Block() == ret.Block() || rm.Block().Dominates(ret.Block()) {
					covered = true
				}
			}
		}
		if !covered {
			bad++
			r.Fail(key, ret.Pos(), "a failing exit of %s after the temp file was created neither removes it nor is covered by a deferred cleanup: stray temp files are left next to the target", short(f))
		}
	}
	if bad == 0 {
		how := "explicit os.Remove on each failing exit"
		if deferAt != nil {
			how = "a deferred cleanup that removes it when the error result is non-nil"
		}
		r.Pass(key, ct.Pos(), "every failing exit after the temp file exists is covered by %s", how)
	}
}

// errorValuesTested lists error-typed values compared against nil in f.
func errorValuesTested(f *ssa.Function) map[ssa.Value]*ssa.If {
	out := map[ssa.Value]*ssa.If{}
	for _, c := range an.EqCases(f, func(v ssa.Value) bool { return an.IsErrorType(v.Type()) && !an.IsNilConst(v) }) {
		if an.IsNilConst(c.Key) {
			var subj ssa.Value
			cmp := c.If.Cond
			if inner, _ := an.StripNot(cmp); inner != nil {
				if bo, ok := inner.(*ssa.BinOp); ok {
					if an.IsNilConst(bo.X) {
						subj = bo.Y
					} else {
						subj = bo.X
					}
				}
			}
			if subj != nil {
				out[subj] = c.If
			}
		}
	}
	return out
}

func c16GuardedErrorsUsed(r *an.Run) {
	r.Rule("R2-guarded-error-is-used")
	n := 0
	for _, f := range r.P.PkgFuncs(mainP) {
		for e, iff := range errorValuesTested(f) {
			// the arm taken when e != nil
			var starts []*ssa.BasicBlock
			for _, c := range an.EqCases(f, func(v ssa.Value) bool { return v == e }) {
				if an.IsNilConst(c.Key) && c.If == iff {
					starts = append(starts, c.Else)
				}
			}
			var arm []*ssa.BasicBlock
			for _, b := range f.Blocks {
				for _, s := range starts {
					if (b == s || s.Dominates(b)) && len(s.Preds) == 1 {
						arm = append(arm, b)
					}
				}
			}
			// error-producing instructions in the arm
			var makers []ssa.Instruction
			for _, b := range arm {
				for _, in := range b.Instrs {
					switch x := in.(type) {
					case *ssa.Return:
						for _, res := range x.Results {
							if an.IsErrorType(res.Type()) && !an.IsNilConst(res) {
								makers = append(makers, x)
							}
						}
					case *ssa.Call:
						if an.IsCallTo(x, "fmt.Errorf", "errors.New", "go.uber.org/multierr.Append", "go.uber.org/multierr.Combine") {
							makers = append(makers, x)
						}
					}
				}
			}
			if len(makers) == 0 {
				continue // nothing is reported on that arm (fallback idiom `if err == nil { use value }`)
			}
			n++
			alias := an.CellAliases(e)
			if ld, ok := e.(*ssa.UnOp); ok {
				// e itself is a load of a cell: every load of that cell aliases it inside the arm
				switch cell := ld.X.(type) {
				case *ssa.Alloc, *ssa.FreeVar:
					for _, w := range *cell.Referrers() {
						if l2, ok := w.(*ssa.UnOp); ok {
							alias[l2] = true
						}
					}
				}
			}
			used := false
			for _, mk := range makers {
				var ops []ssa.Value
				switch x := mk.(type) {
				case *ssa.Return:
					ops = x.Results
				case *ssa.Call:
					ops = append(ops, x)
				}
				for _, op := range ops {
					for v := range an.BackSlice(op, an.SliceOpts{ThroughCalls: true, ThroughMemory: true}) {
						if alias[v] {
							used = true
						}
					}
				}
			}
			r.Check(used, short(f)+"|"+describeErrSource(e), iff.Pos(), "the arm taken when %s is non-nil reports an error, and what it reports derives from that very error (not from some other variable)", describeErrSource(e))
		}
	}
	r.Count("error-reporting arms in package main", n)
	r.Min("error-reporting arms in package main", 12)
}

func describeErrSource(v ssa.Value) string {
	switch x := v.(type) {
	case *ssa.Extract:
		if c, ok := x.Tuple.(*ssa.Call); ok {
			return "error of " + an.TrimModule(an.CalleeName(c))
		}
	case *ssa.Call:
		return "error of " + an.TrimModule(an.CalleeName(x))
	case *ssa.Phi:
		return "error variable " + x.Comment
	case *ssa.UnOp:
		return "error variable " + an.Path(x.X)
	}
	return v.Name()
}

// droppedErrorExceptions: callees whose error result may be ignored, with the reason.
var droppedErrorExceptions = map[string]string{
	"fmt.Fprintln": "diagnostic / usage output to cmd.Stderr is best effort",
	"fmt.Fprintf":  "diagnostic output to cmd.Stderr is best effort",
}

func c16NoErrorDropped(r *an.Run) {
	r.Rule("R3-no-error-dropped")
	n := 0
	for _, f := range r.P.PkgFuncs(mainP) {
		scans := false
		errConsulted := false
		for _, c := range an.Calls(f) {
			name := an.CalleeName(c)
			if name == "(*bufio.Scanner).Scan" {
				scans = true
			}
			if name == "(*bufio.Scanner).Err" {
				if v, ok := c.(*ssa.Call); ok && v.Referrers() != nil && len(*v.Referrers()) > 0 {
					errConsulted = true
				}
			}
			sig := an.CallSig(c)
			res := sig.Results()
			if res.Len() == 0 || !an.IsErrorType(res.At(res.Len()-1).Type()) {
				continue
			}
			n++
			key := short(f) + "|" + an.TrimModule(name)
			call, isCall := c.(*ssa.Call)
			if !isCall {
				// defer / go: multierr.AppendInvoke style wrappers carry the error themselves
				if d, ok := c.(*ssa.Defer); ok && an.IsCallTo(d, "go.uber.org/multierr.AppendInvoke") {
					r.Pass(key, c.Pos(), "deferred multierr.AppendInvoke merges the close error into the named result")
					continue
				}
				r.Fail(key, c.Pos(), "the error of the deferred/spawned call %s cannot be observed", name)
				continue
			}
			used := false
			if res.Len() == 1 {
				used = call.Referrers() != nil && nonDebugRefs(call) > 0
			} else {
				for _, ex := range an.ExtractOf(call, res.Len()-1) {
					if nonDebugRefs(ex) > 0 {
						used = true
					}
				}
				if returnsTupleOf(call) {
					used = true
				}
			}
			if !used {
				if why, ok := droppedErrorExceptions[name]; ok && isCmdStderr(call.Call.Args[0]) {
					r.Pass(key+"|stderr", c.Pos(), "exception: %s", why)
					continue
				}
			}
			r.Check(used, key, c.Pos(), "the error returned by %s is used", an.TrimModule(name))
		}
		if scans {
			r.Check(errConsulted, short(f)+"|bufio.Scanner.Err", f.Pos(), "%s scans with bufio.Scanner and consults Scanner.Err afterwards (a read error or over-long line would otherwise end the list silently)", short(f))
		}
	}
	r.Count("error-returning calls in package main", n)
	r.Min("error-returning calls in package main", 25)
}

func nonDebugRefs(v ssa.Value) int {
	n := 0
	if refs := v.Referrers(); refs != nil {
		for _, u := range *refs {
			if _, ok := u.(*ssa.DebugRef); !ok {
				n++
			}
		}
	}
	return n
}

func returnsTupleOf(c *ssa.Call) bool {
	if refs := c.Referrers(); refs != nil {
		for _, u := range *refs {
			if _, ok := u.(*ssa.Return); ok {
				return true
			}
		}
	}
	return false
}

func c16CollectAndContinue(r *an.Run, m *runModel) {
	r.Rule("R4-per-file-failures-are-collected")
	f := m.run
	for _, ret := range an.Returns(f) {
		if m.loop.Loop.Blocks[ret.Block()] {
			r.Fail(short(f)+"|return-in-file-loop", ret.Pos(), "a return inside the per-file loop discards the errors collected so far and skips the remaining files")
		}
	}
	r.Pass(short(f)+"|no-return-in-file-loop", m.loop.If.Pos(), "the per-file loop is left only when all files were visited")
	n := 0
	for e, iff := range errorValuesTested(f) {
		if !m.loop.Loop.Blocks[iff.Block()] {
			continue
		}
		n++
		// region taken when e != nil
		var nonNil []an.CtrlEdge
		for _, c := range an.EqCases(f, func(v ssa.Value) bool { return v == e }) {
			if an.IsNilConst(c.Key) {
				nonNil = append(nonNil, edgeTo(c.If.Block(), c.Else))
			}
		}
		var starts []*ssa.BasicBlock
		for _, ed := range nonNil {
			starts = append(starts, ed.Block.Succs[ed.Succ])
		}
		recorded, reachesHeader := m.acc.everyPathRecords(starts, func(rec errRecord) bool { return rec.derivesFromErr(e) })
		r.Check(recorded && reachesHeader, short(f)+"|recorded|"+describeErrSource(e), iff.Pos(), "when %s is non-nil the accumulator gains an error derived from it before the next file", describeErrSource(e))
	}
	r.Count("error edges in the file loop", n)
	r.Min("error edges in the file loop", 4)
}

func c16ExitStatus(r *an.Run, m *runModel) {
	r.Rule("R5-exit-status")
	f := m.run
	// final return: Combine(append(errors, runner.errors...))
	exit := m.loop.Loop.Header.Succs[1]
	ret := an.ReturnOf(exit)
	good := false
	if ret != nil {
		// what is returned is multierr.Combine (called here, or by the accumulator's own method) over the
		// accumulated errors and the runner's errors
		sl := sliceAcross(ret.Results[0])
		combines, hasRunner := false, false
		for v := range sl {
			if c, ok := v.(*ssa.Call); ok && an.IsCallTo(c, "go.uber.org/multierr.Combine") {
				combines = true
			}
			if fa, ok := v.(*ssa.FieldAddr); ok && isRunnerErrors(r, fa) {
				hasRunner = true
			}
		}
		if m.acc.obj != nil && !hasRunner {
			// the runner's errors are added to the object before it is combined
			for _, c := range an.Calls(f) {
				if len(c.Common().Args) > 0 && an.Unwrap(c.Common().Args[0]) == ssa.Value(m.acc.obj) && !m.loop.Loop.Blocks[c.Block()] {
					for _, a := range c.Common().Args[1:] {
						for v := range an.BackSlice(a, an.SliceOpts{ThroughMemory: true}) {
							if fa, ok := v.(*ssa.FieldAddr); ok && isRunnerErrors(r, fa) {
								hasRunner = true
							}
						}
					}
				}
			}
		}
		good = combines && m.acc.feeds(sl) && hasRunner
	}
	r.Check(good, short(f)+"|final-return", exit.Instrs[0].Pos(), "Run returns multierr.Combine of the per-file errors and the patch runner's errors")
	// with a named error result, a deferred function can still replace what the return statement put there:
	// any closure of Run that assigns the result must build on its current value (err = multierr.Append(err, x))
	for _, b := range f.Blocks {
		for _, in := range b.Instrs {
			cell, ok := in.(*ssa.Alloc)
			if !ok || !an.IsErrorType(cell.Type().Underlying().(*types.Pointer).Elem()) {
				continue
			}
			isResult := false
			for _, rt := range an.Returns(f) {
				if len(rt.Results) > 0 {
					if ld, ok := rt.Results[len(rt.Results)-1].(*ssa.UnOp); ok && ld.X == ssa.Value(cell) {
						isResult = true
					}
				}
			}
			if !isResult {
				continue
			}
			for _, g := range f.AnonFuncs {
				for i, fv := range g.FreeVars {
					mc := closureBindingOf(f, g, i)
					if mc != ssa.Value(cell) {
						continue
					}
					for _, st := range an.StoresIn(g) {
						s2, ok := st.(*ssa.Store)
						if !ok || s2.Addr != ssa.Value(fv) {
							continue
						}
						keeps := false
						for v := range an.BackSlice(s2.Val, an.SliceOpts{ThroughCalls: true}) {
							if ld, ok := v.(*ssa.UnOp); ok && ld.X == ssa.Value(fv) {
								keeps = true
							}
						}
						r.Check(keeps, short(g)+"|keeps-run-error", s2.Pos(), "a function literal of Run that assigns Run's named error result builds on the value it holds: the errors collected for the files are not replaced after the return statement has stored them")
					}
				}
			}
		}
	}
	rm := fn(r, mainP, "runMain")
	if rm == nil {
		return
	}
	var runCall *ssa.Call
	for _, c := range an.Calls(rm) {
		if an.StaticCallee(c) == f {
			runCall, _ = c.(*ssa.Call)
		}
	}
	if !r.Check(runCall != nil, short(rm)+"|calls-run", rm.Pos(), "runMain calls mainCmd.Run") {
		return
	}
	// path-sensitive: on every path, the status returned is 0 iff Run's error is nil, and the error is printed when it is not
	paths, err := an.EnumeratePathsFrom(runCall.Block(), func(c ssa.Value) string {
		cmp, ok := c.(*ssa.BinOp)
		if !ok || (cmp.Op != token.EQL && cmp.Op != token.NEQ) {
			return ""
		}
		if cmp.X == ssa.Value(runCall) && an.IsNilConst(cmp.Y) || cmp.Y == ssa.Value(runCall) && an.IsNilConst(cmp.X) {
			if cmp.Op == token.EQL {
				return "err-nil"
			}
			return "err-non-nil"
		}
		return ""
	}, nil, 64, true)
	okStatus, printed := err == nil && len(paths) >= 2, true
	for _, p := range paths {
		isNil, known := p.Atoms["err-nil"]
		if v, ok := p.Atoms["err-non-nil"]; ok {
			isNil, known = !v, true
		}
		ret, isRet := p.End.Instrs[len(p.End.Instrs)-1].(*ssa.Return)
		if !isRet {
			okStatus = false
			continue
		}
		if !known {
			// a way out on which Run's error is not looked at: only with a non-zero status, because something
			// else failed (the buffered output could not be flushed)
			if k, isc := an.ConstInt(p.ResolveOnPath(ret.Results[0])); !isc || k == 0 || !pathTakesAnErrorEdge(p, runCall) {
				okStatus = false
			}
			continue
		}
		k, isc := an.ConstInt(p.ResolveOnPath(ret.Results[0]))
		if !isc || (k == 0) && !isNil {
			okStatus = false
		}
		if isc && k != 0 && isNil && !pathTakesAnErrorEdge(p, runCall) {
			// Run succeeded and the status is non-zero: only because something else failed afterwards
			// (the buffered output could not be flushed)
			okStatus = false
		}
		if !isNil {
			seen := false
			for _, b := range p.Blocks {
				for _, in := range b.Instrs {
					if c, ok := in.(*ssa.Call); ok && an.IsCallTo(c, "fmt.Fprintln", "fmt.Fprintf", "fmt.Fprint") && isCmdStderr(c.Call.Args[0]) && derivesFrom(c, runCall) {
						seen = true
					}
				}
			}
			if !seen {
				printed = false
			}
		}
	}
	r.Check(okStatus, short(rm)+"|status", rm.Pos(), "runMain returns a non-zero status when Run returned an error, and zero otherwise unless something else failed after Run (%d paths)", len(paths))
	r.Check(printed, short(rm)+"|stderr", rm.Pos(), "runMain prints the error to cmd.Stderr")
	mainFn := fn(r, mainP, "main")
	if mainFn != nil {
		okExit := false
		for _, c := range an.CallsTo(mainFn, "os.Exit") {
			if call, ok := c.Common().Args[0].(*ssa.Call); ok && an.StaticCallee(call) == rm {
				okExit = true
			}
		}
		r.Check(okExit, short(mainFn)+"|os.Exit", mainFn.Pos(), "main exits with runMain's status")
	}
}

func c16Messages(r *an.Run, m *runModel) {
	r.Rule("R6-messages-name-path-and-cause")
	f := m.run
	n := 0
	for _, rec := range m.acc.recs {
		n++
		at := rec.at
		var elems []ssa.Value
		elems = append(elems, rec.vals...)
		var errf *ssa.Call
		var all = map[ssa.Value]bool{}
		for _, elem := range elems {
			for v := range an.BackSlice(elem, an.SliceOpts{ThroughCalls: false, ThroughMemory: true}) {
				all[v] = true
				if c, ok := v.(*ssa.Call); ok && an.IsCallTo(c, "fmt.Errorf") {
					errf = c
				}
			}
		}
		key := short(f) + "|message|" + errSourceOfRecord(rec)
		if errf != nil || rec.formats {
			// the arguments the message is formatted from: those of the Errorf call, or — when the record is a
			// formatting method of the accumulator — the arguments of that call
			args := map[ssa.Value]bool{}
			if errf != nil {
				args = an.BackSlice(errf.Call.Args[1], an.SliceOpts{ThroughMemory: true})
			} else {
				args = all
			}
			hasName, hasCause := false, false
			for v := range args {
				if v == m.filename {
					hasName = true
				}
				if an.IsErrorType(v.Type()) {
					hasCause = true
				}
			}
			r.Check(hasName && hasCause, key, at.Pos(), "the recorded error is formatted (fmt.Errorf) from arguments that include the file name and the underlying error (name:%v cause:%v)", hasName, hasCause)
			continue
		}
		// unwrapped: must come from a call that was given the path, or from a stream write
		var src []ssa.CallInstruction
		for _, elem := range elems {
			src = append(src, rootErrorCalls(elem)...)
		}
		good := len(src) > 0
		for _, c := range src {
			givenPath := false
			// the output stage as a function of its own: every error it hands back must itself name the file
			// (formatted from the name as Run hands it over, and the cause) or come from a call given the path
			if h := an.StaticCallee(c); h != nil && an.InModule(h) && h.Blocks != nil && an.FuncPkgPath(h) == an.FuncPkgPath(f) && stageErrorsNameTheFile(r, m, h) {
				givenPath = true
			}
			for _, a := range an.CallArgs(c) {
				if a == m.filename || strings.HasSuffix(an.Path(a), ".Provided") || strings.HasSuffix(an.Path(a), ".Absolute") {
					givenPath = true
				}
			}
			if _, isW := isStdoutWrite(c); isW {
				givenPath = true // a failing output stream is not a per-file failure; it has no path to name
			}
			if hc, isCall := c.(*ssa.Call); isCall && echoHelperWrite(m, hc) != nil {
				givenPath = true // the helper that echoes an unmatched file returns the stream's error only
			}
			if !givenPath {
				good = false
			}
		}
		r.Check(good, key, at.Pos(), "an error recorded unwrapped comes from a call that was given the file's path (os errors name it) or from the output stream")
	}
	r.Count("errors recorded in the file loop", n)
	r.Min("errors recorded in the file loop", 4)
	// patch loading errors are wrapped with the patch path
	if lp := fn(r, mainP, "loadPatches"); lp != nil {
		for _, ret := range an.Returns(lp) {
			ev := ret.Results[len(ret.Results)-1]
			if an.IsNilConst(ev) {
				continue
			}
			c, ok := ev.(*ssa.Call)
			good := ok && an.IsCallTo(c, "fmt.Errorf")
			if good {
				hasCause := false
				for v := range an.BackSlice(c.Call.Args[1], an.SliceOpts{ThroughMemory: true}) {
					if an.IsErrorType(v.Type()) {
						hasCause = true
					}
				}
				good = hasCause
			}
			r.Check(good, short(lp)+"|wrapped|"+errSourceOfAppend(ev), ret.Pos(), "loadPatches wraps the loading error with its source (stdin / patch path / patches file) and keeps the cause")
		}
	}
	if ff := fn(r, mainP, "findFiles"); ff != nil {
		for _, c := range an.CallsTo(ff, "fmt.Errorf") {
			call := c.(*ssa.Call)
			hasCause, hasPat := false, false
			for v := range an.BackSlice(call.Call.Args[1], an.SliceOpts{ThroughMemory: true}) {
				if ex, ok := v.(*ssa.Extract); ok && an.IsErrorType(ex.Type()) {
					if src, ok := ex.Tuple.(*ssa.Call); ok && an.StaticCallee(src) == r.P.Func(mainP, "findGoFiles") {
						hasCause = true
					}
				}
				if u, ok := v.(*ssa.UnOp); ok && an.Path(u.X) == "patterns[]" {
					hasPat = true
				}
			}
			r.Check(hasCause && hasPat, short(ff)+"|enumeration-error", c.Pos(), "the enumeration error names the pattern and wraps the error findGoFiles just returned (pattern:%v cause:%v)", hasPat, hasCause)
		}
	}
}

func errSourceOfRecord(rec errRecord) string {
	var parts []string
	for _, v := range rec.vals {
		if an.IsErrorType(v.Type()) || strings.HasPrefix(an.ShortType(v.Type()), "[]") {
			parts = append(parts, errSourceOfAppend(v))
		}
	}
	if len(parts) == 0 && len(rec.vals) > 0 {
		return errSourceOfAppend(rec.vals[len(rec.vals)-1])
	}
	return strings.Join(parts, "+")
}

func errSourceOfAppend(v ssa.Value) string {
	cs := rootErrorCalls(v)
	var names []string
	for _, c := range cs {
		names = append(names, an.TrimModule(an.CalleeName(c)))
	}
	if len(names) == 0 {
		return v.Name()
	}
	return strings.Join(names, "+")
}

// rootErrorCalls returns the calls whose error results flow into v.
func rootErrorCalls(v ssa.Value) []ssa.CallInstruction {
	var out []ssa.CallInstruction
	seen := map[ssa.Value]bool{}
	for x := range an.BackSlice(v, an.SliceOpts{ThroughMemory: true}) {
		if !an.IsErrorType(x.Type()) || seen[x] {
			continue
		}
		seen[x] = true
		switch e := x.(type) {
		case *ssa.Extract:
			if c, ok := e.Tuple.(*ssa.Call); ok {
				out = append(out, c)
			}
		case *ssa.Call:
			if !an.IsCallTo(e, "fmt.Errorf") {
				out = append(out, e)
			}
		}
	}
	return out
}

// closureBindingOf returns the value bound to free variable i of g where f
// creates the closure.
func closureBindingOf(f, g *ssa.Function, i int) ssa.Value {
	for _, b := range f.Blocks {
		for _, in := range b.Instrs {
			if mc, ok := in.(*ssa.MakeClosure); ok && mc.Fn == ssa.Value(g) && i < len(mc.Bindings) {
				return mc.Bindings[i]
			}
		}
	}
	return nil
}

// stageErrorsNameTheFile: h is a function of package main called from Run's
// file loop (the output stage). It reports whether every non-nil error h
// returns is either formatted with fmt.Errorf from arguments that include the
// file's name (as seen from Run) and a cause, or is the unwrapped error of a
// call that was given the file's path, or of a write to the output stream.
func stageErrorsNameTheFile(r *an.Run, m *runModel, h *ssa.Function) bool {
	isSink := false
	for _, sk := range sinksOfRun(r, m) {
		if sk.host == h {
			isSink = true
		}
	}
	if !isSink {
		return false
	}
	isName := func(v ssa.Value) bool {
		if lv := liftIn(m.run, v); lv != nil && sameFileValue(lv, m.filename) {
			return true
		}
		p := an.Path(v)
		return strings.HasSuffix(p, ".Provided") || strings.HasSuffix(p, ".Absolute")
	}
	n := 0
	for _, ret := range an.Returns(h) {
		ev := ret.Results[len(ret.Results)-1]
		for _, leaf := range phiLeaves(ev) {
			if an.IsNilConst(leaf) {
				continue
			}
			n++
			if c, ok := leaf.(*ssa.Call); ok && an.IsCallTo(c, "fmt.Errorf") {
				hasName, hasCause := false, false
				for v := range an.BackSlice(c.Call.Args[1], an.SliceOpts{ThroughMemory: true}) {
					if isName(v) {
						hasName = true
					}
					if an.IsErrorType(v.Type()) {
						hasCause = true
					}
				}
				if !hasName || !hasCause {
					return false
				}
				continue
			}
			src := rootErrorCalls(leaf)
			if len(src) == 0 {
				return false
			}
			for _, c := range src {
				ok := false
				for _, a := range an.CallArgs(c) {
					if isName(a) {
						ok = true
					}
				}
				if _, isW := isStdoutWrite(c); isW {
					ok = true
				}
				if !ok {
					return false
				}
			}
		}
	}
	return n > 0
}

// runnerNeverCopied (part of C16-R5): the patch runner collects the "could not
// update" errors of all files in a slice field, and Run reports what that field
// holds at the end. Errors appended through a copy of the runner (a value
// receiver, `w := *runner` per worker) stay in the copy: the run would exit 0
// with nothing on stderr. So in package main the runner struct is never loaded
// as a value, and none of its methods has a value receiver.
func runnerNeverCopied(r *an.Run, rule string) {
	r.Rule(rule)
	rt := runnerType(r)
	if rt == nil {
		return
	}
	n := 0
	for _, f := range r.P.PkgFuncs(mainP) {
		if recv := f.Signature.Recv(); recv != nil && types.Identical(recv.Type(), rt) {
			n++
			r.Fail(short(f)+"|value-receiver", f.Pos(), "%s has a value receiver of the patch runner type: what it records is recorded in a copy and never reported", short(f))
		}
		for _, b := range f.Blocks {
			for _, in := range b.Instrs {
				v, ok := in.(ssa.Value)
				if !ok || v.Type() == nil {
					continue
				}
				if _, isTuple := v.Type().(*types.Tuple); isTuple || !isRunnerType(r, v.Type()) {
					continue
				}
				n++
				if ld, isLoad := in.(*ssa.UnOp); isLoad && ld.Op == token.MUL && types.Identical(ld.Type(), rt) {
					r.Fail(short(f)+"|runner-copied", ld.Pos(), "%s copies the patch runner by value: errors that the copy records for a file (\"could not update\") are not in the list Run reports at the end — the run exits 0 with a file silently left alone", short(f))
				}
			}
		}
	}
	r.Count("uses of the patch runner", n)
	r.Min("uses of the patch runner", 1)
	if len(r.Failing()) == 0 {
		r.Pass("runner-never-copied", 0, "%d values of the patch runner type in package main: all are pointers to the one runner (no value receiver, no struct copy)", n)
	}
}

// pathTakesAnErrorEdge: somewhere on the path a branch on `x != nil` for an
// error x other than not is taken on its non-nil side.
func pathTakesAnErrorEdge(p an.DPath, not ssa.Value) bool {
	for i, b := range p.Blocks {
		if i+1 >= len(p.Blocks) {
			break
		}
		iff, ok := b.Instrs[len(b.Instrs)-1].(*ssa.If)
		if !ok {
			continue
		}
		cmp, ok := iff.Cond.(*ssa.BinOp)
		if !ok || (cmp.Op != token.EQL && cmp.Op != token.NEQ) {
			continue
		}
		x := cmp.X
		if an.IsNilConst(x) {
			x = cmp.Y
		} else if !an.IsNilConst(cmp.Y) {
			continue
		}
		if x == not || !an.IsErrorType(x.Type()) {
			continue
		}
		nonNilSucc := 0
		if cmp.Op == token.EQL {
			nonNilSucc = 1
		}
		if b.Succs[nonNilSucc] == p.Blocks[i+1] {
			return true
		}
	}
	return false
}

// isCmdStderr: v is the Stderr field of the command (cmd.Stderr), whether the
// command is held in a local or behind a pointer (cmd := &mainCmd{…}).
func isCmdStderr(v ssa.Value) bool {
	if an.Path(v) == "cmd.Stderr" {
		return true
	}
	ld, ok := v.(*ssa.UnOp)
	if !ok || ld.Op != token.MUL {
		return false
	}
	fa, ok := ld.X.(*ssa.FieldAddr)
	if !ok || fieldNameOf(fa) != "Stderr" {
		return false
	}
	n, ok := derefType(fa.X.Type()).(*types.Named)
	return ok && n.Obj().Name() == "mainCmd"
}
