package rules

// Rules written after the second round of independently seeded changes
// (DESIGN.md §7). Each is phrased over values and dependences, not over the
// text of the seed that motivated it.

import (
	"go/token"
	"go/types"
	"sort"
	"strings"

	"golang.org/x/tools/go/ssa"

	"gpcheck/internal/an"
)

// ---------------------------------------------------------------------------
// numeric conditions of matchers
//
// A matcher decides on lengths only by comparing actual lengths, positions in
// the candidate list and constants: `len(want) > len(got)-idx`,
// `len(m.Items) != got.Len()`, `idx == len(got)`, `i+len(want) <= len(got)`.
// A number that was computed when the patch was compiled and stored in the
// matcher (a "minimum length", a count, a threshold) cannot be related to the
// pattern's sections by looking at the matcher alone — and an off-by-k there
// makes a '...' unable to stand for the empty run (seed C04-4).  The rule
// audits the atoms of every integer comparison in the verdict functions of the
// engine.

func isIntType(t types.Type) bool {
	b, ok := t.Underlying().(*types.Basic)
	return ok && b.Info()&types.IsInteger != 0
}

// numericAtomKind classifies one atom of a linearised integer expression.
func numericAtomKind(v ssa.Value, f *ssa.Function) string {
	switch x := v.(type) {
	case *ssa.Const:
		return "const"
	case *ssa.Parameter:
		return "param"
	case *ssa.Phi:
		return "counter"
	case *ssa.Call:
		switch {
		case an.IsCallTo(x, "builtin:len"), an.IsCallTo(x, "builtin:cap"):
			return "len"
		case an.IsCallTo(x, "(reflect.Value).Len"), an.IsCallTo(x, "(reflect.Value).NumField"), an.IsCallTo(x, "(reflect.Value).Kind"):
			return "len"
		case x.Call.IsInvoke() && (x.Call.Method.Name() == "NumField" || x.Call.Method.Name() == "Len" || x.Call.Method.Name() == "Kind"):
			return "len"
		case an.IsCallTo(x, "(go/token.Pos).IsValid"):
			return "const"
		}
		if isPosType(x.Type()) {
			return "pos"
		}
		return "call:" + an.TrimModule(an.CalleeName(x))
	case *ssa.Extract:
		if isPosType(x.Type()) {
			return "pos"
		}
		return "extract"
	case *ssa.UnOp:
		if x.Op == token.MUL {
			if isPosType(x.Type()) {
				return "pos"
			}
			if fa, ok := x.X.(*ssa.FieldAddr); ok {
				return "field:" + fieldNameOf(fa)
			}
			if _, ok := x.X.(*ssa.Alloc); ok {
				return "local"
			}
			if _, ok := x.X.(*ssa.IndexAddr); ok {
				return "elem"
			}
			if _, ok := x.X.(*ssa.FreeVar); ok {
				return "local"
			}
		}
	case *ssa.Field:
		if isPosType(x.Type()) {
			return "pos"
		}
		return "field:" + fieldNameOfStruct(x.X.Type(), x.Field)
	case *ssa.Lookup:
		return "lookup"
	case *ssa.BinOp:
		return "arith:" + x.Op.String()
	case *ssa.Convert:
		return numericAtomKind(x.X, f)
	}
	return "other:" + v.String()
}

func isPosType(t types.Type) bool {
	return an.IsNamed(t, "go/token", "Pos")
}

// linAtoms collects the leaf values of an integer expression through + and -.
func linAtoms(v ssa.Value, out *[]ssa.Value, depth int) {
	if depth > 12 {
		*out = append(*out, v)
		return
	}
	switch x := v.(type) {
	case *ssa.BinOp:
		if x.Op == token.ADD || x.Op == token.SUB {
			linAtoms(x.X, out, depth+1)
			linAtoms(x.Y, out, depth+1)
			return
		}
	case *ssa.Convert:
		linAtoms(x.X, out, depth+1)
		return
	case *ssa.ChangeType:
		linAtoms(x.X, out, depth+1)
		return
	}
	*out = append(*out, v)
}

// matcherNumericConditions audits the integer comparisons of every
// verdict-returning function of the engine.
func matcherNumericConditions(r *an.Run, rule string) {
	r.Rule(rule)
	n := 0
	for _, f := range r.P.PkgFuncs(engine) {
		if _, ok := an.VerdictIndex(f.Signature); !ok {
			continue
		}
		for _, g := range append([]*ssa.Function{f}, f.AnonFuncs...) {
			for _, b := range g.Blocks {
				for _, in := range b.Instrs {
					cmp, ok := in.(*ssa.BinOp)
					if !ok {
						continue
					}
					switch cmp.Op {
					case token.LSS, token.LEQ, token.GTR, token.GEQ, token.EQL, token.NEQ:
					default:
						continue
					}
					if !isIntType(cmp.X.Type()) || !isIntType(cmp.Y.Type()) {
						continue
					}
					if isPosType(cmp.X.Type()) || isPosType(cmp.Y.Type()) {
						continue // positions: regions and validity, decided in C01-R6 / C17
					}
					if an.IsNamed(cmp.X.Type(), "reflect", "Kind") || an.IsNamed(cmp.Y.Type(), "reflect", "Kind") {
						continue
					}
					if isMetavarKind(cmp.X.Type()) || isMetavarKind(cmp.Y.Type()) {
						continue // metavariable kinds: C02-R1
					}
					n++
					var atoms []ssa.Value
					linAtoms(cmp.X, &atoms, 0)
					linAtoms(cmp.Y, &atoms, 0)
					kinds := map[string]bool{}
					bad := ""
					for _, a := range atoms {
						k := numericAtomKind(a, g)
						kinds[k] = true
						switch {
						case k == "const", k == "param", k == "counter", k == "len", k == "local", k == "extract":
						default:
							bad = k
						}
					}
					key := short(f) + "|" + cmp.Op.String() + "|" + joinSorted(kinds)
					if bad == "" {
						r.Pass(key, cmp.Pos(), "%s compares only actual lengths, positions in the candidate, counters and constants (%s)", short(g), joinSorted(kinds))
					} else {
						r.Fail(key, cmp.Pos(), "%s decides on a number it did not measure on the candidate or the pattern list (%s in %s): a length bound precomputed at compile time cannot be related to the sections of the pattern here — a '...' must be able to stand for the empty run and for any longer one", short(g), bad, cmp.String())
					}
				}
			}
		}
	}
	r.Count("integer comparisons in verdict functions", n)
	r.Min("integer comparisons in verdict functions", 6)
}

func isMetavarKind(t types.Type) bool {
	n, ok := t.(*types.Named)
	return ok && n.Obj().Name() == "MetavarType"
}

// ---------------------------------------------------------------------------
// C04: the '-' elision a '+' elision reproduces is chosen by position

func c04AssociationByPosition(r *an.Run) {
	r.Rule("R12-association-chosen-by-position")
	f := fn(r, engine, "connectDots")
	if f == nil {
		return
	}
	var conns *ssa.Parameter
	for _, p := range f.Params {
		if _, ok := p.Type().Underlying().(*types.Map); ok {
			conns = p
		}
	}
	if conns == nil {
		r.Undecided(short(f)+"|map-param", f.Pos(), "connectDots has no association-map parameter")
		return
	}
	isPositional := func(v ssa.Value) bool {
		for x := range an.BackSlice(v, an.SliceOpts{ThroughCalls: true, ThroughMemory: true}) {
			if x.Type() != nil && an.IsNamed(x.Type(), "go/token", "Position") {
				return true
			}
		}
		return false
	}
	n := 0
	for _, g := range helperGroup(f, 2) {
		for _, b := range g.Blocks {
			for _, in := range b.Instrs {
				mu, ok := in.(*ssa.MapUpdate)
				if !ok || !isPosType(mu.Value.Type()) || !isPosType(mu.Key.Type()) {
					continue
				}
				if g == f && an.Root(mu.Map) != ssa.Value(conns) && mu.Map != ssa.Value(conns) {
					continue
				}
				n++
				byData := isPositional(mu.Value)
				byCtrl := false
				for _, e := range r.P.AllCtrlDeps(mu.Block()) {
					if iff, ok := e.Block.Instrs[len(e.Block.Instrs)-1].(*ssa.If); ok && isPositional(iff.Cond) {
						byCtrl = true
					}
				}
				r.Check(byData || byCtrl, short(g)+"|association", mu.Pos(), "the '-' elision associated with a '+' elision is selected by comparing their positions in the patch (data dependence: %v, control dependence: %v): pairing by count or by order alone gives a context-line '...' the elements of another one", byData, byCtrl)
			}
		}
	}
	r.Count("association sites in connectDots", n)
	r.Min("association sites in connectDots", 1)
}

var _ = sort.Strings
var _ = strings.HasPrefix

// ---------------------------------------------------------------------------
// reflect origins

// reflectOrigins follows a reflect.Value backwards through the projections
// that stay inside the same Go value — Elem, Field, Index, Addr, Slice,
// Convert — through phis, through loads of local cells / local slices (every
// value stored into them) and through same-package helpers that return one of
// their parameters' projections, and returns the leaves: parameters, calls
// that create values (reflect.New, reflect.ValueOf, …), loads of fields.
func reflectOrigins(v ssa.Value) []ssa.Value {
	seen := map[ssa.Value]bool{}
	var out []ssa.Value
	var visit func(ssa.Value, int)
	visit = func(x ssa.Value, depth int) {
		if x == nil || seen[x] {
			return
		}
		seen[x] = true
		if depth > 40 {
			out = append(out, x)
			return
		}
		switch t := x.(type) {
		case *ssa.Phi:
			for _, e := range t.Edges {
				visit(e, depth+1)
			}
			return
		case *ssa.Field:
			// a field of a record a private helper returned (or of a local record): what was put there
			if leaves := fieldLeavesOfValue(t.X, t.Field, t.Type(), t.Parent(), 0); len(leaves) > 0 {
				n := 0
				for _, l := range leaves {
					if _, isConst := l.(*ssa.Const); isConst {
						continue // the zero value of a field that is assigned later
					}
					n++
					visit(l, depth+1)
				}
				if n > 0 {
					return
				}
			}
		case *ssa.Parameter:
			// a parameter of a private helper the walk entered through a returned record: the argument bound to it
			if t.Parent() != v.Parent() && v.Parent() != nil {
				if a := an.Actual(t); a != nil {
					visit(a, depth+1)
					return
				}
			}
		case *ssa.Call:
			if an.IsCallTo(t, rvElem, rvField, rvIndex, "(reflect.Value).Addr", "(reflect.Value).Slice", "(reflect.Value).Slice3", "(reflect.Value).Convert", "reflect.Indirect") {
				visit(an.CallArgs(t)[0], depth+1)
				return
			}
		case *ssa.UnOp:
			if t.Op == token.MUL {
				switch a := t.X.(type) {
				case *ssa.Alloc:
					n := 0
					for _, ref := range *a.Referrers() {
						if st, ok := ref.(*ssa.Store); ok && st.Addr == ssa.Value(a) {
							visit(st.Val, depth+1)
							n++
						}
					}
					if n > 0 {
						return
					}
				case *ssa.FieldAddr:
					// field of a local struct variable: everything stored into that field
					if al, ok := a.X.(*ssa.Alloc); ok {
						// (also through a record a private helper returned and that was assigned to the local whole)
						if leaves := fieldLeavesOfLocal(al, a.Field, t.Type(), 0); len(leaves) > 0 {
							n := 0
							for _, l := range leaves {
								if _, isConst := l.(*ssa.Const); isConst {
									continue
								}
								n++
								visit(l, depth+1)
							}
							if n > 0 {
								return
							}
						}
						if vals := localFieldStores(al, a.Field, map[*ssa.Alloc]bool{}); len(vals) > 0 {
							for _, sv := range vals {
								visit(sv, depth+1)
							}
							return
						}
					}
				case *ssa.IndexAddr:
					// element of a parameter slice is a projection of that parameter
					if p, ok := an.Root(a.X).(*ssa.Parameter); ok {
						visit(p, depth+1)
						return
					}
					// element of a local slice: everything stored into elements of that slice
					root := an.Root(a.X)
					if ms, ok := root.(*ssa.MakeSlice); ok {
						n := 0
						for _, b := range ms.Parent().Blocks {
							for _, in := range b.Instrs {
								if st, ok := in.(*ssa.Store); ok {
									if ia, ok := st.Addr.(*ssa.IndexAddr); ok && an.Root(ia.X) == root {
										visit(st.Val, depth+1)
										n++
									}
								}
							}
						}
						if n > 0 {
							return
						}
					}
				}
			}
		}
		out = append(out, x)
	}
	visit(v, 0)
	return out
}

// localFieldStores returns the values stored into field k of the local struct
// variable al: direct stores to &al.k, and field k of every local struct
// value that is copied into al as a whole.
func localFieldStores(al *ssa.Alloc, k int, seen map[*ssa.Alloc]bool) []ssa.Value {
	if seen[al] || al.Referrers() == nil {
		return nil
	}
	seen[al] = true
	var out []ssa.Value
	for _, ref := range *al.Referrers() {
		switch x := ref.(type) {
		case *ssa.FieldAddr:
			if x.Field != k || x.Referrers() == nil {
				continue
			}
			for _, u := range *x.Referrers() {
				if st, ok := u.(*ssa.Store); ok && st.Addr == ssa.Value(x) {
					out = append(out, st.Val)
				}
			}
		case *ssa.Store:
			if x.Addr != ssa.Value(al) {
				continue
			}
			if ld, ok := x.Val.(*ssa.UnOp); ok && ld.Op == token.MUL {
				if a2, ok := ld.X.(*ssa.Alloc); ok {
					out = append(out, localFieldStores(a2, k, seen)...)
					continue
				}
			}
			out = append(out, x.Val)
		}
	}
	return out
}

func isReflectValue(t types.Type) bool { return an.IsNamed(t, "reflect", "Value") }

// candidateHandedDown: a matcher that receives a candidate hands its
// sub-matchers projections of that very candidate — got itself, got.Elem(),
// got.Field(i), got.Index(i), elements of got collected into a slice — and
// nothing else. A candidate that was rebuilt (reflect.ValueOf of something dug
// out of it, parentheses looked through, a conversion) still yields a verdict,
// but what a metavariable below captures is then no longer the code that
// stands at the matched position, and its copies in the '+' side differ from
// it (seed C03-5).
func candidateHandedDown(r *an.Run, rule string) {
	r.Rule(rule)
	n := 0
	for _, f := range r.P.PkgFuncs(engine) {
		if _, ok := an.VerdictIndex(f.Signature); !ok {
			continue
		}
		var own []ssa.Value
		for _, p := range f.Params {
			if isReflectValue(p.Type()) {
				own = append(own, p)
			}
			if sl, ok := p.Type().Underlying().(*types.Slice); ok && isReflectValue(sl.Elem()) {
				own = append(own, p)
			}
		}
		if len(own) == 0 {
			continue
		}
		for _, vc := range an.VerdictCalls(f) {
			// matchEach(ms, accessor, d, r): the candidates handed down are what the accessor yields —
			// elements of its base
			if _, atIdx, isEach := asMatchEachHelper(an.StaticCallee(vc.Call)); isEach && atIdx < len(vc.Call.Call.Args) {
				n++
				bad := ""
				if acc, okAcc := accessorOf(vc.Call.Call.Args[atIdx]); okAcc && acc.base != nil {
					for _, o := range candidateOrigins(acc.base) {
						okOrigin := false
						for _, p := range own {
							if o == p {
								okOrigin = true
							}
						}
						if !okOrigin {
							bad = an.Describe(o)
						}
					}
				} else {
					bad = "a function value that is not a plain element accessor"
				}
				key := short(f) + "|" + an.TrimModule(an.CalleeName(vc.Call))
				r.Check(bad == "", key, vc.Call.Pos(), "the candidate handed to the sub-matcher is a projection (Elem / Field / Index / element) of this matcher's own candidate%s", ifNonEmpty(bad, " — found a value that is not: "+bad+"; what a metavariable below captures would not be the code at the matched position"))
				continue
			}
			for ai, a := range an.CallArgs(vc.Call) {
				isList := false
				if sl, ok := a.Type().Underlying().(*types.Slice); ok && isReflectValue(sl.Elem()) {
					isList = true
				}
				if !isReflectValue(a.Type()) && !isList {
					continue
				}
				if ai == 0 && !vc.Call.Call.IsInvoke() && vc.Call.Call.Signature().Recv() != nil {
					continue
				}
				n++
				bad := ""
				for _, o := range candidateOrigins(a) {
					okOrigin := false
					for _, p := range own {
						if o == p {
							okOrigin = true
						}
					}
					if !okOrigin {
						bad = an.Describe(o)
					}
				}
				key := short(f) + "|" + an.TrimModule(an.CalleeName(vc.Call))
				r.Check(bad == "", key, vc.Call.Pos(), "the candidate handed to the sub-matcher is a projection (Elem / Field / Index / element) of this matcher's own candidate%s", ifNonEmpty(bad, " — found a value that is not: "+bad+"; what a metavariable below captures would not be the code at the matched position"))
			}
		}
	}
	r.Count("candidates handed to sub-matchers", n)
	r.Min("candidates handed to sub-matchers", 8)
}

// candidateOrigins is reflectOrigins extended to slices of reflect values
// (the list handed to matchPrefix / matchSections).
func candidateOrigins(v ssa.Value) []ssa.Value {
	if sl, ok := v.Type().Underlying().(*types.Slice); ok && isReflectValue(sl.Elem()) {
		root := an.Root(v)
		switch x := root.(type) {
		case *ssa.Parameter:
			return []ssa.Value{x}
		case *ssa.Call:
			// collect(n, got.Index): the list of the candidate's elements
			if _, atIdx, isMap := asMapHelper(an.StaticCallee(x)); isMap && atIdx < len(x.Call.Args) {
				if acc, okAcc := accessorOf(x.Call.Args[atIdx]); okAcc && acc.base != nil {
					return reflectOrigins(acc.base)
				}
			}
			// sliceItems(got): a helper of the module that is handed one reflected list and returns the list of
			// its elements (everything it returns originates in that parameter)
			if h := an.StaticCallee(x); h != nil && an.InModule(h) && h.Blocks != nil && len(h.Params) == len(x.Call.Args) {
				pi := -1
				for i, prm := range h.Params {
					if isReflectValue(prm.Type()) {
						if pi >= 0 {
							pi = -2
						} else {
							pi = i
						}
					}
				}
				if pi >= 0 {
					all := len(an.Returns(h)) > 0
					for _, ret := range an.Returns(h) {
						if len(ret.Results) != 1 {
							all = false
							continue
						}
						for _, o := range candidateOrigins(ret.Results[0]) {
							if o != ssa.Value(h.Params[pi]) {
								all = false
							}
						}
					}
					if all {
						return reflectOrigins(x.Call.Args[pi])
					}
				}
			}
		case *ssa.MakeSlice:
			var out []ssa.Value
			for _, b := range x.Parent().Blocks {
				for _, in := range b.Instrs {
					if st, ok := in.(*ssa.Store); ok {
						if ia, ok := st.Addr.(*ssa.IndexAddr); ok && an.Root(ia.X) == root {
							out = append(out, reflectOrigins(st.Val)...)
						}
					}
				}
			}
			if len(out) > 0 {
				return out
			}
		}
		return []ssa.Value{root}
	}
	return reflectOrigins(v)
}

func ifNonEmpty(s, text string) string {
	if s == "" {
		return ""
	}
	return text
}

// sliceOrigins follows a slice value backwards through re-slicing, phis,
// append results (the result may alias its first argument), local cells and
// captured cells, and returns the leaves.
func sliceOrigins(v ssa.Value) []ssa.Value {
	seen := map[ssa.Value]bool{}
	var out []ssa.Value
	var visit func(ssa.Value, int)
	cellStores := func(al *ssa.Alloc, depth int) bool {
		n := 0
		var scan func(f *ssa.Function, cell ssa.Value)
		scan = func(f *ssa.Function, cell ssa.Value) {
			for _, b := range f.Blocks {
				for _, in := range b.Instrs {
					if st, ok := in.(*ssa.Store); ok && st.Addr == cell {
						visit(st.Val, depth+1)
						n++
					}
					if mc, ok := in.(*ssa.MakeClosure); ok {
						for i, bnd := range mc.Bindings {
							if bnd == cell {
								if g, ok := mc.Fn.(*ssa.Function); ok && i < len(g.FreeVars) {
									scan(g, g.FreeVars[i])
								}
							}
						}
					}
				}
			}
		}
		scan(al.Parent(), al)
		return n > 0
	}
	visit = func(x ssa.Value, depth int) {
		if x == nil || seen[x] {
			return
		}
		seen[x] = true
		if depth > 40 {
			out = append(out, x)
			return
		}
		switch t := x.(type) {
		case *ssa.Phi:
			for _, e := range t.Edges {
				visit(e, depth+1)
			}
			return
		case *ssa.Slice:
			if _, isSlice := t.X.Type().Underlying().(*types.Slice); isSlice {
				if t.Max == nil { // x[a:b:c] with c == b cannot be appended into; keep it simple: any 3-index slice is a fresh view
					visit(t.X, depth+1)
					return
				}
			}
		case *ssa.Call:
			if an.IsCallTo(t, "builtin:append") {
				visit(t.Call.Args[0], depth+1)
				return
			}
		case *ssa.UnOp:
			if t.Op == token.MUL {
				switch a := t.X.(type) {
				case *ssa.Alloc:
					if cellStores(a, depth) {
						return
					}
				case *ssa.FreeVar:
					// captured cell: the enclosing function's variable
					if f := a.Parent(); f != nil && f.Parent() != nil {
						if b := closureBinding(f, a); b != nil {
							if al, ok := b.(*ssa.Alloc); ok && cellStores(al, depth) {
								return
							}
						}
					}
				}
			}
		}
		out = append(out, x)
	}
	visit(v, 0)
	return out
}

// ---------------------------------------------------------------------------
// C08: the value of a failed call is not used

// failedResultNotUsed: when a call returns (value, error) and the error is
// tested, the pointer-like value result must not be consumed on the failure
// side: not dereferenced or passed on in the blocks only the failure edge
// reaches, and not merged (through a phi edge leaving those blocks) into a
// value that lives on — a loop-carried file, a named result. Go functions
// return nil values with their errors; a nil *ast.File that survives a failed
// Replace crashes go/printer later (seed C08-5).
func failedResultNotUsed(r *an.Run, rule string) {
	r.Rule(rule)
	n := 0
	for _, f := range r.P.ModuleFuncs() {
		rel := strings.TrimPrefix(strings.TrimPrefix(an.FuncPkgPath(f), an.Module), "/")
		if strings.HasPrefix(rel, "tools") {
			continue
		}
		for _, c := range an.Calls(f) {
			call, ok := c.(*ssa.Call)
			if !ok {
				continue
			}
			res := an.CallSig(c).Results()
			if res.Len() < 2 || !an.IsErrorType(res.At(res.Len()-1).Type()) {
				continue
			}
			// documented exception: a line read from a buffered reader comes WITH its error — the
			// unterminated last line is handed back together with io.EOF — and is a (possibly empty) slice or
			// string either way, never a pointer to dereference
			if an.IsCallTo(c, lineReaderCalls...) || an.IsCallTo(c, "(io.Reader).Read", "io.ReadFull", "io.ReadAtLeast") {
				continue
			}
			errs := an.ExtractOf(call, res.Len()-1)
			if len(errs) == 0 {
				continue
			}
			// failure edges: the edges taken when the error is non-nil
			var fail []an.CtrlEdge
			for _, e := range errs {
				for _, cse := range an.EqCases(f, func(v ssa.Value) bool { return v == ssa.Value(e) }) {
					if an.IsNilConst(cse.Key) {
						fail = append(fail, edgeTo(cse.If.Block(), cse.Else))
					}
				}
			}
			if len(fail) == 0 {
				continue
			}
			// blocks reachable only through a failure edge (until the call is executed again)
			all := an.ReachFromSuccs(call.Block(), func(b *ssa.BasicBlock, i int) bool { return b.Succs[i] == call.Block() })
			without := an.ReachFromSuccs(call.Block(), func(b *ssa.BasicBlock, i int) bool {
				return b.Succs[i] == call.Block() || skipEdges(fail)(b, i)
			})
			without[call.Block()] = true
			onlyFail := map[*ssa.BasicBlock]bool{}
			for b := range all {
				if !without[b] {
					onlyFail[b] = true
				}
			}
			for i := 0; i < res.Len()-1; i++ {
				if !an.IsPointerLike(res.At(i).Type()) {
					continue
				}
				if _, isIface := res.At(i).Type().Underlying().(*types.Interface); isIface && !strings.Contains(res.At(i).Type().String(), "ast.") {
					continue
				}
				for _, ex := range an.ExtractOf(call, i) {
					n++
					var bad ssa.Instruction
					why := ""
					if refs := ex.Referrers(); refs != nil {
						for _, u := range *refs {
							switch x := u.(type) {
							case *ssa.DebugRef:
								continue
							case *ssa.Phi:
								for ei, e := range x.Edges {
									if e == ssa.Value(ex) {
										pred := x.Block().Preds[ei]
										if onlyFail[pred] || isFailEdge(fail, pred, x.Block()) {
											if cu := unguardedConsumer(r.P, f, x); cu != nil {
												bad, why = cu, "is carried on from the failure branch (phi edge from block "+pred.String()+") and then consumed without a nil test"
											}
										}
									}
								}
							case *ssa.Return:
								if onlyFail[x.Block()] {
									// returning the (nil) value together with an error is harmless
									if len(x.Results) > 0 && an.IsErrorType(x.Results[len(x.Results)-1].Type()) && !an.IsNilConst(x.Results[len(x.Results)-1]) {
										continue
									}
									bad, why = u, "is returned from the failure branch without an error"
								}
							default:
								if onlyFail[u.Block()] {
									bad, why = u, "is used in the failure branch"
								}
							}
						}
					}
					key := short(f) + "|" + an.TrimModule(an.CalleeName(c)) + "#" + string(rune('0'+i))
					if bad != nil {
						r.Fail(key, bad.Pos(), "in %s the %s result of %s %s: after a failure that value is nil (or meaningless), and whoever consumes it later crashes instead of reporting the error", short(f), an.ShortType(res.At(i).Type()), an.TrimModule(an.CalleeName(c)), why)
					} else {
						r.Pass(key, call.Pos(), "the %s result of %s is consumed only where the call succeeded", an.ShortType(res.At(i).Type()), an.TrimModule(an.CalleeName(c)))
					}
				}
			}
		}
	}
	r.Count("(value, error) calls with a tested error", n)
	r.Min("(value, error) calls with a tested error", 10)
}

func isFailEdge(fail []an.CtrlEdge, from, to *ssa.BasicBlock) bool {
	for _, e := range fail {
		if e.Block == from && e.Succ >= 0 && e.Succ < len(from.Succs) && from.Succs[e.Succ] == to {
			return true
		}
	}
	return false
}

// ---------------------------------------------------------------------------
// C08: slice bounds given by two variables are ordered

// sliceBoundsByConstruction: two-variable slice expressions whose order is
// established by an invariant the analyser does not derive; one line of reason
// each (keyed by function and sliced value).
var sliceBoundsByConstruction = map[string]string{
	"internal/engine|c.metavars":       "seen was len(c.metavars) at an earlier point and c.metavars only grows (append-to-self)",
	"internal/parse/section|p.content": "startOffset is set from offset at the start of the token and offset only moves forward (C08-R1 offset-forward)",
	"internal/pgo/augment|src":         "augmentations are sorted by Start before the loop and do not overlap; lastOffset is the End of the previous one",
}

func c08SliceBounds(r *an.Run) {
	r.Rule("R10-two-variable-slice-bounds-are-ordered")
	n := 0
	for _, f := range r.P.ModuleFuncs() {
		rel := strings.TrimPrefix(strings.TrimPrefix(an.FuncPkgPath(f), an.Module), "/")
		if strings.HasPrefix(rel, "tools") {
			continue
		}
		for _, b := range f.Blocks {
			for _, in := range b.Instrs {
				s, ok := in.(*ssa.Slice)
				if !ok || s.Low == nil || s.High == nil {
					continue
				}
				if _, c := an.ConstInt(s.Low); c {
					continue
				}
				if _, c := an.ConstInt(s.High); c {
					continue
				}
				n++
				base := an.Path(s.X)
				if base == "" {
					base = an.Describe(s.X)
				}
				key := short(f) + "|" + base
				if why := lowLeHigh(f, s); why != "" {
					r.Pass(key, s.Pos(), "low <= high holds at %s[%s:%s]: %s", base, an.Describe(s.Low), an.Describe(s.High), why)
					continue
				}
				if why, ok := sliceBoundsByConstruction[rel+"|"+base]; ok {
					r.Pass(key+"|audited", s.Pos(), "audited by construction: %s", why)
					continue
				}
				// the sliced value is a parameter that stands for an audited list at every call site
				if p, isParam := s.X.(*ssa.Parameter); isParam {
					lifted, all := "", true
					callers := r.P.CallersOf(f)
					for i, q := range f.Params {
						if q != p {
							continue
						}
						for _, c := range callers {
							if c.Common().StaticCallee() != f || i >= len(an.CallArgs(c)) {
								all = false
								continue
							}
							ap := an.Path(an.CallArgs(c)[i])
							if ap == "" || lifted != "" && ap != lifted {
								all = false
							}
							lifted = ap
						}
					}
					if why, ok := sliceBoundsByConstruction[rel+"|"+lifted]; ok && all && len(callers) > 0 {
						r.Pass(key+"|audited", s.Pos(), "audited by construction (the parameter is %s at every call site): %s", lifted, why)
						continue
					}
				}
				r.Fail(key, s.Pos(), "%s slices %s[%s:%s] with two computed bounds and nothing on the way establishes low <= high (no loop that counts high up from low, no dominating comparison): for some input low > high and gopatch panics with 'slice bounds out of range'", short(f), base, an.Describe(s.Low), an.Describe(s.High))
			}
		}
	}
	r.Count("two-variable slice expressions", n)
	r.Min("two-variable slice expressions", 3)
}

// lowLeHigh tries to establish s.Low <= s.High: (a) High is the counter of a
// loop that starts at Low and steps by +1; (b) High - Low is a non-negative
// constant or a length; (c) every path to the slice passes the true edge of a
// comparison that states it.
func lowLeHigh(f *ssa.Function, s *ssa.Slice) string {
	d := an.Lin(s.High).Sub(an.Lin(s.Low))
	if len(d.Terms) == 0 && d.K >= 0 {
		return "high - low is the constant " + d.String()
	}
	nonNegLen := len(d.Terms) > 0 && d.K >= 0
	for k, c := range d.Terms {
		if c < 0 || !(strings.HasPrefix(k, "len(") || strings.HasPrefix(k, "Len(")) {
			nonNegLen = false
		}
	}
	if nonNegLen {
		return "high - low is a sum of lengths: " + d.String()
	}
	// (a) loop counter: high starts at (or above) low and never decreases
	if phi, ok := s.High.(*ssa.Phi); ok {
		if l := an.LoopOf(f, phi.Block()); l != nil && l.Header == phi.Block() {
			if init, latch, ok := an.PhiInitLatch(phi, l); ok {
				lowInvariant := true
				if in, isInstr := s.Low.(ssa.Instruction); isInstr && l.Blocks[in.Block()] {
					lowInvariant = false
				}
				d0 := an.Lin(init).Sub(an.Lin(s.Low))
				step := an.Lin(latch).Sub(an.Lin(phi))
				if lowInvariant && len(d0.Terms) == 0 && d0.K >= 0 && len(step.Terms) == 0 && step.K >= 0 {
					return "high is the counter of a loop that starts at low and only counts up"
				}
			}
		}
	}
	// (c) dominating comparison
	var edges []an.CtrlEdge
	for _, b := range f.Blocks {
		iff, ok := b.Instrs[len(b.Instrs)-1].(*ssa.If)
		if !ok {
			continue
		}
		cond, neg := an.StripNot(iff.Cond)
		cmp, ok := cond.(*ssa.BinOp)
		if !ok || !isIntType(cmp.X.Type()) {
			continue
		}
		// normalise to  e >= 0 / e > 0 on the true edge
		var e an.Affine
		strict := false
		switch cmp.Op {
		case token.LEQ:
			e = an.Lin(cmp.Y).Sub(an.Lin(cmp.X))
		case token.LSS:
			e, strict = an.Lin(cmp.Y).Sub(an.Lin(cmp.X)), true
		case token.GEQ:
			e = an.Lin(cmp.X).Sub(an.Lin(cmp.Y))
		case token.GTR:
			e, strict = an.Lin(cmp.X).Sub(an.Lin(cmp.Y)), true
		default:
			continue
		}
		// true edge states e >= 0 (or > 0); false edge states -e > 0 (or >= 0)
		states := func(e an.Affine) bool {
			dd := d.Sub(e) // d = e + const, const >= 0  =>  d >= 0
			return len(dd.Terms) == 0 && dd.K >= 0
		}
		trueSucc, falseSucc := 0, 1
		if neg {
			trueSucc, falseSucc = 1, 0
		}
		if states(e) {
			edges = append(edges, an.CtrlEdge{Block: b, Succ: trueSucc})
		}
		ne := an.Affine{Terms: map[string]int64{}, K: -e.K}
		for k, c := range e.Terms {
			ne.Terms[k] = -c
		}
		if strict {
			// !(e > 0)  =>  -e >= 0
			if states(ne) {
				edges = append(edges, an.CtrlEdge{Block: b, Succ: falseSucc})
			}
		} else {
			// !(e >= 0) =>  -e > 0  =>  -e - 1 >= 0
			ne.K--
			if states(ne) {
				edges = append(edges, an.CtrlEdge{Block: b, Succ: falseSucc})
			}
		}
	}
	if len(edges) > 0 {
		// the slice is unreachable once the stating edges are removed
		if unreachableWithout(s.Block(), edges) {
			return "every path passes a comparison that states it"
		}
	}
	return ""
}

// unguardedConsumer: phi merges a possibly-nil value. It returns a use of the
// merged value (through further phis) that consumes it — a call argument, a
// dereference, a store, a return — and is not behind the non-nil edge of a nil
// test of the value it uses; nil when every consumer is guarded.
func unguardedConsumer(p *an.Prog, f *ssa.Function, phi ssa.Value) ssa.Instruction {
	return unguardedConsumerAt(p, f, phi, 0)
}

func unguardedConsumerAt(prog *an.Prog, f *ssa.Function, phi ssa.Value, depth int) ssa.Instruction {
	closure := map[ssa.Value]bool{phi: true}
	work := []ssa.Value{phi}
	for len(work) > 0 {
		v := work[len(work)-1]
		work = work[:len(work)-1]
		if v.Referrers() == nil {
			continue
		}
		for _, u := range *v.Referrers() {
			if p, ok := u.(*ssa.Phi); ok && !closure[p] {
				closure[p] = true
				work = append(work, p)
			}
		}
	}
	for v := range closure {
		var nonNil []an.CtrlEdge
		for _, cse := range an.EqCases(f, func(x ssa.Value) bool { return x == v }) {
			if an.IsNilConst(cse.Key) {
				nonNil = append(nonNil, edgeTo(cse.If.Block(), cse.Else))
			}
		}
		for _, u := range *v.Referrers() {
			switch x := u.(type) {
			case *ssa.Phi, *ssa.DebugRef:
				continue
			case *ssa.BinOp:
				if x.Op == token.EQL || x.Op == token.NEQ {
					continue
				}
			}
			if len(nonNil) > 0 && unreachableWithout(u.Block(), nonNil) {
				continue
			}
			// handed back to the callers: guarded when every caller tests it before consuming it
			if ret, ok := u.(*ssa.Return); ok && depth < 2 && prog != nil {
				idx := -1
				for i, res := range ret.Results {
					if res == v {
						idx = i
					}
				}
				callers := prog.CallersOf(f)
				guarded := idx >= 0 && len(callers) > 0
				for _, c := range callers {
					call, ok := c.(*ssa.Call)
					if !ok {
						guarded = false
						break
					}
					var results []ssa.Value
					if len(ret.Results) == 1 {
						results = []ssa.Value{call}
					} else {
						for _, ex := range an.ExtractOf(call, idx) {
							results = append(results, ex)
						}
					}
					for _, rv := range results {
						if unguardedConsumerAt(prog, call.Parent(), rv, depth+1) != nil {
							guarded = false
						}
					}
				}
				if guarded {
					continue
				}
			}
			return u
		}
	}
	return nil
}

// ---------------------------------------------------------------------------
// C09: every listed patch is loaded, however often it is listed

// emptyEdges returns the edges of l taken when the string v is empty
// (`len(v) == 0`, `v == ""`, and their negations).
func emptyEdges(l *an.Loop, v ssa.Value) []an.CtrlEdge {
	var out []an.CtrlEdge
	// the line as a string, or the bytes it was converted from: both are empty together
	if len(sameLine(v)) > 1 {
		for _, w := range sameLine(v)[1:] {
			out = append(out, emptyEdges(l, w)...)
		}
	}
	for b := range l.Blocks {
		iff, ok := b.Instrs[len(b.Instrs)-1].(*ssa.If)
		if !ok {
			continue
		}
		cond, pos := an.StripNot(iff.Cond)
		cmp, ok := cond.(*ssa.BinOp)
		if !ok {
			continue
		}
		isEmptyTest := false
		if lc, ok := cmp.X.(*ssa.Call); ok && an.IsCallTo(lc, "builtin:len") && lc.Call.Args[0] == v {
			if k, isc := an.ConstInt(cmp.Y); isc && k == 0 {
				isEmptyTest = true
			}
		}
		if cmp.X == v {
			if s, isc := an.ConstString(cmp.Y); isc && s == "" {
				isEmptyTest = true
			}
		}
		if !isEmptyTest {
			continue
		}
		var whenEmpty int
		switch cmp.Op {
		case token.EQL, token.LEQ:
			whenEmpty = 0
		case token.NEQ, token.GTR:
			whenEmpty = 1
		default:
			continue
		}
		if !pos {
			whenEmpty = 1 - whenEmpty
		}
		out = append(out, an.CtrlEdge{Block: b, Succ: whenEmpty})
	}
	return out
}

// c09EveryListedPatchLoaded: in LoadFileList an iteration reaches the next one
// without loading its line only when the line is empty. A list that names a
// patch twice (or names one that -p named already) runs it twice: the second
// run sees what the patches in between introduced.
func c09EveryListedPatchLoaded(r *an.Run) {
	f := fn(r, mainP, "patchLoader.LoadFileList")
	lf := r.P.Func(mainP, "patchLoader.LoadFile")
	if f == nil || lf == nil {
		return
	}
	var load ssa.CallInstruction
	for _, g := range helperGroup(f, 2) {
		if g == lf {
			continue
		}
		for _, c := range an.Calls(g) {
			if an.StaticCallee(c) == lf {
				load = c
			}
		}
	}
	if load == nil {
		return // reported by R1 |loads
	}
	l := an.LoopOf(load.Parent(), load.Block())
	if l == nil {
		return
	}
	text := load.Common().Args[1]
	skip := skipEdges(emptyEdges(l, text))
	// an empty line is skipped, not taken for the end of the list: from the "line is empty" edge the only way on is
	// the next iteration
	for _, e := range emptyEdges(l, text) {
		t := e.Block.Succs[e.Succ]
		leaves := !l.Blocks[t]
		if !leaves && t != l.Header {
			reach := an.Reach([]*ssa.BasicBlock{t}, func(b *ssa.BasicBlock, i int) bool { return b.Succs[i] == l.Header || b == load.Block() })
			// leaving because the input has ended (the edges taken when this iteration's read reported an error)
			// is the loop's regular end
			var endOfInput []an.CtrlEdge
			if rd := readerCallIn(l); rd != nil {
				if errv := errValue(rd); errv != nil {
					for _, b := range f.Blocks {
						iff, ok := b.Instrs[len(b.Instrs)-1].(*ssa.If)
						if !ok || !l.Blocks[b] {
							continue
						}
						cond, pos := an.StripNot(iff.Cond)
						cmp, ok := cond.(*ssa.BinOp)
						if !ok || cmp.X != errv || !an.IsNilConst(cmp.Y) {
							continue
						}
						succ := 1 // err == nil is false
						if cmp.Op == token.NEQ {
							succ = 0
						}
						if !pos {
							succ = 1 - succ
						}
						endOfInput = append(endOfInput, an.CtrlEdge{Block: b, Succ: succ})
					}
				}
			}
			for b := range reach {
				if !l.Blocks[b] && !(len(endOfInput) > 0 && unreachableWithout(b, endOfInput)) {
					leaves = true
				}
			}
		}
		r.Check(!leaves, short(f)+"|empty-line-is-skipped", load.Pos(), "an empty line of the -P file is skipped and the list goes on: the way on from it leads to the next line only (not out of the loop — the patches listed after it would be dropped silently)")
	}
	// from the start of an iteration, can the header be reached again without executing the load and without the line being empty?
	var starts []*ssa.BasicBlock
	for _, s := range l.Header.Succs {
		if l.Blocks[s] {
			starts = append(starts, s)
		}
	}
	again := false
	if !(len(starts) == 1 && starts[0] == load.Block()) {
		reach := an.Reach(starts, func(b *ssa.BasicBlock, i int) bool {
			if b == load.Block() {
				return true // the load is executed: stop
			}
			return skip(b, i)
		})
		if reach[l.Header] {
			again = true
		}
	}
	if again {
		// path-sensitive second look: the same facts are tested more than once in an iteration of a
		// reader loop (`readErr == nil || len(line) > 0` … `switch readErr { case nil: …`). An iteration
		// that reaches the next one without loading is fine when the line is empty, or when nothing was
		// read at all (the read failed and handed back no bytes)
		if rd := readerCallIn(l); rd != nil {
			errv := errValue(rd)
			var lineV ssa.Value
			if ex := an.ExtractOf(rd, 0); len(ex) > 0 {
				lineV = ex[0]
			}
			isEmptyTest := func(c ssa.Value, of ssa.Value) (string, bool) {
				cmp, ok := c.(*ssa.BinOp)
				if !ok {
					return "", false
				}
				if lc, ok := cmp.X.(*ssa.Call); ok && an.IsCallTo(lc, "builtin:len") && lc.Call.Args[0] == of {
					if k, isc := an.ConstInt(cmp.Y); isc && k == 0 {
						switch cmp.Op {
						case token.EQL, token.LEQ:
							return "", true
						case token.GTR, token.NEQ:
							return "not:", true
						}
					}
				}
				if cmp.X == of {
					if sv, isc := an.ConstString(cmp.Y); isc && sv == "" {
						switch cmp.Op {
						case token.EQL:
							return "", true
						case token.NEQ:
							return "not:", true
						}
					}
				}
				return "", false
			}
			classify := func(c ssa.Value) string {
				if cmp, ok := c.(*ssa.BinOp); ok && (cmp.Op == token.EQL || cmp.Op == token.NEQ) && errv != nil && cmp.X == errv {
					if an.IsNilConst(cmp.Y) {
						if cmp.Op == token.NEQ {
							return "not:err-nil"
						}
						return "err-nil"
					}
					return "err-is:" + an.Describe(cmp.Y)
				}
				for _, line := range sameLine(text) {
					if pre, ok := isEmptyTest(c, line); ok {
						return pre + "path-empty"
					}
				}
				if lineV != nil {
					if pre, ok := isEmptyTest(c, lineV); ok {
						return pre + "nothing-read"
					}
				}
				return ""
			}
			started := false
			paths, err := an.EnumeratePathsFrom(rd.Block(), classify, func(b *ssa.BasicBlock) bool {
				if !started {
					started = true // the block of the read itself (it may be the loop's header)
					return false
				}
				if len(b.Succs) == 1 && b.Succs[0] == l.Header {
					return true // about to start the next iteration
				}
				return b == l.Header || !l.Blocks[b]
			}, 512, true)
			if err == nil {
				again = false
				get := func(p an.DPath, a string) (bool, bool) {
					if v, ok := p.Atoms[a]; ok {
						return v, true
					}
					if v, ok := p.Atoms["not:"+a]; ok {
						return !v, true
					}
					return false, false
				}
				for _, p := range paths {
					if p.End != l.Header && !(len(p.End.Succs) == 1 && p.End.Succs[0] == l.Header && l.Blocks[p.End]) {
						continue
					}
					// inconsistent valuations of one fact tested in both polarities
					incons := false
					for a, v := range p.Atoms {
						if w, ok := p.Atoms["not:"+a]; ok && w == v {
							incons = true
						}
					}
					if incons {
						continue
					}
					loads := false
					for _, b := range p.Blocks {
						if b == load.Block() {
							loads = true
						}
					}
					if loads {
						continue
					}
					empty, ek := get(p, "path-empty")
					nothing, nk := get(p, "nothing-read")
					errNil, errK := get(p, "err-nil")
					// a path back to the header on which the read failed cannot exist when the loop leaves on error;
					// if it does exist, it is a skipped line
					if ek && empty || nk && nothing && errK && !errNil {
						continue
					}
					again = true
				}
			}
		}
	}
	r.Check(!again, short(f)+"|every-line-loaded", load.Pos(), "every non-empty line of the -P file is loaded, in order, as often as it is listed: no path of an iteration skips LoadFile except for an empty line")
	// loading succeeds only by loading: LoadFile returns without an error only after LoadReader ran,
	// LoadReader only after the program was appended to the loader's list
	lr := r.P.Func(mainP, "patchLoader.LoadReader")
	if lr != nil {
		var viaReader ssa.Instruction
		for _, c := range an.Calls(lf) {
			if an.StaticCallee(c) == lr {
				viaReader = c
			}
		}
		if viaReader == nil {
			viaReader = callThroughWrapper(lf, lr)
		}
		_, appendAt, _ := appendsToSelf(lr, "l.progs")
		for _, pr := range []struct {
			g      *ssa.Function
			action ssa.Instruction
			what   string
		}{{lf, viaReader, "LoadReader was called"}, {lr, appendAt, "the compiled program was appended to l.progs"}} {
			if pr.action == nil {
				r.Undecided(short(pr.g)+"|success-only-by-loading", pr.g.Pos(), "the loading step of %s was not found", short(pr.g))
				continue
			}
			bad := successWithout(pr.g, pr.action)
			r.Check(bad == nil, short(pr.g)+"|success-only-by-loading", pr.action.Pos(), "%s returns without an error only after %s: a patch is never skipped silently (already seen, cached, filtered)", short(pr.g), pr.what)
		}
	}
}

// errorFailEdges lists the edges of f taken when a tested error is non-nil.
func errorFailEdges(f *ssa.Function) []an.CtrlEdge {
	var out []an.CtrlEdge
	for _, b := range f.Blocks {
		if len(b.Instrs) == 0 {
			continue
		}
		iff, ok := b.Instrs[len(b.Instrs)-1].(*ssa.If)
		if !ok {
			continue
		}
		cond, pos := an.StripNot(iff.Cond)
		cmp, ok := cond.(*ssa.BinOp)
		if !ok || (cmp.Op != token.EQL && cmp.Op != token.NEQ) {
			continue
		}
		var e ssa.Value
		switch {
		case an.IsNilConst(cmp.Y) && an.IsErrorType(cmp.X.Type()):
			e = cmp.X
		case an.IsNilConst(cmp.X) && an.IsErrorType(cmp.Y.Type()):
			e = cmp.Y
		}
		if e == nil {
			continue
		}
		nonNil := 0
		if cmp.Op == token.EQL {
			nonNil = 1
		}
		if !pos {
			nonNil = 1 - nonNil
		}
		out = append(out, an.CtrlEdge{Block: b, Succ: nonNil})
	}
	return out
}

// successWithout returns a Return of g that can be reached from the entry
// without executing action and without taking the non-nil edge of any error
// test (a success exit that skipped the action); nil when there is none.
func successWithout(g *ssa.Function, action ssa.Instruction) *ssa.Return {
	fail := skipEdges(errorFailEdges(g))
	reach := an.Reach([]*ssa.BasicBlock{g.Blocks[0]}, func(b *ssa.BasicBlock, i int) bool {
		return b == action.Block() || fail(b, i)
	})
	for _, ret := range an.Returns(g) {
		if reach[ret.Block()] && ret.Block() != action.Block() {
			return ret
		}
	}
	return nil
}

// successWithoutAction returns a Return of g reachable from the entry without
// executing action (any result); nil when every return comes after it.
func successWithoutAction(g *ssa.Function, action ssa.Instruction) *ssa.Return {
	reach := an.Reach([]*ssa.BasicBlock{g.Blocks[0]}, func(b *ssa.BasicBlock, i int) bool { return b == action.Block() })
	for _, ret := range an.Returns(g) {
		if reach[ret.Block()] && ret.Block() != action.Block() {
			return ret
		}
	}
	return nil
}

// ---------------------------------------------------------------------------
// C09: what the parser resolved is stale after the first change

// parseTimeState: go/parser resolves identifiers once (Ident.Obj, File.Scope,
// File.Unresolved, Object.*, Scope.*). Replacements edit the tree in place and
// do not maintain any of it, so from the second change of a run on it describes
// a file that no longer exists. Closed inventory of reads.
var parseTimeStateReads = map[string]string{
	"internal/engine|Ident.Obj": "usesNameAsTopLevel counts an identifier as a use of the package only when the parser did not resolve it to a declaration in the file (Obj == nil); identifiers introduced by a replacement have Obj == nil (the replacer never reproduces Obj), so they count as uses — stale data can only keep an import, never delete one",
}

func parseTimeState(r *an.Run, rule string) {
	r.Rule(rule)
	stale := func(t types.Type, field string) bool {
		switch {
		case an.IsNamed(t, "go/ast", "File"):
			return field == "Unresolved" || field == "Scope"
		case an.IsNamed(t, "go/ast", "Ident"):
			return field == "Obj"
		case an.IsNamed(t, "go/ast", "Object"), an.IsNamed(t, "go/ast", "Scope"):
			return true
		}
		return false
	}
	n := 0
	seen := map[string]bool{}
	// the inventoried use is on the replacing side (import clean-up). Nothing that decides whether code
	// matches may look at parse-time resolution at all: code an earlier change of the run produced has none,
	// so the same source would match or not depending on whether it was just rewritten or freshly parsed
	var matching map[*ssa.Function]bool
	if cm := r.P.Func(engine, "Change.Match"); cm != nil {
		matching = r.P.ReachableVTA(cm)
	}
	for _, f := range r.P.ModuleFuncs() {
		rel := strings.TrimPrefix(strings.TrimPrefix(an.FuncPkgPath(f), an.Module), "/")
		if strings.HasPrefix(rel, "tools") || strings.HasPrefix(rel, "internal/pgo") || rel == "internal/goast" {
			continue // pattern side: parsed once, never rewritten
		}
		for _, b := range f.Blocks {
			for _, in := range b.Instrs {
				var t types.Type
				var field string
				switch x := in.(type) {
				case *ssa.FieldAddr:
					t = x.X.Type().Underlying().(*types.Pointer).Elem()
					field = fieldNameOf(x)
				case *ssa.Field:
					t = x.X.Type()
					field = fieldNameOfStruct(x.X.Type(), x.Field)
				default:
					continue
				}
				if !stale(t, field) {
					continue
				}
				n++
				key := rel + "|" + astTypeName(t) + "." + field
				if matching[f] {
					r.Fail(key+"|matching|"+short(f), in.Pos(), "%s, which runs while a change is matched, reads %s.%s: the parser resolved that for the file as it was read, and code produced by an earlier change of the same run carries none — the same source matches differently in one run than in two", short(f), astTypeName(t), field)
					continue
				}
				if why, ok := parseTimeStateReads[key]; ok {
					if !seen[key] {
						seen[key] = true
						r.Pass(key, in.Pos(), "inventoried use of parse-time resolution: %s", why)
					}
					continue
				}
				r.Fail(key+"|"+short(f), in.Pos(), "%s uses %s.%s, which go/parser computed for the file as it was read: replacements edit the tree in place without maintaining it, so a later change of the same run would decide on code that is no longer (or not yet) there", short(f), astTypeName(t), field)
			}
		}
	}
	r.Count("uses of parse-time resolution state", n)
	r.Min("uses of parse-time resolution state", 1)
}

// ---------------------------------------------------------------------------
// C10: the guards of the '-' side reach the file matcher

// isPgoFile reports whether t is pgo.File or *pgo.File.
func isPgoFile(t types.Type) bool {
	if p, ok := t.Underlying().(*types.Pointer); ok {
		t = p.Elem()
	}
	return an.IsNamed(t, an.Module+"/internal/pgo", "File")
}

// loadsField reports whether v is a load of field `name` of a value accepted
// by recv (directly or through a local copy).
func loadsFieldOf(v ssa.Value, name string, recv func(ssa.Value) bool) bool {
	switch x := v.(type) {
	case *ssa.UnOp:
		if fa, ok := x.X.(*ssa.FieldAddr); ok && x.Op == token.MUL && fieldNameOf(fa) == name {
			return recv == nil || recv(fa.X)
		}
	case *ssa.Field:
		if fieldNameOfStruct(x.X.Type(), x.Field) == name {
			return recv == nil || recv(x.X)
		}
	}
	return false
}

func c10GuardsReachMatcher(r *an.Run) {
	r.Rule("R7-guards-reach-the-matcher")
	// (1) matcherCompiler.compileFile: FileMatcher{Package: file.Package, Imports: compileImports(file.Imports)}
	if f := fn(r, engine, "matcherCompiler.compileFile"); f != nil {
		file := paramAt(f, 0)
		isFile := func(v ssa.Value) bool { return v == ssa.Value(file) }
		var pkgOK, impOK bool
		for _, in := range an.StoresIn(f) {
			st, ok := in.(*ssa.Store)
			if !ok {
				continue
			}
			fa, ok := st.Addr.(*ssa.FieldAddr)
			if !ok || !strings.HasSuffix(an.ShortType(fa.X.Type()), "FileMatcher") {
				continue
			}
			switch fieldNameOf(fa) {
			case "Package":
				pkgOK = loadsFieldOf(st.Val, "Package", isFile)
			case "Imports":
				if c, ok := st.Val.(*ssa.Call); ok && an.StaticCallee(c) == r.P.Func(engine, "matcherCompiler.compileImports") {
					impOK = loadsFieldOf(c.Call.Args[len(c.Call.Args)-1], "Imports", isFile)
				}
			}
		}
		r.Check(pkgOK, short(f)+"|package", f.Pos(), "the file matcher's package guard is the package clause of the pattern file it is compiled from")
		r.Check(impOK, short(f)+"|imports", f.Pos(), "the file matcher's import guards are compiled from the imports of the pattern file it is compiled from")
	}
	// (2) compileChange compiles the matcher from Patch.Minus
	if f := fn(r, engine, "compiler.compileChange"); f != nil {
		good := false
		for _, c := range an.Calls(f) {
			if an.StaticCallee(c) == r.P.Func(engine, "matcherCompiler.compileFile") {
				a := c.Common().Args
				good = loadsFieldOf(a[len(a)-1], "Minus", nil)
			}
		}
		r.Check(good, short(f)+"|minus-side", f.Pos(), "the matcher of a change is compiled from the '-' side of its patch")
	}
	// (3) a pattern file is never rebuilt without its guards: every pgo.File constructed outside the
	// pattern parser copies Package and Imports from a pgo.File; what is stored as a patch side is a parser result
	n := 0
	for _, f := range r.P.ModuleFuncs() {
		rel := strings.TrimPrefix(strings.TrimPrefix(an.FuncPkgPath(f), an.Module), "/")
		if strings.HasPrefix(rel, "tools") {
			continue
		}
		for _, b := range f.Blocks {
			for _, in := range b.Instrs {
				al, ok := in.(*ssa.Alloc)
				if !ok || !isPgoFile(al.Type()) {
					continue
				}
				if _, isStruct := al.Type().Underlying().(*types.Pointer).Elem().Underlying().(*types.Struct); !isStruct {
					continue
				}
				n++
				if rel == "internal/pgo" {
					// the pattern parser (Parse or a stage of it) builds the file from what go/parser read
					c10ParserFillsGuards(r, f, al)
					continue
				}
				for _, g := range []string{"Package", "Imports"} {
					copied := false
					for _, ref := range *al.Referrers() {
						fa, ok := ref.(*ssa.FieldAddr)
						if !ok || fieldNameOf(fa) != g {
							continue
						}
						for _, u := range *fa.Referrers() {
							if st, ok := u.(*ssa.Store); ok && st.Addr == ssa.Value(fa) && loadsFieldOf(st.Val, g, func(x ssa.Value) bool { return isPgoFile(x.Type()) }) {
								copied = true
							}
						}
					}
					r.Check(copied, short(f)+"|rebuilds-pattern-file|"+g, al.Pos(), "%s builds a pgo.File and carries over %s from the file it replaces: a pattern side rebuilt without its package clause / imports loses the guard, and the change applies to files it must not touch", short(f), g)
				}
			}
		}
	}
	// ... and never edited afterwards
	for _, f := range r.P.ModuleFuncs() {
		if strings.Contains(an.FuncPkgPath(f), "/tools") {
			continue
		}
		for _, in := range an.StoresIn(f) {
			st, ok := in.(*ssa.Store)
			if !ok {
				continue
			}
			fa, ok := st.Addr.(*ssa.FieldAddr)
			if !ok || !isPgoFile(fa.X.Type()) {
				continue
			}
			if _, own := fa.X.(*ssa.Alloc); own {
				continue // construction, checked above
			}
			g := fieldNameOf(fa)
			if g != "Package" && g != "Imports" {
				continue
			}
			r.Fail(short(f)+"|edits-pattern-file|"+g, st.Pos(), "%s overwrites %s of a parsed pattern file: the guard the user wrote no longer reaches the matcher", short(f), g)
		}
	}
	r.Count("pgo.File constructions", n)
	r.Min("pgo.File constructions", 1)
}

// c10ParserFillsGuards: in pgo.Parse the File's Package is the parsed package
// name and Imports the parsed import specs.
func c10ParserFillsGuards(r *an.Run, f *ssa.Function, al *ssa.Alloc) {
	var pkgOK, impOK bool
	for _, ref := range *al.Referrers() {
		fa, ok := ref.(*ssa.FieldAddr)
		if !ok {
			continue
		}
		for _, u := range *fa.Referrers() {
			st, ok := u.(*ssa.Store)
			if !ok || st.Addr != ssa.Value(fa) {
				continue
			}
			switch fieldNameOf(fa) {
			case "Package":
				// every value the field may receive is the parsed package name or "" (the fake clause, R5)
				named := 0
				allOK := true
				for _, leaf := range phiLeaves(st.Val) {
					if s, isc := an.ConstString(leaf); isc && s == "" {
						continue
					}
					if loadsFieldOf(leaf, "Name", func(x ssa.Value) bool {
						return an.IsNamed(x.Type().Underlying().(*types.Pointer).Elem(), "go/ast", "Ident") && loadsFieldOf(x, "Name", func(y ssa.Value) bool {
							return an.IsNamed(y.Type().Underlying().(*types.Pointer).Elem(), "go/ast", "File")
						})
					}) {
						named++
						continue
					}
					allOK = false
				}
				if named > 0 {
					pkgOK = allOK
				}
			case "Imports":
				impOK = loadsFieldOf(st.Val, "Imports", func(x ssa.Value) bool {
					return an.IsNamed(x.Type().Underlying().(*types.Pointer).Elem(), "go/ast", "File")
				})
			}
		}
	}
	r.Check(pkgOK, short(f)+"|package-from-source", al.Pos(), "the pattern file's package guard is the package name go/parser read")
	r.Check(impOK, short(f)+"|imports-from-source", al.Pos(), "the pattern file's import guards are the import specs go/parser read")
}

// ---------------------------------------------------------------------------
// C13 / C19: line information is attached to the file that holds this side

// lineInfoReceiver: the *token.File that receives AddLineColumnInfo is
// identified through the object that was just created for this text — the
// result of FileSet.AddFile, or FileSet.File(pos) for a position taken from
// the result of parsing this very side — never through a key that other
// changes may share (a file name built from the change's name: two changes
// may carry the same name, and the second one's lines would be attached to
// the first one's file).
func lineInfoReceiver(r *an.Run, rule string) {
	r.Rule(rule)
	n := 0
	for _, name := range []string{"parser.parsePatchVersion", "parser.parseMeta"} {
		f := fn(r, parseP, name)
		if f == nil {
			continue
		}
		for _, g := range helperGroup(f, 2) {
			for _, c := range an.CallsTo(g, "(*go/token.File).AddLineColumnInfo") {
				n++
				recv := c.Common().Args[0]
				byObject := false
				for v := range an.BackSlice(recv, an.SliceOpts{ThroughCalls: true, ThroughMemory: true}) {
					call, ok := v.(*ssa.Call)
					if !ok {
						continue
					}
					if an.IsCallTo(call, "(*go/token.FileSet).AddFile") {
						byObject = true
					}
					if sc := an.StaticCallee(call); sc != nil && short(sc) == "internal/pgo.Parse" {
						byObject = true
					}
				}
				if g != f {
					// a helper: the file must be handed in by the caller, derived the same way
					byObject = false
					for _, cs := range an.Calls(f) {
						if an.StaticCallee(cs) != g {
							continue
						}
						for _, a := range cs.Common().Args {
							for v := range an.BackSlice(a, an.SliceOpts{ThroughCalls: true, ThroughMemory: true}) {
								if call, ok := v.(*ssa.Call); ok {
									if an.IsCallTo(call, "(*go/token.FileSet).AddFile") {
										byObject = true
									}
									if sc := an.StaticCallee(call); sc != nil && short(sc) == "internal/pgo.Parse" {
										byObject = true
									}
								}
							}
						}
					}
				}
				r.Check(byObject, short(f)+"|line-info-receiver", c.Pos(), "the token.File that receives the line table of this section is obtained from the object created for it (FileSet.AddFile result, or FileSet.File at a position of this side's parse result), not looked up by a name other changes may share")
			}
		}
	}
	r.Count("line-info receivers", n)
	r.Min("line-info receivers", 2)
}

// ---------------------------------------------------------------------------
// C05: what is written to a path is the rewrite of what was read from it

// sameFileValue reports whether a and b denote the same per-file value: the
// same SSA value, or loads of the same field of the same loop element.
func sameFileValue(a, b ssa.Value) bool {
	a, b = an.Unwrap(a), an.Unwrap(b)
	if a == b {
		return true
	}
	pa, pb := an.Path(a), an.Path(b)
	if pa != "" && pa == pb {
		return true
	}
	// field of the same struct value
	fa, oka := a.(*ssa.Field)
	fb, okb := b.(*ssa.Field)
	if oka && okb && fa.X == fb.X && fa.Field == fb.Field {
		return true
	}
	la, oka2 := a.(*ssa.UnOp)
	lb, okb2 := b.(*ssa.UnOp)
	if oka2 && okb2 {
		xa, ok1 := la.X.(*ssa.FieldAddr)
		xb, ok2 := lb.X.(*ssa.FieldAddr)
		if ok1 && ok2 && xa.X == xb.X && xa.Field == xb.Field {
			return true
		}
	}
	return false
}

func c05FileIdentity(r *an.Run) {
	r.Rule("R8-written-file-is-the-file-read")
	m := buildRunModel(r)
	if m == nil {
		return
	}
	f := m.run
	// the tree that is patched is the parse of what was read under this name
	parseName := m.parse.Call.Args[1]
	if p, ok := an.Unwrap(parseName).(*ssa.Parameter); ok && p.Parent() != f && an.Actual(p) != nil {
		parseName = an.Actual(p)
	}
	r.Check(sameFileValue(parseName, m.filename), short(f)+"|parse-name", m.parse.Pos(), "the file is parsed under the name it was read from")
	applyArgs := m.apply.Call.Args
	r.Check(an.Unwrap(applyArgs[len(applyArgs)-1]) == m.parsed, short(f)+"|apply-tree", m.apply.Pos(), "the patches are applied to the tree parsed from this file's bytes in this iteration")
	r.Check(sameFileValue(applyArgs[len(applyArgs)-2], m.filename), short(f)+"|apply-name", m.apply.Pos(), "and under this file's name")
	// what is printed is the tree Apply returned
	n := 0
	for _, c := range callsToGroup(f, formatNode) {
		site := siteIn(f, c)
		if site == nil || !m.loop.Loop.Blocks[site.Block()] {
			continue
		}
		n++
		a := c.Common().Args
		r.Check(liftIn(f, a[len(a)-1]) == m.fout, short(f)+"|printed-tree", c.Pos(), "the tree that is printed is the one the patches produced for this file")
	}
	r.Check(n == 1, short(f)+"|one-print", f.Pos(), "the rewritten tree is printed once per file (found %d format.Node calls in the loop)", n)
	// every sink that names a file names this one
	nw := 0
	for _, s := range sinksOfRun(r, m) {
		for _, a := range s.call.Common().Args {
			if an.ShortType(a.Type()) != "string" {
				continue
			}
			nw++
			var elem ssa.Value
			if s.host != f {
				// the output stage lives in a function of its own: the path as Run hands it over
				if la := liftIn(f, a); la != nil {
					a = la
				} else {
					elem = liftStructOf(f, a) // a field of the list element that Run itself never selects
				}
			}
			ok := sameFileValue(a, m.filename)
			if !ok && elem != nil {
				// a field of the very struct value m.filename is a field of
				if ld, isLoad := elem.(*ssa.UnOp); isLoad {
					if fl, isLoad2 := an.Unwrap(m.filename).(*ssa.UnOp); isLoad2 {
						if fa, isFA := fl.X.(*ssa.FieldAddr); isFA && fa.X == ld.X {
							ok = true
						}
					}
				}
				if fl, isField := an.Unwrap(m.filename).(*ssa.Field); isField && fl.X == elem {
					ok = true
				}
			}
			if !ok {
				// the user-facing spelling of the same loop element (diff header)
				ok = sameLoopElement(a, m.filename)
			}
			r.Check(ok, short(f)+"|sink-path|"+an.TrimModule(an.CalleeName(s.call)), s.call.Pos(), "%s: the path it is given belongs to the file whose bytes were read and rewritten in this iteration (an index into a second, differently filtered list would attribute one file's code to another)", s.what)
		}
	}
	r.Count("path arguments of emission sinks", nw)
	r.Min("path arguments of emission sinks", 2)
}

// sameLoopElement: a and b are fields of the same struct value (the element of
// the file list the loop is at).
func sameLoopElement(a, b ssa.Value) bool {
	base := func(v ssa.Value) ssa.Value {
		switch x := an.Unwrap(v).(type) {
		case *ssa.Field:
			return x.X
		case *ssa.UnOp:
			if fa, ok := x.X.(*ssa.FieldAddr); ok {
				return fa.X
			}
		}
		return nil
	}
	ba, bb := base(a), base(b)
	return ba != nil && ba == bb
}

// ---------------------------------------------------------------------------
// splitPatch: the two versions by role, not by the name of a local

func holdsBuffer(t types.Type) bool {
	if p, ok := t.Underlying().(*types.Pointer); ok {
		t = p.Elem()
	}
	if an.IsNamed(t, "bytes", "Buffer") {
		return true
	}
	if st, ok := t.Underlying().(*types.Struct); ok {
		for i := 0; i < st.NumFields(); i++ {
			if an.IsNamed(st.Field(i).Type(), "bytes", "Buffer") {
				return true
			}
		}
	}
	return false
}

// splitVersionRoots returns the local variables of splitPatch that hold the
// text of the first result (the '-' version) and of the second result (the
// '+' version): the buffer-holding locals the respective result derives from.
func splitVersionRoots(f *ssa.Function) (minus, plus *ssa.Alloc) {
	sets := [2]map[*ssa.Alloc]bool{{}, {}}
	for _, ret := range an.Returns(f) {
		if len(ret.Results) != 2 {
			continue
		}
		for k := 0; k < 2; k++ {
			for v := range sliceAcross(ret.Results[k]) {
				if a, ok := v.(*ssa.Alloc); ok && a.Parent() == f && holdsBuffer(a.Type()) {
					sets[k][a] = true
				}
			}
		}
	}
	pick := func(k int) *ssa.Alloc {
		var out *ssa.Alloc
		for a := range sets[k] {
			if sets[1-k][a] {
				continue
			}
			if out != nil {
				return nil
			}
			out = a
		}
		return out
	}
	return pick(0), pick(1)
}

// rootAlloc returns the local variable v's address / value path starts at.
func rootAlloc(v ssa.Value) *ssa.Alloc {
	root := an.Root(an.Unwrap(v))
	for steps := 0; steps < 8; steps++ {
		if u, ok := root.(*ssa.UnOp); ok {
			root = an.Root(u.X)
			continue
		}
		break
	}
	a, _ := root.(*ssa.Alloc)
	return a
}

// lengthSample describes where splitPatch samples the length of a version's
// buffer: site is the instruction of splitPatch (the Len call itself or the
// call to the helper that performs it), lenCall the (*bytes.Buffer).Len call,
// pos the position value, as seen in splitPatch, that is stored next to it.
type lengthSample struct {
	site    ssa.Instruction
	lenCall *ssa.Call
	pos     ssa.Value
}

func splitLengthSample(f *ssa.Function, side *ssa.Alloc) *lengthSample {
	pairedPos := func(lenCall *ssa.Call) ssa.Value {
		if lenCall.Referrers() == nil {
			return nil
		}
		for _, u := range *lenCall.Referrers() {
			st, ok := u.(*ssa.Store)
			if !ok {
				continue
			}
			fa, ok := st.Addr.(*ssa.FieldAddr)
			if !ok || fieldNameOf(fa) != "Offset" {
				continue
			}
			lit, ok := fa.X.(*ssa.Alloc)
			if !ok {
				continue
			}
			for _, w := range *lit.Referrers() {
				if fa2, ok := w.(*ssa.FieldAddr); ok && fieldNameOf(fa2) == "Pos" {
					for _, x := range *fa2.Referrers() {
						if st2, ok := x.(*ssa.Store); ok && st2.Addr == ssa.Value(fa2) {
							return st2.Val
						}
					}
				}
			}
		}
		return nil
	}
	for _, c := range an.CallsTo(f, "(*bytes.Buffer).Len") {
		if rootAlloc(c.Common().Args[0]) == side {
			call := c.(*ssa.Call)
			return &lengthSample{site: c, lenCall: call, pos: pairedPos(call)}
		}
	}
	// through a helper that is handed (part of) the side's variable
	for _, c := range an.Calls(f) {
		h := an.StaticCallee(c)
		if h == nil || !an.InModule(h) || h.Blocks == nil {
			continue
		}
		argIdx := -1
		for i, a := range c.Common().Args {
			if rootAlloc(a) == side || an.Unwrap(a) == ssa.Value(side) {
				argIdx = i
			}
		}
		if argIdx < 0 || argIdx >= len(h.Params) {
			continue
		}
		for _, lc := range an.CallsTo(h, "(*bytes.Buffer).Len") {
			if an.Root(an.Unwrap(lc.Common().Args[0])) != ssa.Value(h.Params[argIdx]) {
				continue
			}
			call := lc.(*ssa.Call)
			ls := &lengthSample{site: c, lenCall: call}
			if p := pairedPos(call); p != nil {
				if prm, ok := p.(*ssa.Parameter); ok {
					for i, hp := range h.Params {
						if hp == prm && i < len(c.Common().Args) {
							ls.pos = c.Common().Args[i]
						}
					}
				} else if _, rooted := an.Root(p).(*ssa.Parameter); rooted {
					// the helper is handed the line itself and reads its StartPos
					ls.pos = p
				} else if u, isLoad := an.Root(p).(*ssa.UnOp); isLoad {
					if _, rooted := an.Root(u.X).(*ssa.Parameter); rooted {
						ls.pos = p
					}
				}
			}
			return ls
		}
	}
	return nil
}

// ---------------------------------------------------------------------------
// C08: physical line numbers

// physicalLines: (*token.File).MergeLine (and LineStart) take PHYSICAL line
// numbers — indexes into the file's line table — and panic on anything else.
// (*token.File).Line, (*token.File).Position(p).Line and
// (*token.FileSet).Position(p).Line are adjusted by //line directives, which a
// target file may contain (generated code usually does): fed into MergeLine
// they are out of range and gopatch panics (F12). The line numbers handed to a
// physical-line consumer must come from PositionFor(p, false).
func physicalLines(r *an.Run, rule string) {
	r.Rule(rule)
	n := 0
	for _, f := range r.P.ModuleFuncs() {
		rel := strings.TrimPrefix(strings.TrimPrefix(an.FuncPkgPath(f), an.Module), "/")
		if strings.HasPrefix(rel, "tools") {
			continue
		}
		for _, c := range an.CallsTo(f, "(*go/token.File).MergeLine", "(*go/token.File).LineStart") {
			n++
			bad := adjustedLineSource(c.Common().Args[1])
			key := short(f) + "|" + lastSegment(an.CalleeName(c))
			if bad == nil {
				r.Pass(key, c.Pos(), "the line number handed to %s is a physical one (PositionFor(p, false)), never one adjusted by //line directives", lastSegment(an.CalleeName(c)))
			} else {
				r.Fail(key, c.Pos(), "%s hands %s a line number that comes from %s, which is adjusted by //line directives: for a target file that contains one the number is not a valid index into the file's line table and go/token panics", short(f), lastSegment(an.CalleeName(c)), an.TrimModule(an.CalleeName(bad)))
			}
		}
	}
	r.Count("physical-line consumers", n)
	if len(cleanupFuncs(r)) == 1 {
		r.Min("physical-line consumers", 1) // command and library share the clean-up step
	} else {
		r.Min("physical-line consumers", 2)
	}
}

func lastSegment(s string) string {
	if i := strings.LastIndex(s, "."); i >= 0 {
		return s[i+1:]
	}
	return s
}

// adjustedLineSource follows v backwards (data flow, local memory, map keys
// and values, slices built by append) and returns a call that produces a
// //line-adjusted line number, if v may come from one.
func adjustedLineSource(v ssa.Value) ssa.CallInstruction {
	seen := map[ssa.Value]bool{}
	work := []ssa.Value{v}
	var f *ssa.Function
	if in, ok := v.(ssa.Instruction); ok {
		f = in.Parent()
	}
	for len(work) > 0 {
		x := work[len(work)-1]
		work = work[:len(work)-1]
		for y := range an.BackSlice(x, an.SliceOpts{ThroughCalls: true, ThroughMemory: true}) {
			if seen[y] {
				continue
			}
			seen[y] = true
			switch t := y.(type) {
			case *ssa.Call:
				if an.IsCallTo(t, "(*go/token.File).Line") {
					return t
				}
				if an.IsCallTo(t, "(*go/token.File).Position", "(*go/token.FileSet).Position") {
					return t
				}
				if an.IsCallTo(t, "(*go/token.File).PositionFor", "(*go/token.FileSet).PositionFor") {
					a := t.Call.Args
					if k, isc := an.ConstBool(a[len(a)-1]); !isc || k {
						return t
					}
				}
			case *ssa.Phi:
				// a counter: the values it takes are bounded by the loop's test
				if iff, ok := t.Block().Instrs[len(t.Block().Instrs)-1].(*ssa.If); ok {
					work = append(work, iff.Cond)
				}
			case *ssa.Range:
				// ranging over a map: its keys and values are whatever was put in
				if f != nil {
					for _, b := range f.Blocks {
						for _, in := range b.Instrs {
							if mu, ok := in.(*ssa.MapUpdate); ok && an.Root(mu.Map) == an.Root(t.X) {
								work = append(work, mu.Key, mu.Value)
							}
						}
					}
				}
			}
		}
	}
	return nil
}

// ---------------------------------------------------------------------------
// C11: the use test relies on what the parser resolved

// objectResolutionOn: usesNameAsTopLevel counts `name.X` as a reference to the
// package only when the parser did not resolve `name` to a declaration in the
// file (Ident.Obj == nil). That is meaningful only if the target files are
// parsed WITH object resolution: with parser.SkipObjectResolution every
// identifier has Obj == nil, a local variable that shadows the package name
// counts as a use, and a '-' import whose real uses were all rewritten away
// is kept. Two sites that each look fine alone; the rule ties them together.
func objectResolutionOn(r *an.Run, rule string) {
	r.Rule(rule)
	// does any code outside the pattern side read Ident.Obj?
	reads := 0
	for _, f := range r.P.ModuleFuncs() {
		rel := strings.TrimPrefix(strings.TrimPrefix(an.FuncPkgPath(f), an.Module), "/")
		if strings.HasPrefix(rel, "tools") || strings.HasPrefix(rel, "internal/pgo") || rel == "internal/goast" {
			continue
		}
		for _, b := range f.Blocks {
			for _, in := range b.Instrs {
				if fa, ok := in.(*ssa.FieldAddr); ok && fieldNameOf(fa) == "Obj" && an.IsNamed(fa.X.Type().Underlying().(*types.Pointer).Elem(), "go/ast", "Ident") {
					reads++
				}
			}
		}
	}
	r.Count("reads of Ident.Obj", reads)
	if reads == 0 {
		r.Pass("no-reads", 0, "nothing reads Ident.Obj: the parser mode does not matter for the use test")
		return
	}
	skip := int64(-1)
	if pk := r.P.ByP["go/parser"]; pk != nil {
		if c, ok := pk.Types.Scope().Lookup("SkipObjectResolution").(*types.Const); ok {
			skip, _ = an.ConstIntOf(c.Val())
		}
	}
	if skip < 0 {
		r.Undecided("parser.SkipObjectResolution", 0, "constant go/parser.SkipObjectResolution not found")
		return
	}
	n := 0
	for _, f := range r.P.ModuleFuncs() {
		rel := strings.TrimPrefix(strings.TrimPrefix(an.FuncPkgPath(f), an.Module), "/")
		if strings.HasPrefix(rel, "tools") || strings.HasPrefix(rel, "internal/pgo") {
			continue
		}
		for _, c := range an.CallsTo(f, parserParse) {
			a := c.Common().Args
			mode, isc := an.ConstInt(a[len(a)-1])
			// a parse whose result is discarded (validation only) cannot feed the use test
			if call, ok := c.(*ssa.Call); ok {
				if ex := an.ExtractOf(call, 0); len(ex) == 0 || nonDebugRefs(ex[0]) == 0 {
					continue
				}
			}
			n++
			key := short(f) + "|parse-mode"
			if !isc {
				r.Undecided(key, c.Pos(), "the parser mode of %s is not a constant", short(f))
				continue
			}
			r.Check(mode&skip == 0, key, c.Pos(), "%s parses target files with object resolution (mode %d): the import clean-up tells a package reference from a shadowing local by Ident.Obj", short(f), mode)
		}
	}
	r.Count("target-file parses", n)
	r.Min("target-file parses", 2)
}

// ---------------------------------------------------------------------------
// C19: the index of the offending character is a byte index into the name

// c19NameIndex: validateChangeName reports the first invalid character of a
// change name together with its index; readName turns the index into a
// column by adding it to the byte offset of the name. So the index must be
// the BYTE index of the character in the whole name: the index variable of a
// range over the name itself, or — when the scan starts further in, at
// name[k:] — that index plus k. (i+1 after decoding a first rune of `size`
// bytes is right only for one-byte runes: seed C19-7.)
func c19NameIndex(r *an.Run) {
	f := fn(r, sectRel, "validateChangeName")
	if f == nil {
		return
	}
	s := paramAt(f, 0)
	n := 0
	for _, ret := range an.Returns(f) {
		if len(ret.Results) != 3 {
			continue
		}
		if okv, isc := an.ConstBool(ret.Results[2]); !isc || okv {
			continue
		}
		n++
		v := ret.Results[0]
		key := short(f) + "|index-is-a-byte-offset"
		if k, isc := an.ConstInt(v); isc {
			// a constant index: the character must be the one decoded at that offset of the name
			r.Check(k == 0, key+"|const", ret.Pos(), "a constant index returned for an invalid character is 0 (the first character of the name)")
			continue
		}
		good, why := false, "the returned index is not a range index over the name"
		lv := an.Lin(v)
		for atom := range lv.Terms {
			_ = atom
		}
		// find the range-index extracts in f
		for _, b := range f.Blocks {
			for _, in := range b.Instrs {
				ex, ok := in.(*ssa.Extract)
				if !ok || ex.Index != 1 {
					continue
				}
				nx, ok := ex.Tuple.(*ssa.Next)
				if !ok || !nx.IsString {
					continue
				}
				rg, ok := nx.Iter.(*ssa.Range)
				if !ok {
					continue
				}
				base := an.Affine{Terms: map[string]int64{}}
				switch x := rg.X.(type) {
				case *ssa.Parameter:
					if x != s {
						continue
					}
				case *ssa.Slice:
					if x.X != ssa.Value(s) || x.Low == nil {
						if x.X != ssa.Value(s) {
							continue
						}
					} else {
						base = an.Lin(x.Low)
					}
				default:
					continue
				}
				d := lv.Sub(an.Lin(ex)).Sub(base)
				if d.IsZero() {
					good = true
				} else {
					why = "the returned index differs from the byte index of the character in the name by " + d.String()
				}
			}
		}
		r.Check(good, key, ret.Pos(), "the index validateChangeName returns for the offending character is its byte offset in the whole name (range index, plus the start of the scanned tail if the scan starts later)%s", ifNonEmpty(boolStr(!good), ": "+why))
	}
	r.Count("invalid-name returns", n)
	r.Min("invalid-name returns", 1)
}

func boolStr(b bool) string {
	if b {
		return "x"
	}
	return ""
}

// phiLeaves returns the non-phi values v may be, following phis.
func phiLeaves(v ssa.Value) []ssa.Value {
	seen := map[ssa.Value]bool{}
	var out []ssa.Value
	var visit func(ssa.Value)
	visit = func(x ssa.Value) {
		if seen[x] {
			return
		}
		seen[x] = true
		if p, ok := x.(*ssa.Phi); ok {
			for _, e := range p.Edges {
				visit(e)
			}
			return
		}
		out = append(out, x)
	}
	visit(v)
	return out
}

// reslicedOnTheWay reports whether v is (through phis, appends and cells) a
// re-slice x[a:b] of another slice.
func reslicedOnTheWay(v ssa.Value) bool {
	seen := map[ssa.Value]bool{}
	var visit func(ssa.Value, int) bool
	visit = func(x ssa.Value, depth int) bool {
		if x == nil || seen[x] || depth > 30 {
			return false
		}
		seen[x] = true
		switch t := x.(type) {
		case *ssa.Slice:
			if _, isSlice := t.X.Type().Underlying().(*types.Slice); isSlice {
				return true
			}
		case *ssa.Phi:
			for _, e := range t.Edges {
				if visit(e, depth+1) {
					return true
				}
			}
		case *ssa.Call:
			if an.IsCallTo(t, "builtin:append") {
				return visit(t.Call.Args[0], depth+1)
			}
		case *ssa.UnOp:
			if a, ok := t.X.(*ssa.Alloc); ok && a.Referrers() != nil {
				for _, ref := range *a.Referrers() {
					if st, ok := ref.(*ssa.Store); ok && st.Addr == ssa.Value(a) && visit(st.Val, depth+1) {
						return true
					}
				}
			}
		}
		return false
	}
	return visit(v, 0)
}

// ---------------------------------------------------------------------------
// C14 / C05: the parsed patch object of the library is immutable

// libraryFileImmutable: (*patch.File).Apply and its helpers never write a
// field of the shared *patch.File and never hand out the ADDRESS of one (a
// buffer kept on the File and reused between calls makes one call's result
// alias the next call's scratch space: seed C05-9). Loading a field (the
// FileSet pointer, the compiled program) is reading.
func libraryFileImmutable(r *an.Run, rule string) {
	r.Rule(rule)
	f := fn(r, patchP, "File.Apply")
	if f == nil {
		return
	}
	isFile := func(t types.Type) bool {
		if p, ok := t.Underlying().(*types.Pointer); ok {
			t = p.Elem()
		}
		return an.IsNamed(t, an.Module+"/patch", "File")
	}
	n := 0
	for _, g := range helperGroup(f, 2) {
		for _, b := range g.Blocks {
			for _, in := range b.Instrs {
				fa, ok := in.(*ssa.FieldAddr)
				if !ok || !isFile(fa.X.Type()) || fa.Referrers() == nil {
					continue
				}
				n++
				for _, u := range *fa.Referrers() {
					switch x := u.(type) {
					case *ssa.UnOp:
						if x.Op == token.MUL {
							continue // a load
						}
					case *ssa.DebugRef:
						continue
					case *ssa.FieldAddr, *ssa.IndexAddr:
						// address arithmetic below the field: judged at its own uses (conservatively a hand-out)
					}
					key := short(g) + "|File." + fieldNameOf(fa)
					if st, isStore := u.(*ssa.Store); isStore && st.Addr == ssa.Value(fa) {
						r.Fail(key+"|write", u.Pos(), "%s writes field %s of the shared *patch.File: a parsed patch is immutable, and applying it must not leave anything behind for the next call", short(g), fieldNameOf(fa))
						continue
					}
					r.Fail(key+"|address", u.Pos(), "%s takes the address of field %s of the shared *patch.File and hands it on (%s): state kept on the File between calls (a reused buffer, a cache) makes one Apply's result depend on, or alias, another's", short(g), fieldNameOf(fa), strings.TrimSpace(u.String()))
				}
			}
		}
	}
	if len(r.Failing()) == 0 || n > 0 {
		r.Pass(short(f)+"|file-fields-only-read", f.Pos(), "%d accesses to fields of the shared *patch.File in Apply and its helpers: all are loads", n)
	}
	r.Count("accesses to patch.File fields", n)
	r.Min("accesses to patch.File fields", 2)
	positionTableOnlyGrows(r)
}

// positionTableOnlyGrows: the one token.FileSet of a run (of a parsed patch) is
// shared by every file and every concurrent Apply call; go/token locks it and
// the rules here trust that it is append-only. The module therefore only ever
// adds files to it and looks positions up: it never removes a file
// (RemoveFile) or replaces its contents (Read) — a call that drops "its own"
// files cannot tell them from those of a call still in flight.
func positionTableOnlyGrows(r *an.Run) {
	nUses := 0
	for _, g := range r.P.ModuleFuncs() {
		for _, c := range an.Calls(g) {
			callee := c.Common().StaticCallee()
			if callee == nil || callee.Signature.Recv() == nil || an.ShortType(callee.Signature.Recv().Type()) != "*token.FileSet" {
				continue
			}
			nUses++
			switch callee.Name() {
			case "RemoveFile", "Read":
				r.Fail(short(g)+"|FileSet."+callee.Name(), c.Pos(), "%s calls token.FileSet.%s on the position table shared by all files and all concurrent Apply calls: positions another file still uses stop resolving (comments are misplaced, File() returns nil)", short(g), callee.Name())
			}
		}
	}
	r.Count("uses of the shared position table", nUses)
	r.Min("uses of the shared position table", 5)
	r.Pass("position-table-only-grows", 0, "%d calls to methods of the shared token.FileSet in the module: files are added and positions looked up, nothing is removed or replaced", nUses)
}

// ---------------------------------------------------------------------------
// C07: the file that receives the validated bytes starts empty

func c07WrittenFileStartsEmpty(r *an.Run, m *runModel) {
	r.Rule("R4-the-written-file-holds-exactly-the-validated-bytes")
	trunc := int64(-1)
	if pk := r.P.ByP["os"]; pk != nil {
		if c, ok := pk.Types.Scope().Lookup("O_TRUNC").(*types.Const); ok {
			trunc, _ = an.ConstIntOf(c.Val())
		}
	}
	excl := int64(-1)
	if pk := r.P.ByP["os"]; pk != nil {
		if c, ok := pk.Types.Scope().Lookup("O_EXCL").(*types.Const); ok {
			excl, _ = an.ConstIntOf(c.Val())
		}
	}
	n := 0
	for _, s := range sinksOfRun(r, m) {
		h := an.StaticCallee(s.call)
		if h == nil || !an.InModule(h) || h.Blocks == nil || h == r.P.Func(mainP, "mainCmd.preview") {
			continue
		}
		for _, g := range helperGroup(h, 2) {
			for _, c := range an.CallsTo(g, "(*os.File).Write", "(*os.File).WriteString", "(*os.File).WriteAt") {
				n++
				recv := c.Common().Args[0]
				good, why := false, "the file written to is not one this function created or truncated"
				for _, call := range creatingCalls(recv) {
					switch {
					case an.IsCallTo(call, "os.CreateTemp", "os.Create"):
						good = true
					case an.IsCallTo(call, "os.OpenFile"):
						flags, isc := an.ConstInt(call.Call.Args[1])
						if isc && (flags&trunc != 0 || flags&excl != 0) {
							good = true
						} else {
							good, why = false, "os.OpenFile without O_TRUNC / O_EXCL: what the file held before stays behind the new bytes when they are shorter"
						}
					case an.IsCallTo(call, "os.Open"):
						good, why = false, "os.Open opens read-only"
					}
				}
				r.Check(good, short(g)+"|written-file-starts-empty", c.Pos(), "%s writes the validated bytes into a file that starts empty (created by os.CreateTemp / os.Create, or opened with O_TRUNC / O_EXCL)%s", short(g), ifNonEmpty(boolStr(!good), ": "+why))
			}
			for _, c := range an.CallsTo(g, "os.WriteFile") {
				n++
				r.Pass(short(g)+"|written-file-starts-empty|os.WriteFile", c.Pos(), "os.WriteFile truncates before writing")
			}
		}
	}
	r.Count("file writes in the write arm", n)
	r.Min("file writes in the write arm", 1)
}

// ---------------------------------------------------------------------------
// C10 / C15: every file that was read and parsed is handed to the patches

// everyParsedFileReachesApply: in one iteration of Run's file loop, once the
// failure edges of loading (read / parse errors) and the --skip-generated arm
// are removed, every path passes (*patchRunner).Apply. Whether a change
// applies to a file (package, imports, pattern) is decided by the matcher on
// the parsed file and by nothing else: a cheaper pre-filter on the raw bytes
// (seed C10-9: "does the source mention the import?") skips files the guards
// would admit.
func everyParsedFileReachesApply(r *an.Run, m *runModel, rule string) {
	r.Rule(rule)
	f := m.run
	hdr := m.loop.Loop.Header
	var removed []an.CtrlEdge
	// failure edges of every (…, error) call between the start of the iteration and Apply
	removed = append(removed, errorFailEdges(f)...)
	// the skip-generated arm: the true edge of a branch on the generated-code predicate
	gate, _, _ := generatedGate(r, m)
	for _, c := range an.Calls(f) {
		if gate == nil || c != ssa.CallInstruction(gate) {
			continue
		}
		if v, ok := c.(*ssa.Call); ok {
			for _, br := range an.BranchesOn(f, v) {
				removed = append(removed, an.CtrlEdge{Block: br.If.Block(), Succ: br.EdgeWhen(true)})
			}
			// the predicate may be the right operand of `opts.SkipGenerated && pred(f)`: the true edge of the
			// block that evaluates it
			if iff, ok := v.Block().Instrs[len(v.Block().Instrs)-1].(*ssa.If); ok {
				if c2, pos := an.StripNot(iff.Cond); c2 == ssa.Value(v) {
					succ := 0
					if !pos {
						succ = 1
					}
					removed = append(removed, an.CtrlEdge{Block: v.Block(), Succ: succ})
				}
			}
		}
	}
	var starts []*ssa.BasicBlock
	for _, s := range hdr.Succs {
		if m.loop.Loop.Blocks[s] {
			starts = append(starts, s)
		}
	}
	skip := skipEdges(removed)
	reach := an.Reach(starts, func(b *ssa.BasicBlock, i int) bool {
		return b == m.apply.Block() || skip(b, i)
	})
	escapes := false
	for b := range reach {
		if b == m.apply.Block() {
			continue
		}
		for i, s := range b.Succs {
			if s == hdr && !skip(b, i) {
				escapes = true
			}
		}
		if len(b.Succs) == 0 {
			if _, isRet := b.Instrs[len(b.Instrs)-1].(*ssa.Return); isRet {
				escapes = true
			}
		}
	}
	r.Check(!escapes && reach[m.apply.Block()], short(f)+"|every-parsed-file-reaches-apply", m.apply.Pos(), "apart from read / parse failures and the --skip-generated arm, no path of an iteration reaches the next file without handing this one to (*patchRunner).Apply: nothing but the matcher decides whether the changes apply to a file")
}

// ---------------------------------------------------------------------------
// C15: the working directory is the logical one, and nothing resolves links

// c15LogicalPaths: relative arguments are made absolute by joining them to
// the working directory, absolute ones are kept as spelled; both spellings of
// one file must give one key. That holds when the working directory is what
// os.Getwd reports (the logical $PWD) and nothing in the program resolves
// symbolic links (filepath.EvalSymlinks, os.Readlink): with a physical working
// directory `x.go` and `$PWD/x.go` name one file under two keys (seed C15-9),
// and a writer that resolves links turns two names into one file (C12-8).
func c15LogicalPaths(r *an.Run, rule string) {
	r.Rule(rule)
	mainFn := r.P.Func(mainP, "main")
	if mainFn == nil {
		r.Undecided("anchor|main.main", 0, "main.main not found")
		return
	}
	n := 0
	for _, e := range an.ExternalCalls(r.P.ReachableModuleFuncs(mainFn)) {
		n++
		if e.Callee == "path/filepath.EvalSymlinks" || e.Callee == "os.Readlink" {
			r.Fail(short(e.In)+"|"+e.Callee, e.Site.Pos(), "%s calls %s: gopatch identifies a file by the path it was given (made absolute lexically); resolving symbolic links anywhere gives one file two identities, or two names one file", short(e.In), e.Callee)
		}
	}
	r.Pass("no-link-resolution", 0, "%d external call sites reachable from main: none resolves symbolic links", n)
	// Getwd wiring
	rm := fn(r, mainP, "runMain")
	if rm == nil {
		return
	}
	wired := 0
	for _, in := range an.StoresIn(rm) {
		st, ok := in.(*ssa.Store)
		if !ok {
			continue
		}
		fa, ok := st.Addr.(*ssa.FieldAddr)
		if !ok || fieldNameOf(fa) != "Getwd" {
			continue
		}
		wired++
		fv, isFn := an.Unwrap(st.Val).(*ssa.Function)
		r.Check(isFn && fv.String() == "os.Getwd", short(rm)+"|Getwd", st.Pos(), "the working directory is what os.Getwd reports (the logical directory the user's relative and absolute spellings agree on); found %s", an.Describe(an.Unwrap(st.Val)))
	}
	r.Check(wired == 1, short(rm)+"|Getwd-wired", rm.Pos(), "runMain wires mainCmd.Getwd once (found %d)", wired)
}

// ---------------------------------------------------------------------------
// C16: what ReadString returns together with io.EOF is processed

// partialLineAtEOF: (*bufio.Reader).ReadString / ReadBytes return the data
// read before the error together with the error; at io.EOF that is the last,
// unterminated line. A loop that leaves on err == io.EOF without looking at
// the data silently drops the last entry of a file that does not end in a
// newline (seed C16-9: the last patch of a -P list is neither loaded nor
// reported).
func partialLineAtEOF(r *an.Run, rule string) {
	r.Rule(rule)
	n := 0
	for _, f := range r.P.ModuleFuncs() {
		if strings.Contains(an.FuncPkgPath(f), "/tools") {
			continue
		}
		// ReadLine is not one of them: it "either returns a non-nil line or it returns an error, never both"
		for _, c := range an.CallsTo(f, "(*bufio.Reader).ReadString", "(*bufio.Reader).ReadBytes") {
			call, ok := c.(*ssa.Call)
			if !ok {
				continue
			}
			n++
			data := an.ExtractOf(call, 0)
			res := call.Call.Signature().Results()
			errs := an.ExtractOf(call, res.Len()-1)
			key := short(f) + "|" + lastSegment(an.CalleeName(c))
			if len(errs) == 0 || len(data) == 0 {
				r.Fail(key, c.Pos(), "%s discards the data or the error of %s", short(f), an.CalleeName(c))
				continue
			}
			// the edges taken when the error is non-nil (or equal to io.EOF)
			var fail []an.CtrlEdge
			for _, cse := range an.EqCases(f, func(v ssa.Value) bool { return v == ssa.Value(errs[0]) }) {
				if an.IsNilConst(cse.Key) {
					fail = append(fail, edgeTo(cse.If.Block(), cse.Else))
				} else if g := an.GlobalLoaded(cse.Key); g != nil && g.Name() == "EOF" {
					fail = append(fail, edgeTo(cse.If.Block(), cse.Target))
				}
			}
			bad := false
			for _, e := range fail {
				if e.Succ < 0 {
					continue
				}
				region := an.Reach([]*ssa.BasicBlock{e.Block.Succs[e.Succ]}, func(b *ssa.BasicBlock, i int) bool { return b.Succs[i] == call.Block() })
				used := false
				for _, u := range *data[0].Referrers() {
					if _, dbg := u.(*ssa.DebugRef); dbg {
						continue
					}
					if region[u.Block()] {
						used = true
					}
				}
				// the data may have been consumed before the error is looked at
				for _, u := range *data[0].Referrers() {
					if _, dbg := u.(*ssa.DebugRef); dbg {
						continue
					}
					if u.Block() == call.Block() || (u.Block().Dominates(e.Block) && u.Block() != e.Block.Succs[e.Succ]) {
						used = true
					}
				}
				if !used {
					bad = true
				}
			}
			r.Check(!bad && len(fail) > 0, key, c.Pos(), "on the way out at io.EOF / on error, %s still looks at the data %s returned with it (the last line of a file without a final newline arrives together with io.EOF)", short(f), lastSegment(an.CalleeName(c)))
		}
	}
	r.Count("ReadString-style calls", n)
	r.Pass("readstring-sites", 0, "%d (*bufio.Reader).ReadString / ReadBytes call(s) in the module", n)
}

// ---------------------------------------------------------------------------
// C17: one FileSet for the patch and the targets

// oneFileSet: the engine's import machinery positions added imports with the
// FileSet captured when the patch was compiled (ImportReplacer.Fset). That is
// only meaningful if the target files are parsed into that very FileSet.
func oneFileSet(r *an.Run, rule string) {
	r.Rule(rule)
	// library
	if f := fn(r, patchP, "File.Apply"); f != nil {
		n := 0
		for _, g := range helperGroup(f, 2) {
			for _, c := range an.CallsTo(g, parserParse, formatNode) {
				a := c.Common().Args
				fs := a[0]
				if an.IsCallTo(c, formatNode) {
					fs = a[1]
				}
				if nonDebugUses(c) == 0 && an.IsCallTo(c, parserParse) {
					continue
				}
				n++
				fs = actualIn(f, fs) // a helper shared with the command is given the receiver's FileSet at the call
				r.Check(strings.HasSuffix(an.PathIn(fs, f), ".fset") && an.Root(an.Unwrap(fs)) != nil && isFieldOfRecv(fs, f, g), short(g)+"|fileset|"+lastSegment(an.CalleeName(c)), c.Pos(), "%s works on the FileSet of the parsed patch (the receiver's fset), the one the compiled import replacers hold (found %s)", lastSegment(an.CalleeName(c)), an.Describe(an.Unwrap(fs)))
			}
		}
		r.Count("FileSet uses in File.Apply", n)
		r.Min("FileSet uses in File.Apply", 2)
	}
	if f := fn(r, patchP, "Parse"); f != nil {
		var compileFS, storedFS ssa.Value
		for _, c := range an.Calls(f) {
			if sc := an.StaticCallee(c); sc != nil && short(sc) == "internal/engine.Compile" {
				compileFS = c.Common().Args[0]
			}
		}
		for _, in := range an.StoresIn(f) {
			if st, ok := in.(*ssa.Store); ok {
				if fa, ok := st.Addr.(*ssa.FieldAddr); ok && fieldNameOf(fa) == "fset" {
					storedFS = st.Val
				}
			}
		}
		r.Check(compileFS != nil && compileFS == storedFS, short(f)+"|fileset-kept", f.Pos(), "patch.Parse keeps the FileSet the patch was compiled with")
	}
	// CLI
	if m := buildRunModel(r); m != nil {
		f := m.run
		var loadFS, runnerFS ssa.Value
		for _, c := range an.Calls(f) {
			sc := an.StaticCallee(c)
			if sc == nil {
				continue
			}
			switch sc {
			case r.P.Func(mainP, "loadPatches"):
				loadFS = c.Common().Args[0]
			case r.P.Func(mainP, "newPatchRunner"):
				runnerFS = c.Common().Args[0]
			}
		}
		parseFS := m.parse.Call.Args[0]
		if p, ok := an.Unwrap(parseFS).(*ssa.Parameter); ok && p.Parent() != f && an.Actual(p) != nil {
			parseFS = an.Actual(p)
		}
		r.Check(loadFS != nil && an.Unwrap(parseFS) == an.Unwrap(loadFS), short(f)+"|fileset|parse", m.parse.Pos(), "Run parses the targets into the FileSet the patches were loaded into")
		if runnerFS != nil {
			r.Check(an.Unwrap(runnerFS) == an.Unwrap(loadFS), short(f)+"|fileset|runner", f.Pos(), "and hands the same FileSet to the patch runner")
		}
	}
}

func nonDebugUses(c ssa.CallInstruction) int {
	v, ok := c.(ssa.Value)
	if !ok || v.Referrers() == nil {
		return 0
	}
	n := 0
	for _, u := range *v.Referrers() {
		if _, dbg := u.(*ssa.DebugRef); !dbg {
			n++
		}
	}
	return n
}

// isFieldOfRecv: v is (as seen from anchor) a load of a field of anchor's receiver.
func isFieldOfRecv(v ssa.Value, anchor, in *ssa.Function) bool {
	recv := recvValue(anchor)
	if recv == nil {
		return false
	}
	root := an.Root(an.Unwrap(v))
	for steps := 0; steps < 4; steps++ {
		if u, ok := root.(*ssa.UnOp); ok {
			root = an.Root(u.X)
			continue
		}
		break
	}
	if root == ssa.Value(recv) {
		return true
	}
	if p, ok := root.(*ssa.Parameter); ok && p.Parent() != anchor {
		if a := an.Actual(p); a != nil {
			return isFieldOfRecv(a, anchor, anchor)
		}
	}
	return false
}

// ---------------------------------------------------------------------------
// C19: positions are computed against the bytes of the user's file

// patchBytesUnaltered: the byte slice read from the patch file is handed down
// to the sectioner as it is — LoadReader → parseAndCompile → parse.Parse →
// parseProgram → section.Split (and patch.Parse → parse.Parse). Line and
// column of every diagnostic are offsets into that slice; a slice that was
// trimmed, re-sliced or copied on the way shifts all of them (seed C19-9).
func patchBytesUnaltered(r *an.Run, rule string) {
	r.Rule(rule)
	n := 0
	check := func(f *ssa.Function, calleeMatches func(ssa.CallInstruction) bool, isSource func(ssa.Value) bool, what string) {
		if f == nil {
			return
		}
		for _, c := range an.Calls(f) {
			if !calleeMatches(c) {
				continue
			}
			for _, a := range c.Common().Args {
				if an.ShortType(a.Type()) != "[]byte" {
					continue
				}
				n++
				r.Check(isSource(an.Unwrap(a)), short(f)+"|passes-bytes-on|"+an.TrimModule(an.CalleeName(c)), c.Pos(), "%s hands %s on unaltered (found %s)", short(f), what, an.Describe(an.Unwrap(a)))
			}
		}
	}
	staticTo := func(names ...string) func(ssa.CallInstruction) bool {
		return func(c ssa.CallInstruction) bool {
			sc := an.StaticCallee(c)
			if sc == nil {
				return false
			}
			for _, nm := range names {
				if short(sc) == nm {
					return true
				}
			}
			return false
		}
	}
	paramBytes := func(f *ssa.Function) func(ssa.Value) bool {
		return func(v ssa.Value) bool {
			p, ok := v.(*ssa.Parameter)
			return ok && p.Parent() == f && an.ShortType(p.Type()) == "[]byte"
		}
	}
	// LoadReader: what io.ReadAll returned goes to l.parseAndCompile (a function value)
	if f := fn(r, mainP, "patchLoader.LoadReader"); f != nil {
		var read ssa.Value
		for _, c := range an.CallsTo(f, "io.ReadAll", "io/ioutil.ReadAll") {
			if ex := an.ExtractOf(c.(*ssa.Call), 0); len(ex) > 0 {
				read = ex[0]
			}
		}
		for _, c := range an.Calls(f) {
			if c.Common().IsInvoke() || an.StaticCallee(c) != nil {
				continue
			}
			if _, isBuiltin := c.Common().Value.(*ssa.Builtin); isBuiltin {
				continue
			}
			for _, a := range c.Common().Args {
				if an.ShortType(a.Type()) == "[]byte" {
					n++
					r.Check(read != nil && an.Unwrap(a) == read, short(f)+"|passes-bytes-on|parseAndCompile", c.Pos(), "LoadReader hands the bytes it read to the parser unaltered (found %s)", an.Describe(an.Unwrap(a)))
				}
			}
		}
	}
	if f := fn(r, mainP, "parseAndCompile"); f != nil {
		check(f, staticTo("internal/parse.Parse"), paramBytes(f), "the patch source")
	}
	if f := fn(r, patchP, "Parse"); f != nil {
		check(f, staticTo("internal/parse.Parse"), paramBytes(f), "the patch source")
	}
	if f := fn(r, parseP, "Parse"); f != nil {
		check(f, staticTo("(*internal/parse.parser).parseProgram"), paramBytes(f), "the patch source")
	}
	if f := fn(r, parseP, "parser.parseProgram"); f != nil {
		check(f, staticTo("internal/parse/section.Split"), paramBytes(f), "the patch source")
	}
	if f := fn(r, sectRel, "Split"); f != nil {
		// the file is registered with the length of that very slice, and the splitter scans it
		p := paramAt(f, 2)
		sized := false
		for _, c := range an.CallsTo(f, "(*go/token.FileSet).AddFile") {
			a := c.Common().Args
			if lc, ok := a[len(a)-1].(*ssa.Call); ok && an.IsCallTo(lc, "builtin:len") && lc.Call.Args[0] == ssa.Value(p) {
				sized = true
			}
		}
		n++
		r.Check(sized, short(f)+"|file-size", f.Pos(), "the token.File of the patch is registered with the length of the source it is given")
		stored := false
		for _, in := range an.StoresIn(f) {
			if st, ok := in.(*ssa.Store); ok {
				if fa, ok := st.Addr.(*ssa.FieldAddr); ok && fieldNameOf(fa) == "content" && st.Val == ssa.Value(p) {
					stored = true
				}
			}
		}
		r.Check(stored, short(f)+"|splitter-content", f.Pos(), "the splitter scans that very slice")
	}
	r.Count("hand-overs of the patch source", n)
	r.Min("hand-overs of the patch source", 5)
}

// ---------------------------------------------------------------------------
// C13 / C19: line positions are read before the marker strip moves them

// positionsReadBeforeStrip: splitPatch strips the '-' / '+' marker by
// mutating the section's lines in place (Text = Text[1:], StartPos++). Every
// caller that also needs the ORIGINAL positions of those lines (the start of
// the patch, which becomes the position of the implicit leading '...') must
// read them before that call: a read after it sees column 2 instead of 1 for
// a first line that carries a marker, and the outcome then depends on whether
// the pattern begins with a '-' line or with a context line (seed C13-8).
func positionsReadBeforeStrip(r *an.Run, rule string) {
	r.Rule(rule)
	isLineStartPos := func(fa *ssa.FieldAddr) bool {
		return fieldNameOf(fa) == "StartPos" && strings.HasSuffix(an.ShortType(fa.X.Type()), "section.Line")
	}
	// functions that (transitively) write / read Line.StartPos
	writes, reads := map[*ssa.Function]bool{}, map[*ssa.Function]bool{}
	for _, f := range r.P.ModuleFuncs() {
		for _, b := range f.Blocks {
			for _, in := range b.Instrs {
				fa, ok := in.(*ssa.FieldAddr)
				if !ok || !isLineStartPos(fa) || fa.Referrers() == nil {
					continue
				}
				for _, u := range *fa.Referrers() {
					switch x := u.(type) {
					case *ssa.Store:
						if x.Addr == ssa.Value(fa) {
							// initialising a line that is being built is not a mutation of a shared one
							if _, fresh := an.Root(fa.X).(*ssa.Alloc); !fresh {
								writes[f] = true
							}
						}
					case *ssa.UnOp:
						reads[f] = true
					}
				}
			}
		}
	}
	closure := func(seed map[*ssa.Function]bool) map[*ssa.Function]bool {
		out := map[*ssa.Function]bool{}
		for f := range seed {
			out[f] = true
		}
		for changed := true; changed; {
			changed = false
			for _, f := range r.P.ModuleFuncs() {
				if out[f] {
					continue
				}
				for _, c := range an.Calls(f) {
					if sc := an.StaticCallee(c); sc != nil && out[sc] {
						out[f] = true
						changed = true
					}
				}
			}
		}
		return out
	}
	directWriters := writes
	readers := closure(reads)
	writersAll := closure(directWriters)
	n := 0
	for _, f := range r.P.ModuleFuncs() {
		if directWriters[f] {
			continue
		}
		for _, c := range an.Calls(f) {
			w := an.StaticCallee(c)
			if w == nil || !writersAll[w] || w == f {
				continue
			}
			// only hand-overs of a whole section count: a helper of the splitter that is given one line
			// to strip is part of the strip itself, and the splitter reads the adjusted position on purpose
			whole := false
			for _, a := range c.Common().Args {
				if sl, ok := a.Type().Underlying().(*types.Slice); ok && strings.HasSuffix(an.ShortType(sl.Elem()), "section.Line") {
					whole = true
				}
			}
			if !whole {
				continue
			}
			n++
			// reads of line positions in f that can execute after this call
			after := an.ReachFromSuccs(c.Block(), nil)
			var late ssa.Instruction
			for _, b := range f.Blocks {
				for _, in := range b.Instrs {
					rd := false
					switch x := in.(type) {
					case ssa.CallInstruction:
						if sc := an.StaticCallee(x); sc != nil && readers[sc] && !writersAll[sc] {
							rd = true
						}
					case *ssa.FieldAddr:
						if isLineStartPos(x) {
							rd = true
						}
					}
					if !rd {
						continue
					}
					if after[b] && b != c.Block() || b == c.Block() && an.InstrBlockIndex(in) > an.InstrBlockIndex(c) {
						late = in
					}
				}
			}
			key := short(f) + "|positions-before|" + an.TrimModule(an.CalleeName(c))
			if late == nil {
				r.Pass(key, c.Pos(), "%s reads the positions of the section's lines only before %s moves them past the '-'/'+' marker", short(f), short(w))
			} else {
				r.Fail(key, late.Pos(), "%s reads a line position after %s has advanced the lines past their '-'/'+' marker in place: the start of the patch (the position of the implicit leading '...') then depends on whether the first line carries a marker", short(f), short(w))
			}
		}
	}
	r.Count("callers of the marker strip", n)
	r.Min("callers of the marker strip", 1)
}

// creatingCalls returns the calls whose result the value v is (through phis,
// tuple extracts, local variables, parameters bound at their only call site
// and results of private helpers) — the calls that produced the object, not
// the calls that produced their arguments.
func creatingCalls(v ssa.Value) []*ssa.Call {
	var out []*ssa.Call
	seen := map[ssa.Value]bool{}
	var visit func(ssa.Value, int)
	visit = func(x ssa.Value, depth int) {
		if x == nil || seen[x] || depth > 30 {
			return
		}
		seen[x] = true
		switch t := x.(type) {
		case *ssa.Phi:
			for _, e := range t.Edges {
				visit(e, depth+1)
			}
		case *ssa.Extract:
			visit(t.Tuple, depth+1)
		case *ssa.MakeInterface:
			visit(t.X, depth+1)
		case *ssa.ChangeInterface:
			visit(t.X, depth+1)
		case *ssa.ChangeType:
			visit(t.X, depth+1)
		case *ssa.TypeAssert:
			visit(t.X, depth+1)
		case *ssa.UnOp:
			if al, ok := t.X.(*ssa.Alloc); ok && al.Referrers() != nil {
				for _, u := range *al.Referrers() {
					if st, ok := u.(*ssa.Store); ok && st.Addr == ssa.Value(al) {
						visit(st.Val, depth+1)
					}
				}
			}
		case *ssa.Parameter:
			if a := an.Actual(t); a != nil {
				visit(a, depth+1)
			}
		case *ssa.Call:
			if h := an.StaticCallee(t); h != nil && an.InModule(h) && h.Blocks != nil {
				for _, ret := range an.Returns(h) {
					for _, res := range ret.Results {
						if types.Identical(res.Type(), v.Type()) {
							visit(res, depth+1)
						}
					}
				}
				return
			}
			out = append(out, t)
		}
	}
	visit(v, 0)
	return out
}

// callThroughWrapper finds in f a call `w(..., g, ...)` to a module function w
// that calls its function-typed parameter on every path that returns without
// an error (open a file, hand it to the callback, close it), where g is a
// function literal or method value that in turn always calls target before it
// returns without an error. It returns that call of f, or nil.
func callThroughWrapper(f, target *ssa.Function) ssa.Instruction {
	for _, c := range an.Calls(f) {
		w := an.StaticCallee(c)
		if w == nil || !an.InModule(w) || w.Blocks == nil {
			continue
		}
		for i, a := range c.Common().Args {
			if i >= len(w.Params) {
				continue
			}
			if _, isFunc := w.Params[i].Type().Underlying().(*types.Signature); !isFunc {
				continue
			}
			var g *ssa.Function
			switch v := a.(type) {
			case *ssa.MakeClosure:
				g, _ = v.Fn.(*ssa.Function)
			case *ssa.Function:
				g = v
			}
			if g == nil || g.Blocks == nil {
				continue
			}
			// the wrapper invokes its parameter before every successful return
			var inv ssa.Instruction
			for _, wc := range an.Calls(w) {
				if wc.Common().Value == ssa.Value(w.Params[i]) {
					inv = wc
				}
			}
			if inv == nil || successWithout(w, inv) != nil {
				continue
			}
			// the callback reaches the target before every successful return
			var act ssa.Instruction
			for _, gc := range an.Calls(g) {
				if an.StaticCallee(gc) == target {
					act = gc
				}
			}
			if act == nil || successWithout(g, act) != nil {
				continue
			}
			return c
		}
	}
	return nil
}

// sameLine lists v and, when v is string(b) of a byte slice, b: two views of
// the same line of text.
func sameLine(v ssa.Value) []ssa.Value {
	out := []ssa.Value{v}
	if cv, ok := v.(*ssa.Convert); ok {
		if sl, isSlice := cv.X.Type().Underlying().(*types.Slice); isSlice {
			if b, isBasic := sl.Elem().Underlying().(*types.Basic); isBasic && b.Kind() == types.Byte {
				out = append(out, cv.X)
			}
		}
	}
	return out
}

// lineReaderCalls: reads of one line from a buffered reader; the data they
// hand back is meaningful together with a non-nil error (the unterminated last
// line comes with io.EOF).
var lineReaderCalls = []string{"(*bufio.Reader).ReadSlice", "(*bufio.Reader).ReadString", "(*bufio.Reader).ReadBytes", "(*bufio.Reader).ReadLine"}

// readerCallIn returns the one line-reading call of loop l, or nil.
func readerCallIn(l *an.Loop) *ssa.Call {
	var out *ssa.Call
	for b := range l.Blocks {
		for _, in := range b.Instrs {
			if c, ok := in.(*ssa.Call); ok && an.IsCallTo(c, lineReaderCalls...) {
				if out != nil {
					return nil
				}
				out = c
			}
		}
	}
	return out
}

// lineOfReader walks from the text handed to the loader back to the line a
// reader call produced: string conversion, and removal of the line terminator
// ("\n", then "\r") — what bufio.ScanLines does. It returns the reader call.
func lineOfReader(v ssa.Value) *ssa.Call {
	for steps := 0; steps < 8; steps++ {
		switch x := v.(type) {
		case *ssa.Convert:
			v = x.X
		case *ssa.Extract:
			if c, ok := x.Tuple.(*ssa.Call); ok && an.IsCallTo(c, lineReaderCalls...) && x.Index == 0 {
				return c
			}
			return nil
		case *ssa.Call:
			if an.IsCallTo(x, "strings.TrimSuffix", "bytes.TrimSuffix") {
				if sfx, isc := an.ConstString(x.Call.Args[1]); isc && (sfx == "\n" || sfx == "\r" || sfx == "\r\n") {
					v = x.Call.Args[0]
					continue
				}
				if sfx := constantBytes(x.Call.Args[1]); sfx == "\n" || sfx == "\r" || sfx == "\r\n" {
					v = x.Call.Args[0]
					continue
				}
			}
			return nil
		default:
			return nil
		}
	}
	return nil
}

// constantBytes: v is []byte("…") of a constant string.
func constantBytes(v ssa.Value) string {
	if cv, ok := v.(*ssa.Convert); ok {
		if s, isc := an.ConstString(cv.X); isc {
			return s
		}
	}
	return "\x00"
}
