package rules

import (
	"go/token"
	"go/types"
	"strings"

	"golang.org/x/tools/go/ssa"

	"gpcheck/internal/an"
)

// runModel is the structural view of mainCmd.Run shared by C06, C07, C12, C14,
// C16 and C18: the options value, the per-file loop and the calls that are the
// pipeline's events. Everything is found through resolved callees and types.
type runModel struct {
	run      *ssa.Function
	opts     ssa.Value // *options returned by newArgParser
	loop     *an.IndexLoop
	readFile *ssa.Call // os.ReadFile
	content  ssa.Value // its []byte
	filename ssa.Value // its argument
	parse    *ssa.Call // parser.ParseFile on the content (in Run, or in the helper that loads a file)
	// loadSite is the instruction of Run's loop that stands for "the file is read and parsed": the
	// parser.ParseFile call itself, or the call to the private helper that contains it. parsed is the
	// *ast.File as Run sees it.
	loadSite ssa.Instruction
	parsed   ssa.Value
	apply    *ssa.Call // (*patchRunner).Apply
	fout     ssa.Value
	comments ssa.Value
	matched  ssa.Value
	errsPhi  *ssa.Phi // the `errors` accumulator at the loop header (nil when the accumulator is an object)
	acc      *errAcc  // the per-file error accumulator, in either form
	// optWritten: option fields assigned somewhere in the module (not constant)
	optWritten map[string]bool
}

const (
	osReadFile     = "os.ReadFile"
	parserParse    = "go/parser.ParseFile"
	formatNode     = "go/format.Node"
	importsProcess = "golang.org/x/tools/imports.Process"
	logPrintf      = "(*log.Logger).Printf"
	writerWrite    = "(io.Writer).Write"
)

func buildRunModel(r *an.Run) *runModel {
	f := fn(r, mainP, "mainCmd.Run")
	if f == nil {
		return nil
	}
	m := &runModel{run: f}
	bad := func(what string) *runModel {
		r.Undecided(short(f)+"|model|"+what, f.Pos(), "mainCmd.Run: cannot find %s; the pipeline rules anchored on it decide nothing", what)
		return nil
	}
	for _, c := range an.Calls(f) {
		if sc := an.StaticCallee(c); sc != nil && sc == r.P.Func(mainP, "newArgParser") {
			if ex := an.ExtractOf(c.(*ssa.Call), 1); len(ex) > 0 {
				m.opts = ex[0]
			}
		}
	}
	if m.opts == nil {
		// the options may reach Run through a private helper that parses and validates the arguments: the
		// *options result of a call in Run whose every non-nil return is the options newArgParser made
		nap := r.P.Func(mainP, "newArgParser")
		for _, c := range an.Calls(f) {
			call, ok := c.(*ssa.Call)
			h := an.StaticCallee(c)
			if !ok || h == nil || !an.InModule(h) || h.Blocks == nil || h == nap {
				continue
			}
			res := h.Signature.Results()
			for i := 0; i < res.Len(); i++ {
				if !strings.HasSuffix(an.ShortType(res.At(i).Type()), "*main.options") && an.ShortType(res.At(i).Type()) != "*options" {
					continue
				}
				fromParser, n := true, 0
				for _, ret := range an.Returns(h) {
					if i >= len(ret.Results) {
						continue
					}
					for _, l := range phiLeaves(ret.Results[i]) {
						if an.IsNilConst(l) {
							continue
						}
						n++
						ex, ok := l.(*ssa.Extract)
						if !ok || ex.Index != 1 {
							fromParser = false
							continue
						}
						if pc, ok := ex.Tuple.(*ssa.Call); !ok || an.StaticCallee(pc) != nap {
							fromParser = false
						}
					}
				}
				if fromParser && n > 0 {
					if res.Len() == 1 {
						m.opts = call
					} else if ex := an.ExtractOf(call, i); len(ex) > 0 {
						m.opts = ex[0]
					}
				}
			}
		}
	}
	if m.opts == nil {
		return bad("the options value (second result of newArgParser)")
	}
	// the read: in Run itself, or in a private helper Run calls from its per-file loop
	var rf []ssa.CallInstruction
	for _, g := range helperGroup(f, 2) {
		if g.Name() == "writeFileAtomic" {
			continue // re-reading the target while replacing it is not "the" read
		}
		rf = append(rf, an.CallsTo(g, osReadFile)...)
	}
	if len(rf) > 1 {
		// other files are read too (the patches, a list of them): "the" read is the one made per source
		// file — in a loop of Run, or in a helper called from a loop of Run
		inLoop := func(b *ssa.BasicBlock) bool { return b.Parent() == f && an.LoopOf(f, b) != nil }
		perFile := map[*ssa.Function]bool{}
		for _, c := range an.Calls(f) {
			if callee := an.StaticCallee(c); callee != nil && inLoop(c.Block()) {
				for _, g := range helperGroup(callee, 1) {
					perFile[g] = true
				}
			}
		}
		var kept []ssa.CallInstruction
		for _, c := range rf {
			if inLoop(c.Block()) || (c.Parent() != f && perFile[c.Parent()]) {
				kept = append(kept, c)
			}
		}
		rf = kept
	}
	if len(rf) != 1 {
		return bad("exactly one os.ReadFile call")
	}
	m.readFile = rf[0].(*ssa.Call)
	readSite := siteIn(f, m.readFile)
	if readSite == nil {
		return bad("the place in Run where the file is read")
	}
	var readContent ssa.Value // the bytes where they are read
	if ex := an.ExtractOf(m.readFile, 0); len(ex) > 0 {
		readContent = ex[0]
	}
	m.content, m.filename = readContent, m.readFile.Call.Args[0]
	if readSite != ssa.Instruction(m.readFile) {
		// read inside a helper: the content is the helper's []byte result that is the ReadFile result, the
		// name is the argument bound to the parameter that names the file
		hc, ok := readSite.(*ssa.Call)
		if !ok {
			return bad("the result of the helper that reads the file")
		}
		m.content = nil
		h := an.StaticCallee(hc)
		for i := 0; h != nil && i < h.Signature.Results().Len(); i++ {
			if an.ShortType(h.Signature.Results().At(i).Type()) != "[]byte" {
				continue
			}
			fromRead := true
			for _, leaf := range returnedLeaves(h, i, 0) {
				// the bytes handed back are the very bytes that were read (not a normalised / trimmed copy:
				// they are echoed by --print-only and diffed against by --diff)
				if !an.IsNilConst(leaf) {
					same := false
					for _, pl := range phiLeaves(leaf) {
						if pl == readContent {
							same = true
						} else if !an.IsNilConst(pl) {
							same = false
							break
						}
					}
					if !same {
						fromRead = false
					}
				}
			}
			if ex := an.ExtractOf(hc, i); fromRead && len(ex) > 0 {
				m.content = ex[0]
			}
		}
		if m.content == nil {
			for i := 0; h != nil && i < h.Signature.Results().Len(); i++ {
				if an.ShortType(h.Signature.Results().At(i).Type()) != "[]byte" {
					continue
				}
				for _, leaf := range returnedLeaves(h, i, 0) {
					if !an.IsNilConst(leaf) && derivesFromAcross(leaf, readContent) {
						r.Fail(short(f)+"|model|loaded-bytes-are-the-bytes-read", hc.Pos(), "%s hands back bytes that are computed from what os.ReadFile returned (normalised, trimmed, converted) instead of those bytes themselves: they are what --print-only echoes for an unmatched file and what --diff compares against, so they must be the file's bytes", short(h))
						return nil
					}
				}
			}
			return bad("the bytes read from the file as a result of the loading helper")
		}
		if p, isParam := an.Unwrap(m.filename).(*ssa.Parameter); isParam && an.Actual(p) != nil {
			m.filename = an.Actual(p)
		} else {
			return bad("the file name handed to the loading helper")
		}
	}
	l := an.LoopOf(f, readSite.Block())
	if l == nil {
		return bad("the per-file loop around os.ReadFile")
	}
	m.loop = an.AsIndexLoop(l)
	if m.loop == nil {
		return bad("an index/range form of the per-file loop")
	}
	for _, g := range helperGroup(f, 2) {
		for _, c := range an.CallsTo(g, parserParse) {
			call := c.(*ssa.Call)
			// the parse of the target: inside the loop, after the read, fed (possibly through a transformation) by what was read
			site := siteIn(f, call)
			if site == nil || !m.loop.Loop.Blocks[site.Block()] || m.parse != nil {
				continue
			}
			if !(site == readSite || an.InstrDominates(readSite, site)) {
				continue
			}
			if derivesFromAcross(call.Call.Args[2], readContent) {
				m.parse, m.loadSite = call, site
			}
		}
	}
	if m.parse == nil {
		return bad("the parser.ParseFile call on the file's content")
	}
	if m.loadSite == ssa.Instruction(m.parse) {
		if ex := an.ExtractOf(m.parse, 0); len(ex) > 0 {
			m.parsed = ex[0]
		}
	} else if hc, ok := m.loadSite.(*ssa.Call); ok {
		for i := 0; i < hc.Call.Signature().Results().Len(); i++ {
			if an.ShortType(hc.Call.Signature().Results().At(i).Type()) == "*ast.File" {
				if ex := an.ExtractOf(hc, i); len(ex) > 0 {
					m.parsed = ex[0]
				}
			}
		}
	}
	if m.parsed == nil {
		return bad("the parsed file as Run sees it")
	}
	for _, c := range an.Calls(f) {
		if sc := an.StaticCallee(c); sc != nil && sc == r.P.Func(mainP, "patchRunner.Apply") {
			m.apply = c.(*ssa.Call)
		}
	}
	if m.apply == nil {
		return bad("the (*patchRunner).Apply call")
	}
	get := func(i int) ssa.Value {
		if ex := an.ExtractOf(m.apply, i); len(ex) > 0 {
			return ex[0]
		}
		return nil
	}
	m.fout, m.comments, m.matched = get(0), get(1), get(2)
	if m.matched == nil {
		return bad("the matched flag returned by (*patchRunner).Apply")
	}
	m.acc = findErrAcc(r, f, m.loop.Loop)
	if m.acc == nil {
		return bad("the per-file error accumulator (a []error carried around the loop, or a local object that collects errors through its methods)")
	}
	m.errsPhi = m.acc.phi
	m.optWritten = map[string]bool{}
	for _, g := range r.P.ModuleFuncs() {
		for _, b := range g.Blocks {
			for _, in := range b.Instrs {
				if st, ok := in.(*ssa.Store); ok {
					if fa, ok := st.Addr.(*ssa.FieldAddr); ok {
						if name := optField(&ssa.UnOp{Op: token.MUL, X: fa}); name != "" {
							m.optWritten[name] = true
						}
					}
				}
			}
		}
	}
	r.Saw("model main.mainCmd.Run: options, file loop, ReadFile, ParseFile, Apply, errors accumulator")
	return m
}

// optLoad reports whether v is a load of opts.<name>.
func (m *runModel) optLoad(v ssa.Value, name string) bool {
	u, ok := v.(*ssa.UnOp)
	if !ok || u.Op != token.MUL {
		return false
	}
	fa, ok := u.X.(*ssa.FieldAddr)
	return ok && fa.X == m.opts && fieldNameOf(fa) == name
}

// optBranches lists the branches of Run on opts.<name>.
func (m *runModel) optBranches(name string) []an.BranchOn {
	var out []an.BranchOn
	for _, b := range m.run.Blocks {
		if iff, ok := b.Instrs[len(b.Instrs)-1].(*ssa.If); ok {
			inner, pos := an.StripNot(iff.Cond)
			if m.optLoad(inner, name) {
				out = append(out, an.BranchOn{If: iff, Pos: pos})
			}
		}
	}
	return out
}

// optField returns the name of the options field v is a load of ("" if none).
// The options object is identified by its type — there is one per process —
// so the same hypothesis applies inside predicate helpers that take it.
func optField(v ssa.Value) string {
	var t types.Type
	name := ""
	switch x := v.(type) {
	case *ssa.UnOp:
		fa, ok := x.X.(*ssa.FieldAddr)
		if !ok || x.Op != token.MUL {
			return ""
		}
		t, name = fa.X.Type(), fieldNameOf(fa)
	case *ssa.Field:
		t, name = x.X.Type(), fieldNameOfStruct(x.X.Type(), x.Field)
	default:
		return ""
	}
	if p, ok := t.Underlying().(*types.Pointer); ok {
		t = p.Elem()
	}
	if n, ok := t.(*types.Named); ok && n.Obj().Name() == "options" && n.Obj().Pkg() != nil && n.Obj().Pkg().Path() == an.Module {
		return name
	}
	return ""
}

// hyp builds the hypothesis "these option fields / these SSA booleans have
// these values". An option field that some module function assigns is not
// constant during the run and is left free.
func (m *runModel) hyp(opts map[string]bool, vals map[ssa.Value]bool) an.Assume {
	return func(v ssa.Value) (bool, bool) {
		if x, ok := vals[v]; ok {
			return x, true
		}
		if name := optField(v); name != "" && !m.optWritten[name] {
			if x, ok := opts[name]; ok {
				return x, true
			}
		}
		return false, false
	}
}

// unreachableUnder reports whether block b of Run cannot execute under the
// hypothesis (path-sensitive through boolean variables and predicate helpers).
func (m *runModel) unreachableUnder(b *ssa.BasicBlock, h an.Assume) bool {
	return !an.ReachUnder(m.run.Blocks[0], h, nil)[b]
}

// iterationUnder is iterationFrom under a hypothesis.
func (m *runModel) iterationUnder(from ssa.Instruction, h an.Assume) map[*ssa.BasicBlock]bool {
	hdr := m.loop.Loop.Header
	return an.ReachUnder(from.Block(), h, func(b *ssa.BasicBlock, i int) bool { return b.Succs[i] == hdr })
}

// decides counts the branches of Run the hypothesis decides.
func (m *runModel) decides(h an.Assume) int { return an.DecidedBranches(m.run, h) }

// edgesWhen returns the CFG edges taken when the branches have value val.
func edgesWhen(brs []an.BranchOn, val bool) []an.CtrlEdge {
	var out []an.CtrlEdge
	for _, br := range brs {
		out = append(out, an.CtrlEdge{Block: br.If.Block(), Succ: br.EdgeWhen(val)})
	}
	return out
}

func skipEdges(edges []an.CtrlEdge) func(*ssa.BasicBlock, int) bool {
	return func(b *ssa.BasicBlock, i int) bool {
		for _, e := range edges {
			if e.Block == b && e.Succ == i {
				return true
			}
		}
		return false
	}
}

// iterationFrom returns the blocks of the current loop iteration reachable
// from the instruction `from` (its own block included) without re-entering the
// loop header and without taking the removed edges.
func (m *runModel) iterationFrom(from ssa.Instruction, removed []an.CtrlEdge) map[*ssa.BasicBlock]bool {
	hdr := m.loop.Loop.Header
	skip := func(b *ssa.BasicBlock, i int) bool {
		if b.Succs[i] == hdr {
			return true
		}
		return skipEdges(removed)(b, i)
	}
	reach := an.ReachFromSuccs(from.Block(), skip)
	reach[from.Block()] = true
	return reach
}

// callsAfter lists the calls in the given blocks, excluding those of
// from.Block() that precede `from`.
func callsAfter(blocks map[*ssa.BasicBlock]bool, from ssa.Instruction) []ssa.CallInstruction {
	var out []ssa.CallInstruction
	for _, b := range from.Parent().Blocks {
		if !blocks[b] {
			continue
		}
		start := 0
		if b == from.Block() {
			start = an.InstrBlockIndex(from) + 1
		}
		for _, in := range b.Instrs[start:] {
			if c, ok := in.(ssa.CallInstruction); ok {
				out = append(out, c)
			}
		}
	}
	return out
}

// isStdoutWrite reports whether c writes to cmd.Stdout and returns the bytes.
func isStdoutWrite(c ssa.CallInstruction) (ssa.Value, bool) {
	if !an.IsCallTo(c, writerWrite) {
		return nil, false
	}
	if an.Path(c.Common().Value) != "cmd.Stdout" {
		return nil, false
	}
	return c.Common().Args[0], true
}

// unreachableWithout reports whether block b cannot be reached from the entry
// of its function once the given edges are removed.
func unreachableWithout(b *ssa.BasicBlock, removed []an.CtrlEdge) bool {
	reach := an.Reach([]*ssa.BasicBlock{b.Parent().Blocks[0]}, skipEdges(removed))
	return !reach[b]
}

// ---- boundary table (A1) ---------------------------------------------------

// purePkgs never mutate the file system, spawn processes or read ambient
// state through the functions gopatch calls.
var purePkgs = setOf(
	"fmt", "strings", "bytes", "sort", "strconv", "unicode", "unicode/utf8", "errors", "reflect", "io", "bufio", "log",
	"go/ast", "go/token", "go/scanner", "go/parser", "go/printer", "go/format", "path/filepath", "path",
	"go.uber.org/multierr", "github.com/google/go-intervals/intervalset", "golang.org/x/tools/go/ast/astutil",
	"github.com/pkg/diff", "github.com/jessevdk/go-flags", "golang.org/x/tools/imports", "io/fs", "math", "slices", "maps", "cmp", "iter", "unicode/utf16", "math/bits", "container/list", "container/heap", "text/tabwriter", "regexp", "sync", "sync/atomic",
)

// pureExceptions are functions of otherwise pure packages that touch the file
// system or ambient state.
var fsReaders = setOf("path/filepath.Walk", "path/filepath.WalkDir", "path/filepath.Abs", "path/filepath.EvalSymlinks", "path/filepath.Glob",
	"os.ReadFile", "os.Open", "os.Stat", "os.Lstat", "os.Getwd", "os.ReadDir", "os.IsNotExist", "os.IsExist", "os.Readlink",
	"(*os.File).Close", "(*os.File).Name", "(*os.File).Read", "(*os.File).Stat", "os.Exit", "os.Getenv", "os.LookupEnv")

// fsMutators create, modify or remove files.
var fsMutators = setOf("os.WriteFile", "os.Create", "os.CreateTemp", "os.OpenFile", "os.Rename", "os.Remove", "os.RemoveAll",
	"os.Mkdir", "os.MkdirAll", "os.MkdirTemp", "os.Chmod", "os.Chown", "os.Lchown", "os.Chtimes", "os.Truncate", "os.Symlink", "os.Link",
	"(*os.File).Write", "(*os.File).WriteString", "(*os.File).WriteAt", "(*os.File).Chmod", "(*os.File).Chown", "(*os.File).Truncate",
	"(*os.File).Sync", "(*os.File).ReadFrom",
	"io/ioutil.WriteFile", "io/ioutil.TempFile", "io/ioutil.TempDir")

// classify returns "pure", "fs-read", "fs-mutate", "spawn", "ambient",
// "stream" (a write to an io.Writer value) or "unknown".
func classifyExt(e an.ExtCall) string {
	switch {
	case fsMutators[e.Callee]:
		return "fs-mutate"
	case fsReaders[e.Callee]:
		return "fs-read"
	case e.Pkg == "os/exec" || e.Pkg == "syscall" || e.Callee == "os.StartProcess":
		return "spawn"
	case e.Pkg == "time" || e.Pkg == "math/rand" || e.Pkg == "math/rand/v2" || e.Pkg == "crypto/rand":
		return "ambient"
	case strings.HasPrefix(e.Callee, "os.") || strings.HasPrefix(e.Callee, "(*os."):
		return "unknown"
	case e.Invoke && (e.Callee == writerWrite || e.Callee == "(io.Reader).Read" || e.Callee == "(error).Error" || e.Callee == "(io.Closer).Close"):
		return "stream"
	case e.Invoke && purePkgs[e.Pkg]:
		return "pure"
	case e.Pkg == "dynamic":
		return "dynamic"
	case purePkgs[e.Pkg]:
		return "pure"
	}
	return "unknown"
}
