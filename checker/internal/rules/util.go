package rules

import (
	"go/token"
	"go/types"
	"sort"
	"strings"

	"golang.org/x/tools/go/ssa"

	"gpcheck/internal/an"
)

const (
	engine  = "internal/engine"
	dataRel = "internal/data"
	goastP  = "internal/goast"
	pgoRel  = "internal/pgo"
	augRel  = "internal/pgo/augment"
	parseP  = "internal/parse"
	sectRel = "internal/parse/section"
	patchP  = "patch"
	mainP   = ""

	enginePath = an.Module + "/internal/engine"
	dataPath   = an.Module + "/internal/data"
	goastPath  = an.Module + "/internal/goast"
)

// fn resolves an anchored function; a missing anchor is an undecided
// obligation (it fails the check: a rule that cannot find its subject decides
// nothing).
func fn(r *an.Run, rel, spec string) *ssa.Function {
	f := r.P.Func(rel, spec)
	name := rel + "." + spec
	if rel == "" {
		name = "main." + spec
	}
	if f == nil {
		r.Undecided("anchor|"+name, token.NoPos, "anchored function %s not found in /repo: renamed or removed; the rules anchored on it decide nothing", name)
		return nil
	}
	r.Saw("func " + name)
	return f
}

// closures returns the anonymous functions directly inside f, in order.
func closures(f *ssa.Function) []*ssa.Function { return f.AnonFuncs }

// implementations returns the module's concrete methods named method declared
// on types that implement the interface rel.iface, sorted by name.
func implementations(r *an.Run, rel, iface, method string) []*ssa.Function {
	it := r.P.NamedType(rel, iface)
	if it == nil {
		r.Undecided("anchor|"+rel+"."+iface, token.NoPos, "interface %s.%s not found", rel, iface)
		return nil
	}
	ifc, ok := it.Underlying().(*types.Interface)
	if !ok {
		r.Undecided("anchor|"+rel+"."+iface, token.NoPos, "%s.%s is not an interface", rel, iface)
		return nil
	}
	var out []*ssa.Function
	seen := map[*ssa.Function]bool{}
	for _, pk := range r.P.Pkgs {
		sc := pk.Types.Scope()
		for _, n := range sc.Names() {
			tn, ok := sc.Lookup(n).(*types.TypeName)
			if !ok || tn.IsAlias() {
				continue
			}
			if _, isIface := tn.Type().Underlying().(*types.Interface); isIface {
				continue
			}
			for _, t := range []types.Type{tn.Type(), types.NewPointer(tn.Type())} {
				if !types.Implements(t, ifc) {
					continue
				}
				ms := r.P.SSA.MethodSets.MethodSet(t)
				for i := 0; i < ms.Len(); i++ {
					sel := ms.At(i)
					if sel.Obj().Name() != method || len(sel.Index()) != 1 {
						continue
					}
					f := r.P.SSA.MethodValue(sel)
					if f != nil && f.Synthetic == "" && f.Blocks != nil && !seen[f] {
						seen[f] = true
						out = append(out, f)
					}
				}
			}
		}
	}
	sort.Slice(out, func(i, j int) bool { return out[i].String() < out[j].String() })
	return out
}

// loadOfField reports whether v is a load (or address) of the field named
// field of a value rooted at the function's receiver / parameter named root.
func isPath(v ssa.Value, path string) bool { return an.Path(v) == path }

// callOn reports whether v is the result of calling the method fullName whose
// receiver (first argument) satisfies recv.
func callOn(v ssa.Value, fullName string, recv func(ssa.Value) bool) bool {
	c, ok := v.(*ssa.Call)
	if !ok || !an.IsCallTo(c, fullName) {
		return false
	}
	args := an.CallArgs(c)
	return len(args) > 0 && (recv == nil || recv(args[0]))
}

// isParam reports whether v is the parameter (or spilled copy of it) named n.
func isParam(v ssa.Value, n string) bool {
	switch x := v.(type) {
	case *ssa.Parameter:
		return an.ParamName(x) == n
	case *ssa.UnOp:
		if x.Op == token.MUL {
			if a, ok := x.X.(*ssa.Alloc); ok {
				return an.Path(a) == n
			}
		}
	}
	return false
}

// paramNamed returns fn's parameter with the given position among the
// non-receiver parameters (0-based), or nil.
func paramAt(f *ssa.Function, i int) *ssa.Parameter {
	off := 0
	if f.Signature.Recv() != nil {
		off = 1
	}
	if off+i < len(f.Params) {
		return f.Params[off+i]
	}
	return nil
}

// derivesFromParam reports whether v's backward slice reaches parameter p
// (directly or through its spilled copy).
func derivesFrom(v ssa.Value, roots ...ssa.Value) bool {
	sl := an.BackSlice(v, an.SliceOpts{ThroughCalls: true, ThroughMemory: true})
	for _, p := range roots {
		if p != nil && sl[p] {
			return true
		}
	}
	return false
}

// recvValue returns the receiver parameter of a method.
func recvValue(f *ssa.Function) *ssa.Parameter {
	if f.Signature.Recv() != nil && len(f.Params) > 0 {
		return f.Params[0]
	}
	return nil
}

func short(f *ssa.Function) string { return an.FuncName(f) }

func joinSorted(m map[string]bool) string {
	var ks []string
	for k := range m {
		ks = append(ks, k)
	}
	sort.Strings(ks)
	return strings.Join(ks, ", ")
}

func setOf(xs ...string) map[string]bool {
	m := map[string]bool{}
	for _, x := range xs {
		m[x] = true
	}
	return m
}

func sameSet(a, b map[string]bool) bool {
	if len(a) != len(b) {
		return false
	}
	for k := range a {
		if !b[k] {
			return false
		}
	}
	return true
}

// helperGroup returns f together with the functions of f's own package it
// calls statically (transitively, up to depth levels): the private helpers a
// clean-up refactoring may have extracted from f.
func helperGroup(f *ssa.Function, depth int) []*ssa.Function {
	out := []*ssa.Function{f}
	seen := map[*ssa.Function]bool{f: true}
	frontier := []*ssa.Function{f}
	for d := 0; d < depth; d++ {
		var next []*ssa.Function
		for _, g := range frontier {
			for _, c := range an.Calls(g) {
				sc := an.StaticCallee(c)
				if sc == nil || seen[sc] || sc.Blocks == nil || !(an.FuncPkgPath(sc) == an.FuncPkgPath(f) || inSharedHelperPackage(sc)) {
					continue
				}
				seen[sc] = true
				out = append(out, sc)
				next = append(next, sc)
			}
			for _, a := range g.AnonFuncs {
				if !seen[a] {
					seen[a] = true
					out = append(out, a)
					next = append(next, a)
				}
			}
			// a method or function of the package used as a value (`withFile(path, l.loadList)`): the bound
			// method wrapper stands for the method itself
			for _, b := range g.Blocks {
				for _, in := range b.Instrs {
					for _, op := range in.Operands(nil) {
						var fv *ssa.Function
						switch v := (*op).(type) {
						case *ssa.MakeClosure:
							fv, _ = v.Fn.(*ssa.Function)
						case *ssa.Function:
							if c, isCall := in.(ssa.CallInstruction); isCall && c.Common().Value == ssa.Value(v) {
								continue // a plain static call, handled above
							}
							fv = v
						}
						if fv == nil || fv.Parent() != nil {
							continue
						}
						if fv.Synthetic != "" && len(fv.Blocks) == 1 { // bound method wrapper / thunk
							for _, c := range an.Calls(fv) {
								if sc := an.StaticCallee(c); sc != nil {
									fv = sc
								}
							}
						}
						if seen[fv] || fv.Blocks == nil || !(an.FuncPkgPath(fv) == an.FuncPkgPath(f) || inSharedHelperPackage(fv)) {
							continue
						}
						seen[fv] = true
						out = append(out, fv)
						next = append(next, fv)
					}
				}
			}
		}
		frontier = next
	}
	return out
}

// blockExecutes reports whether, starting at block b and following the CFG
// until `until` (exclusive), some block contains an instruction accepted by ok
// or a static call to a helper one of whose blocks does.
func regionHas(start, until *ssa.BasicBlock, group []*ssa.Function, ok func(ssa.Instruction) bool) bool {
	inHelper := map[*ssa.Function]bool{}
	for _, g := range group[1:] {
		for _, b := range g.Blocks {
			for _, in := range b.Instrs {
				if ok(in) {
					inHelper[g] = true
				}
			}
		}
	}
	reach := an.Reach([]*ssa.BasicBlock{start}, func(b *ssa.BasicBlock, i int) bool { return b == until })
	for b := range reach {
		if b == until {
			continue
		}
		for _, in := range b.Instrs {
			if ok(in) {
				return true
			}
			if c, isCall := in.(ssa.CallInstruction); isCall {
				if sc := an.StaticCallee(c); sc != nil && inHelper[sc] {
					return true
				}
			}
		}
	}
	return false
}

// loadedField returns the name of the struct field v is a load (or value
// projection) of, whatever the struct value is rooted at; "" otherwise.
func loadedField(v ssa.Value) string {
	switch x := v.(type) {
	case *ssa.UnOp:
		if fa, ok := x.X.(*ssa.FieldAddr); ok && x.Op == token.MUL {
			return fieldNameOf(fa)
		}
	case *ssa.Field:
		return fieldNameOfStruct(x.X.Type(), x.Field)
	}
	return ""
}

// rootedAtFreshAlloc reports whether the address/value path of v starts at an
// allocation made in the same function (a value nobody else holds yet).
func rootedAtFreshAlloc(v ssa.Value) bool {
	root := an.Root(v)
	for {
		if u, ok := root.(*ssa.UnOp); ok {
			root = an.Root(u.X)
			continue
		}
		break
	}
	switch root.(type) {
	case *ssa.Alloc, *ssa.MakeMap, *ssa.MakeSlice:
		return true
	}
	return false
}

// ---- helper-aware search ----------------------------------------------------
//
// A rule anchored on function F looks for its constructs in F and in the
// private helpers F calls (a refactoring may have moved a loop or a stage of F
// into a helper); paths are compared as seen from F (an.PathIn: parameters of
// single-call-site helpers denote the arguments they are bound to).

// isLenOfPathIn is isLenOfPath with paths seen from anchor.
func isLenOfPathIn(anchor *ssa.Function, path string) func(ssa.Value) bool {
	return func(v ssa.Value) bool {
		c, ok := v.(*ssa.Call)
		return ok && an.IsCallTo(c, "builtin:len") && an.PathIn(c.Call.Args[0], anchor) == path
	}
}

// findIndexLoopsGroup finds index loops whose bound satisfies pred in f or in
// the helpers of f.
func findIndexLoopsGroup(f *ssa.Function, bound func(ssa.Value) bool) []*an.IndexLoop {
	var out []*an.IndexLoop
	for _, g := range helperGroup(f, 3) {
		out = append(out, findIndexLoops(g, bound)...)
	}
	return out
}

// callsToGroup lists calls to the named callees in f and its helpers.
func callsToGroup(f *ssa.Function, names ...string) []ssa.CallInstruction {
	var out []ssa.CallInstruction
	for _, g := range helperGroup(f, 3) {
		out = append(out, an.CallsTo(g, names...)...)
	}
	return out
}

// inGroup reports whether g belongs to the helper group of f.
func inGroup(f, g *ssa.Function) bool {
	for _, h := range helperGroup(f, 3) {
		if h == g {
			return true
		}
	}
	return false
}

// funcAnywhere resolves an anchored function like fn, but when the exact
// spec is not found looks for the unique function or method of the package
// with the same base name (a function turned into a method, or moved to
// another receiver type).
func funcAnywhere(r *an.Run, rel, spec string) *ssa.Function {
	if f := r.P.Func(rel, spec); f != nil {
		r.Saw("func " + rel + "." + spec)
		return f
	}
	base := spec
	if i := strings.LastIndex(spec, "."); i >= 0 {
		base = spec[i+1:]
	}
	var found []*ssa.Function
	for _, g := range r.P.PkgFuncs(rel) {
		if g.Name() == base && g.Parent() == nil {
			found = append(found, g)
		}
	}
	if len(found) == 1 {
		r.Saw("func " + short(found[0]) + " (moved from " + spec + ")")
		return found[0]
	}
	return fn(r, rel, spec)
}

// helperFailurePropagates: f calls helper g; whenever g returns a non-nil
// error, f returns a failure (non-nil error) without doing anything else that
// matters: the edge taken on err != nil leads only to failure exits.
func helperFailurePropagates(f, g *ssa.Function) bool {
	for _, c := range an.Calls(f) {
		if an.StaticCallee(c) != g {
			continue
		}
		call, ok := c.(*ssa.Call)
		if !ok {
			return false
		}
		res := g.Signature.Results()
		if res.Len() == 0 || !an.IsErrorType(res.At(res.Len()-1).Type()) {
			return false
		}
		var errV ssa.Value = call
		if res.Len() > 1 {
			ex := an.ExtractOf(call, res.Len()-1)
			if len(ex) == 0 {
				return false
			}
			errV = ex[0]
		}
		// returned directly
		for _, ret := range an.Returns(f) {
			if len(ret.Results) > 0 && ret.Results[len(ret.Results)-1] == errV {
				return true
			}
		}
		for _, cse := range an.EqCases(f, func(v ssa.Value) bool { return v == errV }) {
			if !an.IsNilConst(cse.Key) {
				continue
			}
			if an.FailureExit(cse.Else) {
				return true
			}
		}
	}
	return false
}

// returnedLeaves lists the values f may return as result idx, following
// `return helper(...)` / `x, err := helper(...); return x, err` into the
// module helper's own returns (same result index), up to three levels.
func returnedLeaves(f *ssa.Function, idx int, depth int) []ssa.Value {
	var out []ssa.Value
	for _, ret := range an.Returns(f) {
		if idx >= len(ret.Results) {
			continue
		}
		v := ret.Results[idx]
		if ex, ok := v.(*ssa.Extract); ok && depth < 3 {
			if c, ok := ex.Tuple.(*ssa.Call); ok {
				if h := an.StaticCallee(c); h != nil && an.InModule(h) && h.Blocks != nil && ex.Index < h.Signature.Results().Len() {
					out = append(out, returnedLeaves(h, ex.Index, depth+1)...)
					continue
				}
			}
		}
		out = append(out, v)
	}
	return out
}

// matchLoop locates the loop of FileReplacer.Replace over the recorded
// matches, in Replace itself or in a helper it delegates the node stage to.
// It returns the anchor, the function that holds the loop, and the loop.
func matchLoop(r *an.Run) (anchor, holder *ssa.Function, il *an.IndexLoop) {
	f := fn(r, engine, "FileReplacer.Replace")
	if f == nil {
		return nil, nil, nil
	}
	ils := findIndexLoopsGroup(f, isLenOfPathIn(f, "fd.Matches"))
	if len(ils) != 1 {
		return f, nil, nil
	}
	return f, ils[0].Loop.Header.Parent(), ils[0]
}

// sliceAcross is an.BackSlice continued through parameter bindings: a
// parameter of a single-call-site helper depends on the argument bound to it.
func sliceAcross(v ssa.Value) map[ssa.Value]bool { return sliceAcrossIn(nil, v) }

// sliceAcrossIn is sliceAcross from the point of view of pipeline f: a
// parameter of a helper that f's group calls from one site (but another
// pipeline calls too) is bound to the argument at that site.
func sliceAcrossIn(f *ssa.Function, v ssa.Value) map[ssa.Value]bool {
	out := map[ssa.Value]bool{}
	work := []ssa.Value{v}
	for len(work) > 0 {
		x := work[len(work)-1]
		work = work[:len(work)-1]
		for y := range an.BackSlice(x, an.SliceOpts{ThroughCalls: true, ThroughMemory: true}) {
			if out[y] {
				continue
			}
			out[y] = true
			if p, ok := y.(*ssa.Parameter); ok {
				if a := an.Actual(p); a != nil && !out[a] {
					work = append(work, a)
				} else if f != nil {
					if a := actualIn(f, p); a != ssa.Value(p) && !out[a] {
						work = append(work, a)
					}
				}
			}
			// the result of a private helper depends on what the helper returns
			if c, ok := y.(*ssa.Call); ok {
				if h := an.StaticCallee(c); h != nil && an.InModule(h) && h.Blocks != nil && c.Parent() != nil && (an.FuncPkgPath(h) == an.FuncPkgPath(c.Parent()) || inSharedHelperPackage(h)) {
					for _, ret := range an.Returns(h) {
						for _, res := range ret.Results {
							if !out[res] {
								work = append(work, res)
							}
						}
					}
				}
			}
		}
	}
	return out
}

func derivesFromAcross(v ssa.Value, roots ...ssa.Value) bool {
	return derivesFromAcrossIn(nil, v, roots...)
}

func derivesFromAcrossIn(f *ssa.Function, v ssa.Value, roots ...ssa.Value) bool {
	sl := sliceAcrossIn(f, v)
	for _, p := range roots {
		if p != nil && sl[p] {
			return true
		}
	}
	return false
}

// siteIn returns the instruction of f that stands for instruction in: in
// itself when it is in f, otherwise the call in f to the helper (of f's
// helper group) that contains it, transitively; nil when there is none.
func siteIn(f *ssa.Function, in ssa.Instruction) ssa.Instruction {
	g := in.Parent()
	cur := in
	for steps := 0; steps < 4 && g != f; steps++ {
		var next ssa.Instruction
		for _, h := range helperGroup(f, 3) {
			for _, c := range an.Calls(h) {
				if an.StaticCallee(c) == g {
					next = c
				}
			}
		}
		if next == nil {
			return nil
		}
		cur = next
		g = cur.Parent()
	}
	if g != f {
		return nil
	}
	return cur
}

// funcAnywhereQuiet is funcAnywhere without recording an obligation when the
// function is missing.
func funcAnywhereQuiet(r *an.Run, rel, spec string) *ssa.Function {
	if f := r.P.Func(rel, spec); f != nil {
		return f
	}
	base := spec
	if i := strings.LastIndex(spec, "."); i >= 0 {
		base = spec[i+1:]
	}
	var found []*ssa.Function
	for _, g := range r.P.PkgFuncs(rel) {
		if g.Name() == base && g.Parent() == nil {
			found = append(found, g)
		}
	}
	if len(found) == 1 {
		return found[0]
	}
	return nil
}

// emptinessTest recognises a comparison that tests whether a string / slice
// is empty: len(x) == 0, len(x) != 0, len(x) > 0, len(x) < 1, len(x) >= 1,
// x == "", x != "" (either operand order). It returns x and whether the
// comparison is true exactly when x is empty.
func emptinessTest(cmp *ssa.BinOp) (subject ssa.Value, emptyWhenTrue bool, ok bool) {
	x, y, op := cmp.X, cmp.Y, cmp.Op
	flip := func(op token.Token) token.Token {
		switch op {
		case token.LSS:
			return token.GTR
		case token.GTR:
			return token.LSS
		case token.LEQ:
			return token.GEQ
		case token.GEQ:
			return token.LEQ
		}
		return op
	}
	if _, isConst := x.(*ssa.Const); isConst {
		x, y, op = y, x, flip(op)
	}
	if s, isc := an.ConstString(y); isc && s == "" {
		switch op {
		case token.EQL:
			return x, true, true
		case token.NEQ:
			return x, false, true
		}
		return nil, false, false
	}
	lc, isLen := x.(*ssa.Call)
	if !isLen || !an.IsCallTo(lc, "builtin:len") {
		return nil, false, false
	}
	k, isc := an.ConstInt(y)
	if !isc {
		return nil, false, false
	}
	arg := lc.Call.Args[0]
	switch {
	case k == 0 && (op == token.EQL || op == token.LEQ):
		return arg, true, true
	case k == 0 && (op == token.NEQ || op == token.GTR):
		return arg, false, true
	case k == 1 && op == token.LSS:
		return arg, true, true
	case k == 1 && op == token.GEQ:
		return arg, false, true
	}
	return nil, false, false
}

// inGroupOf reports whether g belongs to the helper group of the anchored function rel.spec.
func inGroupOf(r *an.Run, rel, spec string, g *ssa.Function) bool {
	f := r.P.Func(rel, spec)
	return f != nil && inGroup(f, g)
}

// preciseSlice is a backward data slice that descends into same-module
// callees instead of assuming that a result depends on every argument: the
// result of a module function depends on what its returns depend on, and a
// parameter met there stands for the argument of that very call. External
// calls depend on all their arguments.
func preciseSlice(v ssa.Value) map[ssa.Value]bool {
	out := map[ssa.Value]bool{}
	type frame struct {
		call   *ssa.Call
		parent *frame
	}
	var visit func(x ssa.Value, fr *frame, depth int)
	visit = func(x ssa.Value, fr *frame, depth int) {
		if x == nil {
			return
		}
		for y := range an.BackSlice(x, an.SliceOpts{ThroughCalls: false, ThroughMemory: true}) {
			switch t := y.(type) {
			case *ssa.Call:
				if out[y] {
					continue
				}
				out[y] = true
				h := an.StaticCallee(t)
				if h != nil && an.InModule(h) && h.Blocks != nil && depth < 4 {
					for _, ret := range an.Returns(h) {
						for _, res := range ret.Results {
							visit(res, &frame{t, fr}, depth+1)
						}
					}
					continue
				}
				for _, a := range an.CallArgs(t) {
					visit(a, fr, depth)
				}
				if !t.Call.IsInvoke() {
					visit(t.Call.Value, fr, depth)
				}
			case *ssa.Parameter:
				out[y] = true
				if fr != nil && t.Parent() == an.StaticCallee(fr.call) {
					for i, p := range t.Parent().Params {
						if p == t && i < len(fr.call.Call.Args) {
							visit(fr.call.Call.Args[i], fr.parent, depth)
						}
					}
				}
			default:
				out[y] = true
			}
		}
	}
	visit(v, nil, 0)
	return out
}

// isSortCall reports whether c brings its first argument into a total order
// (package sort or package slices).
func isSortCall(c ssa.CallInstruction) bool {
	return an.IsCallTo(c, "sort.Slice", "sort.SliceStable", "sort.Sort", "sort.Stable", "sort.Strings", "sort.Ints",
		"slices.Sort", "slices.SortFunc", "slices.SortStableFunc")
}

// architecturePackages are the packages of the module the rules are anchored
// in. A module package that is none of these is a package of shared helpers
// (code factored out of the command and the library into a place of its own):
// its functions belong to the helper group of whoever calls them.
var architecturePackages = map[string]bool{
	"": true, "patch": true, "internal/engine": true, "internal/data": true, "internal/goast": true,
	"internal/pgo": true, "internal/pgo/augment": true, "internal/parse": true, "internal/parse/section": true,
	"internal/astdiff": true, "internal/text": true, "tools": true,
}

func inSharedHelperPackage(f *ssa.Function) bool {
	if !an.InModule(f) {
		return false
	}
	rel := strings.TrimPrefix(strings.TrimPrefix(an.FuncPkgPath(f), an.Module), "/")
	return !architecturePackages[rel]
}

// actualIn lifts v to f's point of view: while v is a parameter of a helper in
// f's helper group that the group calls from exactly one site, it is replaced
// by the argument at that site. (an.Actual does the same for helpers with one
// call site in the whole program; a helper shared by the command and the
// library has one per pipeline.)
func actualIn(f *ssa.Function, v ssa.Value) ssa.Value {
	for steps := 0; steps < 4; steps++ {
		v = an.Unwrap(v)
		p, ok := v.(*ssa.Parameter)
		if !ok || p.Parent() == f {
			return v
		}
		idx := -1
		for i, q := range p.Parent().Params {
			if q == p {
				idx = i
			}
		}
		var site ssa.CallInstruction
		n := 0
		for _, g := range helperGroup(f, 3) {
			for _, c := range an.Calls(g) {
				if an.StaticCallee(c) == p.Parent() {
					site = c
					n++
				}
			}
		}
		if n != 1 || idx < 0 || idx >= len(site.Common().Args) {
			return v
		}
		v = site.Common().Args[idx]
	}
	return v
}

// changeLoopHost returns the function that holds the change loop of pipeline
// f (the one calling Change.Match): f itself, or the private helper of f's
// group it was moved to.
func changeLoopHost(r *an.Run, f *ssa.Function) *ssa.Function {
	m := r.P.Func(engine, "Change.Match")
	for _, g := range helperGroup(f, 2) {
		for _, c := range an.Calls(g) {
			if m != nil && an.StaticCallee(c) == m {
				return g
			}
		}
	}
	return f
}

// liftIn translates v, a value inside a helper of f's group, to f's point of
// view: a parameter becomes the argument at the helper's (single) call site in
// the group, a field of a struct parameter becomes what the caller stored into
// that field of the struct it hands over (a literal built just before the
// call), and a field of such a field is looked up among the values f itself
// computes. It returns v itself when there is nothing to translate and nil
// when the value cannot be expressed in f.
func liftIn(f *ssa.Function, v ssa.Value) ssa.Value {
	return liftInDepth(f, v, 0)
}

func liftInDepth(f *ssa.Function, v ssa.Value, depth int) ssa.Value {
	if v == nil || depth > 6 {
		return nil
	}
	v = an.Unwrap(v)
	switch x := v.(type) {
	case *ssa.Parameter:
		if x.Parent() == f {
			return v
		}
		a := actualIn(f, x)
		if a == ssa.Value(x) {
			return nil
		}
		return liftInDepth(f, a, depth+1)
	case *ssa.Field:
		base := liftInDepth(f, x.X, depth+1)
		if base == nil {
			return nil
		}
		if base == x.X {
			return v // already in f
		}
		return fieldOfIn(f, base, x.Field, depth)
	case *ssa.UnOp:
		if fa, ok := x.X.(*ssa.FieldAddr); ok && x.Parent() != f {
			// a load through a chain of field addresses rooted at a struct parameter that was spilled to a
			// local (`t0 = local T (p); *t0 = p; &t0.a.b`) or at a pointer parameter
			var path []int
			var root ssa.Value = fa
			for {
				a, ok := root.(*ssa.FieldAddr)
				if !ok {
					break
				}
				path = append([]int{a.Field}, path...)
				root = a.X
			}
			var prm *ssa.Parameter
			switch t := root.(type) {
			case *ssa.Parameter:
				prm = t
			case *ssa.Alloc:
				if t.Referrers() != nil {
					n := 0
					for _, u := range *t.Referrers() {
						if st, ok := u.(*ssa.Store); ok && st.Addr == ssa.Value(t) {
							n++
							prm, _ = st.Val.(*ssa.Parameter)
						}
					}
					if n != 1 {
						prm = nil
					}
				}
			}
			if prm == nil {
				return nil
			}
			base := liftInDepth(f, prm, depth+1)
			for _, idx := range path {
				if base == nil {
					return nil
				}
				base = fieldOfIn(f, base, idx, depth)
			}
			return base
		}
	}
	if in, ok := v.(ssa.Instruction); ok && in.Parent() != f && in.Parent() != nil {
		return nil
	}
	return v
}

// fieldOfIn finds, in f, the value of field idx of the struct value base: when
// base is a load of a local struct variable, what was stored into that field;
// otherwise an existing selection of that field from the same base.
func fieldOfIn(f *ssa.Function, base ssa.Value, idx int, depth int) ssa.Value {
	if ld, ok := base.(*ssa.UnOp); ok {
		if al, ok := ld.X.(*ssa.Alloc); ok && al.Referrers() != nil {
			var val ssa.Value
			n := 0
			for _, u := range *al.Referrers() {
				fa, ok := u.(*ssa.FieldAddr)
				if !ok || fa.Field != idx || fa.Referrers() == nil {
					continue
				}
				for _, w := range *fa.Referrers() {
					if st, ok := w.(*ssa.Store); ok && st.Addr == ssa.Value(fa) {
						val = st.Val
						n++
					}
				}
			}
			if n == 1 {
				return liftInDepth(f, val, depth+1)
			}
			if n > 1 {
				return nil
			}
			// the variable is assigned whole (a range element, a copy): look for a selection of the field
		}
	}
	for _, b := range f.Blocks {
		for _, in := range b.Instrs {
			switch y := in.(type) {
			case *ssa.Field:
				if y.Field == idx && an.Unwrap(y.X) == base {
					return y
				}
			case *ssa.UnOp:
				if fa, ok := y.X.(*ssa.FieldAddr); ok && fa.Field == idx {
					// the same element seen through its address (range element, local copy)
					if x, ok := base.(*ssa.UnOp); ok && x.X == fa.X {
						return y
					}
				}
			}
		}
	}
	return nil
}

// liftStructOf: v is (a load of) a field of a struct reachable from a
// parameter of a helper in f's group; it returns the struct value the field
// belongs to, as f sees it (nil when unknown). Used when the field itself is
// never selected in f.
func liftStructOf(f *ssa.Function, v ssa.Value) ssa.Value {
	x, ok := an.Unwrap(v).(*ssa.UnOp)
	if !ok {
		if fld, ok := an.Unwrap(v).(*ssa.Field); ok {
			return liftIn(f, fld.X)
		}
		return nil
	}
	fa, ok := x.X.(*ssa.FieldAddr)
	if !ok {
		return nil
	}
	var path []int
	var root ssa.Value = fa
	for {
		a, ok := root.(*ssa.FieldAddr)
		if !ok {
			break
		}
		path = append([]int{a.Field}, path...)
		root = a.X
	}
	var prm *ssa.Parameter
	switch t := root.(type) {
	case *ssa.Parameter:
		prm = t
	case *ssa.Alloc:
		if t.Referrers() != nil {
			n := 0
			for _, u := range *t.Referrers() {
				if st, ok := u.(*ssa.Store); ok && st.Addr == ssa.Value(t) {
					n++
					prm, _ = st.Val.(*ssa.Parameter)
				}
			}
			if n != 1 {
				prm = nil
			}
		}
	}
	if prm == nil || len(path) == 0 {
		return nil
	}
	base := liftIn(f, prm)
	for _, idx := range path[:len(path)-1] {
		if base == nil {
			return nil
		}
		base = fieldOfIn(f, base, idx, 0)
	}
	return base
}

// membershipValues returns the boolean(s) that say "the key is in the map" for
// a map lookup: the value itself for a map[K]bool read without comma-ok, the
// second result for a comma-ok lookup (set as map[K]struct{} or any map).
func membershipValues(lk *ssa.Lookup) []ssa.Value {
	if !lk.CommaOk {
		if b, ok := lk.Type().Underlying().(*types.Basic); ok && b.Kind() == types.Bool {
			return []ssa.Value{lk}
		}
		return nil
	}
	var out []ssa.Value
	for _, ex := range an.ExtractOf(lk, 1) {
		out = append(out, ex)
	}
	return out
}
