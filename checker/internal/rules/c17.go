package rules

import (
	"go/token"
	"go/types"
	"strings"

	"golang.org/x/tools/go/ssa"

	"gpcheck/internal/an"
)

func init() {
	register(&Spec{
		ID:  "C17",
		Run: runC17,
		Explanation: "Decides: R1 no comment is constructed — module code outside the pattern parser allocates no ast.Comment / ast.CommentGroup and never writes File.Comments; R2 comment lists only shrink by filtering — the only store to a CommentGroup.List (both copies of cleanupFilePos) assigns a slice built by appending, in a forward loop, elements of that same List; " +
			"R3 containment test — path-sensitive decision table of the filter: a comment is dropped iff c.Pos() >= dr.Start && c.End() <= dr.End of the same interval (lower bound and upper bound, non-strict), intervals with Start == NoPos are ignored, both copies; " +
			"R4 comments of the '+' pattern are never emitted (the replacer compiler maps *ast.CommentGroup to a typed nil); R5 the changelog records spans exactly as given — Changed/Unchanged build span{Start: start, End: end} from their parameters without reordering (inverted regions reported by the differ stay empty); " +
			"R6 in the AST differ, list elements the edit script marks Identity are carried over as unchanged (their comments stay attached in the new snapshot). " +
			"NOT decided: the interval computation itself (astdiff regions + Myers diff + line merging) — algorithmic, not decidable by shape; attachment of comments by go/printer." +
			" R8 edit regions stop at the neighbours' comments (regions[i] reported as computed, monotone comment clamps, position-only classification in commentsFor); R1 also: File.Comments is only assigned the clean-up step's filtered own list." +
			" R9 the text emitted for a file is not a window into a buffer re-used for another file (C03-R12)." +
			" R10 the astdiff snapshot is taken with ast.NewCommentMap(fset, file, file.Comments) of the file being patched, on every path." +
			" R11 adding an import leaves the other import blocks alone: call sites of astutil.AddNamedImport / AddImport (which merge all import declarations into the first) are reported — one known finding (F19)." +
			" R12 walkSlice answers equal only behind the edit script (or for empty lists / lists of plain values); R13 the file written holds only the new bytes (= C16-R1).",
		Trusted:     commonTrusted,
		Assumptions: commonAssumptions,
	})
}

func runC17(r *an.Run) {
	c17NoCommentConstructed(r)
	c17FilterOnly(r)
	c17PlusCommentsDropped(r)
	c17SpansAsGiven(r)
	c17IdentityUnchanged(r)
	oneFileSet(r, "R7-one-fileset-for-patch-and-targets")
	c17EditRegions(r)
	// the text (and so the comments) emitted for a file is that file's
	noTransientBufferRetained(r, "R9-kept-bytes-are-not-a-window-into-a-reused-buffer")
	snapshotKnowsTheComments(r, "R10-the-snapshot-knows-the-comments")
	importsAddedWithoutMerging(r, "R11-adding-an-import-leaves-other-import-blocks-alone")
	snapshotAdvances(r, "R10-the-snapshot-knows-the-comments")
	equalityOnlyThroughTheEditScript(r, "R12-lists-are-equal-only-through-the-edit-script")
	// a comment appears once: the file written holds only the new bytes (no in-place write without truncation)
	c16AtomicReplace(r)
	relabel(r, "R1-no-destructive-open", "R13-the-file-written-holds-only-the-new-bytes")
}

func c17NoCommentConstructed(r *an.Run) {
	r.Rule("R1-no-comment-is-constructed")
	n := 0
	for _, f := range r.P.ModuleFuncs() {
		pk := an.FuncPkgPath(f)
		if strings.Contains(pk, "/tools") || strings.Contains(pk, "/internal/pgo") {
			continue
		}
		n++
		for _, b := range f.Blocks {
			for _, in := range b.Instrs {
				switch x := in.(type) {
				case *ssa.Alloc:
					el := x.Type().Underlying().(*types.Pointer).Elem()
					if an.IsNamed(el, "go/ast", "Comment") || an.IsNamed(el, "go/ast", "CommentGroup") {
						r.Fail(short(f)+"|alloc|"+an.ShortType(el), x.Pos(), "%s constructs an %s: a comment that was not in the input could reach the output", short(f), an.ShortType(el))
					}
				case *ssa.Store:
					if fa, ok := x.Addr.(*ssa.FieldAddr); ok && an.IsNamed(fa.X.Type(), "go/ast", "File") && fieldNameOf(fa) == "Comments" {
						// the one accepted form: the file's own list as the clean-up step handed it back — an
						// ordered sub-sequence of that very list (groups that lost all their comments are dropped)
						if why := filteredOwnComments(r, x.Val, fa.X); why == "" {
							r.Pass(short(f)+"|File.Comments|filtered", x.Pos(), "%s stores into File.Comments what the clean-up step returned for that file's own list: a fresh, ordered sub-sequence of it", short(f))
						} else {
							r.Fail(short(f)+"|File.Comments", x.Pos(), "%s rewrites File.Comments (%s)", short(f), why)
						}
					}
					// an element of a comment-group list that was handed in (File.Comments seen through a parameter)
					if ia, ok := x.Addr.(*ssa.IndexAddr); ok && isCommentGroupList(ia.X.Type()) {
						if _, fresh := an.Root(ia.X).(*ssa.MakeSlice); !fresh {
							r.Fail(short(f)+"|comment-list-element", x.Pos(), "%s overwrites an element of a list of comment groups it did not create", short(f))
						}
					}
				case *ssa.Call:
					// append into (a re-slice of) a list of comment groups that was handed in or is held by the
					// file writes into the file's own backing array: groups get shifted and duplicated
					if an.IsCallTo(x, "builtin:append") && isCommentGroupList(x.Type()) {
						for _, o := range sliceOrigins(x.Call.Args[0]) {
							switch o.(type) {
							case *ssa.Const, *ssa.MakeSlice:
								continue
							}
							if zeroCapacityView(o) {
								continue // s[:0:0]: append cannot write into s's array
							}
							r.Fail(short(f)+"|append-into-comment-list", x.Pos(), "%s appends to (a re-slice of) a list of comment groups it did not create (%s): with spare capacity this rewrites File.Comments in place — the caller keeps the old length, so trailing groups appear twice", short(f), an.Describe(o))
						}
					}
				}
			}
		}
	}
	r.Pass("no-comment-construction", 0, "no ast.Comment / ast.CommentGroup allocation and no write to File.Comments in %d module functions (pattern parser excluded)", n)
	r.Count("functions scanned for comment construction", n)
	r.Min("functions scanned for comment construction", 150)
}

// filterSite describes where a comment list is filtered: function g, how to
// recognise the list being filtered and the two interval bounds inside g, and
// the value that becomes the new list.
type filterSite struct {
	g      *ssa.Function
	isList func(ssa.Value) bool // the slice value being filtered
	isLo   func(ssa.Value) bool // interval start
	isHi   func(ssa.Value) bool // interval end
	result []ssa.Value          // value(s) that become the new list
}

// analyzeFilter checks R2 (only own elements, in order) and R3 (containment
// table) for one filter site. key prefixes the obligation keys.
func analyzeFilter(r *an.Run, key string, fs filterSite, pos token.Pos) {
	g := fs.g
	r.Rule("R2-comment-lists-only-shrink")
	var il *an.IndexLoop
	for _, l := range an.Loops(g) {
		if x := an.AsIndexLoop(l); x != nil {
			if c, ok := x.Bound.(*ssa.Call); ok && an.IsCallTo(c, "builtin:len") && fs.isList(c.Call.Args[0]) {
				il = x
			}
		}
	}
	if !r.Check(il != nil && il.Start == 0 && il.Step == 1, key+"|list-loop", pos, "the new list is built by a forward loop over the old list of the same comment group") {
		return
	}
	var app *ssa.Call
	for b := range il.Loop.Blocks {
		for _, in := range b.Instrs {
			if c, ok := in.(*ssa.Call); ok && an.IsCallTo(c, "builtin:append") {
				app = c
			}
		}
	}
	elem := func(v ssa.Value) bool {
		u, ok := v.(*ssa.UnOp)
		if !ok {
			return false
		}
		ia, ok := u.X.(*ssa.IndexAddr)
		return ok && ia.Index == il.Index && fs.isList(ia.X)
	}
	good := app != nil
	if good {
		good = false
		for v := range an.BackSlice(app.Call.Args[1], an.SliceOpts{ThroughMemory: true}) {
			if elem(v) {
				good = true
			}
		}
		for v := range an.BackSlice(app.Call.Args[1], an.SliceOpts{ThroughMemory: true}) {
			if c, ok := v.(*ssa.Call); ok && !an.IsCallTo(c, "builtin:append") {
				good = false
			}
		}
	}
	r.Check(good, key+"|appends-own-elements", pos, "only elements of the same list are appended, in their original order: no comment is invented, duplicated or moved")
	okVal := len(fs.result) > 0
	for _, res := range fs.result {
		found := false
		for v := range an.BackSlice(res, an.SliceOpts{}) {
			if app != nil && v == ssa.Value(app) {
				found = true
			}
		}
		if !found && !an.IsNilConst(res) {
			okVal = false
		}
	}
	r.Check(okVal, key+"|stores-filtered", pos, "what becomes the new list is that filtered slice")

	r.Rule("R3-containment-test")
	posOf := func(v ssa.Value, method string) bool {
		c, ok := v.(*ssa.Call)
		return ok && an.IsCallTo(c, "(*go/ast.Comment)."+method) && elem(c.Call.Args[0])
	}
	var classifyWith func(c ssa.Value, posOf func(ssa.Value, string) bool, isLo, isHi func(ssa.Value) bool, depth int) string
	classify := func(c ssa.Value) string { return classifyWith(c, posOf, fs.isLo, fs.isHi, 0) }
	classifyWith = func(c ssa.Value, posOf func(ssa.Value, string) bool, isLo, isHi func(ssa.Value) bool, depth int) string {
		if call, ok := c.(*ssa.Call); ok && depth == 0 {
			// a private predicate of the comment and the interval: its own
			// decision table must be the containment test (or its negation)
			return containmentPredicate(call, func(v ssa.Value) bool { return elem(v) }, classifyWith)
		}
		cmp, ok := c.(*ssa.BinOp)
		if !ok {
			return ""
		}
		fs := filterSite{isLo: isLo, isHi: isHi}
		switch {
		case posOf(cmp.X, "Pos") && fs.isLo(cmp.Y):
			switch cmp.Op {
			case token.GEQ:
				return "pos>=start"
			case token.LSS:
				return "not:pos>=start"
			}
		case posOf(cmp.X, "End") && fs.isHi(cmp.Y):
			switch cmp.Op {
			case token.LEQ:
				return "end<=end"
			case token.GTR:
				return "not:end<=end"
			}
		case fs.isLo(cmp.X) && posOf(cmp.Y, "Pos"):
			switch cmp.Op {
			case token.LEQ:
				return "pos>=start"
			case token.GTR:
				return "not:pos>=start"
			}
		case fs.isHi(cmp.X) && posOf(cmp.Y, "End"):
			switch cmp.Op {
			case token.GEQ:
				return "end<=end"
			case token.LSS:
				return "not:end<=end"
			}
		}
		return ""
	}
	hdr := il.Loop.Header
	paths, err := an.EnumeratePathsFrom(hdr.Succs[0], classify, func(b *ssa.BasicBlock) bool { return b == hdr }, 256, false)
	if err != nil {
		r.Undecided(key+"|containment", pos, "cannot extract the containment test of the comment filter: %v", err)
		return
	}
	get := func(p an.DPath, a string) (bool, bool) {
		if v, ok := p.Atoms[a]; ok {
			return v, true
		}
		if v, ok := p.Atoms["not:"+a]; ok {
			return !v, true
		}
		return false, false
	}
	good = len(paths) >= 2
	for _, p := range paths {
		kept := false
		for _, b := range p.Blocks {
			if app != nil && b == app.Block() {
				kept = true
			}
		}
		lo, loK := get(p, "pos>=start")
		hi, hiK := get(p, "end<=end")
		inside := loK && lo && hiK && hi
		outside := (loK && !lo) || (hiK && !hi)
		if in, k := get(p, "inside"); k {
			inside, outside = in, !in
		}
		if !(inside || outside) {
			good = false
		}
		if inside && kept || outside && !kept {
			good = false
		}
	}
	r.Check(good, key+"|containment", pos, "a comment is dropped exactly when it lies entirely inside the changed interval: c.Pos() >= start && c.End() <= end (%d paths)", len(paths))
}

func c17FilterOnly(r *an.Run) {
	nList := 0
	cleanups := cleanupFuncs(r)
	if len(cleanups) == 1 {
		nList++ // CLI and library share the filter
	}
	for _, cf := range cleanups {
		f := cf
		r.Rule("R2-comment-lists-only-shrink")
		var listStore *ssa.Store
		for _, g := range helperGroup(cf, 2) {
			for _, in := range an.StoresIn(g) {
				if st, ok := in.(*ssa.Store); ok {
					if fa, ok := st.Addr.(*ssa.FieldAddr); ok && an.IsNamed(fa.X.Type(), "go/ast", "CommentGroup") && fieldNameOf(fa) == "List" {
						listStore = st
						f = g
					}
				}
			}
		}
		if !r.Check(listStore != nil, short(f)+"|list-store", f.Pos(), "cleanupFilePos filters comment lists") {
			continue
		}
		nList++
		cg := listStore.Addr.(*ssa.FieldAddr).X
		isOwnList := func(v ssa.Value) bool {
			u, ok := v.(*ssa.UnOp)
			if !ok {
				return false
			}
			fa, ok := u.X.(*ssa.FieldAddr)
			return ok && fa.X == cg && fieldNameOf(fa) == "List"
		}
		isBound := func(field string) func(ssa.Value) bool {
			return func(v ssa.Value) bool { return strings.HasSuffix(an.Path(v), "."+field) && !isAddr(v) }
		}
		site := filterSite{g: f, isList: isOwnList, isLo: isBound("Start"), isHi: isBound("End"), result: []ssa.Value{listStore.Val}}
		var loArg, hiArg ssa.Value
		var scanIn *ssa.Function // when the helper receives the whole interval: where its bounds are compared
		// the filter may be a generic "append those that satisfy the predicate" helper:
		// cg.List = appendIf(nil, cg.List, func(c *ast.Comment) bool { … })
		if call, ok := listStore.Val.(*ssa.Call); ok {
			if dstIdx, srcIdx, keepIdx, isFilter := asFilterHelper(an.StaticCallee(call)); isFilter && keepIdx < len(call.Call.Args) {
				h := an.StaticCallee(call)
				r.Check(isOwnList(call.Call.Args[srcIdx]), short(f)+"|list-loop", call.Pos(), "the new list is built by a forward loop over the old list of the same comment group (%s: a full forward loop over the list it is handed)", short(h))
				r.Check(an.IsNilConst(call.Call.Args[dstIdx]), short(f)+"|appends-own-elements", call.Pos(), "only elements of the same list are appended, in their original order (%s appends to the empty list it is handed exactly the elements of the source that the predicate accepts)", short(h))
				r.Pass(short(f)+"|stores-filtered", listStore.Pos(), "what becomes the new list is that filtered slice")
				var pred *ssa.Function
				switch v := call.Call.Args[keepIdx].(type) {
				case *ssa.MakeClosure:
					pred, _ = v.Fn.(*ssa.Function)
				case *ssa.Function:
					pred = v
				}
				r.Rule("R3-containment-test")
				if r.Check(pred != nil && len(pred.Params) == 1, short(f)+"|containment", call.Pos(), "the predicate handed to %s is a function literal of the clean-up", short(h)) {
					predicateIsContainment(r, short(f), pred, isBound("Start"), isBound("End"), call.Pos())
					roots := map[string]bool{}
					for _, b := range pred.Blocks {
						for _, in := range b.Instrs {
							if cmp, ok := in.(*ssa.BinOp); ok {
								for _, v := range []ssa.Value{cmp.X, cmp.Y} {
									if p := an.Path(v); strings.HasSuffix(p, ".Start") || strings.HasSuffix(p, ".End") {
										roots[p[:strings.LastIndex(p, ".")]] = true
									}
								}
							}
						}
					}
					r.Check(len(roots) == 1, short(f)+"|same-interval", listStore.Pos(), "both bounds are those of one and the same interval (%s)", joinSorted(roots))
				}
				c17NoPosIgnored(r, f, listStore)
				continue
			}
		}
		// the filter may have been extracted into a private helper: cg.List = helper(cg.List, lo, hi)
		if call, ok := listStore.Val.(*ssa.Call); ok {
			if h := an.StaticCallee(call); h != nil && an.InModule(h) && h.Blocks != nil {
				li := -1
				for i, a := range call.Call.Args {
					if isOwnList(a) {
						li = i
					}
				}
				if r.Check(li >= 0, short(f)+"|helper-gets-own-list", call.Pos(), "the filter helper %s is given the comment group's own list", short(h)) {
					var posParams []int
					for i, a := range call.Call.Args {
						if an.ShortType(a.Type()) == "token.Pos" {
							posParams = append(posParams, i)
						}
					}
					if len(posParams) == 2 {
						loArg, hiArg = call.Call.Args[posParams[0]], call.Call.Args[posParams[1]]
						lp, hp := h.Params[posParams[0]], h.Params[posParams[1]]
						if isBound("End")(loArg) && isBound("Start")(hiArg) {
							lp, hp = hp, lp
							loArg, hiArg = hiArg, loArg
						}
						var results []ssa.Value
						for _, ret := range an.Returns(h) {
							results = append(results, ret.Results[0])
						}
						site = filterSite{g: h, isList: func(v ssa.Value) bool { return v == ssa.Value(h.Params[li]) },
							isLo: func(v ssa.Value) bool { return v == ssa.Value(lp) }, isHi: func(v ssa.Value) bool { return v == ssa.Value(hp) }, result: results}
						r.Check(isBound("Start")(loArg) && isBound("End")(hiArg), short(f)+"|helper-gets-interval", call.Pos(), "the helper is given the start and the end of the changed interval")
					} else if ivIdx := intervalArg(call); len(posParams) == 0 && ivIdx >= 0 {
						// the helper is given the interval as a whole and reads its Start / End itself
						var results []ssa.Value
						for _, ret := range an.Returns(h) {
							results = append(results, ret.Results[0])
						}
						ivName := h.Params[ivIdx].Name()
						bound := func(field string) func(ssa.Value) bool {
							return func(v ssa.Value) bool { return an.Path(v) == ivName+"."+field && !isAddr(v) }
						}
						site = filterSite{g: h, isList: func(v ssa.Value) bool { return v == ssa.Value(h.Params[li]) }, isLo: bound("Start"), isHi: bound("End"), result: results}
						scanIn = h
					} else {
						r.Undecided(short(f)+"|helper-bounds", call.Pos(), "cannot identify the interval bounds handed to %s", short(h))
					}
				}
			}
		}
		analyzeFilter(r, short(f), site, listStore.Pos())
		r.Rule("R3-containment-test")
		// both bounds refer to the same interval variable
		roots := map[string]bool{}
		collect := func(v ssa.Value) {
			if p := an.Path(v); strings.HasSuffix(p, ".Start") || strings.HasSuffix(p, ".End") {
				roots[p[:strings.LastIndex(p, ".")]] = true
			}
		}
		if loArg != nil {
			collect(loArg)
			collect(hiArg)
		} else {
			inner := an.LoopOf(f, listStore.Block())
			scan := f
			if scanIn != nil {
				scan, inner = scanIn, nil
			}
			for _, b := range scan.Blocks {
				if scanIn == nil && inner != nil && !inner.Blocks[b] && !b.Dominates(listStore.Block()) {
					continue
				}
				if iff, ok := b.Instrs[len(b.Instrs)-1].(*ssa.If); ok {
					if pc, _ := an.StripNot(iff.Cond); pc != nil {
						// a containment predicate given the whole interval (its own table is decided above)
						if call, ok := pc.(*ssa.Call); ok && an.StaticCallee(call) != nil && an.InModule(an.StaticCallee(call)) {
							for _, a := range call.Call.Args {
								if strings.HasSuffix(an.ShortType(a.Type()), "Interval") {
									roots[an.Path(a)] = true
								}
							}
						}
					}
					if cmp, ok := iff.Cond.(*ssa.BinOp); ok {
						for _, v := range []ssa.Value{cmp.X, cmp.Y} {
							if c, isCall := v.(*ssa.Call); isCall && strings.HasPrefix(an.CalleeName(c), "(*go/ast.Comment).") {
								collect(cmp.X)
								collect(cmp.Y)
							}
						}
					}
				}
			}
		}
		r.Check(len(roots) == 1, short(f)+"|same-interval", listStore.Pos(), "both bounds are those of one and the same interval (%s)", joinSorted(roots))
		c17NoPosIgnored(r, f, listStore)
	}
	r.Rule("R2-comment-lists-only-shrink")
	r.Count("comment list filters", nList)
	r.Min("comment list filters", 2)
	// no other function writes CommentGroup.List
	for _, f := range r.P.ModuleFuncs() {
		if strings.Contains(an.FuncPkgPath(f), "/tools") || strings.Contains(an.FuncPkgPath(f), "/internal/pgo") {
			continue
		}
		for _, in := range an.StoresIn(f) {
			if st, ok := in.(*ssa.Store); ok {
				if fa, ok := st.Addr.(*ssa.FieldAddr); ok && an.IsNamed(fa.X.Type(), "go/ast", "CommentGroup") && !inCleanup(r, f) {
					r.Fail(short(f)+"|CommentGroup."+fieldNameOf(fa), st.Pos(), "%s writes a comment group in place", short(f))
				}
				if fa, ok := st.Addr.(*ssa.FieldAddr); ok && an.IsNamed(fa.X.Type(), "go/ast", "Comment") {
					r.Fail(short(f)+"|Comment."+fieldNameOf(fa), st.Pos(), "%s edits a comment in place", short(f))
				}
			}
		}
	}
}

func c17PlusCommentsDropped(r *an.Run) {
	r.Rule("R4-plus-comments-never-emitted")
	gt := goastTypes(r)
	f := fn(r, engine, "replacerCompiler.compile")
	if f == nil || gt == nil {
		return
	}
	rc, _ := dispatchTable(r, f, gt)
	out := rc["*go/ast.CommentGroup"]
	r.Check(strings.HasPrefix(out, "lit:") || strings.Contains(out, "ValueReplacer"), short(f)+"|comment-groups", f.Pos(), "comment groups of the '+' pattern are replaced by a constant (got %q)", out)
	// and that constant is the typed nil
	good := false
	for _, arm := range typeArmsOf(r, f, gt) {
		if arm.typ == "*go/ast.CommentGroup" {
			for _, in := range arm.instrs() {
				if call, ok := in.(*ssa.Call); ok && an.IsCallTo(call, "reflect.ValueOf") {
					if mi, ok := call.Call.Args[0].(*ssa.MakeInterface); ok && an.IsNilConst(mi.X) && an.ShortType(mi.X.Type()) == "*ast.CommentGroup" {
						good = true
					}
				}
			}
		}
	}
	r.Check(good, short(f)+"|typed-nil", f.Pos(), "that constant is (*ast.CommentGroup)(nil): no comment text of the patch reaches the output")
}

func c17SpansAsGiven(r *an.Run) {
	r.Rule("R5-changelog-records-spans-as-given")
	n := 0
	for _, name := range []string{"Changelog.Changed", "Changelog.Unchanged"} {
		f := fn(r, engine, name)
		if f == nil {
			continue
		}
		start, end := paramAt(f, 0), paramAt(f, 1)
		spanFields := func(g *ssa.Function) (s, e ssa.Value) {
			for _, in := range an.StoresIn(g) {
				if st, ok := in.(*ssa.Store); ok {
					if fa, ok := st.Addr.(*ssa.FieldAddr); ok && strings.HasSuffix(an.ShortType(fa.X.Type()), "engine.span") {
						switch fieldNameOf(fa) {
						case "Start":
							s = st.Val
						case "End":
							e = st.Val
						}
					}
				}
			}
			return
		}
		gotS, gotE := spanFields(f)
		if gotS == nil && gotE == nil {
			// the span is built by a private constructor (spanSet(start, end)): what it stores are its own
			// parameters, and the recorder hands it start and end in that order
			for _, c := range an.Calls(f) {
				h := an.StaticCallee(c)
				if h == nil || !an.InModule(h) || h.Blocks == nil {
					continue
				}
				hs, he := spanFields(h)
				if hs == nil || he == nil {
					continue
				}
				for i, p := range h.Params {
					if i >= len(c.Common().Args) {
						continue
					}
					if hs == ssa.Value(p) {
						gotS = c.Common().Args[i]
					}
					if he == ssa.Value(p) {
						gotE = c.Common().Args[i]
					}
				}
			}
		}
		n++
		r.Check(gotS == ssa.Value(start) && gotE == ssa.Value(end), short(f)+"|span", f.Pos(), "%s records span{Start: start, End: end} from its parameters, unchanged and in that order (an inverted region stays an empty span instead of becoming a large one)", short(f))
		// which set it goes to
		set := "plus"
		if strings.HasSuffix(name, "Unchanged") {
			set = "minus"
		}
		okSet := false
		for _, c := range an.Calls(f) {
			if strings.HasSuffix(an.CalleeName(c), "intervalset.Set).Add") && strings.HasSuffix(an.Path(an.CallArgs(c)[0]), "."+set) {
				okSet = true
			}
		}
		r.Check(okSet, short(f)+"|set", f.Pos(), "%s adds to the %s set", short(f), set)
	}
	r.Count("changelog recorders", n)
	r.Min("changelog recorders", 2)
	if f := fn(r, engine, "Changelog.ChangedIntervals"); f != nil {
		var order []string
		for _, c := range an.Calls(f) {
			name := an.CalleeName(c)
			if strings.HasSuffix(name, "intervalset.Set).Add") || strings.HasSuffix(name, "intervalset.Set).Sub") {
				order = append(order, name[strings.LastIndex(name, ".")+1:]+":"+lastSeg(an.Path(an.CallArgs(c)[1])))
			}
		}
		r.Check(strings.Join(order, ",") == "Add:plus,Sub:minus", short(f)+"|plus-minus", f.Pos(), "changed intervals = recorded changes minus regions marked unchanged (got %v)", order)
	}
}

func lastSeg(p string) string {
	if i := strings.LastIndex(p, "."); i >= 0 {
		return p[i+1:]
	}
	return p
}

func c17IdentityUnchanged(r *an.Run) {
	r.Rule("R6-identical-elements-carried-over-unchanged")
	f := fn(r, "internal/astdiff", "changeFinder.walkSlice")
	if f == nil {
		return
	}
	pk := r.P.ByP[an.Module+"/internal/diff"]
	if pk == nil {
		r.Undecided("anchor|internal/diff", 0, "package internal/diff not loaded")
		return
	}
	idc, ok := pk.Types.Scope().Lookup("Identity").(*types.Const)
	if !ok {
		r.Undecided("anchor|diff.Identity", 0, "constant diff.Identity not found")
		return
	}
	idv, _ := an.ConstIntOf(idc.Val())
	found := false
	for _, c := range an.EqCases(f, func(v ssa.Value) bool { return strings.HasSuffix(an.ShortType(v.Type()), "diff.EditType") }) {
		k, isc := an.ConstInt(c.Key)
		if !isc || k != idv {
			continue
		}
		found = true
		var callees []string
		var calls []ssa.CallInstruction
		for _, in := range an.FollowJumps(c.Target).Instrs {
			if call, ok := in.(ssa.CallInstruction); ok {
				callees = append(callees, an.TrimModule(an.CalleeName(call)))
				calls = append(calls, call)
			}
		}
		// the one call of the arm is recognised by what it does: it copies the Comments of the old element's
		// value to the new element's value
		good := false
		if len(calls) == 1 {
			if g := an.StaticCallee(calls[0]); g != nil && an.InModule(g) && g.Blocks != nil {
				fromP, toP := commentCarrier(g)
				args := calls[0].Common().Args
				if fromP >= 0 && fromP < len(args) && toP < len(args) {
					good = strings.HasPrefix(an.Path(args[fromP]), an.ParamName(f.Params[len(f.Params)-2])+".Children[") &&
						strings.HasPrefix(an.Path(args[toP]), an.ParamName(f.Params[len(f.Params)-1])+".Children[")
				}
			}
		}
		r.Check(good, short(f)+"|identity-arm", c.If.Pos(), "for an element the edit script marks Identity, walkSlice records the pair as unchanged (calls made in that arm: %v): its comments stay attached in the next snapshot", callees)
	}
	r.Check(found, short(f)+"|identity-case", f.Pos(), "walkSlice distinguishes the Identity edit")
	// every edit of the script is dispatched: once the edit script is computed, the only way to a return leads
	// through the loop over it, and that loop is left only when the script is exhausted. (A shortcut such as
	// "no differences: return" skips the Identity arm, which is what carries the comments of untouched
	// elements into the next snapshot — a later change of the same run then swallows them.)
	var diffCall *ssa.Call
	for _, c := range an.Calls(f) {
		if sc := an.StaticCallee(c); sc != nil && strings.HasSuffix(short(sc), "internal/diff.Difference") {
			diffCall, _ = c.(*ssa.Call)
		}
	}
	if !r.Check(diffCall != nil, short(f)+"|edit-script", f.Pos(), "walkSlice computes an edit script with diff.Difference") {
		return
	}
	// the script covers the two lists whole: its dimensions are the lengths of the two child lists themselves
	// (a script over the "middle" only leaves the common ends without their Identity step, which is what
	// carries their comments into the next snapshot)
	{
		a := diffCall.Call.Args
		isLenOfParam := func(v ssa.Value, pi int) bool {
			c, ok := v.(*ssa.Call)
			if !ok || an.StaticCallee(c) == nil || an.StaticCallee(c).Name() != "Len" || len(c.Call.Args) == 0 {
				return false
			}
			p := paramAt(f, pi)
			return p != nil && (c.Call.Args[0] == ssa.Value(p) || isParam(c.Call.Args[0], p.Name()))
		}
		r.Check(len(a) >= 2 && isLenOfParam(a[0], 0) && isLenOfParam(a[1], 1), short(f)+"|script-covers-both-lists", diffCall.Pos(), "the edit script is computed over from.Len() x to.Len(): every element of both lists gets its step (found %s x %s)", an.Describe(a[0]), an.Describe(a[1]))
	}
	var loop *an.Loop
	for _, l := range an.Loops(f) {
		if il := an.AsIndexLoop(l); il != nil {
			if bc, ok := il.Bound.(*ssa.Call); ok && an.IsCallTo(bc, "builtin:len") && an.Unwrap(bc.Call.Args[0]) == ssa.Value(diffCall) {
				loop = l
			}
		}
	}
	if !r.Check(loop != nil, short(f)+"|script-loop", diffCall.Pos(), "walkSlice iterates over the whole edit script") {
		return
	}
	reach := an.ReachFromSuccs(diffCall.Block(), func(b *ssa.BasicBlock, i int) bool { return b.Succs[i] == loop.Header })
	reach[diffCall.Block()] = true
	early := false
	for _, ret := range an.Returns(f) {
		if reach[ret.Block()] && (ret.Block() != diffCall.Block() || an.InstrBlockIndex(ret) > an.InstrBlockIndex(diffCall)) {
			early = true
		}
	}
	r.Check(!early, short(f)+"|no-return-before-the-script-is-dispatched", diffCall.Pos(), "after the edit script is computed no return comes before the loop that dispatches it")
	exits := 0
	for b := range loop.Blocks {
		for _, s := range b.Succs {
			if !loop.Blocks[s] && b != loop.Header {
				exits++
			}
		}
	}
	r.Check(exits == 0, short(f)+"|script-loop-runs-to-the-end", diffCall.Pos(), "the loop over the edit script is left only when the script is exhausted (%d other exit(s))", exits)
}

// intervalArg returns the index of the argument of call that is a struct with
// Start and End fields of type token.Pos (the changed interval), or -1.
func intervalArg(call *ssa.Call) int {
	for i, a := range call.Call.Args {
		st, ok := a.Type().Underlying().(*types.Struct)
		if !ok {
			continue
		}
		have := 0
		for k := 0; k < st.NumFields(); k++ {
			if (st.Field(k).Name() == "Start" || st.Field(k).Name() == "End") && an.IsNamed(st.Field(k).Type(), "go/token", "Pos") {
				have++
			}
		}
		if have == 2 {
			return i
		}
	}
	return -1
}

func isCommentGroupList(t types.Type) bool {
	sl, ok := t.Underlying().(*types.Slice)
	if !ok {
		return false
	}
	p, ok := sl.Elem().Underlying().(*types.Pointer)
	return ok && an.IsNamed(p.Elem(), "go/ast", "CommentGroup")
}

// containmentPredicate decides a call `h(interval, comment)` to a module
// function returning bool: when every path of h returns true exactly when
// c.Pos() >= start && c.End() <= end it is the atom "inside", when it returns
// exactly the negation "not:inside"; anything else is unrecognised.
func containmentPredicate(call *ssa.Call, elem func(ssa.Value) bool, classifyWith func(ssa.Value, func(ssa.Value, string) bool, func(ssa.Value) bool, func(ssa.Value) bool, int) string) string {
	h := an.StaticCallee(call)
	if h == nil || !an.InModule(h) || h.Blocks == nil || h.Signature.Results().Len() != 1 {
		return ""
	}
	var cp, ip *ssa.Parameter
	for i, a := range call.Call.Args {
		if i >= len(h.Params) {
			return ""
		}
		switch {
		case elem(a):
			cp = h.Params[i]
		case strings.HasSuffix(an.ShortType(a.Type()), "Interval"):
			ip = h.Params[i]
		default:
			return ""
		}
	}
	if cp == nil || ip == nil {
		return ""
	}
	posOf := func(v ssa.Value, method string) bool {
		c, ok := v.(*ssa.Call)
		return ok && an.IsCallTo(c, "(*go/ast.Comment)."+method) && c.Call.Args[0] == ssa.Value(cp)
	}
	field := func(name string) func(ssa.Value) bool {
		return func(v ssa.Value) bool {
			return !isAddr(v) && an.Path(v) == an.ParamName(ip)+"."+name
		}
	}
	paths, err := an.EnumeratePaths(h, func(c ssa.Value) string {
		return classifyWith(c, posOf, field("Start"), field("End"), 1)
	}, nil, 64)
	if err != nil {
		return ""
	}
	same, neg := len(paths) > 0, len(paths) > 0
	for _, p := range paths {
		ret, ok := p.End.Instrs[len(p.End.Instrs)-1].(*ssa.Return)
		if !ok {
			return ""
		}
		res := p.ResolveOnPath(ret.Results[0])
		type row struct {
			atoms map[string]bool
			val   bool
		}
		var rows []row
		if val, isc := an.ConstBool(res); isc {
			rows = append(rows, row{p.Atoms, val})
		} else {
			// the returned value is itself a comparison: one row per outcome
			inner, pos := an.StripNot(res)
			name := classifyWith(inner, posOf, field("Start"), field("End"), 1)
			if name == "" {
				return ""
			}
			for _, v := range []bool{true, false} {
				if fixed, seen := p.Atoms[name]; seen && fixed != v {
					continue
				}
				m := map[string]bool{name: v}
				for k, x := range p.Atoms {
					m[k] = x
				}
				rows = append(rows, row{m, v == pos})
			}
		}
		for _, rw := range rows {
			get := func(a string) (bool, bool) {
				if v, ok := rw.atoms[a]; ok {
					return v, true
				}
				if v, ok := rw.atoms["not:"+a]; ok {
					return !v, true
				}
				return false, false
			}
			lo, loK := get("pos>=start")
			hi, hiK := get("end<=end")
			inside := loK && lo && hiK && hi
			outside := (loK && !lo) || (hiK && !hi)
			if !(inside || outside) {
				return ""
			}
			if rw.val != inside {
				same = false
			}
			if rw.val == inside {
				neg = false
			}
		}
	}
	switch {
	case same:
		return "inside"
	case neg:
		return "not:inside"
	}
	return ""
}

// commentCarrier recognises `to.Comments = from.Comments`: the indices of the
// parameters playing from and to, or -1.
func commentCarrier(g *ssa.Function) (from, to int) {
	from, to = -1, -1
	idx := func(v ssa.Value) int {
		for i, p := range g.Params {
			if ssa.Value(p) == v {
				return i
			}
		}
		return -1
	}
	n := 0
	for _, in := range an.StoresIn(g) {
		st, ok := in.(*ssa.Store)
		if !ok {
			continue
		}
		n++
		fa, ok := st.Addr.(*ssa.FieldAddr)
		if !ok || fieldNameOf(fa) != "Comments" {
			continue
		}
		ld, ok := st.Val.(*ssa.UnOp)
		if !ok {
			continue
		}
		fb, ok := ld.X.(*ssa.FieldAddr)
		if !ok || fieldNameOf(fb) != "Comments" {
			continue
		}
		from, to = idx(fb.X), idx(fa.X)
	}
	if n != 1 || from == to {
		return -1, -1
	}
	return from, to
}

// zeroCapacityView: a three-index slice expression whose capacity bound equals
// its length bound (x[a:b:b], typically x[:0:0]) — appending to it always
// allocates, nothing is written into x's array.
func zeroCapacityView(v ssa.Value) bool {
	sl, ok := v.(*ssa.Slice)
	if !ok || sl.Max == nil || sl.High == nil {
		return false
	}
	if sl.Max == sl.High {
		return true
	}
	a, aok := an.ConstInt(sl.High)
	b, bok := an.ConstInt(sl.Max)
	return aok && bok && a == b
}

// filteredOwnComments decides the accepted form of a store into
// File.Comments: val is the result of a call to the clean-up step that was
// given the Comments of the same file, and that function returns an ordered
// sub-sequence of the list it was given, built in a slice of its own. It
// returns "" when that holds and otherwise what is wrong.
func filteredOwnComments(r *an.Run, val ssa.Value, file ssa.Value) string {
	call, ok := val.(*ssa.Call)
	if !ok {
		return "the value is not the result of the clean-up step"
	}
	g := an.StaticCallee(call)
	if g == nil || !inCleanup(r, g) {
		return "the value is not the result of the clean-up step"
	}
	pi := -1
	for i, a := range call.Call.Args {
		if ld, ok := a.(*ssa.UnOp); ok {
			if fa, ok := ld.X.(*ssa.FieldAddr); ok && fieldNameOf(fa) == "Comments" && fa.X == file {
				pi = i
			}
		}
	}
	if pi < 0 || pi >= len(g.Params) {
		return "the clean-up step was not given this file's own comment list"
	}
	// the list must be read at the call, in the block of the store: nothing edits File.Comments in between
	if call.Block() != nil {
		for _, a := range call.Call.Args {
			if ld, ok := a.(*ssa.UnOp); ok && ld.Block() != call.Block() {
				if fa, ok := ld.X.(*ssa.FieldAddr); ok && fieldNameOf(fa) == "Comments" {
					return "the comment list handed to the clean-up step was read earlier than at the call: a stale slice header"
				}
			}
		}
	}
	param := g.Params[pi]
	rets := an.Returns(g)
	if len(rets) == 0 {
		return "the clean-up step returns nothing"
	}
	for _, ret := range rets {
		if len(ret.Results) != 1 {
			return "the clean-up step returns more than the list"
		}
		if ret.Results[0] == ssa.Value(param) {
			continue // the list as it was
		}
		// appendIf(comments[:0:0], comments, keep): a filter helper given the list itself and, to append to,
		// nothing or a zero-capacity view
		if fc, isCall := ret.Results[0].(*ssa.Call); isCall {
			if dstIdx, srcIdx, _, isFilter := asFilterHelper(an.StaticCallee(fc)); isFilter {
				if fc.Call.Args[srcIdx] != ssa.Value(param) {
					return "the filter helper is not given the file's own comment list"
				}
				dst := fc.Call.Args[dstIdx]
				if !an.IsNilConst(dst) {
					for _, o := range sliceOrigins(dst) {
						switch o.(type) {
						case *ssa.Const, *ssa.MakeSlice:
							continue
						}
						if !zeroCapacityView(o) {
							return "the returned list is built in the array of " + an.Describe(o)
						}
					}
				}
				continue
			}
		}
		for _, o := range sliceOrigins(ret.Results[0]) {
			switch o.(type) {
			case *ssa.Const, *ssa.MakeSlice:
				continue
			}
			if !zeroCapacityView(o) {
				return "the returned list is built in the array of " + an.Describe(o)
			}
		}
		for v := range an.BackSlice(ret.Results[0], an.SliceOpts{}) {
			app, ok := v.(*ssa.Call)
			if !ok || !an.IsCallTo(app, "builtin:append") || !isCommentGroupList(app.Type()) {
				continue
			}
			l := an.LoopOf(g, app.Block())
			il := (*an.IndexLoop)(nil)
			if l != nil {
				il = an.AsIndexLoop(l)
			}
			if il == nil || il.Start != 0 || il.Step != 1 {
				return "a group is appended outside a forward loop over the list"
			}
			for _, a := range appendedElements(app) {
				ld, ok := a.(*ssa.UnOp)
				if !ok {
					return "something other than a group of the list is appended (" + an.Describe(a) + ")"
				}
				ia, ok := ld.X.(*ssa.IndexAddr)
				if !ok || ia.X != ssa.Value(param) || ia.Index != il.Index {
					return "something other than the current group of the list is appended"
				}
			}
		}
	}
	return ""
}

// appendedElements returns the values append(s, e1, e2...) adds: the elements
// stored into the compiler's varargs array, or the second argument itself for
// append(s, t...).
func appendedElements(app *ssa.Call) []ssa.Value {
	if len(app.Call.Args) < 2 {
		return nil
	}
	sl, ok := app.Call.Args[1].(*ssa.Slice)
	if !ok {
		return []ssa.Value{app.Call.Args[1]}
	}
	al, ok := sl.X.(*ssa.Alloc)
	if !ok || al.Comment != "varargs" {
		return []ssa.Value{app.Call.Args[1]}
	}
	var out []ssa.Value
	for _, u := range *al.Referrers() {
		if ia, ok := u.(*ssa.IndexAddr); ok {
			for _, w := range *ia.Referrers() {
				if st, ok := w.(*ssa.Store); ok {
					out = append(out, st.Val)
				}
			}
		}
	}
	return out
}

// c17NoPosIgnored: an interval without a valid start removes no comment.
func c17NoPosIgnored(r *an.Run, f *ssa.Function, listStore *ssa.Store) {
	r.Rule("R3-containment-test")
	// NoPos intervals are skipped
	noPos := false
	for _, c := range an.EqCases(f, func(v ssa.Value) bool { return strings.HasSuffix(an.Path(v), ".Start") && !isAddr(v) }) {
		if k, ok := an.ConstInt(c.Key); ok && k == 0 {
			outer := an.LoopOf(f, c.If.Block())
			if outer != nil && c.Target == outer.Header {
				noPos = true
			} else if outer != nil {
				reach := an.Reach([]*ssa.BasicBlock{c.Target}, func(b *ssa.BasicBlock, i int) bool { return b.Succs[i] == outer.Header })
				if !reach[listStore.Block()] {
					noPos = true
				}
			}
		}
	}
	if !noPos {
		// … or the list of intervals was cleared of them beforehand: slices.DeleteFunc(list, func(iv) bool {
		// return iv.Start == token.NoPos }) somewhere in the clean-up functions, whose result is what is
		// iterated here
		for _, g := range cleanupFuncs(r) {
			for _, h := range helperGroup(g, 2) {
				for _, c := range an.CallsTo(h, "slices.DeleteFunc") {
					var pred *ssa.Function
					switch v := c.Common().Args[1].(type) {
					case *ssa.Function:
						pred = v
					case *ssa.MakeClosure:
						pred, _ = v.Fn.(*ssa.Function)
					}
					if pred == nil || len(pred.Params) != 1 {
						continue
					}
					all := len(an.Returns(pred)) > 0
					for _, ret := range an.Returns(pred) {
						cmp, ok := ret.Results[0].(*ssa.BinOp)
						var k int64
						isc := false
						if ok {
							k, isc = an.ConstInt(cmp.Y)
						}
						if !(ok && cmp.Op == token.EQL && isc && k == 0 && an.Path(cmp.X) == an.ParamName(pred.Params[0])+".Start") {
							all = false
						}
					}
					call, isCall := c.(*ssa.Call)
					if !all || !isCall {
						continue
					}
					// the filtered list reaches the function that removes comments
					for _, site := range an.Calls(h) {
						if sc := an.StaticCallee(site); sc != nil && (sc == f || inGroup(sc, f) || inGroup(f, sc)) {
							for _, a := range site.Common().Args {
								if a == ssa.Value(call) {
									noPos = true
								}
							}
						}
					}
					if h == f {
						noPos = true
					}
				}
			}
		}
	}
	r.Check(noPos, short(f)+"|nopos-interval-ignored", f.Pos(), "an interval without a valid start removes no comment")
}

// predicateIsContainment: pred(c) — the function handed to a filter helper —
// answers true (keep) exactly when the comment does NOT lie entirely inside
// [start, end]: decision table over c.Pos() >= start and c.End() <= end.
func predicateIsContainment(r *an.Run, key string, pred *ssa.Function, isLo, isHi func(ssa.Value) bool, pos token.Pos) {
	param := ssa.Value(pred.Params[0])
	posOf := func(v ssa.Value, method string) bool {
		c, ok := v.(*ssa.Call)
		return ok && an.IsCallTo(c, "(*go/ast.Comment)."+method) && c.Call.Args[0] == param
	}
	classify := func(c ssa.Value) string {
		cmp, ok := c.(*ssa.BinOp)
		if !ok {
			return ""
		}
		switch {
		case posOf(cmp.X, "Pos") && isLo(cmp.Y):
			switch cmp.Op {
			case token.GEQ:
				return "pos>=start"
			case token.LSS:
				return "not:pos>=start"
			}
		case posOf(cmp.X, "End") && isHi(cmp.Y):
			switch cmp.Op {
			case token.LEQ:
				return "end<=end"
			case token.GTR:
				return "not:end<=end"
			}
		case isLo(cmp.X) && posOf(cmp.Y, "Pos"):
			switch cmp.Op {
			case token.LEQ:
				return "pos>=start"
			case token.GTR:
				return "not:pos>=start"
			}
		case isHi(cmp.X) && posOf(cmp.Y, "End"):
			switch cmp.Op {
			case token.GEQ:
				return "end<=end"
			case token.LSS:
				return "not:end<=end"
			}
		}
		return ""
	}
	paths, err := an.EnumeratePathsFrom(pred.Blocks[0], classify, nil, 256, false)
	if err != nil {
		r.Undecided(key+"|containment", pos, "cannot extract the containment test of the comment filter: %v", err)
		return
	}
	type row struct {
		atoms map[string]bool
		keep  bool
	}
	var rows []row
	good := len(paths) >= 1
	for _, p := range paths {
		ret, ok := p.End.Instrs[len(p.End.Instrs)-1].(*ssa.Return)
		if !ok {
			good = false
			continue
		}
		atoms := map[string]bool{}
		for a, v := range p.Atoms {
			if strings.HasPrefix(a, "not:") {
				atoms[strings.TrimPrefix(a, "not:")] = !v
			} else {
				atoms[a] = v
			}
		}
		v := p.ResolveOnPath(ret.Results[0])
		neg := false
		for {
			if u, isNot := v.(*ssa.UnOp); isNot && u.Op == token.NOT {
				neg = !neg
				v = p.ResolveOnPath(u.X)
				continue
			}
			break
		}
		if k, isc := an.ConstBool(v); isc {
			rows = append(rows, row{atoms, k != neg})
			continue
		}
		// the last comparison is returned itself: both outcomes
		a := classify(v)
		if a == "" {
			good = false
			continue
		}
		name, inv := strings.TrimPrefix(a, "not:"), strings.HasPrefix(a, "not:")
		for _, val := range []bool{true, false} {
			at := map[string]bool{}
			for k2, v2 := range atoms {
				at[k2] = v2
			}
			at[name] = val != inv
			rows = append(rows, row{at, val != neg})
		}
	}
	for _, rw := range rows {
		lo, loK := rw.atoms["pos>=start"]
		hi, hiK := rw.atoms["end<=end"]
		inside := loK && lo && hiK && hi
		outside := (loK && !lo) || (hiK && !hi)
		if !(inside || outside) || inside && rw.keep || outside && !rw.keep {
			good = false
		}
	}
	r.Check(good && len(rows) >= 2, key+"|containment", pos, "a comment is dropped exactly when it lies entirely inside the changed interval: c.Pos() >= start && c.End() <= end (%d rows of the predicate's decision table)", len(rows))
}
