package rules

import (
	"go/token"
	"go/types"
	"sort"
	"strings"

	"golang.org/x/tools/go/ssa"

	"gpcheck/internal/an"
)

// Rules added after the tenth seeding round (seeds in the less visited files:
// the metavariable parser, the loader, runMain, the argument parser, the
// library entry point, the position matcher).

// moduleFuncsSorted lists the functions of the module (with bodies, closures
// included) in a fixed order.
func moduleFuncsSorted(r *an.Run) []*ssa.Function {
	var fns []*ssa.Function
	for _, f := range r.P.ModuleFuncs() {
		if f.Blocks != nil {
			fns = append(fns, f)
		}
	}
	sort.Slice(fns, func(i, j int) bool {
		if fns[i].String() != fns[j].String() {
			return fns[i].String() < fns[j].String()
		}
		return fns[i].Pos() < fns[j].Pos()
	})
	return fns
}

// returnedValue is the i-th value a return statement returns. In a function
// with a defer, go/ssa spills the results into locals (`*t0 = v; rundefers;
// t1 = *t0; return t1`): then it is the value stored last in the block.
func returnedValue(ret *ssa.Return, i int) ssa.Value {
	v := ret.Results[i]
	ld, ok := v.(*ssa.UnOp)
	if !ok || ld.Op != token.MUL {
		return v
	}
	cell, ok := ld.X.(*ssa.Alloc)
	if !ok {
		return v
	}
	instrs := ret.Block().Instrs
	for k := len(instrs) - 1; k >= 0; k-- {
		if st, ok := instrs[k].(*ssa.Store); ok && st.Addr == ssa.Value(cell) {
			return st.Val
		}
	}
	return v
}

// storesTrueTo reports whether some function of g's helper group stores the
// constant true into a field whose canonical name is field.
func storesTrueTo(g *ssa.Function, field string, depth int) bool {
	for _, h := range helperGroup(g, depth) {
		for _, in := range an.StoresIn(h) {
			st, ok := in.(*ssa.Store)
			if !ok {
				continue
			}
			if v, isc := an.ConstBool(st.Val); !isc || !v {
				continue
			}
			if fa, ok := st.Addr.(*ssa.FieldAddr); ok && strings.HasSuffix(an.Path(fa), "."+field) {
				return true
			}
		}
	}
	return false
}

// nilMeansFailed (C08): the metavariable parser is written in the style of
// go/parser — its parse functions return nil when they could not read what
// they expected, and the caller appends what it gets to the list without
// looking (`m.Vars = append(m.Vars, p.parseDecl())`). That is sound only as
// long as a nil is never returned without the parser having been failed first
// (p.errf → p.failed = true, which also ends the caller's loop and turns into
// the error parseMeta returns): a nil declaration with no error recorded
// reaches the compiler, which dereferences it. So in every function of the
// parser that returns a pointer, each `return nil` is reached only through a
// call that fails the parser, or through the nil-check of the result of another
// such function (which, by the same rule, has failed the parser already).
func nilMeansFailed(r *an.Run, rule string) {
	r.Rule(rule)
	top := fn(r, parseP, "metaParser.parse")
	if top == nil {
		return
	}
	recvT := top.Signature.Recv().Type()
	var fns []*ssa.Function
	for _, f := range moduleFuncsSorted(r) {
		if f.Signature.Recv() == nil || !types.Identical(f.Signature.Recv().Type(), recvT) || f.Signature.Results().Len() != 1 {
			continue
		}
		if _, isPtr := f.Signature.Results().At(0).Type().Underlying().(*types.Pointer); !isPtr {
			continue
		}
		fns = append(fns, f)
	}
	isParseFn := func(g *ssa.Function) bool {
		for _, f := range fns {
			if f == g {
				return true
			}
		}
		return false
	}
	n := 0
	for _, f := range fns {
		r.Saw("func " + short(f))
		recording := map[*ssa.BasicBlock]bool{}
		for _, c := range an.Calls(f) {
			if _, isDefer := c.(*ssa.Defer); isDefer {
				continue
			}
			if sc := an.StaticCallee(c); sc != nil && an.InModule(sc) && !isParseFn(sc) && storesTrueTo(sc, "failed", 2) {
				recording[c.Block()] = true
			}
		}
		skip := func(from *ssa.BasicBlock, succ int) bool {
			if recording[from] {
				return true
			}
			iff, ok := from.Instrs[len(from.Instrs)-1].(*ssa.If)
			if !ok {
				return false
			}
			cmp, ok := iff.Cond.(*ssa.BinOp)
			if !ok || (cmp.Op != token.EQL && cmp.Op != token.NEQ) {
				return false
			}
			x := cmp.X
			if an.IsNilConst(x) {
				x = cmp.Y
			} else if !an.IsNilConst(cmp.Y) {
				return false
			}
			// the result of another parse function, tested directly or after it was put into a field (d.Type)
			nested := false
			for v := range an.BackSlice(x, an.SliceOpts{ThroughMemory: true}) {
				if call, ok := v.(*ssa.Call); ok && isParseFn(an.StaticCallee(call)) {
					nested = true
				}
			}
			if !nested {
				return false
			}
			// the edge on which the nested result is nil
			return (cmp.Op == token.EQL) == (succ == 0)
		}
		reach := an.Reach([]*ssa.BasicBlock{f.Blocks[0]}, skip)
		for _, ret := range an.Returns(f) {
			if len(ret.Results) != 1 {
				continue
			}
			var bad func(v ssa.Value, at *ssa.BasicBlock, depth int) bool
			bad = func(v ssa.Value, at *ssa.BasicBlock, depth int) bool {
				if an.IsNilConst(v) {
					return reach[at] && !recording[at]
				}
				phi, ok := v.(*ssa.Phi)
				if !ok || depth > 6 {
					return false
				}
				for i, e := range phi.Edges {
					p := phi.Block().Preds[i]
					if bad(e, p, depth+1) {
						return true
					}
				}
				return false
			}
			res := returnedValue(ret, 0)
			mayBeNil := false
			for _, leaf := range phiLeaves(res) {
				if an.IsNilConst(leaf) {
					mayBeNil = true
				}
			}
			if !mayBeNil {
				continue
			}
			n++
			r.Check(!bad(res, ret.Block(), 0), short(f)+"|nil-only-after-failing", ret.Pos(), "%s returns nil only after the parser has been failed (errf) or after another parse function returned nil: the caller appends the result without looking, and a nil declaration without a recorded error reaches the compiler, which dereferences it", short(f))
		}
	}
	r.Count("nil returns of the metavariable parser", n)
	r.Min("nil returns of the metavariable parser", 3)
}

// readLineKeepsLongLines (C07/C12): (*bufio.Reader).ReadLine hands a line
// longer than the reader's buffer back in pieces and says so with isPrefix. A
// caller that drops isPrefix turns every such piece into a line of its own: a
// diff printed from those lines no longer describes the bytes that were
// validated (the cut can fall inside a string literal). Every ReadLine call of
// the module looks at isPrefix.
func readLineKeepsLongLines(r *an.Run, rule string) {
	r.Rule(rule)
	n := 0
	for _, f := range moduleFuncsSorted(r) {
		for _, c := range an.Calls(f) {
			if !an.IsCallTo(c, "(*bufio.Reader).ReadLine") {
				continue
			}
			n++
			call, _ := c.(*ssa.Call)
			used := false
			if call != nil {
				for _, ex := range an.ExtractOf(call, 1) {
					if nonDebugRefs(ex) > 0 {
						used = true
					}
				}
			}
			r.Check(used, short(f)+"|isPrefix", c.Pos(), "%s looks at the isPrefix result of ReadLine: a line longer than the reader's buffer arrives in pieces, and without isPrefix each piece is taken for a line (the lines diffed or loaded are then not the lines of the content)", short(f))
		}
	}
	r.Count("ReadLine calls", n)
}

// bufferedOutputIsFlushed (C12/C16): when the command's output goes through a
// bufio.Writer, what --print-only and --diff have "printed" for the files that
// went fine is in that buffer until it is flushed. Every way out of the
// function that made the writer flushes it — also the way out on which Run
// reported an error for some other file.
func bufferedOutputIsFlushed(r *an.Run, rule string) {
	r.Rule(rule)
	n := 0
	for _, f := range moduleFuncsSorted(r) {
		if an.FuncPkgPath(f) != an.Module && an.FuncPkgPath(f) != an.Module+"/"+patchP {
			continue
		}
		for _, c := range an.Calls(f) {
			if !an.IsCallTo(c, "bufio.NewWriter", "bufio.NewWriterSize") {
				continue
			}
			w, ok := c.(*ssa.Call)
			if !ok {
				continue
			}
			n++
			flushes := func(in ssa.Instruction) bool {
				fc, ok := in.(ssa.CallInstruction)
				if !ok || !an.IsCallTo(fc, "(*bufio.Writer).Flush") {
					return false
				}
				return len(fc.Common().Args) > 0 && derivesFrom(fc.Common().Args[0], w)
			}
			// a deferred flush (directly or in a deferred closure) covers every exit
			deferred := false
			for _, b := range f.Blocks {
				for _, in := range b.Instrs {
					d, ok := in.(*ssa.Defer)
					if !ok {
						continue
					}
					if flushes(d) && w.Block().Dominates(d.Block()) {
						deferred = true
					}
					if mc, ok := d.Call.Value.(*ssa.MakeClosure); ok {
						if g, ok := mc.Fn.(*ssa.Function); ok {
							for _, gc := range an.CallsTo(g, "(*bufio.Writer).Flush") {
								if len(gc.Common().Args) > 0 {
									for v := range an.BackSlice(gc.Common().Args[0], an.SliceOpts{ThroughMemory: true}) {
										if fv, ok := v.(*ssa.FreeVar); ok {
											for i, gfv := range g.FreeVars {
												if gfv == fv && derivesFrom(mc.Bindings[i], w) {
													deferred = true
												}
											}
										}
									}
								}
							}
						}
					}
				}
			}
			if deferred {
				r.Pass(short(f)+"|flushed-on-every-exit", c.Pos(), "the buffered writer made in %s is flushed by a deferred call", short(f))
				continue
			}
			flushing := map[*ssa.BasicBlock]bool{}
			for _, b := range f.Blocks {
				for i, in := range b.Instrs {
					if flushes(in) && (b != w.Block() || i > an.InstrBlockIndex(w)) {
						flushing[b] = true
					}
				}
			}
			reach := an.Reach([]*ssa.BasicBlock{w.Block()}, func(from *ssa.BasicBlock, succ int) bool { return flushing[from] })
			var missed *ssa.Return
			for _, ret := range an.Returns(f) {
				if reach[ret.Block()] && !flushing[ret.Block()] {
					missed = ret
				}
			}
			// the writer handed back to the caller is the caller's to flush
			returned := false
			for _, ret := range an.Returns(f) {
				for _, res := range ret.Results {
					if derivesFrom(res, w) {
						returned = true
					}
				}
			}
			if returned {
				r.Pass(short(f)+"|flushed-on-every-exit", c.Pos(), "%s hands the buffered writer to its caller", short(f))
				continue
			}
			pos := c.Pos()
			if missed != nil {
				pos = missed.Pos()
			}
			r.Check(missed == nil, short(f)+"|flushed-on-every-exit", pos, "every way out of %s flushes the bufio.Writer it wrapped around the output: what the dry-run modes printed for the files that went fine sits in the buffer, and a return that skips Flush (the one taken when Run reports an error for another file) drops it", short(f))
		}
	}
	r.Count("buffered output writers", n)
}

// argumentsTakenAsGiven (C15): the file and directory arguments the user gave
// are the ones file discovery works on. The chain of custody is short: runMain
// hands os.Args[1:] to Run, Run hands them to the flag parser, and the
// positional arguments the parser stored (options.Args.Patterns) go to findFiles
// — and nothing in the module writes that field (go-flags fills it by
// reflection). A step that expands, prunes or rewrites the arguments on the way
// (glob expansion of a literal name, dropping an argument "covered" by another
// although the walk skips the directory it is in) breaks "a file named
// explicitly is processed wherever it lives".
func argumentsTakenAsGiven(r *an.Run, rule string) {
	r.Rule(rule)
	rm, run := fn(r, mainP, "runMain"), fn(r, mainP, "mainCmd.Run")
	if rm == nil || run == nil {
		return
	}
	// (a) runMain → Run: os.Args[1:]
	okA := false
	var posA token.Pos = rm.Pos()
	for _, c := range an.Calls(rm) {
		if an.StaticCallee(c) != run {
			continue
		}
		posA = c.Pos()
		args := c.Common().Args
		if len(args) < 2 {
			continue
		}
		if sl, ok := args[1].(*ssa.Slice); ok && sl.High == nil && sl.Max == nil {
			if k, isc := an.ConstInt(sl.Low); isc && k == 1 {
				if ld, ok := sl.X.(*ssa.UnOp); ok && ld.Op == token.MUL {
					if g, ok := ld.X.(*ssa.Global); ok && g.Pkg.Pkg.Path() == "os" && g.Name() == "Args" {
						okA = true
					}
				}
			}
		}
	}
	r.Check(okA, short(rm)+"|hands-os.Args-to-Run", posA, "runMain hands os.Args[1:] to Run as they are: an argument is the literal name of a file or directory, never a pattern to expand")
	// (b) Run → ParseArgs: the parameter (the call may sit in a helper that is handed Run's arguments)
	okB := false
	posB := run.Pos()
	group := helperGroup(run, 2)
	for _, g := range group {
		for _, c := range an.Calls(g) {
			if !strings.HasSuffix(an.CalleeName(c), ".Parser).ParseArgs") {
				continue
			}
			posB = c.Pos()
			a := c.Common().Args
			if len(a) >= 2 {
				v := a[1]
				if g != run {
					v = liftIn(run, v)
				}
				if v == ssa.Value(paramAt(run, 0)) {
					okB = true
				}
			}
		}
	}
	r.Check(okB, short(run)+"|hands-args-to-the-flag-parser", posB, "Run hands its arguments to the flag parser as they are")
	// (c) Patterns → findFiles: the []string field of a struct field of the options, as loaded
	ff := fn(r, mainP, "findFiles")
	okC := false
	posC := run.Pos()
	var patternsField *types.Var
	var optsT types.Type
	if nap := fn(r, mainP, "newArgParser"); nap != nil && nap.Signature.Results().Len() == 2 {
		optsT = derefType(nap.Signature.Results().At(1).Type())
	}
	if ff != nil && optsT != nil {
		for _, g := range group {
			for _, c := range an.Calls(g) {
				if an.StaticCallee(c) != ff {
					continue
				}
				posC = c.Pos()
				for _, a := range c.Common().Args {
					if g != run {
						if la := liftIn(run, a); la != nil {
							a = la
						}
					}
					ld, ok := a.(*ssa.UnOp)
					if !ok || ld.Op != token.MUL {
						continue
					}
					fa, ok := ld.X.(*ssa.FieldAddr)
					if !ok {
						continue
					}
					st, ok := derefType(fa.X.Type()).Underlying().(*types.Struct)
					if !ok || an.ShortType(st.Field(fa.Field).Type()) != "[]string" {
						continue
					}
					if inner, ok := fa.X.(*ssa.FieldAddr); ok && types.Identical(derefType(inner.X.Type()), optsT) {
						okC = true
						patternsField = st.Field(fa.Field)
					}
				}
			}
		}
	}
	r.Check(okC, short(run)+"|hands-the-positional-arguments-to-findFiles", posC, "Run hands the positional arguments the flag parser stored (options.Args.Patterns) to findFiles as they are")
	// (d) nobody writes the field
	if patternsField != nil {
		n := 0
		for _, f := range moduleFuncsSorted(r) {
			for _, in := range an.StoresIn(f) {
				st, ok := in.(*ssa.Store)
				if !ok {
					continue
				}
				fa, ok := st.Addr.(*ssa.FieldAddr)
				if !ok {
					continue
				}
				if s, ok := derefType(fa.X.Type()).Underlying().(*types.Struct); ok && s.Field(fa.Field) == patternsField {
					n++
					r.Fail(short(f)+"|rewrites-the-positional-arguments", st.Pos(), "%s assigns options.Args.Patterns: the arguments the user gave are replaced before file discovery sees them (an argument dropped because another one \"covers\" it is not covered when the walk skips the directory it lies in)", short(f))
				}
			}
		}
		if n == 0 {
			r.Pass("nobody-rewrites-the-positional-arguments", run.Pos(), "no function of the module assigns options.Args.Patterns")
		}
	}
}

// patchIsReadWhole (C16): a patch that was only read in part is a different
// patch — and a valid one whenever the cut falls between two changes: the rest
// is never applied and the run still succeeds. Every io.ReadAll of the module
// reads the source it was given (a parameter, a field, an opened file), not a
// reader that ends early by construction (io.LimitReader, io.NewSectionReader,
// an io.LimitedReader literal): those report a plain EOF at the limit, so a cut
// input cannot be told from a complete one.
func patchIsReadWhole(r *an.Run, rule string) {
	r.Rule(rule)
	n := 0
	for _, f := range moduleFuncsSorted(r) {
		for _, c := range an.Calls(f) {
			if !an.IsCallTo(c, "io.ReadAll", "io/ioutil.ReadAll") {
				continue
			}
			n++
			bad := ""
			for v := range an.BackSlice(c.Common().Args[0], an.SliceOpts{}) {
				switch x := v.(type) {
				case *ssa.Call:
					if an.IsCallTo(x, "io.LimitReader", "io.NewSectionReader", "(*bufio.Reader).Peek") {
						bad = an.CalleeName(x)
					}
				case *ssa.Alloc:
					if an.ShortType(derefType(x.Type())) == "io.LimitedReader" {
						bad = "io.LimitedReader"
					}
				}
			}
			r.Check(bad == "", short(f)+"|reads-the-whole-input", c.Pos(), "%s reads its input to the end: a reader that stops at a fixed size (%s) ends with a plain EOF, so a patch or a list cut there is loaded as if it were complete, the changes after the cut are never applied and the run still succeeds", short(f), bad)
		}
	}
	r.Count("whole-input reads", n)
	r.Min("whole-input reads", 1)
}

// sharedListsAreOnlyRead (C14): the lists that hang off the compiled patch
// (Change.Comments, Program.Changes, …) are shared by every file of the run and
// by every Apply call on the parsed patch. The code that works on one file may
// read them, hand them on and return them; it must not write into them: no
// store to an element, no append onto them (append(list[:0], …) overwrites the
// shared elements, append(list, …) writes into shared spare capacity), no
// copy into them, no in-place sort. The lists are followed from where they are
// loaded in the command and the library through phis, re-slices, local
// variables, calls, returns and closures.
func sharedListsAreOnlyRead(r *an.Run, rule string) {
	r.Rule(rule)
	isShared := func(t types.Type) bool {
		n, ok := derefType(t).(*types.Named)
		return ok && n.Obj().Pkg() != nil && n.Obj().Pkg().Path() == enginePath
	}
	n := 0
	for _, f := range moduleFuncsSorted(r) {
		pk := an.FuncPkgPath(f)
		if pk != an.Module && pk != an.Module+"/"+patchP {
			continue
		}
		for _, b := range f.Blocks {
			for _, in := range b.Instrs {
				ld, ok := in.(*ssa.UnOp)
				if !ok || ld.Op != token.MUL {
					continue
				}
				fa, ok := ld.X.(*ssa.FieldAddr)
				if !ok || !isShared(fa.X.Type()) {
					continue
				}
				if _, isSlice := ld.Type().Underlying().(*types.Slice); !isSlice {
					continue
				}
				n++
				w := &writeTaint{r: r, seen: map[ssa.Value]bool{}}
				w.follow(ld, 0)
				key := short(f) + "|" + strings.TrimPrefix(an.ShortType(derefType(fa.X.Type())), "engine.") + "." + fieldNameOf(fa)
				if w.where != nil {
					r.Fail(key+"|written", w.where.Pos(), "%s loads the list %s of the compiled patch and %s (in %s): the list is shared by every file of the run and every Apply call on the parsed patch, so what one file leaves there is what the next file sees", short(f), fieldNameOf(fa), w.how, short(w.where.Parent()))
				} else {
					r.Pass(key+"|only-read", ld.Pos(), "the list %s of the compiled patch loaded in %s is only read, handed on or returned (%d uses followed)", fieldNameOf(fa), short(f), len(w.seen))
				}
			}
		}
	}
	r.Count("lists of the compiled patch loaded by the command and the library", n)
	r.Min("lists of the compiled patch loaded by the command and the library", 2)
}

type writeTaint struct {
	r     *an.Run
	seen  map[ssa.Value]bool
	where ssa.Instruction
	how   string
}

func (w *writeTaint) hit(at ssa.Instruction, how string) {
	if w.where == nil {
		w.where, w.how = at, how
	}
}

func (w *writeTaint) follow(v ssa.Value, depth int) {
	if w.seen[v] || w.where != nil || depth > 4 {
		return
	}
	w.seen[v] = true
	refs := v.Referrers()
	if refs == nil {
		return
	}
	for _, u := range *refs {
		switch u := u.(type) {
		case *ssa.IndexAddr:
			if u.X != v {
				continue
			}
			for _, x := range *u.Referrers() {
				if st, ok := x.(*ssa.Store); ok && st.Addr == ssa.Value(u) {
					w.hit(st, "assigns to an element of it")
				}
			}
		case *ssa.Slice:
			if u.X == v {
				w.follow(u, depth)
			}
		case *ssa.Phi, *ssa.ChangeType, *ssa.MakeInterface:
			w.follow(u.(ssa.Value), depth)
		case *ssa.Store:
			if u.Val != v {
				continue
			}
			if al, ok := u.Addr.(*ssa.Alloc); ok {
				w.followCell(al, depth)
			}
		case *ssa.MakeClosure:
			g, ok := u.Fn.(*ssa.Function)
			if !ok {
				continue
			}
			for i, bnd := range u.Bindings {
				if bnd == v && i < len(g.FreeVars) {
					w.follow(g.FreeVars[i], depth+1)
				}
			}
		case *ssa.Return:
			idx := -1
			for i, res := range u.Results {
				if res == v {
					idx = i
				}
			}
			for _, c := range w.r.P.CallersOf(u.Parent()) {
				cv := c.Value()
				if cv == nil {
					continue
				}
				if len(u.Results) == 1 {
					w.follow(cv, depth+1)
					continue
				}
				for _, x := range *cv.Referrers() {
					if ex, ok := x.(*ssa.Extract); ok && ex.Index == idx {
						w.follow(ex, depth+1)
					}
				}
			}
		case ssa.CallInstruction:
			com := u.Common()
			if b, ok := com.Value.(*ssa.Builtin); ok {
				switch b.Name() {
				case "append":
					if com.Args[0] == v {
						w.hit(u, "appends onto it (or onto a re-slice of it)")
					}
				case "copy":
					if com.Args[0] == v {
						w.hit(u, "copies into it")
					}
				}
				continue
			}
			if len(com.Args) > 0 && com.Args[0] == v && an.IsCallTo(u, "sort.Strings", "sort.Slice", "sort.SliceStable", "sort.Sort", "sort.Stable", "slices.Sort", "slices.SortFunc", "slices.SortStableFunc", "slices.Reverse") {
				w.hit(u, "sorts it in place")
				continue
			}
			callee := com.StaticCallee()
			if callee == nil || com.IsInvoke() || !an.InModule(callee) || callee.Blocks == nil {
				continue
			}
			for i, a := range com.Args {
				if a == v && i < len(callee.Params) {
					w.follow(callee.Params[i], depth+1)
				}
			}
		}
	}
}

// followCell: the list was stored in a local variable; what is loaded from
// the variable (here or in a function literal that captured it) is the list.
func (w *writeTaint) followCell(cell ssa.Value, depth int) {
	if w.seen[cell] {
		return
	}
	w.seen[cell] = true
	refs := cell.Referrers()
	if refs == nil {
		return
	}
	for _, x := range *refs {
		switch x := x.(type) {
		case *ssa.UnOp:
			if x.Op == token.MUL {
				w.follow(x, depth)
			}
		case *ssa.MakeClosure:
			if g, ok := x.Fn.(*ssa.Function); ok {
				for i, bnd := range x.Bindings {
					if bnd == cell && i < len(g.FreeVars) {
						w.followCell(g.FreeVars[i], depth+1)
					}
				}
			}
		}
	}
}

// recordedNameDecidesDeletion (C11): a matched import is deleted when the file
// no longer uses its name. For an import the matcher recorded a name for
// (importData.Name — the name in the file, or the name the metavariable was
// bound to, the only name under which the patch's `x.Foo` can have matched),
// that name is the one to look for; the guess from the import path is only for
// an import nothing was recorded for. So the name handed to usesNameAsTopLevel
// is never reset to "" (which sends it to the guess) on a path on which the
// record was found.
func recordedNameDecidesDeletion(r *an.Run, rule string) {
	r.Rule(rule)
	f := fn(r, engine, "ImportsReplacer.Cleanup")
	uses := fn(r, engine, "usesNameAsTopLevel")
	if f == nil || uses == nil {
		return
	}
	// the blocks of g behind "a record was found"
	foundIn := func(g *ssa.Function) []*ssa.BasicBlock {
		var found []*ssa.BasicBlock
		for _, c := range an.CallsTo(g, dataPath+".Lookup") {
			call, ok := c.(*ssa.Call)
			if !ok || len(call.Call.Args) < 3 || !strings.HasSuffix(an.ShortType(derefType(an.Unwrap(call.Call.Args[2]).Type())), "importData") {
				continue
			}
			for _, br := range an.BranchesOn(g, call) {
				if e := br.EdgeWhen(true); e >= 0 {
					found = append(found, br.If.Block().Succs[e])
				}
			}
		}
		return found
	}
	n := 0
	for _, g := range helperGroup(f, 1) {
		for _, c := range an.Calls(g) {
			if an.StaticCallee(c) != uses || len(c.Common().Args) < 2 {
				continue
			}
			n++
			sawLookup := false
			var bad ssa.Instruction
			seen := map[ssa.Value]bool{}
			var visit func(v ssa.Value, h *ssa.Function, depth int)
			// a parameter of a helper entered on the way stands for the argument at the call that was entered
			type actual struct {
				v ssa.Value
				h *ssa.Function
			}
			bound := map[*ssa.Parameter]actual{}
			bind := func(call *ssa.Call, k, h *ssa.Function) {
				for i, prm := range k.Params {
					if i < len(call.Call.Args) {
						bound[prm] = actual{call.Call.Args[i], h}
					}
				}
			}
			// fieldOfCall: field `field` of the struct the module function called returns — what that function
			// stores into the field of the local it returns
			fieldOfCall := func(call *ssa.Call, field int, depth int) {
				k := an.StaticCallee(call)
				if k == nil || !an.InModule(k) || k.Blocks == nil {
					return
				}
				fk := foundIn(k)
				if len(fk) > 0 {
					sawLookup = true
				}
				for _, ret := range an.Returns(k) {
					if len(ret.Results) != 1 {
						continue
					}
					ld, ok := ret.Results[0].(*ssa.UnOp)
					if !ok || ld.Op != token.MUL {
						continue
					}
					for _, b := range k.Blocks {
						for _, in := range b.Instrs {
							fa, ok := in.(*ssa.FieldAddr)
							if !ok || fa.X != ld.X || fa.Field != field {
								continue
							}
							for _, u := range *fa.Referrers() {
								st, ok := u.(*ssa.Store)
								if !ok || st.Addr != ssa.Value(fa) {
									continue
								}
								if s, isc := an.ConstString(st.Val); isc && s == "" {
									for _, t := range fk {
										if t.Dominates(st.Block()) {
											bad = st
										}
									}
								}
								visit(st.Val, k, depth+1)
							}
						}
					}
				}
			}
			visit = func(v ssa.Value, h *ssa.Function, depth int) {
				if v == nil || seen[v] || depth > 3 {
					return
				}
				seen[v] = true
				found := foundIn(h)
				if len(found) > 0 {
					sawLookup = true
				}
				resetBehindRecord := func(val ssa.Value, at *ssa.BasicBlock) bool {
					// the guess itself, made although the record was found
					isGuess := false
					if gc, ok := val.(*ssa.Call); ok {
						if k := an.StaticCallee(gc); k != nil && an.InModule(k) && k != uses {
							for _, hh := range helperGroup(k, 1) {
								if len(an.CallsTo(hh, "path.Base", "path/filepath.Base")) > 0 {
									isGuess = true
								}
							}
						}
					}
					if s, isc := an.ConstString(val); isc && s == "" || isGuess {
						for _, t := range found {
							if t.Dominates(at) {
								return true
							}
						}
					}
					return false
				}
				switch x := v.(type) {
				case *ssa.Parameter:
					if a, ok := bound[x]; ok {
						visit(a.v, a.h, depth)
					}
				case *ssa.Phi:
					for i, e := range x.Edges {
						p := x.Block().Preds[i]
						if resetBehindRecord(e, p) {
							bad = p.Instrs[len(p.Instrs)-1]
						}
						visit(e, h, depth)
					}
				case *ssa.UnOp:
					if x.Op != token.MUL {
						return
					}
					if fa, ok := x.X.(*ssa.FieldAddr); ok {
						// a field of a local record that was assigned whole from a helper's result
						for _, in := range an.StoresIn(h) {
							if st, ok := in.(*ssa.Store); ok && st.Addr == fa.X {
								if call, ok := st.Val.(*ssa.Call); ok {
									fieldOfCall(call, fa.Field, depth)
								}
							}
						}
					}
					path := an.Path(x.X)
					if path == "" {
						return
					}
					for _, in := range an.StoresIn(h) {
						st, ok := in.(*ssa.Store)
						if !ok || an.Path(st.Addr) != path {
							continue
						}
						if resetBehindRecord(st.Val, st.Block()) {
							bad = st
						}
						visit(st.Val, h, depth)
					}
				case *ssa.Field:
					// a field of the record a helper returned
					if call, ok := x.X.(*ssa.Call); ok {
						fieldOfCall(call, x.Field, depth)
					}
				case *ssa.Extract:
					if call, ok := x.Tuple.(*ssa.Call); ok {
						if k := an.StaticCallee(call); k != nil && an.InModule(k) && k.Blocks != nil {
							bind(call, k, h)
							for _, ret := range an.Returns(k) {
								if x.Index < len(ret.Results) {
									visit(ret.Results[x.Index], k, depth+1)
								}
							}
						}
					}
				case *ssa.Call:
					if k := an.StaticCallee(x); k != nil && an.InModule(k) && k.Blocks != nil && k != uses {
						bind(x, k, h)
						for _, ret := range an.Returns(k) {
							if len(ret.Results) == 1 {
								visit(ret.Results[0], k, depth+1)
							}
						}
					}
				}
			}
			visit(c.Common().Args[1], g, 0)
			if !sawLookup {
				r.Undecided(short(g)+"|recorded-name-kept", c.Pos(), "cannot find the branch on data.Lookup(d, importKey(path), *importData) on the way of the name %s looks for", short(g))
				continue
			}
			pos := c.Pos()
			if bad != nil {
				pos = bad.Pos()
			}
			r.Check(bad == nil, short(f)+"|recorded-name-kept", pos, "the name %s looks for in the file, to decide whether a matched import is still used, is the name the matcher recorded for that import whenever it recorded one: it is not reset to \"\" (and then guessed from the import path) behind the successful lookup of the record — for an import matched through a metavariable the recorded name is the only name the rest of the patch can have matched", short(f))
		}
	}
	r.Count("names looked for before a matched import is deleted", n)
	r.Min("names looked for before a matched import is deleted", 1)
}

// patternRootIsWhatWasWritten (C03): the node pgo.Parse keeps as the pattern is
// found in the parsed (augmented) source by undoing exactly what the finder
// wrapped around it: the only declaration of the file, the body of the fake
// function, its only statement, the expression of that expression statement.
// Descending any further (through parentheses, a unary operator, a conversion)
// drops tokens the author of the patch wrote: on the '+' side they never reach
// the rewritten code.
func patternRootIsWhatWasWritten(r *an.Run, rule string) {
	r.Rule(rule)
	f := fn(r, pgoRel, "Parse")
	aug := fn(r, pgoRel, "augmentAST")
	if f == nil || aug == nil {
		return
	}
	allowed := setOf("File.Decls", "FuncDecl.Body", "BlockStmt.List", "ExprStmt.X")
	var root ssa.Value
	var at ssa.CallInstruction
	// the call may sit in a stage split off Parse; the node is the argument of interface type ast.Node
	for _, g := range helperGroup(f, 2) {
		for _, c := range an.Calls(g) {
			if an.StaticCallee(c) != aug {
				continue
			}
			for _, a := range c.Common().Args {
				if an.ShortType(a.Type()) == "ast.Node" {
					root, at = a, c
				}
			}
		}
	}
	if root == nil {
		r.Undecided(short(f)+"|pattern-root", f.Pos(), "%s does not call augmentAST", short(f))
		return
	}
	descents := map[string]token.Pos{}
	seen := map[ssa.Value]bool{}
	var visit func(v ssa.Value, depth int)
	record := func(t types.Type, field int, pos token.Pos) {
		n, ok := derefType(t).(*types.Named)
		if !ok || n.Obj().Pkg() == nil || n.Obj().Pkg().Path() != "go/ast" {
			return
		}
		st, ok := n.Underlying().(*types.Struct)
		if !ok {
			return
		}
		k := n.Obj().Name() + "." + st.Field(field).Name()
		if _, dup := descents[k]; !dup {
			descents[k] = pos
		}
	}
	visit = func(v ssa.Value, depth int) {
		if v == nil || seen[v] || depth > 4 {
			return
		}
		seen[v] = true
		switch x := v.(type) {
		case *ssa.Phi:
			for _, e := range x.Edges {
				visit(e, depth)
			}
		case *ssa.MakeInterface:
			visit(x.X, depth)
		case *ssa.ChangeInterface:
			visit(x.X, depth)
		case *ssa.ChangeType:
			visit(x.X, depth)
		case *ssa.TypeAssert:
			visit(x.X, depth)
		case *ssa.Extract:
			switch t := x.Tuple.(type) {
			case *ssa.TypeAssert:
				visit(t.X, depth)
			case *ssa.Call:
				if h := an.StaticCallee(t); h != nil && an.InModule(h) && h.Blocks != nil {
					for _, ret := range an.Returns(h) {
						if x.Index < len(ret.Results) {
							visit(ret.Results[x.Index], depth+1)
						}
					}
				}
			}
		case *ssa.Call:
			if h := an.StaticCallee(x); h != nil && an.InModule(h) && h.Blocks != nil {
				for _, ret := range an.Returns(h) {
					if len(ret.Results) == 1 {
						visit(ret.Results[0], depth+1)
					}
				}
			}
		case *ssa.Parameter:
			if x.Parent() == f {
				return
			}
			for _, c := range r.P.CallersOf(x.Parent()) {
				for i, prm := range x.Parent().Params {
					if prm == x && i < len(c.Common().Args) {
						visit(c.Common().Args[i], depth+1)
					}
				}
			}
		case *ssa.UnOp:
			if x.Op != token.MUL {
				return
			}
			switch a := x.X.(type) {
			case *ssa.FieldAddr:
				record(a.X.Type(), a.Field, x.Pos())
				visit(a.X, depth)
			case *ssa.IndexAddr:
				visit(a.X, depth)
			case *ssa.Alloc:
				for _, u := range *a.Referrers() {
					if st, ok := u.(*ssa.Store); ok && st.Addr == ssa.Value(a) {
						visit(st.Val, depth)
					}
				}
			}
		case *ssa.Field:
			record(x.X.Type(), x.Field, x.Pos())
			visit(x.X, depth)
		case *ssa.Index:
			visit(x.X, depth)
		}
	}
	visit(root, 0)
	var names []string
	for k := range descents {
		names = append(names, k)
	}
	sort.Strings(names)
	for _, k := range names {
		r.Check(allowed[k], short(f)+"|pattern-root|"+k, descents[k], "on the way from the parsed source to the node it keeps as the pattern, %s descends through %s; only the wrapping the finder added is undone (File.Decls, FuncDecl.Body, BlockStmt.List, ExprStmt.X) — going further drops tokens that were written in the patch, and a '+' pattern no longer appears verbatim in the rewritten code", short(f), k)
	}
	r.Count("descents from the parsed patch to the pattern root", len(names))
	r.Min("descents from the parsed patch to the pattern root", 3)
	_ = at
}

// treeIsParsedFromTheBytesGiven (C03/C14): what is matched and rewritten for a
// file is the tree go/parser made from that file's bytes in this very call.
// The engine rewrites the tree in place, so a tree kept from an earlier call
// (a cache keyed by name and contents) is already rewritten: the second Apply
// instantiates the '+' pattern with code captured from the output of the
// first. In both pipelines the *ast.File handed on (to the snapshot, to the
// changes) is the first result of a parser.ParseFile call — directly, or
// through a helper all of whose returns are one.
func treeIsParsedFromTheBytesGiven(r *an.Run, rule string) {
	r.Rule(rule)
	before := r.P.Func("internal/astdiff", "Before")
	n := 0
	for _, name := range [][2]string{{patchP, "File.Apply"}, {mainP, "mainCmd.Run"}} {
		f := fn(r, name[0], name[1])
		if f == nil {
			continue
		}
		var roots []ssa.Value
		var sites []ssa.CallInstruction
		for _, g := range helperGroup(f, 2) {
			for _, c := range an.Calls(g) {
				sc := an.StaticCallee(c)
				if sc == nil || !an.InModule(sc) {
					continue
				}
				isSink := sc == before && before != nil || sc == r.P.Func(engine, "Change.Match")
				if !isSink {
					continue
				}
				for _, a := range c.Common().Args {
					if an.ShortType(a.Type()) == "*ast.File" {
						roots = append(roots, a)
						sites = append(sites, c)
					}
				}
			}
		}
		for i, root := range roots {
			n++
			bad := ""
			seen := map[ssa.Value]bool{}
			var visit func(v ssa.Value, depth int)
			visit = func(v ssa.Value, depth int) {
				if seen[v] || bad != "" {
					return
				}
				seen[v] = true
				if an.IsNilConst(v) {
					return
				}
				switch x := v.(type) {
				case *ssa.Phi:
					for _, e := range x.Edges {
						visit(e, depth)
					}
					return
				case *ssa.Extract:
					if call, ok := x.Tuple.(*ssa.Call); ok {
						if an.IsCallTo(call, "go/parser.ParseFile") && x.Index == 0 {
							return
						}
						if h := an.StaticCallee(call); h != nil && an.InModule(h) && h.Blocks != nil && depth < 3 {
							for _, ret := range an.Returns(h) {
								if x.Index < len(ret.Results) {
									visit(ret.Results[x.Index], depth+1)
								}
							}
							return
						}
					}
				case *ssa.Call:
					if h := an.StaticCallee(x); h != nil && an.InModule(h) && h.Blocks != nil && depth < 3 {
						for _, ret := range an.Returns(h) {
							if len(ret.Results) == 1 {
								visit(ret.Results[0], depth+1)
							}
						}
						return
					}
				case *ssa.Parameter:
					// a parameter of a helper of the pipeline: what its callers hand it
					if x.Parent() != f && depth < 4 {
						callers := r.P.CallersOf(x.Parent())
						for _, cc := range callers {
							for i, prm := range x.Parent().Params {
								if prm == x && i < len(cc.Common().Args) {
									visit(cc.Common().Args[i], depth+1)
								}
							}
						}
						if len(callers) > 0 {
							return
						}
					}
				}
				bad = an.Describe(v)
			}
			visit(root, 0)
			r.Check(bad == "", short(f)+"|tree-parsed-here|"+lastSegment(an.CalleeName(sites[i])), sites[i].Pos(), "the tree %s hands to %s is the one go/parser made from the bytes of this call (found %s): the engine rewrites trees in place, so a tree kept from an earlier call is already rewritten, and the next result is built from the previous output instead of the file", short(f), lastSegment(an.CalleeName(sites[i])), bad)
		}
	}
	r.Count("trees handed to the engine", n)
	r.Min("trees handed to the engine", 2)
}

// failuresLookedAtBeforeSuccess (C16): the library collects the errors of the
// changes that could not be reproduced while it goes through the changes. Once
// the loop is over, no "nothing to do" shortcut returns success before the
// collected error has been looked at: every return with a nil error behind the
// loop sits behind the "nothing was collected" side of a test of the
// accumulator.
func failuresLookedAtBeforeSuccess(r *an.Run, rule string) {
	r.Rule(rule)
	api := fn(r, patchP, "File.Apply")
	if api == nil {
		return
	}
	f := changeLoopHost(r, api)
	n := 0
	for _, l := range an.Loops(f) {
		// accumulators: error-typed (or []error) phis of the header that are fed by a call that takes them
		var accs []*ssa.Phi
		for _, in := range l.Header.Instrs {
			phi, ok := in.(*ssa.Phi)
			if !ok {
				break
			}
			if !an.IsErrorType(phi.Type()) && an.ShortType(phi.Type()) != "[]error" {
				continue
			}
			self := false
			for _, e := range phi.Edges {
				if e != ssa.Value(phi) && an.BackSlice(e, an.SliceOpts{ThroughCalls: true, ThroughMemory: true})[phi] {
					if _, isCall := e.(*ssa.Call); isCall {
						self = true
					}
					for _, leaf := range phiLeaves(e) {
						if c, isCall := leaf.(*ssa.Call); isCall && an.BackSlice(c, an.SliceOpts{ThroughCalls: true, ThroughMemory: true})[phi] {
							self = true
						}
					}
				}
			}
			if self {
				accs = append(accs, phi)
			}
		}
		if len(accs) == 0 {
			continue
		}
		var exits []*ssa.BasicBlock
		for b := range l.Blocks {
			for _, s := range b.Succs {
				if !l.Blocks[s] {
					exits = append(exits, s)
				}
			}
		}
		for _, acc := range accs {
			n++
			isAcc := func(v ssa.Value) bool {
				for _, leaf := range phiLeaves(v) {
					if leaf == ssa.Value(acc) {
						return true
					}
				}
				return v == ssa.Value(acc)
			}
			skip := func(from *ssa.BasicBlock, succ int) bool {
				iff, ok := from.Instrs[len(from.Instrs)-1].(*ssa.If)
				if !ok {
					return false
				}
				cond, pos := an.StripNot(iff.Cond)
				cmp, ok := cond.(*ssa.BinOp)
				if !ok {
					return false
				}
				emptyOnTrue, known := false, false
				if an.IsErrorType(acc.Type()) && (cmp.Op == token.EQL || cmp.Op == token.NEQ) {
					if isAcc(cmp.X) && an.IsNilConst(cmp.Y) || isAcc(cmp.Y) && an.IsNilConst(cmp.X) {
						emptyOnTrue, known = cmp.Op == token.EQL, true
					}
				} else if sub, e, ok := emptinessTest(cmp); ok && isAcc(sub) {
					emptyOnTrue, known = e, true
				}
				if !known {
					return false
				}
				if !pos {
					emptyOnTrue = !emptyOnTrue
				}
				// remove the "nothing collected" edge
				return emptyOnTrue == (succ == 0)
			}
			reach := an.Reach(exits, skip)
			var bad *ssa.Return
			for _, ret := range an.Returns(f) {
				if !reach[ret.Block()] || len(ret.Results) == 0 {
					continue
				}
				last := ret.Results[len(ret.Results)-1]
				if an.IsErrorType(last.Type()) && an.IsNilConst(last) {
					bad = ret
				}
			}
			pos := acc.Pos()
			if bad != nil {
				pos = bad.Pos()
			}
			r.Check(bad == nil, short(f)+"|collected-error-before-success", pos, "behind the change loop of %s, every return with a nil error is reached only through the \"nothing was collected\" side of a test of the collected error: a shortcut taken before that test (\"no change touched the file\") hands the caller the untouched source and no error although a change that matched could not be reproduced", short(f))
		}
	}
	r.Count("error accumulators of the library's change loop", n)
	r.Min("error accumulators of the library's change loop", 1)
}

// finderIgnoresSpacing (C13): the elision finder tells a variadic parameter
// from an elision by the token that follows and by whether it is on the same
// line — spacing inside a line is layout. A decision that compares two byte
// offsets (or two positions) of the patch text with each other ("the type
// starts right after the dots") makes `... T` and `...T` two different
// patches.
func finderIgnoresSpacing(r *an.Run, rule string) {
	r.Rule(rule)
	anchor := fn(r, augRel, "finder.ellipsis")
	if anchor == nil {
		return
	}
	recvT := anchor.Signature.Recv().Type()
	fromOffset := func(v ssa.Value) bool {
		if an.ShortType(v.Type()) == "token.Pos" {
			return true
		}
		for x := range an.BackSlice(v, an.SliceOpts{}) {
			switch y := x.(type) {
			case *ssa.FieldAddr:
				if fieldNameOf(y) == "offset" || fieldNameOf(y) == "Offset" || fieldNameOf(y) == "Column" {
					return true
				}
			case *ssa.Field:
				if st, ok := y.X.Type().Underlying().(*types.Struct); ok {
					if nm := st.Field(y.Field).Name(); nm == "Offset" || nm == "Column" {
						return true
					}
				}
			case *ssa.Call:
				if an.IsCallTo(y, "(*go/token.File).Offset") {
					return true
				}
			}
		}
		return false
	}
	n := 0
	for _, f := range moduleFuncsSorted(r) {
		root := f
		for root.Parent() != nil {
			root = root.Parent()
		}
		if root.Signature.Recv() == nil || !types.Identical(root.Signature.Recv().Type(), recvT) {
			continue
		}
		for _, b := range f.Blocks {
			for _, in := range b.Instrs {
				cmp, ok := in.(*ssa.BinOp)
				if !ok {
					continue
				}
				switch cmp.Op {
				case token.EQL, token.NEQ, token.LSS, token.LEQ, token.GTR, token.GEQ:
				default:
					continue
				}
				n++
				if _, isc := cmp.X.(*ssa.Const); isc {
					continue
				}
				if _, isc := cmp.Y.(*ssa.Const); isc {
					continue
				}
				if fromOffset(cmp.X) && fromOffset(cmp.Y) {
					r.Fail(short(f)+"|decides-on-spacing", cmp.Pos(), "%s compares two byte offsets / positions of the patch text with each other: whether two tokens are adjacent is spacing, and re-spacing the Go code of a patch identically on both sides must not change what it means (\"... T\" and \"...T\" are the same variadic parameter)", short(f))
				}
			}
		}
	}
	r.Count("comparisons in the elision finder", n)
	r.Min("comparisons in the elision finder", 10)
	r.Pass("finder-comparisons", anchor.Pos(), "%d comparisons in the methods of the elision finder: none compares two offsets or positions of the patch text", n)
}
