package rules

import (
	"go/token"
	"go/types"
	"sort"
	"strings"

	"golang.org/x/tools/go/ssa"

	"gpcheck/internal/an"
)

func init() {
	register(&Spec{
		ID:  "C14",
		Run: runC14,
		Explanation: "Decides: R1 the compiled program is read-only after compilation — in code reachable from Change.Match, Change.Replace, patchRunner.Apply and File.Apply no store, map update or in-place sort targets memory rooted at a package-level variable or at a receiver/parameter/captured variable of a compiled-program type (Program, Change, Meta, every Matcher and Replacer implementation, the compilers; compilers created per metavariable capture are private and excepted), and no package-level variable is written anywhere on those paths; " +
			"R2 fresh per-change state — data.New() is called inside Change.Match and engine.NewChangelog() inside the change loop of both runners; R3 no ambient nondeterminism — reachable module code calls no clock, randomness or environment function and starts no goroutine, and every range over a map either feeds a sort before its result is used or only fills another map (one listed exception: the order of diagnostics of a rejected patch); " +
			"R4 fixed processing order — findFiles keys its de-duplication map by the absolute path and sorts by it with a strict less; R5 cross-file state of mainCmd.Run — no local variable or pointer-typed value created outside the per-file loop is written or handed to a mutating call inside it, other than the position table (token.FileSet, append-only and locked), the error accumulators, the logger and the runner. " +
			"R1 also covers append: a slice held by the compiled program (or a re-slice of it such as m.results[:0]) is never appended to while matching/replacing — with spare capacity append writes into the shared backing array. " +
			"NOT decided: data races inside third-party code, position-base effects of the shared FileSet on printing, concurrent Apply calls beyond R1 (absence of writes to shared state)." +
			" R5 also: runner fields written while files are processed are never read there." +
			" R1 also: the shared token.FileSet only grows — no RemoveFile / Read anywhere in the module; writes through sync/atomic, sync.Once and sync.Map count as writes. R6 bytes kept for a file are not a window into a re-used buffer (C03-R12)." +
			" R5 also: the header of the per-file loop carries no value besides the position and the error list." +
			" R7 slice-typed fields of engine structs loaded by the command and the library are never the destination of an element store, append, copy or in-place sort (forward value flow); R8 = C03-R16.",
		Trusted:     append([]string{"token.FileSet is internally locked and append-only", "the go-intervals coroutine is deterministic"}, commonTrusted...),
		Assumptions: commonAssumptions,
	})
}

func runC14(r *an.Run) {
	compiledProgramReadOnly(r, "R1-compiled-program-is-read-only")
	noPackageLevelState(r, "R1-compiled-program-is-read-only")
	libraryFileImmutable(r, "R1-compiled-program-is-read-only")
	c14FreshState(r)
	c14NoAmbient(r)
	c15OnceInOrder(r)
	relabel(r, "R3-each-file-once-in-fixed-order", "R4-fixed-processing-order")
	if m := buildRunModel(r); m != nil {
		crossFileState(r, m, "R5-cross-file-state")
	}
	noTransientBufferRetained(r, "R6-kept-bytes-are-not-a-window-into-a-reused-buffer")
	sharedListsAreOnlyRead(r, "R7-lists-of-the-compiled-patch-are-only-read")
	treeIsParsedFromTheBytesGiven(r, "R8-the-tree-rewritten-is-parsed-from-the-bytes-given")
}

func c14FreshState(r *an.Run) {
	r.Rule("R2-fresh-per-change-state")
	if f := fn(r, engine, "Change.Match"); f != nil {
		good := false
		for _, vc := range an.VerdictCalls(f) {
			a := an.CallArgs(vc.Call)
			if c, ok := a[len(a)-1].(*ssa.Call); ok && an.IsCallTo(c, dataPath+".New") {
				good = true
			}
		}
		r.Check(good, short(f)+"|fresh-data", f.Pos(), "every Change.Match starts from fresh match data (data.New() called inside Match)")
	}
	for _, spec := range [][2]string{{mainP, "patchRunner.Apply"}, {patchP, "File.Apply"}} {
		f := fn(r, spec[0], spec[1])
		if f == nil {
			continue
		}
		f = changeLoopHost(r, f)
		n := 0
		for _, c := range an.CallsTo(f, enginePath+".NewChangelog") {
			n++
			// innermost loop of the call is the change loop (contains the Match call)
			l := an.LoopOf(f, c.Block())
			inLoop := false
			if l != nil {
				for _, vc := range an.VerdictCalls(f) {
					if l.Blocks[vc.Call.Block()] {
						inLoop = true
					}
				}
			}
			r.Check(inLoop, short(f)+"|fresh-changelog", c.Pos(), "a new changelog is created for every applied change (not hoisted out of the change loop or kept in the runner)")
			// and it is what Replace / Diff / cleanupFilePos of this iteration receive
			call := c.(*ssa.Call)
			used := 0
			for _, u := range *call.Referrers() {
				if _, ok := u.(ssa.CallInstruction); ok {
					used++
				}
				if _, ok := u.(*ssa.MakeInterface); ok {
					used++
				}
			}
			r.Check(used >= 2, short(f)+"|changelog-used", c.Pos(), "that changelog is the one handed to Replace, Diff and cleanupFilePos")
		}
		r.Check(n == 1, short(f)+"|one-changelog-site", f.Pos(), "one NewChangelog call site (found %d)", n)
	}
}

var ambientExceptions = map[string]string{
	"(*internal/pgo.augmenter).Err": "ranges over the map of unused augmentations: affects only the order of diagnostics of a rejected patch, no file result",
}

func c14NoAmbient(r *an.Run) {
	r.Rule("R3-no-ambient-nondeterminism")
	roots := []*ssa.Function{r.P.Func(mainP, "main"), r.P.Func(patchP, "Parse"), r.P.Func(patchP, "File.Apply")}
	for _, f := range roots {
		if f == nil {
			r.Undecided("anchor|entry-points", 0, "an entry point (main.main, patch.Parse, patch.File.Apply) was not found")
			return
		}
	}
	reach := r.P.ReachableModuleFuncs(roots...)
	for _, e := range an.ExternalCalls(reach) {
		cl := classifyExt(e)
		if cl == "ambient" || e.Callee == "os.Getenv" || e.Callee == "os.LookupEnv" || e.Callee == "os.Environ" || e.Callee == "os.Getpid" || e.Callee == "os.Hostname" {
			r.Fail(short(e.In)+"|"+e.Callee, e.Site.Pos(), "%s calls %s: results would depend on the clock, randomness or the environment", short(e.In), e.Callee)
		}
	}
	nRange, nGo := 0, 0
	for f := range reach {
		if strings.Contains(an.FuncPkgPath(f), "/tools") {
			continue
		}
		for _, b := range f.Blocks {
			for _, in := range b.Instrs {
				switch x := in.(type) {
				case *ssa.Go:
					nGo++
					r.Fail(short(f)+"|go", x.Pos(), "%s starts a goroutine: results may depend on scheduling", short(f))
				case *ssa.Range:
					if _, isMap := x.X.Type().Underlying().(*types.Map); !isMap {
						continue
					}
					nRange++
					key := short(f) + "|map-range|" + an.ShortType(x.X.Type())
					if why, ok := ambientExceptions[short(f)]; ok {
						r.Pass(key+"|exception", x.Pos(), "listed exception: %s", why)
						continue
					}
					// loop of the range
					l := an.LoopOf(f, nextBlockOf(x))
					if l == nil {
						r.Undecided(key, x.Pos(), "cannot find the loop of this map range")
						continue
					}
					onlyMaps, sorted := true, false
					for lb := range l.Blocks {
						for _, li := range lb.Instrs {
							switch y := li.(type) {
							case *ssa.Store:
								// a temporary of the iteration itself (the range value spilled to read a field of it):
								// allocated in the loop and used nowhere else
								if al, isAl := an.Root(y.Addr).(*ssa.Alloc); isAl && !al.Heap && l.Blocks[al.Block()] && al.Referrers() != nil {
									inside := true
									for _, u := range *al.Referrers() {
										if !l.Blocks[u.Block()] {
											inside = false
										}
									}
									if inside {
										continue
									}
								}
								onlyMaps = false
							case ssa.CallInstruction:
								if !an.IsCallTo(y, "builtin:append", "builtin:len", "builtin:delete") {
									onlyMaps = false
								}
								if an.IsCallTo(y, "builtin:append") {
									onlyMaps = false
								}
							}
						}
					}
					for _, c := range an.Calls(f) {
						if isSortCall(c) && l.Header.Dominates(c.Block()) && !l.Blocks[c.Block()] {
							sorted = true
						}
					}
					r.Check(onlyMaps || sorted, key, x.Pos(), "iteration over a map in %s either only fills maps or its result is sorted before use (map iteration order is random)", short(f))
				}
			}
		}
	}
	r.Count("map ranges in reachable code", nRange)
	r.Min("map ranges in reachable code", 3)
	r.Pass("no-goroutines", 0, "%d go statements in %d reachable module functions", nGo, len(reach))
}

func nextBlockOf(rg *ssa.Range) *ssa.BasicBlock {
	for _, u := range *rg.Referrers() {
		if n, ok := u.(*ssa.Next); ok {
			return n.Block()
		}
	}
	return rg.Block()
}

// c14FixedOrder: findFiles de-duplicates by absolute path and sorts by it.
func c14FixedOrder(r *an.Run, rule string) {
	r.Rule(rule)
	f := fn(r, mainP, "findFiles")
	if f == nil {
		return
	}
	// the map update key
	n := 0
	var allStores []ssa.Instruction
	for _, g := range helperGroup(f, 2) {
		if g.Name() == "findGoFiles" || g.Parent() != nil && g.Parent().Name() == "findGoFiles" {
			continue // the walk of one argument (C15-R1)
		}
		allStores = append(allStores, an.StoresIn(g)...)
	}
	for _, in := range allStores {
		mu, ok := in.(*ssa.MapUpdate)
		if !ok {
			continue
		}
		n++
		r.Check(loadedField(mu.Key) == "Absolute", short(f)+"|dedupe-key", mu.Pos(), "targets are de-duplicated by their absolute path (key field %q)", loadedField(mu.Key))
	}
	r.Check(n == 1, short(f)+"|dedupe", f.Pos(), "one de-duplication map (found %d updates)", n)
	// sort.Slice with a less comparing .Absolute with <
	sorts := callsToGroup(f, "sort.Slice", "sort.SliceStable", "slices.SortFunc", "slices.SortStableFunc")
	if r.Check(len(sorts) == 1, short(f)+"|sorted", f.Pos(), "the result is sorted (found %d sort call(s))", len(sorts)) {
		var less *ssa.Function
		switch v := sorts[0].Common().Args[1].(type) {
		case *ssa.MakeClosure:
			less, _ = v.Fn.(*ssa.Function)
		case *ssa.Function:
			less = v
		}
		if r.Check(less != nil, short(f)+"|less", sorts[0].Pos(), "less is a function literal") {
			good := false
			for _, ret := range an.Returns(less) {
				if cmp, ok := ret.Results[0].(*ssa.BinOp); ok && (cmp.Op == token.LSS || cmp.Op == token.GTR) &&
					loadedField(cmp.X) == "Absolute" && loadedField(cmp.Y) == "Absolute" {
					good = true
				}
				// the three-way form of slices.SortFunc: strings.Compare / cmp.Compare of the two paths
				if c, ok := ret.Results[0].(*ssa.Call); ok && an.IsCallTo(c, "strings.Compare", "cmp.Compare") && len(c.Call.Args) == 2 &&
					loadedField(c.Call.Args[0]) == "Absolute" && loadedField(c.Call.Args[1]) == "Absolute" && an.Root(c.Call.Args[0]) != an.Root(c.Call.Args[1]) {
					good = true
				}
			}
			r.Check(good, short(less)+"|by-absolute", less.Pos(), "files are ordered by absolute path with a strict comparison")
		}
		// what is returned is the sorted slice, and the sort comes after the map was drained
		site := siteIn(f, sorts[0])
		for _, ret := range an.Returns(f) {
			if len(ret.Results) > 0 && an.IsNilConst(ret.Results[0]) {
				continue
			}
			r.Check(site != nil && (site.Block() == ret.Block() || site.Block().Dominates(ret.Block())), short(f)+"|sort-before-return", ret.Pos(), "the list is sorted before it is returned")
		}
		if g := sorts[0].Parent(); g != f {
			// the sort lives in a helper: the helper returns after sorting, and what it sorts is what it returns
			for _, ret := range an.Returns(g) {
				r.Check(sorts[0].Block() == ret.Block() || sorts[0].Block().Dominates(ret.Block()), short(g)+"|sort-before-return", ret.Pos(), "the helper sorts before it returns")
				r.Check(len(ret.Results) > 0 && an.Root(ret.Results[0]) == an.Root(sorts[0].Common().Args[0]) || derivesFrom(sorts[0].Common().Args[0], ret.Results[0]), short(g)+"|returns-what-it-sorted", ret.Pos(), "the helper returns the slice it sorted")
			}
		}
	}
}

// crossFileState (C14-R5, also used by C16): nothing created outside the
// per-file loop of Run is mutated inside it, except the listed shared objects.
func crossFileState(r *an.Run, m *runModel, rule string) {
	r.Rule(rule)
	f := m.run
	allowedType := func(t types.Type) string {
		s := an.ShortType(t)
		switch {
		case strings.HasSuffix(s, "token.FileSet"):
			return "position table shared by patches and targets (append-only, locked)"
		case strings.HasSuffix(s, "log.Logger"):
			return "logger"
		case isRunnerType(r, t):
			return "runner (compiled patches, its own error list)"
		case strings.HasSuffix(s, "options"), strings.HasSuffix(s, "mainCmd"):
			return "configuration, read only"
		case strings.HasSuffix(s, "flags.Parser"):
			return "argument parser"
		}
		return ""
	}
	loop := m.loop.Loop
	n := 0
	report := func(v ssa.Value, use ssa.Instruction, how string) {
		r.Fail(short(f)+"|shared|"+v.Name()+":"+an.ShortType(v.Type()), use.Pos(), "%s (%s), created outside the per-file loop, is %s inside it: what one file leaves behind can change the result of the next", describeLocal(v), an.ShortType(v.Type()), how)
	}
	for _, b := range f.Blocks {
		if loop.Blocks[b] {
			continue
		}
		for _, in := range b.Instrs {
			v, ok := in.(ssa.Value)
			if !ok {
				continue
			}
			_, isAlloc := v.(*ssa.Alloc)
			_, isPtr := v.Type().Underlying().(*types.Pointer)
			_, isMap := v.Type().Underlying().(*types.Map)
			if !isAlloc && !isPtr && !isMap {
				continue
			}
			if allowedType(v.Type()) != "" {
				continue
			}
			if isAlloc {
				if el := v.Type().Underlying().(*types.Pointer).Elem(); allowedType(el) != "" || allowedType(types.NewPointer(el)) != "" {
					continue
				}
			}
			refs := v.Referrers()
			if refs == nil {
				continue
			}
			// the error accumulator object: inside the loop it is only ever fed (its recording methods), never
			// read — what one file adds cannot change what happens to the next
			if m.acc != nil && m.acc.obj != nil && v == ssa.Value(m.acc.obj) {
				onlyFed := true
				for _, u := range *refs {
					if !loop.Blocks[u.Block()] {
						continue
					}
					n++
					c, isCall := u.(ssa.CallInstruction)
					if !isCall || !isAccRecord(m, c) {
						onlyFed = false
						report(v, u, "used other than by recording an error")
					}
				}
				if onlyFed {
					r.Pass(short(f)+"|shared|error-accumulator", v.Pos(), "the error accumulator is only fed inside the file loop (never read there)")
				}
				continue
			}
			for _, u := range *refs {
				if !loop.Blocks[u.Block()] {
					continue
				}
				n++
				switch x := u.(type) {
				case *ssa.Store:
					if x.Addr == v {
						report(v, u, "assigned")
					}
				case *ssa.MapUpdate:
					if x.Map == v {
						report(v, u, "updated")
					}
				case ssa.CallInstruction:
					if callee := x.Common().StaticCallee(); callee != nil && onlyReadsArgument(callee, x.Common(), v) {
						r.Pass(short(f)+"|shared|read-only-argument|"+an.TrimModule(an.CalleeName(x)), u.Pos(), "%s is handed to %s, which only reads scalar fields of it (decided on the callee's body)", describeLocal(v), an.TrimModule(an.CalleeName(x)))
						continue
					}
					report(v, u, "handed to "+an.TrimModule(an.CalleeName(x)))
				case *ssa.MakeInterface, *ssa.FieldAddr, *ssa.IndexAddr:
					// the address escapes into a call or is written through
					if escapesInLoop(x.(ssa.Value), loop) {
						report(v, u, "written through or handed to a call")
					}
				}
			}
		}
	}
	// values carried from one iteration to the next: besides the position in the list of files and the
	// error list, nothing — a variable that keeps what the previous file set (a default, a flag, a "last seen")
	// makes this file's result depend on that file
	for _, in := range loop.Header.Instrs {
		phi, ok := in.(*ssa.Phi)
		if !ok {
			continue
		}
		n++
		switch {
		case m.errsPhi != nil && phi == m.errsPhi:
			continue
		case ssa.Value(phi) == m.loop.Index:
			continue
		case an.ShortType(phi.Type()) == "[]error":
			continue
		}
		// a phi all of whose in-loop edges are the phi itself carries nothing; one that every iteration
		// advances by a constant is the position in the list
		carries := false
		for i, e := range phi.Edges {
			if !loop.Blocks[phi.Block().Preds[i]] || e == ssa.Value(phi) {
				continue
			}
			if add, ok := e.(*ssa.BinOp); ok && (add.Op == token.ADD || add.Op == token.SUB) && add.X == ssa.Value(phi) {
				if _, isc := an.ConstInt(add.Y); isc {
					continue
				}
			}
			carries = true
		}
		if !carries {
			continue
		}
		name := phi.Comment
		if name == "" {
			name = phi.Name()
		}
		r.Fail(short(f)+"|carried|"+name+":"+an.ShortType(phi.Type()), phi.Pos(), "variable %s (%s) is assigned while one file is processed and read while the next one is: what one file leaves there can change the result of the next", name, an.ShortType(phi.Type()))
	}
	runnerStateWriteOnly(r, m)
	r.Pass(short(f)+"|shared-state-inventory", m.loop.If.Pos(), "no local variable, pointer or map created outside the per-file loop is written or passed to a call inside it, apart from the FileSet, logger, runner and configuration (%d uses inspected)", n)
	r.Count("outer values used in the file loop", n)
}

func describeLocal(v ssa.Value) string {
	if a, ok := v.(*ssa.Alloc); ok && a.Comment != "" {
		return "variable " + a.Comment
	}
	return "value " + v.Name()
}

func escapesInLoop(v ssa.Value, loop *an.Loop) bool {
	refs := v.Referrers()
	if refs == nil {
		return false
	}
	for _, u := range *refs {
		if !loop.Blocks[u.Block()] {
			continue
		}
		switch x := u.(type) {
		case ssa.CallInstruction:
			return true
		case *ssa.Store:
			if x.Addr == v {
				return true
			}
		}
	}
	return false
}

// runnerStateWriteOnly: the runner is shared by all files. Whatever its
// methods called from the file loop write into it (the list of errors) is
// write-only while files are processed: a field that is written for one file
// is never read back — neither by those methods nor by the loop — except to
// append to it. Otherwise what happened to an earlier file would decide what
// happens to a later one.
func runnerStateWriteOnly(r *an.Run, m *runModel) {
	f := m.run
	loop := m.loop.Loop
	isRunnerPtr := func(t types.Type) bool {
		p, ok := t.Underlying().(*types.Pointer)
		return ok && isRunnerType(r, p.Elem()) || isRunnerType(r, t)
	}
	var entry []*ssa.Function
	for _, c := range an.Calls(f) {
		if !loop.Blocks[c.Block()] {
			continue
		}
		if sc := an.StaticCallee(c); sc != nil && sc.Signature.Recv() != nil && isRunnerPtr(sc.Signature.Recv().Type()) {
			entry = append(entry, sc)
		}
	}
	if len(entry) == 0 {
		return
	}
	reach := sortedFuncs(r.P.ReachableModuleFuncs(entry...))
	written := map[string]bool{}
	for _, g := range reach {
		for _, in := range an.StoresIn(g) {
			if st, ok := in.(*ssa.Store); ok {
				if fa, ok := st.Addr.(*ssa.FieldAddr); ok && isRunnerPtr(fa.X.Type()) {
					written[fieldNameOf(fa)] = true
				}
			}
			// a map held in a field of the runner is written through the field's value (r.broken[c] = true)
			if mu, ok := in.(*ssa.MapUpdate); ok {
				if ld, ok := mu.Map.(*ssa.UnOp); ok {
					if fa, ok := ld.X.(*ssa.FieldAddr); ok && isRunnerPtr(fa.X.Type()) {
						written[fieldNameOf(fa)] = true
					}
				}
			}
		}
	}
	onlyAppendedBack := func(ld *ssa.UnOp, field string) bool {
		if ld.Referrers() == nil {
			return true
		}
		for _, u := range *ld.Referrers() {
			switch x := u.(type) {
			case *ssa.DebugRef:
			case *ssa.Call:
				if !an.IsCallTo(x, "builtin:append") || x.Call.Args[0] != ssa.Value(ld) || x.Referrers() == nil {
					return false
				}
				for _, w := range *x.Referrers() {
					st, ok := w.(*ssa.Store)
					if !ok {
						if _, dbg := w.(*ssa.DebugRef); dbg {
							continue
						}
						return false
					}
					fa, ok := st.Addr.(*ssa.FieldAddr)
					if !ok || fieldNameOf(fa) != field {
						return false
					}
				}
			default:
				return false
			}
		}
		return true
	}
	n := 0
	scan := func(g *ssa.Function, only map[*ssa.BasicBlock]bool) {
		for _, b := range g.Blocks {
			if only != nil && !only[b] {
				continue
			}
			for _, in := range b.Instrs {
				ld, ok := in.(*ssa.UnOp)
				if !ok || ld.Op != token.MUL {
					continue
				}
				fa, ok := ld.X.(*ssa.FieldAddr)
				if !ok || !isRunnerPtr(fa.X.Type()) || !written[fieldNameOf(fa)] {
					continue
				}
				n++
				if !onlyAppendedBack(ld, fieldNameOf(fa)) {
					r.Fail(short(g)+"|runner-state-read|"+fieldNameOf(fa), ld.Pos(), "%s reads the runner's %s while files are being processed: that field is written for every file and never reset, so what happened to an earlier file would decide what happens to a later one", short(g), fieldNameOf(fa))
				}
			}
		}
	}
	for _, g := range reach {
		scan(g, nil)
	}
	scan(f, loop.Blocks)
	fields := []string{}
	for k := range written {
		fields = append(fields, k)
	}
	sort.Strings(fields)
	r.Pass(short(f)+"|runner-state-write-only", m.loop.If.Pos(), "fields of the runner written while files are processed (%s) are only appended to there, never read (%d loads inspected)", strings.Join(fields, ", "), n)
}

// onlyReadsArgument: callee has a body, and the parameter v is bound to is used
// there only to load pointer-free fields (through phis and nil tests): the call
// neither writes through the pointer nor keeps it.
func onlyReadsArgument(callee *ssa.Function, call *ssa.CallCommon, v ssa.Value) bool {
	if callee.Blocks == nil || call.IsInvoke() || len(call.Args) != len(callee.Params) {
		return false
	}
	found := false
	for i, a := range call.Args {
		if a != v {
			continue
		}
		found = true
		seen := map[ssa.Value]bool{}
		var ok func(x ssa.Value) bool
		ok = func(x ssa.Value) bool {
			if seen[x] {
				return true
			}
			seen[x] = true
			refs := x.Referrers()
			if refs == nil {
				return true
			}
			for _, u := range *refs {
				switch u := u.(type) {
				case *ssa.Phi:
					if !ok(u) {
						return false
					}
				case *ssa.FieldAddr:
					if !ok(u) {
						return false
					}
				case *ssa.UnOp:
					if u.Op != token.MUL || hasReference(u.Type()) {
						return false
					}
				case *ssa.BinOp:
					if u.Op != token.EQL && u.Op != token.NEQ {
						return false
					}
				case *ssa.DebugRef:
				default:
					return false
				}
			}
			return true
		}
		if !ok(callee.Params[i]) {
			return false
		}
	}
	return found
}

// hasReference: a value of type t can share memory with another value.
func hasReference(t types.Type) bool {
	switch u := t.Underlying().(type) {
	case *types.Basic:
		return u.Kind() == types.UnsafePointer
	case *types.Struct:
		for i := 0; i < u.NumFields(); i++ {
			if hasReference(u.Field(i).Type()) {
				return true
			}
		}
		return false
	case *types.Array:
		return hasReference(u.Elem())
	}
	return true
}
