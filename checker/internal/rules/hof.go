package rules

import (
	"go/token"
	"go/types"
	"strings"

	"golang.org/x/tools/go/ssa"

	"gpcheck/internal/an"
)

// Higher-order helpers. Three small shapes of private helper take over a loop
// that the rules would otherwise find in the anchored function itself:
//
//	collect(n, at) []T                 — [at(0), …, at(n-1)]
//	matchEach(ms, at, d, r) (Data, ok) — ms[i].Match(at(i), …) for every i, in order, ok-disciplined
//	appendIf(dst, src, keep) []T       — dst followed by the elements of src for which keep holds, in order
//
// Each is recognised by its own body (one full forward loop, nothing else);
// the rules then read the correspondence off the call site: the count or list
// handed in, and what the function value handed in does with its parameter.

// genericOrigin returns the generic function an instantiation wrapper stands for.
func genericOrigin(h *ssa.Function) *ssa.Function {
	if h == nil {
		return nil
	}
	if o := h.Origin(); o != nil {
		return o
	}
	return h
}

func paramIndex(h *ssa.Function, v ssa.Value) int {
	for i, p := range h.Params {
		if v == ssa.Value(p) {
			return i
		}
	}
	return -1
}

// singleFullLoop returns the only loop of h when it is a forward index loop from 0 in steps of 1.
func singleFullLoop(h *ssa.Function) *an.IndexLoop {
	ls := an.Loops(h)
	if len(ls) != 1 {
		return nil
	}
	il := an.AsIndexLoop(ls[0])
	if il == nil || il.Start != 0 || il.Step != 1 || il.Descending {
		return nil
	}
	return il
}

// asMapHelper: h(…, n, …, at, …) []T with result[i] = at(i) for all i in [0, n).
func asMapHelper(h *ssa.Function) (nIdx, atIdx int, ok bool) {
	h = genericOrigin(h)
	if h == nil || h.Blocks == nil || h.Signature.Results().Len() != 1 {
		return 0, 0, false
	}
	il := singleFullLoop(h)
	if il == nil {
		return 0, 0, false
	}
	// the result: a slice made with length n, returned on every path
	var made *ssa.MakeSlice
	for _, ret := range an.Returns(h) {
		ms, isMake := ret.Results[0].(*ssa.MakeSlice)
		if !isMake || made != nil && made != ms {
			return 0, 0, false
		}
		made = ms
	}
	if made == nil {
		return 0, 0, false
	}
	nIdx = paramIndex(h, made.Len)
	if nIdx < 0 {
		return 0, 0, false
	}
	// the loop runs over len(result) or n
	bound := il.Bound
	if c, isCall := bound.(*ssa.Call); isCall && an.IsCallTo(c, "builtin:len") && c.Call.Args[0] == ssa.Value(made) {
		bound = made.Len
	}
	if bound != made.Len {
		return 0, 0, false
	}
	// exactly: result[i] = at(i), no other store, no other call, no early exit
	atIdx = -1
	stores, calls := 0, 0
	for _, b := range h.Blocks {
		for _, in := range b.Instrs {
			switch x := in.(type) {
			case *ssa.Store:
				stores++
				ia, isIA := x.Addr.(*ssa.IndexAddr)
				c, isCall := x.Val.(*ssa.Call)
				if !isIA || ia.X != ssa.Value(made) || ia.Index != il.Index || !isCall {
					return 0, 0, false
				}
				if pi := paramIndex(h, c.Call.Value); pi < 0 || len(c.Call.Args) != 1 || c.Call.Args[0] != il.Index {
					return 0, 0, false
				} else {
					atIdx = pi
				}
			case *ssa.Call:
				if _, isBuiltin := x.Call.Value.(*ssa.Builtin); isBuiltin {
					continue
				}
				calls++
			case *ssa.MapUpdate, *ssa.Send, *ssa.Go, *ssa.Defer, *ssa.Panic:
				return 0, 0, false
			}
		}
	}
	if stores != 1 || calls != 1 || atIdx < 0 || il.CoversAll(firstCallOf(h), nil) != "" {
		return 0, 0, false
	}
	return nIdx, atIdx, true
}

func firstCallOf(h *ssa.Function) ssa.Instruction {
	for _, b := range h.Blocks {
		for _, in := range b.Instrs {
			if c, ok := in.(*ssa.Call); ok {
				if _, isBuiltin := c.Call.Value.(*ssa.Builtin); !isBuiltin {
					return c
				}
			}
		}
	}
	return nil
}

// asMatchEachHelper: h(ms []Matcher, at func(int) reflect.Value, d, r) (Data, bool):
// for every i in order, ms[i].Match(at(i), d, r); the first false verdict is
// returned as false, true only after the last.
func asMatchEachHelper(h *ssa.Function) (msIdx, atIdx int, ok bool) {
	if h == nil || h.Blocks == nil || !an.InModule(h) {
		return 0, 0, false
	}
	if _, isVerdict := an.VerdictIndex(h.Signature); !isVerdict {
		return 0, 0, false
	}
	il := singleFullLoop(h)
	if il == nil {
		return 0, 0, false
	}
	lc, isLen := il.Bound.(*ssa.Call)
	if !isLen || !an.IsCallTo(lc, "builtin:len") {
		return 0, 0, false
	}
	msIdx = paramIndex(h, lc.Call.Args[0])
	if msIdx < 0 {
		return 0, 0, false
	}
	var match *ssa.Call
	atIdx = -1
	for _, b := range h.Blocks {
		for _, in := range b.Instrs {
			c, isCall := in.(*ssa.Call)
			if !isCall {
				continue
			}
			if _, isBuiltin := c.Call.Value.(*ssa.Builtin); isBuiltin {
				continue
			}
			switch {
			case an.IsCallTo(c, matcherMatch):
				if match != nil {
					return 0, 0, false
				}
				match = c
			case paramIndex(h, c.Call.Value) >= 0:
				if atIdx >= 0 || len(c.Call.Args) != 1 || c.Call.Args[0] != il.Index {
					return 0, 0, false
				}
				atIdx = paramIndex(h, c.Call.Value)
			default:
				return 0, 0, false
			}
		}
	}
	if match == nil || atIdx < 0 || !il.Loop.Blocks[match.Block()] {
		return 0, 0, false
	}
	a := an.CallArgs(match)
	// receiver ms[i], candidate at(i)
	_, mbv, mi, ok1 := elemAccess(a[0])
	if !ok1 || mbv != ssa.Value(h.Params[msIdx]) || mi != il.Index {
		return 0, 0, false
	}
	ac, isCall := a[1].(*ssa.Call)
	if !isCall || paramIndex(h, ac.Call.Value) != atIdx {
		return 0, 0, false
	}
	// all matchers applied unless one fails; failure is returned as failure; true only at the end
	if il.CoversAll(match, an.ReturnsFailure) != "" {
		return 0, 0, false
	}
	idx, _ := an.VerdictIndex(h.Signature)
	for _, ret := range an.PossiblyTrueReturns(h, idx) {
		if il.Loop.Blocks[ret.Block()] {
			return 0, 0, false
		}
	}
	return msIdx, atIdx, true
}

// asFilterHelper: h(dst, src []T, keep func(T) bool) []T returns dst followed
// by the elements of src that satisfy keep, in their order.
func asFilterHelper(h *ssa.Function) (dstIdx, srcIdx, keepIdx int, ok bool) {
	h = genericOrigin(h)
	if h == nil || h.Blocks == nil || h.Signature.Results().Len() != 1 {
		return 0, 0, 0, false
	}
	il := singleFullLoop(h)
	if il == nil {
		return 0, 0, 0, false
	}
	lc, isLen := il.Bound.(*ssa.Call)
	if !isLen || !an.IsCallTo(lc, "builtin:len") {
		return 0, 0, 0, false
	}
	srcIdx = paramIndex(h, lc.Call.Args[0])
	if srcIdx < 0 {
		return 0, 0, 0, false
	}
	src := ssa.Value(h.Params[srcIdx])
	isElem := func(v ssa.Value) bool {
		_, base, idx, ok := elemAccess(v)
		return ok && base == src && idx == il.Index
	}
	var app, pred *ssa.Call
	for _, b := range h.Blocks {
		for _, in := range b.Instrs {
			switch x := in.(type) {
			case *ssa.Call:
				switch {
				case an.IsCallTo(x, "builtin:append"):
					if app != nil {
						return 0, 0, 0, false
					}
					app = x
				case an.IsCallTo(x, "builtin:len"):
				case paramIndex(h, x.Call.Value) >= 0:
					if pred != nil || len(x.Call.Args) != 1 || !isElem(x.Call.Args[0]) {
						return 0, 0, 0, false
					}
					pred = x
				default:
					return 0, 0, 0, false
				}
			case *ssa.Store:
				// only the varargs cell of the append
				if ia, isIA := x.Addr.(*ssa.IndexAddr); isIA {
					if al, isAl := ia.X.(*ssa.Alloc); isAl && al.Comment == "varargs" && isElem(x.Val) {
						continue
					}
				}
				return 0, 0, 0, false
			case *ssa.MapUpdate, *ssa.Send, *ssa.Go, *ssa.Defer, *ssa.Panic:
				return 0, 0, 0, false
			}
		}
	}
	if app == nil || pred == nil || !il.Loop.Blocks[app.Block()] {
		return 0, 0, 0, false
	}
	keepIdx = paramIndex(h, pred.Call.Value)
	// the list appended to is dst carried around the loop
	phi, isPhi := app.Call.Args[0].(*ssa.Phi)
	if !isPhi || phi.Block() != il.Loop.Header {
		return 0, 0, 0, false
	}
	dstIdx = -1
	for i, e := range phi.Edges {
		if il.Loop.Blocks[phi.Block().Preds[i]] {
			continue
		}
		dstIdx = paramIndex(h, e)
	}
	if dstIdx < 0 {
		return 0, 0, 0, false
	}
	// appended exactly when keep answered true
	brs := an.BranchesOn(h, pred)
	if len(brs) != 1 || !unreachableWithout(app.Block(), edgesWhen(brs, true)) {
		return 0, 0, 0, false
	}
	// no early exit; what is returned is the list after the loop
	for b := range il.Loop.Blocks {
		for _, s := range b.Succs {
			if !il.Loop.Blocks[s] && !(b == il.If.Block() && s == il.If.Block().Succs[1]) {
				return 0, 0, 0, false
			}
		}
	}
	for _, ret := range an.Returns(h) {
		if ret.Results[0] != ssa.Value(phi) {
			return 0, 0, 0, false
		}
	}
	return dstIdx, srcIdx, keepIdx, true
}

// accessor describes a function value used as "element i of X": what it
// indexes and by how much more than its parameter.
type accessor struct {
	base   ssa.Value // the reflect.Value or slice indexed, as seen at the site that made the function value
	kind   string    // rvIndex, rvField or "slice"
	offset an.Affine // index - parameter, over values of the site
	fn     *ssa.Function
	param  *ssa.Parameter
	result ssa.Value // what the function returns (closure form)
}

// accessorOf recognises `got.Index` / `got.Field` (bound method values) and
// closures `func(i int) T { return X[i+k] }` / `func(i int) T { … X.Index(i) … }`.
func accessorOf(fv ssa.Value) (accessor, bool) {
	for {
		if ct, ok := fv.(*ssa.ChangeType); ok {
			fv = ct.X
			continue
		}
		break
	}
	mc, ok := fv.(*ssa.MakeClosure)
	if !ok {
		return accessor{}, false
	}
	g, _ := mc.Fn.(*ssa.Function)
	if g == nil {
		return accessor{}, false
	}
	zero := an.Affine{Terms: map[string]int64{}}
	if strings.HasSuffix(g.Name(), "$bound") && len(mc.Bindings) == 1 {
		switch {
		case strings.HasPrefix(g.Name(), "Index$") || g.Name() == "Index$bound":
			return accessor{base: mc.Bindings[0], kind: rvIndex, offset: zero, fn: g}, true
		case g.Name() == "Field$bound":
			return accessor{base: mc.Bindings[0], kind: rvField, offset: zero, fn: g}, true
		}
		return accessor{}, false
	}
	if len(g.Params) != 1 || g.Blocks == nil {
		return accessor{}, false
	}
	rets := an.Returns(g)
	if len(rets) != 1 || len(rets[0].Results) != 1 {
		return accessor{}, false
	}
	res := rets[0].Results[0]
	p := g.Params[0]
	// map a free variable (or a load of one) to what was bound at the site
	bound := func(v ssa.Value) ssa.Value {
		if u, ok := v.(*ssa.UnOp); ok && u.Op == token.MUL {
			if fvv, ok := u.X.(*ssa.FreeVar); ok {
				for i, f := range g.FreeVars {
					if f == fvv && i < len(mc.Bindings) {
						b := mc.Bindings[i]
						// the binding is the address of the captured variable: the variable as seen at the site
						if al, ok := b.(*ssa.Alloc); ok && al.Referrers() != nil {
							var stored ssa.Value
							n := 0
							for _, r := range *al.Referrers() {
								if st, ok := r.(*ssa.Store); ok && st.Addr == ssa.Value(al) {
									stored = st.Val
									n++
								}
							}
							if n == 1 {
								return stored
							}
						}
						return b
					}
				}
			}
		}
		if fvv, ok := v.(*ssa.FreeVar); ok {
			for i, f := range g.FreeVars {
				if f == fvv && i < len(mc.Bindings) {
					return mc.Bindings[i]
				}
			}
		}
		return nil
	}
	acc := accessor{fn: g, param: p, result: res, offset: zero}
	var base, idx ssa.Value
	switch x := res.(type) {
	case *ssa.UnOp:
		if ia, ok := x.X.(*ssa.IndexAddr); ok && x.Op == token.MUL {
			base, idx, acc.kind = ia.X, ia.Index, "slice"
		}
	case *ssa.Call:
		if an.IsCallTo(x, rvIndex, rvField) && len(x.Call.Args) == 2 {
			base, idx = x.Call.Args[0], x.Call.Args[1]
			acc.kind = rvIndex
			if an.IsCallTo(x, rvField) {
				acc.kind = rvField
			}
		}
	}
	if base == nil {
		return acc, true // a closure, but not a plain element access: the caller looks at result itself
	}
	if b := bound(base); b != nil {
		acc.base = b
	} else {
		return accessor{}, false
	}
	// index = param + (terms over captured values)
	off := an.Affine{Terms: map[string]int64{}}
	var lin func(v ssa.Value, sign int64) bool
	lin = func(v ssa.Value, sign int64) bool {
		if v == ssa.Value(p) {
			off.Terms["$param"] += sign
			return true
		}
		if k, isc := an.ConstInt(v); isc {
			off.K += sign * k
			return true
		}
		if bo, ok := v.(*ssa.BinOp); ok && (bo.Op == token.ADD || bo.Op == token.SUB) {
			s2 := sign
			if bo.Op == token.SUB {
				s2 = -sign
			}
			return lin(bo.X, sign) && lin(bo.Y, s2)
		}
		if b := bound(v); b != nil {
			for name, k := range an.Lin(b).Terms {
				off.Terms[name] += sign * k
			}
			off.K += sign * an.Lin(b).K
			return true
		}
		return false
	}
	if !lin(idx, 1) || off.Terms["$param"] != 1 {
		return accessor{}, false
	}
	delete(off.Terms, "$param")
	for k, v := range off.Terms {
		if v == 0 {
			delete(off.Terms, k)
		}
	}
	acc.offset = off
	return acc, true
}

var _ = types.Identical
