package rules

import (
	"go/token"
	"go/types"
	"strings"

	"golang.org/x/tools/go/ssa"

	"gpcheck/internal/an"
)

// Rules written after the fifth seeding round (well-meant fixes and features
// whose flaw is a matter of order or of state).

// compiledInterfacesNeverNil (C08-R12): the compiled program calls its
// Matcher / Replacer fields without a nil test. So no store into a field of
// one of those interface types, and no return of a function of the engine
// whose result has one of them, may carry the zero value: not the nil constant
// itself and not a variable that some arm of a switch left unassigned (a phi
// with a nil edge). Calling a method of a nil interface value panics when the
// first file matches.
func compiledInterfacesNeverNil(r *an.Run, rule string) {
	r.Rule(rule)
	isCompiledIface := func(t types.Type) bool {
		n, ok := t.(*types.Named)
		if !ok || n.Obj().Pkg() == nil || n.Obj().Pkg().Path() != enginePath {
			return false
		}
		if _, isIface := n.Underlying().(*types.Interface); !isIface {
			return false
		}
		return n.Obj().Name() == "Matcher" || n.Obj().Name() == "Replacer"
	}
	nilLeaf := func(v ssa.Value) bool {
		for _, l := range phiLeaves(v) {
			if an.IsNilConst(l) {
				return true
			}
		}
		return false
	}
	// fields that are tested against nil before use may be nil: `if m.X != nil`
	nilTested := map[string]bool{}
	for _, f := range r.P.PkgFuncs(engine) {
		for _, c := range an.EqCases(f, func(v ssa.Value) bool {
			u, ok := v.(*ssa.UnOp)
			if !ok {
				return false
			}
			_, isFA := u.X.(*ssa.FieldAddr)
			_, isF := v.(*ssa.Field)
			return (isFA || isF) && isCompiledIface(v.Type())
		}) {
			if an.IsNilConst(c.Key) {
				if u, ok := c.If.Cond.(*ssa.BinOp); ok {
					for _, side := range []ssa.Value{u.X, u.Y} {
						if ld, ok := side.(*ssa.UnOp); ok {
							if fa, ok := ld.X.(*ssa.FieldAddr); ok {
								nilTested[an.ShortType(fa.X.Type())+"."+fieldNameOf(fa)] = true
							}
						}
					}
				}
			}
		}
	}
	n := 0
	for _, f := range r.P.PkgFuncs(engine) {
		if f.Blocks == nil {
			continue
		}
		for _, in := range an.StoresIn(f) {
			st, ok := in.(*ssa.Store)
			if !ok {
				continue
			}
			fa, ok := st.Addr.(*ssa.FieldAddr)
			if !ok || !isCompiledIface(st.Val.Type()) {
				continue
			}
			n++
			key := an.ShortType(fa.X.Type()) + "." + fieldNameOf(fa)
			if nilTested[key] {
				continue
			}
			if nilLeaf(st.Val) {
				r.Fail(short(f)+"|nil-"+lastSegment(an.ShortType(st.Val.Type()))+"|"+fieldNameOf(fa), st.Pos(), "%s can store a nil %s into %s (a variable some arm leaves unassigned, or nil itself): the compiled program calls that field without a nil test, so the first file that reaches it panics", short(f), an.ShortType(st.Val.Type()), strings.TrimPrefix(key, "*"))
			}
		}
		res := f.Signature.Results()
		for i := 0; i < res.Len(); i++ {
			if !isCompiledIface(res.At(i).Type()) {
				continue
			}
			for _, ret := range an.Returns(f) {
				n++
				if i < len(ret.Results) && nilLeaf(ret.Results[i]) {
					// nil together with a non-nil error is the failure return
					last := ret.Results[len(ret.Results)-1]
					if an.IsErrorType(last.Type()) && !an.IsNilConst(last) {
						continue
					}
					r.Fail(short(f)+"|returns-nil-"+lastSegment(an.ShortType(res.At(i).Type())), ret.Pos(), "%s can return a nil %s: its callers store it into the compiled program and call it without a nil test", short(f), an.ShortType(res.At(i).Type()))
				}
			}
		}
	}
	r.Count("stores and returns of compiled interfaces", n)
	r.Min("stores and returns of compiled interfaces", 40)
	r.Pass("no-nil-matcher-or-replacer", 0, "%d stores into Matcher/Replacer fields and returns of Matcher/Replacer results inspected: none can carry nil", n)
}

// posExtremum recognises a private `maxPos` / `minPos`: a function of two
// token.Pos returning the larger ("max") or the smaller ("min") of them.
func posExtremum(g *ssa.Function) string {
	if g == nil || g.Blocks == nil || len(g.Params) != 2 || g.Signature.Results().Len() != 1 {
		return ""
	}
	for _, p := range g.Params {
		if an.ShortType(p.Type()) != "token.Pos" {
			return ""
		}
	}
	kind := ""
	n := 0
	for _, b := range g.Blocks {
		iff, ok := b.Instrs[len(b.Instrs)-1].(*ssa.If)
		if !ok {
			continue
		}
		n++
		cmp, ok := iff.Cond.(*ssa.BinOp)
		if !ok {
			return ""
		}
		x, xok := cmp.X.(*ssa.Parameter)
		y, yok := cmp.Y.(*ssa.Parameter)
		if !xok || !yok || x == y {
			return ""
		}
		tr := an.ReturnOf(an.FollowJumps(b.Succs[0]))
		fr := an.ReturnOf(an.FollowJumps(b.Succs[1]))
		if tr == nil || fr == nil {
			return ""
		}
		var whenTrue string
		switch {
		case tr.Results[0] == ssa.Value(x) && fr.Results[0] == ssa.Value(y):
			whenTrue = "x"
		case tr.Results[0] == ssa.Value(y) && fr.Results[0] == ssa.Value(x):
			whenTrue = "y"
		default:
			return ""
		}
		switch cmp.Op.String() + whenTrue {
		case ">x", ">=x", "<y", "<=y":
			kind = "max"
		case "<x", "<=x", ">y", ">=y":
			kind = "min"
		default:
			return ""
		}
	}
	if n != 1 {
		return ""
	}
	return kind
}

// c17EditRegions (C17-R8): the region astdiff reports for a deleted or
// modified list element is the element's own span, extended over the white
// space to its neighbours and then clamped by the comments around it — the
// clamps only ever shrink it. A region that reaches over a neighbour's
// comments makes the clean-up step delete comments of a declaration nothing
// was rewritten in.
func c17EditRegions(r *an.Run) {
	r.Rule("R8-edit-regions-stop-at-the-neighbours-comments")
	f := fn(r, "internal/astdiff", "changeFinder.walkSlice")
	if f == nil {
		return
	}
	var regions ssa.Value
	findMake := func(g *ssa.Function) ssa.Value {
		var out ssa.Value
		for _, b := range g.Blocks {
			for _, in := range b.Instrs {
				if ms, ok := in.(*ssa.MakeSlice); ok && strings.HasSuffix(an.ShortType(ms.Type()), "astdiff.Region") {
					out = ms
				}
			}
		}
		return out
	}
	regions = findMake(f)
	walk := f          // the function that walks the edit script
	var made ssa.Value // the slice as the function that fills it sees it
	made = regions
	if regions == nil {
		// the regions may be computed by a private helper that returns the slice it made
		for _, c := range an.Calls(f) {
			call, ok := c.(*ssa.Call)
			if !ok || !strings.HasSuffix(an.ShortType(call.Type()), "astdiff.Region") {
				continue
			}
			if h := an.StaticCallee(call); h != nil && an.InModule(h) && h.Blocks != nil {
				if ms := findMake(h); ms != nil {
					all := true
					for _, ret := range an.Returns(h) {
						if len(ret.Results) != 1 || ret.Results[0] != ms {
							all = false
						}
					}
					if all {
						regions, made, f = call, ms, h
					}
				}
			}
		}
	}
	if !r.Check(regions != nil, short(f)+"|regions", f.Pos(), "walkSlice computes one region per element of the old list before it walks the edit script") {
		return
	}
	isRegionElem := func(v ssa.Value) bool {
		u, ok := v.(*ssa.UnOp)
		if !ok {
			return false
		}
		ia, ok := u.X.(*ssa.IndexAddr)
		return ok && ia.X == regions
	}
	// (a) the edit arms report exactly those regions
	nArm := 0
	var fillLoop *an.Loop
	var local *ssa.Alloc
	for _, in := range an.StoresIn(f) {
		if st, ok := in.(*ssa.Store); ok {
			if ia, ok := st.Addr.(*ssa.IndexAddr); ok && ia.X == made {
				fillLoop = an.LoopOf(f, st.Block())
				if ld, ok := st.Val.(*ssa.UnOp); ok {
					local, _ = ld.X.(*ssa.Alloc)
				}
			}
		}
	}
	for _, in := range an.StoresIn(walk) {
		st, ok := in.(*ssa.Store)
		if !ok {
			continue
		}
		if ia, ok := st.Addr.(*ssa.IndexAddr); ok && ia.X == made {
			continue
		}
		fa, ok := st.Addr.(*ssa.FieldAddr)
		if !ok || fieldNameOf(fa) != "Region" || !strings.HasSuffix(an.ShortType(fa.X.Type()), "changeFinder") {
			continue
		}
		nArm++
		r.Check(isRegionElem(st.Val), short(walk)+"|edit-reports-its-region", st.Pos(), "the region reported for a modified or deleted element is the one computed for it (regions[i]), not a widened one (got %s)", an.Describe(st.Val))
	}
	r.Count("edit arms that set the region", nArm)
	r.Min("edit arms that set the region", 2)
	if !r.Check(fillLoop != nil && local != nil, short(f)+"|region-loop", f.Pos(), "the regions are computed in a loop over the old list, each in a local Region") {
		return
	}
	// (b) how a region is computed
	var idx ssa.Value
	if il := an.AsIndexLoop(fillLoop); il != nil {
		idx = il.Index
	}
	offsetOf := func(elem ssa.Value) (int64, bool) {
		// elem is a load of &list[index]: the offset of index from the loop index
		u, ok := elem.(*ssa.UnOp)
		if !ok {
			return 0, false
		}
		ia, ok := u.X.(*ssa.IndexAddr)
		if !ok || idx == nil || !strings.HasSuffix(an.Path(ia.X), ".Children") {
			return 0, false
		}
		d := an.Lin(ia.Index).Sub(an.Lin(idx))
		if len(d.Terms) != 0 {
			return 0, false
		}
		return d.K, true
	}
	n := 0
	for _, in := range an.StoresIn(f) {
		st, ok := in.(*ssa.Store)
		if !ok || !fillLoop.Blocks[st.Block()] {
			continue
		}
		fa, ok := st.Addr.(*ssa.FieldAddr)
		if !ok || fa.X != ssa.Value(local) {
			continue
		}
		field := fieldNameOf(fa)
		if field != "Pos" && field != "End" {
			continue
		}
		n++
		key := short(f) + "|region-" + field
		call, ok := st.Val.(*ssa.Call)
		if !ok {
			r.Fail(key+"|"+an.Describe(st.Val), st.Pos(), "the %s of an element's region is set from something other than a neighbour's / its own span or a clamp (%s)", field, an.Describe(st.Val))
			continue
		}
		kind := posExtremum(an.StaticCallee(call))
		if an.IsCallTo(call, "builtin:max") && len(call.Call.Args) == 2 {
			kind = "max"
		}
		if an.IsCallTo(call, "builtin:min") && len(call.Call.Args) == 2 {
			kind = "min"
		}
		if kind != "" {
			// a clamp: Pos may only grow, End may only shrink, and the other operand is the field's current value
			want := map[string]string{"Pos": "max", "End": "min"}[field]
			own := false
			for _, a := range call.Call.Args {
				if ld, ok := a.(*ssa.UnOp); ok {
					if fb, ok := ld.X.(*ssa.FieldAddr); ok && fb.X == ssa.Value(local) && fieldNameOf(fb) == field {
						own = true
					}
				}
			}
			r.Check(kind == want && own, key+"|clamp", st.Pos(), "a comment clamp only shrinks the region: %s is clamped with %s of its current value and the comment's edge (found %s)", field, want, kind)
			continue
		}
		m := lastSegment(an.CalleeName(call))
		if (m == "Pos" || m == "End") && len(call.Call.Args) == 1 {
			off, known := offsetOf(call.Call.Args[0])
			good := false
			switch field {
			case "Pos":
				good = known && (m == "End" && off == -1 || m == "Pos" && off == 0)
			case "End":
				good = known && (m == "Pos" && off == 1 || m == "End" && off == 0)
			}
			r.Check(good, key+"|"+m, st.Pos(), "the %s of element i's region is the End of element i-1 / the Pos of element i+1 (the gap belongs to it) or its own %s (found %s of element i%+d)", field, field, m, off)
			continue
		}
		r.Fail(key+"|"+an.TrimModule(an.CalleeName(call)), st.Pos(), "the %s of an element's region is computed by %s: cannot tell that it stays within the gaps around the element", field, an.TrimModule(an.CalleeName(call)))
	}
	r.Count("region bound assignments", n)
	r.Min("region bound assignments", 4)
	// (b1) the region of an element starts where something of the LIST says so. The local region begins as a copy
	// of the parent's region; if some path of an iteration reaches `regions[i] = r` without assigning r.Pos, the
	// first element's region starts at the parent's start — for the first declaration of a file that is the end
	// of the package name, in front of the package clause's trailing comment and of free-standing comments that
	// belong to nobody in the list.
	var fill *ssa.Store
	for _, in := range an.StoresIn(f) {
		if st, ok := in.(*ssa.Store); ok {
			if ia, ok := st.Addr.(*ssa.IndexAddr); ok && ia.X == made {
				fill = st
			}
		}
	}
	if fill != nil {
		assigns := map[*ssa.BasicBlock]bool{}
		for _, in := range an.StoresIn(f) {
			st, ok := in.(*ssa.Store)
			if !ok || !fillLoop.Blocks[st.Block()] {
				continue
			}
			if fa, ok := st.Addr.(*ssa.FieldAddr); ok && fa.X == ssa.Value(local) && fieldNameOf(fa) == "Pos" {
				assigns[st.Block()] = true
			}
		}
		var starts []*ssa.BasicBlock
		for _, sx := range fillLoop.Header.Succs {
			if fillLoop.Blocks[sx] {
				starts = append(starts, sx)
			}
		}
		inherits := false
		for _, sx := range starts {
			if assigns[sx] {
				continue
			}
			reach := an.Reach([]*ssa.BasicBlock{sx}, func(b *ssa.BasicBlock, i int) bool {
				t := b.Succs[i]
				return assigns[t] || t == fillLoop.Header || !fillLoop.Blocks[t]
			})
			if reach[fill.Block()] {
				inherits = true
			}
		}
		r.Check(!inherits, short(walk)+"|first-element-region-start", fill.Pos(), "on every path of an iteration the start of the element's region is set from the list (the previous element's end, its own position, or its own leading comment): on a path that assigns nothing the region keeps the parent's start — the first declaration's region then begins right behind the package name and covers the package clause's trailing comment and free-standing comments in front of the declaration")
	}

	// (c) which comments clamp: commentsFor classifies a comment group by its position relative to the node only
	// (the function is recognised by what the region loop uses it for: it yields the two comment lists)
	var g *ssa.Function
	for _, c := range an.Calls(f) {
		if sc := an.StaticCallee(c); sc != nil && an.InModule(sc) && sc.Blocks != nil && fillLoop.Blocks[c.Block()] {
			res := sc.Signature.Results()
			if res.Len() == 2 && an.ShortType(res.At(0).Type()) == "[]*ast.Comment" && an.ShortType(res.At(1).Type()) == "[]*ast.Comment" {
				g = sc
			}
		}
	}
	if !r.Check(g != nil, short(f)+"|comment-lists", f.Pos(), "the region loop asks one function for the leading and trailing comments of an element") {
		return
	}
	// (b2) which half of that answer is consulted for which neighbour: the gap in front of element i is given up
	// (Pos = own Pos) when the PREVIOUS element has TRAILING comments, the gap behind it when the NEXT element has
	// LEADING comments — the second result for i-1, the first for i+1
	nHalf := 0
	for _, c := range an.Calls(f) {
		call, ok := c.(*ssa.Call)
		if !ok || an.StaticCallee(c) != g || !fillLoop.Blocks[c.Block()] || len(call.Call.Args) == 0 {
			continue
		}
		off, known := offsetOf(call.Call.Args[len(call.Call.Args)-1])
		if !known || off == 0 {
			continue
		}
		for _, ex := range []int{0, 1} {
			for _, e := range an.ExtractOf(call, ex) {
				used := false
				if refs := e.Referrers(); refs != nil {
					for _, u := range *refs {
						if _, isDbg := u.(*ssa.DebugRef); !isDbg {
							used = true
						}
					}
				}
				if !used {
					continue
				}
				nHalf++
				want := 1 // previous element: its trailing comments
				what := "the trailing comments of the previous element"
				if off > 0 {
					want, what = 0, "the leading comments of the next element"
				}
				r.Check(ex == want, short(f)+"|neighbour-comments|"+map[bool]string{true: "next", false: "previous"}[off > 0], call.Pos(), "the gap towards a neighbour is given up on account of %s (result %d of %s), found result %d: with the other half the region swallows the neighbour's comment", what, want, short(g), ex)
			}
		}
	}
	r.Count("neighbour comment guards", nHalf)
	r.Min("neighbour comment guards", 2)
	var loop *an.Loop
	for _, l := range an.Loops(g) {
		if loop == nil || len(l.Blocks) > len(loop.Blocks) {
			loop = l
		}
	}
	if !r.Check(loop != nil, short(g)+"|loop", g.Pos(), "commentsFor looks at every comment group attached to the node") {
		return
	}
	node := g.Params[len(g.Params)-1]
	isNodeEdge := func(v ssa.Value, m string) bool {
		c, ok := v.(*ssa.Call)
		return ok && lastSegment(an.CalleeName(c)) == m && len(c.Call.Args) == 1 && c.Call.Args[0] == ssa.Value(node)
	}
	isGroupEdge := func(v ssa.Value, m string) bool {
		c, ok := v.(*ssa.Call)
		return ok && an.IsCallTo(c, "(*go/ast.CommentGroup)."+m)
	}
	classify := func(c ssa.Value) string {
		cmp, ok := c.(*ssa.BinOp)
		if !ok {
			return ""
		}
		op := cmp.Op.String()
		// a group without comments (emptied with the code its comments were in, F23) has no position
		if lc, isLen := cmp.X.(*ssa.Call); isLen && an.IsCallTo(lc, "builtin:len") && strings.HasSuffix(an.Path(lc.Call.Args[0]), ".List") {
			if k, isc := an.ConstInt(cmp.Y); isc && k == 0 {
				switch op {
				case "==":
					return "empty"
				case "!=", ">":
					return "nonempty"
				}
			}
		}
		switch {
		case isGroupEdge(cmp.X, "End") && isNodeEdge(cmp.Y, "Pos") && op == "<=", isNodeEdge(cmp.X, "Pos") && isGroupEdge(cmp.Y, "End") && op == ">=":
			return "before"
		case isGroupEdge(cmp.X, "Pos") && isNodeEdge(cmp.Y, "End") && op == ">=", isNodeEdge(cmp.X, "End") && isGroupEdge(cmp.Y, "Pos") && op == "<=":
			return "after"
		}
		// the same two edges compared strictly: a group that touches the node (a comment glued to its last
		// token, or ending where it starts) is then neither before nor after it, and the region of a changed
		// neighbour swallows it
		strictBefore := isGroupEdge(cmp.X, "End") && isNodeEdge(cmp.Y, "Pos") && op == "<" || isNodeEdge(cmp.X, "Pos") && isGroupEdge(cmp.Y, "End") && op == ">"
		strictAfter := isGroupEdge(cmp.X, "Pos") && isNodeEdge(cmp.Y, "End") && op == ">" || isNodeEdge(cmp.X, "End") && isGroupEdge(cmp.Y, "Pos") && op == "<"
		if strictBefore || strictAfter {
			side := map[bool]string{true: "before", false: "after"}[strictBefore]
			r.Fail(short(g)+"|classification|touching-group-"+side, cmp.Pos(), "a comment group that touches the node counts as lying %s it (the comparison includes equality): with a strict comparison a comment glued to the node belongs to nobody and is deleted with a changed neighbour", side)
			return side
		}
		return ""
	}
	hdr := loop.Header
	var body *ssa.BasicBlock
	for _, s := range hdr.Succs {
		if loop.Blocks[s] {
			body = s
		}
	}
	paths, err := an.EnumeratePathsFrom(body, classify, func(b *ssa.BasicBlock) bool { return b == hdr }, 64, false)
	if err != nil {
		r.Undecided(short(g)+"|classification", g.Pos(), "cannot extract how commentsFor classifies a comment group: %v", err)
		return
	}
	// the appends feeding the two results
	feeds := func(res int) map[*ssa.BasicBlock]bool {
		out := map[*ssa.BasicBlock]bool{}
		for _, ret := range an.Returns(g) {
			for v := range an.BackSlice(ret.Results[res], an.SliceOpts{}) {
				if c, ok := v.(*ssa.Call); ok && an.IsCallTo(c, "builtin:append") && loop.Blocks[c.Block()] {
					out[c.Block()] = true
				}
			}
		}
		return out
	}
	bef, aft := feeds(0), feeds(1)
	good := len(paths) >= 2 && len(bef) > 0 && len(aft) > 0
	for _, p := range paths {
		gotB, gotA := false, false
		for _, b := range p.Blocks {
			if bef[b] {
				gotB = true
			}
			if aft[b] {
				gotA = true
			}
		}
		if e, known := p.Atoms["empty"]; known && e || func() bool { ne, known := p.Atoms["nonempty"]; return known && !ne }() {
			// an emptied group is neither leading nor trailing
			if gotB || gotA {
				good = false
			}
			continue
		}
		wb, kb := p.Atoms["before"]
		wa, ka := p.Atoms["after"]
		// a group with comments cannot both end at or before the node's start and start at or after its end
		// (Pos < End for the group, Pos <= End for the node): a path that found one need not test the other
		if kb && wb && !ka {
			wa, ka = false, true
		}
		if ka && wa && !kb {
			wb, kb = false, true
		}
		if !kb || !ka || gotB != wb || gotA != wa {
			good = false
		}
	}
	r.Check(good, short(g)+"|classification", g.Pos(), "a comment group counts as leading exactly when it ends at or before the node's start and as trailing exactly when it starts at or after the node's end — nothing else (the region under consideration, the kind of node) decides it (%d paths)", len(paths))
}

// emptiedGroupsAreDropped (C08-R13, after F14): the clean-up step removes the
// comments inside rewritten regions and can leave a comment group without any
// comment. go/ast and astutil call Pos()/End() on the groups of File.Comments
// (List[0], List[len-1]) — on an empty group that is an index out of range,
// reached as soon as a later change of the same run edits the imports. So the
// step must hand back the list without the emptied groups and its callers must
// store that list into the file.
func emptiedGroupsAreDropped(r *an.Run, rule string) {
	r.Rule(rule)
	n := 0
	for _, cf := range cleanupFuncs(r) {
		// does it shorten comment lists at all?
		shortens := false
		for _, g := range helperGroup(cf, 2) {
			for _, in := range an.StoresIn(g) {
				if st, ok := in.(*ssa.Store); ok {
					if fa, ok := st.Addr.(*ssa.FieldAddr); ok && an.IsNamed(fa.X.Type(), "go/ast", "CommentGroup") && fieldNameOf(fa) == "List" {
						shortens = true
					}
				}
			}
		}
		if !shortens {
			continue
		}
		n++
		res := cf.Signature.Results()
		if !r.Check(res.Len() == 1 && isCommentGroupList(res.At(0).Type()), short(cf)+"|returns-kept-groups", cf.Pos(), "%s, which can remove every comment of a group, hands back the groups that are left", short(cf)) {
			continue
		}
		// every group that is kept was tested to be non-empty
		good, napp := true, 0
		// ... and the list is not handed back as it came once groups may have been emptied: a return of the
		// parameter itself that can be reached from a store that shortens a group's List (a "nothing else to do"
		// fast path behind the loop) keeps the emptied groups in
		var shortening []*ssa.BasicBlock
		for _, in := range an.StoresIn(cf) {
			if st, ok := in.(*ssa.Store); ok {
				if fa, ok := st.Addr.(*ssa.FieldAddr); ok && an.IsNamed(fa.X.Type(), "go/ast", "CommentGroup") && fieldNameOf(fa) == "List" {
					shortening = append(shortening, st.Block())
				}
			}
		}
		afterShortening := an.Reach(shortening, nil)
		for _, ret := range an.Returns(cf) {
			for _, leaf := range phiLeaves(ret.Results[0]) {
				if prm, isParam := leaf.(*ssa.Parameter); isParam && isCommentGroupList(prm.Type()) && afterShortening[ret.Block()] {
					good = false
				}
			}
		}
		for _, ret := range an.Returns(cf) {
			// a filter helper with the predicate len(cg.List) > 0
			if fc, isCall := ret.Results[0].(*ssa.Call); isCall {
				if _, _, keepIdx, isFilter := asFilterHelper(an.StaticCallee(fc)); isFilter && isCommentGroupList(fc.Type()) {
					napp++
					var pred *ssa.Function
					switch v := fc.Call.Args[keepIdx].(type) {
					case *ssa.MakeClosure:
						pred, _ = v.Fn.(*ssa.Function)
					case *ssa.Function:
						pred = v
					}
					okPred := pred != nil && len(pred.Params) == 1 && len(an.Returns(pred)) > 0
					if okPred {
						for _, pr := range an.Returns(pred) {
							cmp, isCmp := pr.Results[0].(*ssa.BinOp)
							if !isCmp {
								okPred = false
								continue
							}
							lc, isLen := cmp.X.(*ssa.Call)
							k, isc := an.ConstInt(cmp.Y)
							nonEmptyTest := isLen && an.IsCallTo(lc, "builtin:len") && isc &&
								(cmp.Op.String() == ">" && k == 0 || cmp.Op.String() == "!=" && k == 0 || cmp.Op.String() == ">=" && k == 1)
							if nonEmptyTest {
								ld, isLoad := lc.Call.Args[0].(*ssa.UnOp)
								if !isLoad {
									nonEmptyTest = false
								} else if fa, isFA := ld.X.(*ssa.FieldAddr); !isFA || fieldNameOf(fa) != "List" || fa.X != ssa.Value(pred.Params[0]) {
									nonEmptyTest = false
								}
							}
							if !nonEmptyTest {
								okPred = false
							}
						}
					}
					if !okPred {
						good = false
					}
					continue
				}
			}
			for v := range an.BackSlice(ret.Results[0], an.SliceOpts{}) {
				app, ok := v.(*ssa.Call)
				if !ok || !an.IsCallTo(app, "builtin:append") || !isCommentGroupList(app.Type()) {
					continue
				}
				napp++
				for _, e := range appendedElements(app) {
					var nonEmpty []an.CtrlEdge
					for _, b := range cf.Blocks {
						iff, ok := b.Instrs[len(b.Instrs)-1].(*ssa.If)
						if !ok {
							continue
						}
						cond, pos := an.StripNot(iff.Cond)
						cmp, ok := cond.(*ssa.BinOp)
						if !ok {
							continue
						}
						lc, ok := cmp.X.(*ssa.Call)
						if !ok || !an.IsCallTo(lc, "builtin:len") {
							continue
						}
						ld, ok := lc.Call.Args[0].(*ssa.UnOp)
						if !ok {
							continue
						}
						fa, ok := ld.X.(*ssa.FieldAddr)
						if !ok || fieldNameOf(fa) != "List" || fa.X != e {
							continue
						}
						k, isc := an.ConstInt(cmp.Y)
						if !isc {
							continue
						}
						succ := -1
						switch {
						case cmp.Op.String() == ">" && k == 0, cmp.Op.String() == "!=" && k == 0, cmp.Op.String() == ">=" && k == 1:
							succ = 0
						case cmp.Op.String() == "==" && k == 0, cmp.Op.String() == "<" && k == 1, cmp.Op.String() == "<=" && k == 0:
							succ = 1
						}
						if succ < 0 {
							continue
						}
						if !pos {
							succ = 1 - succ
						}
						nonEmpty = append(nonEmpty, an.CtrlEdge{Block: b, Succ: succ})
					}
					if len(nonEmpty) == 0 || !unreachableWithout(app.Block(), nonEmpty) {
						good = false
					}
				}
			}
		}
		r.Check(good && napp > 0, short(cf)+"|keeps-only-non-empty-groups", cf.Pos(), "a group is kept only behind a len(cg.List) > 0 test: no group without comments stays in the file's list")
		// and the callers put that list into the file
		for _, c := range r.P.CallersOf(cf) {
			call, ok := c.(*ssa.Call)
			if !ok {
				continue
			}
			stored := false
			if call.Referrers() != nil {
				for _, u := range *call.Referrers() {
					if st, ok := u.(*ssa.Store); ok && st.Val == ssa.Value(call) {
						if fa, ok := st.Addr.(*ssa.FieldAddr); ok && fieldNameOf(fa) == "Comments" && an.IsNamed(fa.X.Type(), "go/ast", "File") {
							stored = filteredOwnComments(r, call, fa.X) == ""
						}
					}
				}
			}
			r.Check(stored, short(call.Parent())+"|stores-kept-groups", call.Pos(), "%s stores the list the clean-up step returned into the Comments of the file it came from", short(call.Parent()))
		}
	}
	r.Count("clean-up steps that shorten comment lists", n)
	r.Min("clean-up steps that shorten comment lists", 1)
}

// slotIsTheRecordedSlot (C05-R10, C04-R14): what a match is replaced through
// is the very slot it was found in — the field (and element) of the parent
// that the search recorded for it. A slot resolved against anything else (a
// node that replaced the parent, an index re-used in a list that was
// rebuilt) overwrites code the match never covered: an element the "..." of
// an enclosing match had carried over, or a neighbour.
func slotIsTheRecordedSlot(r *an.Run, rule string) {
	r.Rule(rule)
	site := findSlotSite(r)
	if site == nil {
		r.Undecided("slot-site", 0, "cannot find where FileReplacer.Replace assigns the recorded slots")
		return
	}
	// a field of the current match, by the type of the field (the parent node, the field name, the index)
	type matchPred func(ssa.Value) bool
	matchField := func(v ssa.Value, typ string, isMatch matchPred) bool {
		u, ok := an.Unwrap(v).(*ssa.UnOp)
		if !ok {
			return false
		}
		fa, ok := u.X.(*ssa.FieldAddr)
		if !ok || !isMatch(fa.X) {
			return false
		}
		return an.ShortType(u.Type()) == typ
	}
	var recordedIn func(v ssa.Value, isMatch matchPred, depth int) string
	recordedIn = func(v ssa.Value, isMatch matchPred, depth int) string {
		if depth > 10 {
			return "too deep"
		}
		switch x := v.(type) {
		case *ssa.Phi:
			for _, e := range x.Edges {
				if e == v {
					continue
				}
				if why := recordedIn(e, isMatch, depth+1); why != "" {
					return why
				}
			}
			return ""
		case *ssa.Call:
			switch {
			case an.IsCallTo(x, rvIndex):
				if !matchField(x.Call.Args[1], "int", isMatch) {
					return "the element index is not the recorded index of the match (" + an.Describe(x.Call.Args[1]) + ")"
				}
				return recordedIn(x.Call.Args[0], isMatch, depth+1)
			case an.IsCallTo(x, "(reflect.Value).FieldByName"):
				if !matchField(x.Call.Args[1], "string", isMatch) {
					return "the field name is not the recorded field of the match (" + an.Describe(x.Call.Args[1]) + ")"
				}
				return recordedIn(x.Call.Args[0], isMatch, depth+1)
			case an.IsCallTo(x, "reflect.Indirect", "(reflect.Value).Elem"):
				return recordedIn(x.Call.Args[0], isMatch, depth+1)
			case an.IsCallTo(x, "reflect.ValueOf"):
				if !matchField(x.Call.Args[0], "ast.Node", isMatch) {
					return "the node whose field is written is not the recorded parent of the match (" + an.Describe(an.Unwrap(x.Call.Args[0])) + ")"
				}
				return ""
			}
			// a private helper that resolves the slot of the match it is given
			if h := an.StaticCallee(x); h != nil && an.InModule(h) && h.Blocks != nil && h.Signature.Results().Len() == 1 {
				pi := -1
				for i, a := range x.Call.Args {
					if isMatch(a) && i < len(h.Params) {
						pi = i
					}
				}
				if pi >= 0 {
					prm := h.Params[pi]
					inner := func(w ssa.Value) bool {
						if w == ssa.Value(prm) {
							return true
						}
						if u, ok := w.(*ssa.UnOp); ok {
							if a, ok := u.X.(*ssa.Alloc); ok && a.Comment == prm.Name() {
								return true
							}
						}
						return false
					}
					for _, ret := range an.Returns(h) {
						if why := recordedIn(ret.Results[0], inner, depth+1); why != "" {
							return "in " + short(h) + ": " + why
						}
					}
					return ""
				}
			}
		}
		return "the slot is computed by " + an.Describe(v)
	}
	recorded := func(v ssa.Value, depth int) string { return recordedIn(v, site.isMatch, depth) }
	n := 0
	for _, c := range site.calls(rvSet) {
		n++
		why := recorded(an.CallArgs(c)[0], 0)
		r.Check(why == "", short(site.fn)+"|assigns-the-recorded-slot", c.Pos(), "the replacement of a match is written into the slot the search recorded for it: parent.<name>[index] of that very match %s", why)
	}
	r.Count("slot assignments", n)
	r.Min("slot assignments", 1)
}

// recursiveComparisonsMemoised (C08-R14, after F16): diff.Difference calls its
// comparison callback for the same pair of indexes several times. A callback
// whose answer itself runs Difference on the lists below the two elements
// (comparing syntax trees does) multiplies the work at every level of
// nesting — exponential in the depth of the file. So such a callback must
// look the pair up first and make the recursive comparison only on a miss,
// storing the answer: the recursive call is reachable only through the
// "not yet compared" edge of a test on a table indexed by both parameters.
func recursiveComparisonsMemoised(r *an.Run, rule string) {
	r.Rule(rule)
	isDifference := func(c ssa.CallInstruction) bool {
		sc := an.StaticCallee(c)
		return sc != nil && strings.HasSuffix(short(sc), "internal/diff.Difference")
	}
	// functions from which Difference is reachable (VTA)
	reaches := map[*ssa.Function]bool{}
	var diffFn *ssa.Function
	for _, f := range r.P.ModuleFuncs() {
		for _, c := range an.Calls(f) {
			if isDifference(c) {
				diffFn = an.StaticCallee(c)
			}
		}
	}
	if diffFn == nil {
		r.Undecided("anchor|diff.Difference", 0, "no call to internal/diff.Difference found")
		return
	}
	for _, f := range r.P.ModuleFuncs() {
		if f.Blocks != nil && r.P.ReachableVTA(f)[diffFn] {
			reaches[f] = true
		}
	}
	n := 0
	for _, f := range r.P.ModuleFuncs() {
		for _, c := range an.Calls(f) {
			if !isDifference(c) {
				continue
			}
			var g *ssa.Function
			cb := c.Common().Args[2]
			for {
				if ct, ok := cb.(*ssa.ChangeType); ok {
					cb = ct.X
					continue
				}
				break
			}
			switch v := cb.(type) {
			case *ssa.MakeClosure:
				g, _ = v.Fn.(*ssa.Function)
			case *ssa.Function:
				g = v
			}
			if g == nil || g.Blocks == nil {
				r.Undecided(short(f)+"|callback", c.Pos(), "the comparison handed to diff.Difference is not a function literal or a named function")
				continue
			}
			n++
			key := short(g) + "|compared-once"
			var rec []ssa.CallInstruction
			for _, ic := range an.Calls(g) {
				if sc := an.StaticCallee(ic); sc != nil && reaches[sc] {
					rec = append(rec, ic)
				}
			}
			if len(rec) == 0 {
				r.Pass(key, c.Pos(), "the comparison does not itself diff lists: its cost does not multiply with nesting")
				continue
			}
			// a lookup keyed by both parameters
			fromBoth := func(v ssa.Value) bool {
				a, b := false, false
				for x := range an.BackSlice(v, an.SliceOpts{ThroughMemory: true}) {
					if len(g.Params) >= 2 {
						if x == ssa.Value(g.Params[0]) {
							a = true
						}
						if x == ssa.Value(g.Params[1]) {
							b = true
						}
					}
				}
				return a && b
			}
			var missEdges []an.CtrlEdge
			for _, b := range g.Blocks {
				iff, ok := b.Instrs[len(b.Instrs)-1].(*ssa.If)
				if !ok {
					continue
				}
				cond, pos := an.StripNot(iff.Cond)
				found := false
				switch x := cond.(type) {
				case *ssa.Extract: // v, ok := table[key]
					if lk, ok := x.Tuple.(*ssa.Lookup); ok && lk.CommaOk && x.Index == 1 && fromBoth(lk.Index) {
						found = true
					}
				case *ssa.UnOp: // done[i][j]
					if ia, ok := x.X.(*ssa.IndexAddr); ok && fromBoth(ia) {
						found = true
					}
				case *ssa.Lookup: // set[key] of a map[K]bool
					if fromBoth(x.Index) {
						found = true
					}
				}
				if !found {
					continue
				}
				// the edge taken when the pair was NOT found
				succ := 1
				if !pos {
					succ = 0
				}
				missEdges = append(missEdges, an.CtrlEdge{Block: b, Succ: succ})
			}
			good := len(missEdges) > 0
			for _, ic := range rec {
				if !good || !unreachableWithout(ic.Block(), missEdges) {
					good = false
				}
			}
			// and the answer is stored under the same kind of key
			stored := false
			for _, in := range an.StoresIn(g) {
				switch x := in.(type) {
				case *ssa.MapUpdate:
					if fromBoth(x.Key) {
						stored = true
					}
				case *ssa.Store:
					if ia, ok := x.Addr.(*ssa.IndexAddr); ok && fromBoth(ia) {
						stored = true
					}
				}
			}
			r.Check(good && stored, key, c.Pos(), "the comparison handed to diff.Difference, which itself diffs the lists below the two elements (%s), looks the pair up first and compares only on a miss, storing the answer: Difference asks about the same pair several times, and recomputing doubles the work at every level of nesting", an.TrimModule(an.CalleeName(rec[0])))
		}
	}
	r.Count("comparison callbacks of diff.Difference", n)
	r.Min("comparison callbacks of diff.Difference", 2)
}

// eachChangeOnItsOwn (C13-R9, C14-R1): what one change's text parses and
// compiles to does not depend on the changes before it.
//   - parsePatchVersion hands back the result of the pgo.Parse call it makes
//     itself (no cache keyed by the text: a cached tree carries the lines of
//     the change it was first parsed from, and '+' elisions are paired with
//     '-' elisions by line and column);
//   - the methods of the patch parser store nothing into the parser;
//   - compileChange compiles with compilers created in that very call, and
//     nothing in package engine truncates a slice held in a field to length
//     zero to re-use its storage (x.f = x.f[:0]): sub-slices of it were
//     handed to the matchers of the previous change.
func eachChangeOnItsOwn(r *an.Run, rule string, compileOnly bool) {
	r.Rule(rule)
	n := 0
	if f := fn(r, parseP, "parser.parsePatchVersion"); f != nil && !compileOnly {
		var parse *ssa.Call
		for _, c := range an.Calls(f) {
			if sc := an.StaticCallee(c); sc != nil && short(sc) == "internal/pgo.Parse" {
				parse, _ = c.(*ssa.Call)
			}
		}
		if r.Check(parse != nil, short(f)+"|parses", f.Pos(), "parsePatchVersion parses the version it is given with pgo.Parse") {
			for _, ret := range an.Returns(f) {
				for _, leaf := range phiLeaves(ret.Results[0]) {
					if an.IsNilConst(leaf) {
						continue
					}
					n++
					ex, ok := leaf.(*ssa.Extract)
					r.Check(ok && ex.Tuple == ssa.Value(parse) && ex.Index == 0, short(f)+"|returns-its-own-parse", ret.Pos(), "the tree parsePatchVersion returns is the one pgo.Parse produced from these very lines in this call (got %s): a tree remembered from an earlier, textually equal version carries that version's line numbers", an.Describe(leaf))
				}
			}
		}
	}
	// the parser object carries nothing from one change to the next
	for _, f := range r.P.PkgFuncs(parseP) {
		recv := recvValue(f)
		if compileOnly || recv == nil || f.Blocks == nil || !strings.HasSuffix(an.ShortType(recv.Type()), "parse.parser") {
			continue
		}
		for _, in := range an.StoresIn(f) {
			var addr ssa.Value
			switch x := in.(type) {
			case *ssa.Store:
				addr = x.Addr
			case *ssa.MapUpdate:
				addr = x.Map
			}
			root := an.Root(addr)
			for {
				if u, ok := root.(*ssa.UnOp); ok {
					root = an.Root(u.X)
					continue
				}
				break
			}
			n++
			if root == ssa.Value(recv) {
				r.Fail(short(f)+"|parser-state|"+an.Path(addr), in.Pos(), "%s stores into the patch parser (%s): what one change leaves there is seen when the next is parsed", short(f), an.Path(addr))
			}
		}
	}
	// fresh compilers per change
	if f := fn(r, engine, "compiler.compileChange"); f != nil {
		for _, name := range []string{"matcherCompiler", "replacerCompiler"} {
			fresh := 0
			for _, c := range an.Calls(f) {
				sc := an.StaticCallee(c)
				if sc == nil || !an.InModule(sc) || sc.Signature.Results().Len() != 1 || !strings.HasSuffix(an.ShortType(sc.Signature.Results().At(0).Type()), "engine."+name) {
					continue
				}
				n++
				// the constructor returns a fresh allocation on every path
				ok := len(an.Returns(sc)) > 0
				for _, ret := range an.Returns(sc) {
					if _, isAlloc := ret.Results[0].(*ssa.Alloc); !isAlloc {
						ok = false
					}
				}
				if ok {
					fresh++
				} else {
					r.Fail(short(f)+"|fresh-"+name, c.Pos(), "the %s a change is compiled with comes from %s, which does not allocate a new one on every call: lists the previous change's matchers still refer to are overwritten", name, short(sc))
				}
			}
			r.Check(fresh >= 1, short(f)+"|fresh-"+name+"|created", f.Pos(), "compileChange creates a new %s for the change", name)
		}
	}
	// no storage reuse by truncation of a slice held in a field
	for _, f := range r.P.ModuleFuncs() {
		rel := strings.TrimPrefix(strings.TrimPrefix(an.FuncPkgPath(f), an.Module), "/")
		if rel != engine && rel != parseP && rel != sectRel && rel != dataRel {
			continue
		}
		for _, b := range f.Blocks {
			for _, in := range b.Instrs {
				sl, ok := in.(*ssa.Slice)
				if !ok || sl.Max != nil || sl.High == nil {
					continue
				}
				if k, isc := an.ConstInt(sl.High); !isc || k != 0 {
					continue
				}
				if _, isSlice := sl.X.Type().Underlying().(*types.Slice); !isSlice {
					continue
				}
				n++
				ld, ok := sl.X.(*ssa.UnOp)
				if !ok {
					continue
				}
				if fa, ok := ld.X.(*ssa.FieldAddr); ok {
					r.Fail(short(f)+"|storage-reuse|"+fieldNameOf(fa), sl.Pos(), "%s truncates the slice in field %s to length zero to re-use its storage: slices of it that were handed out earlier (the per-section name lists of a compiled matcher, recorded matches) are overwritten by what is appended next", short(f), fieldNameOf(fa))
				}
			}
		}
	}
	n += listsHandedOutStayInOrder(r)
	r.Count("per-change independence sites", n)
	if compileOnly {
		r.Min("per-change independence sites", 2)
		r.Pass("compiled-lists-are-not-reused", 0, "%d sites inspected: compilers are created per change and no field slice is truncated for reuse, so the per-section name lists the failure memo consults stay what compilation made them", n)
		return
	}
	r.Min("per-change independence sites", 3)
	r.Pass("each-change-on-its-own", 0, "%d sites inspected: versions are parsed in the call that returns them, the parser keeps no state, compilers are created per change, no field slice is truncated for reuse", n)
}

// positionsResolvedByTheFileSet (C19-R6): the compiler and the parser see
// positions from several token.Files of one patch (the patch file itself, one
// synthetic file per metavariables section, one per '-' / '+' version). A
// position is therefore turned into file:line:column by the FileSet, or by
// the token.File that the FileSet returned for that very position in the same
// function — never by a file that was looked up for another position and
// remembered: go/token clamps an offset that lies outside the file instead of
// failing, so the diagnostic would silently carry a wrong line and column.
func positionsResolvedByTheFileSet(r *an.Run, rule string) {
	r.Rule(rule)
	nSet, nFile := 0, 0
	for _, f := range r.P.ModuleFuncs() {
		rel := strings.TrimPrefix(strings.TrimPrefix(an.FuncPkgPath(f), an.Module), "/")
		if rel != engine && rel != parseP {
			continue
		}
		for _, c := range an.Calls(f) {
			switch {
			case an.IsCallTo(c, "(*go/token.FileSet).Position", "(*go/token.FileSet).PositionFor"):
				nSet++
			case an.IsCallTo(c, "(*go/token.File).Position", "(*go/token.File).PositionFor", "(*go/token.File).Line"):
				nFile++
				args := c.Common().Args
				recv, pos := args[0], args[1]
				good := false
				for v := range an.BackSlice(recv, an.SliceOpts{}) {
					if fc, ok := v.(*ssa.Call); ok && an.IsCallTo(fc, "(*go/token.FileSet).File") && fc.Call.Args[1] == pos {
						good = true
					}
				}
				// and not through memory
				if ld, ok := recv.(*ssa.UnOp); ok {
					if _, isField := ld.X.(*ssa.FieldAddr); isField {
						good = false
					}
				}
				r.Check(good, short(f)+"|"+lastSegment(an.CalleeName(c))+"|own-file", c.Pos(), "%s resolves a position against the token.File the FileSet returned for that very position (not a file remembered from another position: the patch's positions live in several files)", short(f))
			}
		}
	}
	r.Count("positions resolved by the FileSet in engine and parse", nSet)
	r.Min("positions resolved by the FileSet in engine and parse", 6)
	r.Pass("resolved-by-the-fileset", 0, "%d positions are resolved by the FileSet itself, %d by a token.File looked up for the position", nSet, nFile)
}

// listsHandedOutStayInOrder: a list kept in a field of a compiler object of
// which pieces (sub-slices) are handed to compiled matchers — the
// per-section metavariable names a SliceDotsMatcher keeps are
// c.metavars[seen:len:len] — is never permuted or written by index afterwards:
// no sort / reverse of (a value that may be) that field, directly or through a
// parameter bound to it at a call site, and no element store. The pieces share
// the backing array; sorted in place they name other metavariables than the
// sections they were cut for. Obligations go to the current rule.
func listsHandedOutStayInOrder(r *an.Run) int {
	type fieldKey struct {
		t   string
		idx int
	}
	isCompilerField := func(v ssa.Value) (fieldKey, bool) {
		ld, ok := v.(*ssa.UnOp)
		if !ok || ld.Op != token.MUL {
			return fieldKey{}, false
		}
		fa, ok := ld.X.(*ssa.FieldAddr)
		if !ok || !strings.Contains(an.ShortType(fa.X.Type()), "ompiler") {
			return fieldKey{}, false
		}
		return fieldKey{an.ShortType(fa.X.Type()), fa.Field}, true
	}
	handed := map[fieldKey]string{}
	fns := r.P.PkgFuncs(engine)
	for _, f := range fns {
		for _, b := range f.Blocks {
			for _, in := range b.Instrs {
				sl, ok := in.(*ssa.Slice)
				if !ok || (sl.Low == nil && sl.High == nil && sl.Max == nil) {
					continue
				}
				srcs := []ssa.Value{sl.X}
				if p, isParam := sl.X.(*ssa.Parameter); isParam {
					// a helper that cuts the piece out of the list it is handed: the list at its call sites
					srcs = nil
					for i, q := range f.Params {
						if q != p {
							continue
						}
						for _, c := range r.P.CallersOf(f) {
							if c.Common().StaticCallee() == f && i < len(an.CallArgs(c)) {
								srcs = append(srcs, an.CallArgs(c)[i])
							}
						}
					}
				}
				for _, src := range srcs {
					if k, ok := isCompilerField(src); ok {
						if hi, isc := an.ConstInt(sl.High); isc && hi == 0 && sl.Low == nil {
							continue // x.f[:0] is reported by the storage-reuse check
						}
						handed[k] = an.Path(src)
					}
				}
			}
		}
	}
	n := 0
	var mayBe func(v ssa.Value, depth int) (string, bool)
	mayBe = func(v ssa.Value, depth int) (string, bool) {
		if k, ok := isCompilerField(v); ok {
			if name, isHanded := handed[k]; isHanded {
				return name, true
			}
			return "", false
		}
		if depth > 3 {
			return "", false
		}
		switch x := v.(type) {
		case *ssa.Slice:
			return mayBe(x.X, depth)
		case *ssa.Phi:
			for _, e := range x.Edges {
				if name, ok := mayBe(e, depth+1); ok {
					return name, true
				}
			}
		case *ssa.ChangeType:
			return mayBe(x.X, depth)
		case *ssa.MakeInterface:
			return mayBe(x.X, depth)
		case *ssa.Parameter:
			g := x.Parent()
			for i, p := range g.Params {
				if p != x {
					continue
				}
				for _, c := range r.P.CallersOf(g) {
					if c.Common().StaticCallee() != g || i >= len(c.Common().Args) {
						continue
					}
					if name, ok := mayBe(c.Common().Args[i], depth+1); ok {
						return name, true
					}
				}
			}
		case *ssa.UnOp:
			// a local variable that was assigned the field
			if al, ok := x.X.(*ssa.Alloc); ok && x.Op == token.MUL && al.Referrers() != nil {
				for _, u := range *al.Referrers() {
					if st, ok := u.(*ssa.Store); ok && st.Addr == ssa.Value(al) {
						if name, ok := mayBe(st.Val, depth+1); ok {
							return name, true
						}
					}
				}
			}
		}
		return "", false
	}
	for _, f := range fns {
		for _, c := range an.Calls(f) {
			if !(isSortCall(c) || an.IsCallTo(c, "slices.Reverse", "sort.Sort", "sort.Stable")) || len(c.Common().Args) == 0 {
				continue
			}
			n++
			if name, ok := mayBe(c.Common().Args[0], 0); ok {
				r.Fail(short(f)+"|reorders-a-list-handed-out|"+name, c.Pos(), "%s reorders %s in place (%s): pieces of that list were handed to the matchers compiled before (the metavariable names of each \"...\" section), and they share its backing array — after the sort they name other metavariables, so the failure memo is kept or dropped for the wrong bindings", short(f), name, an.TrimModule(an.CalleeName(c)))
			}
		}
		for _, in := range an.StoresIn(f) {
			st, ok := in.(*ssa.Store)
			if !ok {
				continue
			}
			ia, ok := st.Addr.(*ssa.IndexAddr)
			if !ok {
				continue
			}
			if name, ok := mayBe(ia.X, 0); ok {
				n++
				r.Fail(short(f)+"|overwrites-a-list-handed-out|"+name, st.Pos(), "%s stores into an element of %s: pieces of that list were handed to the matchers compiled before", short(f), name)
			}
		}
	}
	r.Count("lists handed out in pieces", len(handed))
	r.Min("lists handed out in pieces", 1)
	return n
}
