package rules

import (
	"go/token"
	"go/types"
	"strings"

	"golang.org/x/tools/go/ssa"

	"gpcheck/internal/an"
)

// Rules added after the twelfth seeding round (failure paths; two features
// that work alone and go wrong together).

// slotTakesTheValueGenerated (C03): setValue is where a generated value is
// put into its slot, and where a value that does not fit is refused — the site
// is then left as it was. What is set is the value it was handed: a retry
// with something made from that value (its parentheses taken off) places
// code that is not a copy of what the metavariable stood for.
func slotTakesTheValueGenerated(r *an.Run, rule string) {
	r.Rule(rule)
	f := fn(r, engine, "setValue")
	if f == nil {
		return
	}
	n := 0
	for _, g := range helperGroup(f, 1) {
		for _, c := range an.CallsTo(g, "(reflect.Value).Set") {
			n++
			a := c.Common().Args
			val := an.Unwrap(a[1])
			ok := false
			if prm, isParam := val.(*ssa.Parameter); isParam && prm.Parent() == f {
				ok = true
			}
			if g != f {
				if lv := liftIn(f, val); lv != nil {
					if prm, isParam := an.Unwrap(lv).(*ssa.Parameter); isParam && prm.Parent() == f {
						ok = true
					}
				}
			}
			r.Check(ok, short(f)+"|sets-the-value-it-was-handed", c.Pos(), "%s puts into the slot the value it was handed (found %s): when that value does not fit, the site is refused — a second attempt with something derived from it (unparen, a conversion) places code that is not a syntactically identical copy of what was captured", short(f), an.Describe(val))
		}
	}
	r.Count("places where a generated value is put into its slot", n)
	r.Min("places where a generated value is put into its slot", 1)
}

// loaderListOnlyGrows (C09): the loader collects the patches of all -p and -P
// arguments in the order given. Its list is only ever appended to: an
// assignment of anything but append(l.progs, …) (the list of a staging loader
// taken over whole) throws away the patches loaded before.
func loaderListOnlyGrows(r *an.Run, rule string) {
	r.Rule(rule)
	anchor := fn(r, mainP, "patchLoader.LoadReader")
	if anchor == nil {
		return
	}
	recvT := anchor.Signature.Recv().Type()
	n := 0
	for _, f := range moduleFuncsSorted(r) {
		for _, in := range an.StoresIn(f) {
			st, ok := in.(*ssa.Store)
			if !ok {
				continue
			}
			fa, ok := st.Addr.(*ssa.FieldAddr)
			if !ok || !types.Identical(fa.X.Type(), recvT) {
				continue
			}
			if _, isSlice := derefType(fa.Type()).Underlying().(*types.Slice); !isSlice || !strings.Contains(an.ShortType(derefType(fa.Type())), "Program") {
				continue
			}
			n++
			good := false
			if app, ok := st.Val.(*ssa.Call); ok && an.IsCallTo(app, "builtin:append") {
				if ld, ok := app.Call.Args[0].(*ssa.UnOp); ok && ld.Op == token.MUL {
					if fb, ok := ld.X.(*ssa.FieldAddr); ok && fb.Field == fa.Field && fb.X == fa.X {
						good = true
					}
				}
			}
			// the constructor's literal is not an assignment of the list
			if _, isAlloc := fa.X.(*ssa.Alloc); isAlloc && f.Signature.Recv() == nil {
				good = true
			}
			r.Check(good, short(f)+"|"+fieldNameOf(fa)+"|appended-to", st.Pos(), "%s assigns the loader's list of compiled patches only as append(l.%s, …): the patches of every -p and -P argument are kept, in the order given", short(f), fieldNameOf(fa))
		}
	}
	r.Count("assignments of the loader's list", n)
	r.Min("assignments of the loader's list", 1)
}

// equalityOnlyThroughTheEditScript (C17): walkSlice tells its caller whether
// two lists are equal, and on the way copies the comment association of every
// element that stayed the same into the new snapshot (the next change is
// compared against that snapshot). Both happen in the loop over the edit
// script. A shortcut that answers "equal" before the edit script was computed
// skips the copying: the next change no longer knows which comments belong to
// which declaration, and its region runs through a neighbour's doc comment.
func equalityOnlyThroughTheEditScript(r *an.Run, rule string) {
	r.Rule(rule)
	f := fn(r, "internal/astdiff", "changeFinder.walkSlice")
	if f == nil {
		return
	}
	var diffCall ssa.CallInstruction
	for _, c := range an.Calls(f) {
		if strings.HasSuffix(an.CalleeName(c), "internal/diff.Difference") {
			diffCall = c
		}
	}
	if diffCall == nil {
		r.Undecided(short(f)+"|edit-script", f.Pos(), "%s does not call diff.Difference", short(f))
		return
	}
	// the branch for lists whose elements are not nodes compares element by element (and carries over on the way):
	// what lies behind the "does not implement ast.Node" side of that test is not a shortcut
	var plain []*ssa.BasicBlock
	for _, b := range f.Blocks {
		iff, ok := b.Instrs[len(b.Instrs)-1].(*ssa.If)
		if !ok {
			continue
		}
		inner, pos := an.StripNot(iff.Cond)
		if c, ok := inner.(*ssa.Call); ok && c.Call.IsInvoke() && c.Call.Method.Name() == "Implements" {
			if pos {
				plain = append(plain, b.Succs[1])
			} else {
				plain = append(plain, b.Succs[0])
			}
		}
	}
	inPlain := func(b *ssa.BasicBlock) bool {
		for _, p := range plain {
			if len(p.Preds) == 1 && p.Dominates(b) {
				return true
			}
		}
		return false
	}
	before := an.Reach([]*ssa.BasicBlock{f.Blocks[0]}, func(from *ssa.BasicBlock, succ int) bool { return from == diffCall.Block() })
	var bad *ssa.Return
	n := 0
	for _, ret := range an.Returns(f) {
		if !before[ret.Block()] || ret.Block() == diffCall.Block() || len(ret.Results) != 1 || inPlain(ret.Block()) {
			continue
		}
		n++
		if k, isc := an.ConstBool(ret.Results[0]); !isc || k {
			// an empty list has nothing to carry over: "equal" behind `from.Len() == 0` is no shortcut
			empty := false
			for _, gf := range guardFacts(f) {
				if !gf.Holds || gf.Cmp.Op != token.EQL || !gf.At.Dominates(ret.Block()) {
					continue
				}
				if k0, isc0 := an.ConstInt(gf.Cmp.Y); isc0 && k0 == 0 {
					if lc, ok := gf.Cmp.X.(*ssa.Call); ok && strings.HasSuffix(an.CalleeName(lc), ".Len") && len(lc.Call.Args) == 1 && lc.Call.Args[0] == ssa.Value(paramAt(f, 0)) {
						empty = true
					}
				}
			}
			if !empty {
				bad = ret
			}
		}
	}
	pos := diffCall.Pos()
	if bad != nil {
		pos = bad.Pos()
	}
	r.Check(bad == nil, short(f)+"|equal-only-through-the-edit-script", pos, "%s answers \"equal\" only behind the edit script (the %d return(s) in front of it, outside the branch for lists of plain values, answer false): the loop over the script is what carries the comment association of every unchanged element over into the snapshot the next change is compared against", short(f), n)
}

// lineKeepsTextAndPositionTogether (C19): a Line of a section is the text of a
// line of the patch file and the position of its first byte. The parsers map
// tokens back into the patch file by adding their offset in Text to StartPos,
// so Text is the splitter's current line as it is (p.text, next to p.pos) — a
// trimmed copy next to the untrimmed position moves every diagnostic on an
// indented line to the left.
func lineKeepsTextAndPositionTogether(r *an.Run, rule string) {
	r.Rule(rule)
	anchor := fn(r, sectRel, "programSplitter.next")
	if anchor == nil {
		return
	}
	recvT := anchor.Signature.Recv().Type()
	n := 0
	for _, f := range moduleFuncsSorted(r) {
		if f.Signature.Recv() == nil || !types.Identical(f.Signature.Recv().Type(), recvT) {
			continue
		}
		for _, b := range f.Blocks {
			for _, in := range b.Instrs {
				al, ok := in.(*ssa.Alloc)
				if !ok || al.Referrers() == nil {
					continue
				}
				if nt, isNamed := derefType(al.Type()).(*types.Named); !isNamed || nt.Obj().Name() != "Line" || !strings.HasSuffix(nt.Obj().Pkg().Path(), "/section") {
					continue
				}
				n++
				okText, okPos := false, false
				for _, u := range *al.Referrers() {
					fa, ok := u.(*ssa.FieldAddr)
					if !ok || fa.Referrers() == nil {
						continue
					}
					for _, w := range *fa.Referrers() {
						st, ok := w.(*ssa.Store)
						if !ok || st.Addr != ssa.Value(fa) {
							continue
						}
						ld, isLoad := st.Val.(*ssa.UnOp)
						switch fieldNameOf(fa) {
						case "Text":
							okText = isLoad && ld.Op == token.MUL && strings.HasSuffix(an.Path(ld.X), ".text")
						case "StartPos":
							okPos = isLoad && ld.Op == token.MUL && strings.HasSuffix(an.Path(ld.X), ".pos")
						}
					}
				}
				r.Check(okText && okPos, short(f)+"|line-is-text-and-its-position", al.Pos(), "%s builds a Line from the splitter's current text and its position as they are: the parsers find a token in the patch file at StartPos plus its offset in Text, so a trimmed or otherwise edited Text next to the position of the untrimmed line misplaces every diagnostic on that line", short(f))
			}
		}
	}
	r.Count("lines built by the section splitter", n)
	r.Min("lines built by the section splitter", 2)
}

// flagOnlyAtTheGate (C18): --skip-generated is looked at in one place — the
// gate that asks the marker predicate about a file that parsed. Read anywhere
// else (to turn a parse failure into a silent skip when the text "looks
// generated") it changes what happens to files without a marker in front of
// their package clause.
func flagOnlyAtTheGate(r *an.Run, rule string) {
	r.Rule(rule)
	pred := fn(r, mainP, "checkGeneratedCode")
	if pred == nil {
		return
	}
	isGate := func(h *ssa.Function) bool {
		if h == nil {
			return false
		}
		if h == pred {
			return true
		}
		if !an.InModule(h) || h.Blocks == nil {
			return false
		}
		for _, g := range helperGroup(h, 2) {
			if g == pred || len(an.CallsTo(g, "go/ast.IsGenerated")) > 0 {
				return true
			}
		}
		return false
	}
	n := 0
	for _, f := range moduleFuncsSorted(r) {
		for _, b := range f.Blocks {
			for _, in := range b.Instrs {
				ld, ok := in.(*ssa.UnOp)
				if !ok || ld.Op != token.MUL {
					continue
				}
				fa, ok := ld.X.(*ssa.FieldAddr)
				if !ok || fieldNameOf(fa) != "SkipGenerated" {
					continue
				}
				n++
				// handed to a gate helper as an argument, or tested right in front of the predicate
				var usedAtGate func(v ssa.Value, h *ssa.Function, depth int) bool
				usedAtGate = func(v ssa.Value, h *ssa.Function, depth int) bool {
					if v.Referrers() == nil || depth > 3 {
						return false
					}
					for _, u := range *v.Referrers() {
						switch x := u.(type) {
						case ssa.CallInstruction:
							if isGate(an.StaticCallee(x)) {
								return true
							}
						case *ssa.If:
							for _, c := range an.Calls(h) {
								if c.Block() == x.Block().Succs[0] && isGate(an.StaticCallee(c)) {
									return true
								}
							}
						case *ssa.Store:
							return true // copied into a struct handed on: judged where it is read
						}
					}
					return false
				}
				good := usedAtGate(ld, f, 0)
				// the read sits inside the gate itself: an effect-free helper around the marker predicate
				if isGate(f) && an.IsPurePredicate(f, 1) {
					good = true
				}
				// ... or in an accessor of the option (func (o *options) skipsGenerated() bool): then every call of
				// the accessor is a read of the flag
				if !good && an.IsPurePredicate(f, 1) && len(f.Params) == 1 && f.Signature.Results().Len() == 1 {
					callers := r.P.CallersOf(f)
					good = len(callers) > 0
					for _, c := range callers {
						cv := c.Value()
						if cv == nil || !usedAtGate(cv, c.Parent(), 1) {
							good = false
						}
					}
				}
				r.Check(good, short(f)+"|flag-read-at-the-gate", ld.Pos(), "%s reads --skip-generated only to ask the marker predicate about a parsed file: consulted anywhere else (a parse failure skipped because the text \"looks generated\") the flag changes what happens to files that carry no marker in front of their package clause", short(f))
			}
		}
	}
	r.Count("reads of the skip-generated option", n)
	r.Min("reads of the skip-generated option", 1)
}

// changeNameDecidesNothing (C13): naming a change does not alter its effect.
// The command and the library never read a change's name (it is part of file
// names in diagnostics, made in the parser): a memo of failed changes keyed by
// "the name, or #index" makes an unnamed change collide with the change of the
// same index in another patch.
func changeNameDecidesNothing(r *an.Run, rule string) {
	r.Rule(rule)
	n := 0
	bad := 0
	for _, f := range moduleFuncsSorted(r) {
		pk := an.FuncPkgPath(f)
		if pk != an.Module && pk != an.Module+"/"+patchP {
			continue
		}
		n++
		for _, b := range f.Blocks {
			for _, in := range b.Instrs {
				ld, ok := in.(*ssa.UnOp)
				if !ok || ld.Op != token.MUL {
					continue
				}
				fa, ok := ld.X.(*ssa.FieldAddr)
				if !ok || fieldNameOf(fa) != "Name" {
					continue
				}
				nt, ok := derefType(fa.X.Type()).(*types.Named)
				if !ok || nt.Obj().Name() != "Change" || nt.Obj().Pkg() == nil || !strings.HasPrefix(nt.Obj().Pkg().Path(), an.Module) {
					continue
				}
				bad++
				r.Fail(short(f)+"|reads-the-name-of-a-change", ld.Pos(), "%s reads the name of a change while patches are applied: giving a change a name (or taking it away) must not alter what the patch does", short(f))
			}
		}
	}
	if bad == 0 {
		r.Pass("nobody-reads-the-name-of-a-change", 0, "no function of the command or the library reads Change.Name (%d functions)", n)
	}
}
