// Package rules holds the property-specific rules of gpcheck, one file per
// property. Every rule is phrased over resolved callees, SSA values,
// dominance / control dependence and types — never over source text or line
// numbers — and is a necessary condition of its property (DESIGN.md §1).
package rules

import (
	"sort"

	"gpcheck/internal/an"
)

// Spec describes the check of one property.
type Spec struct {
	ID          string
	Run         func(r *an.Run)
	Thorough    func(r *an.Run) // extra, advisory analyses of the thorough tier (may be nil)
	Explanation string          // what is decided and what is not (goes to evidence)
	Trusted     []string        // trusted base
	Assumptions []string
}

var registry = map[string]*Spec{}

func register(s *Spec) { registry[s.ID] = s }

// Get returns the spec of a property.
func Get(id string) *Spec { return registry[id] }

// IDs lists the registered properties.
func IDs() []string {
	var out []string
	for k := range registry {
		out = append(out, k)
	}
	sort.Strings(out)
	return out
}

var commonTrusted = []string{
	"go/types, go/ssa and the VTA/CHA call graphs of golang.org/x/tools v0.29.0",
	"the Go toolchain's view of /repo's working tree as loaded by go/packages (build tags of the default configuration)",
	"reflection is opaque to the call graph: rules about reflective code are about the calls to package reflect, not through it",
}

var commonAssumptions = []string{
	"documented behaviour of the standard library and of the third-party functions named in the rule (go/parser, go/printer, go/format, x/tools imports.Process with FormatOnly, astutil, pkg/diff, multierr, go-intervals)",
}
