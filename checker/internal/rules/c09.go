package rules

import (
	"sort"
	"strings"

	"golang.org/x/tools/go/ssa"

	"gpcheck/internal/an"
)

func init() {
	register(&Spec{
		ID:  "C09",
		Run: runC09,
		Explanation: "Decides: R1 order-preserving collection — each of the sequence builders (loadPatches: stdin only when neither -p nor -P is given, then -p in flag order, then the -P list; LoadFileList in scanner order; LoadReader appending to the loader's list; section.readProgram; parseProgram storing change i at index i; compileProgram) is a forward loop that appends (never prepends or inserts) the element derived from the current item, and no sort/reverse is ever applied to a sequence of programs or changes; " +
			"R2 application order — patchRunner.Apply and File.Apply iterate programs then changes with forward index loops that visit every element, each Match is given the one file object that every Replace mutates in place (FileReplacer.Replace returns the very *ast.File that FileMatcher.Match recorded); " +
			"R3 a change that does not match is a no-op: nothing is called between its false verdict and the next change; R4 if a step fails the runner reports matched == false with the error recorded (the file is left untouched), and the library returns the error and no bytes; " +
			"R5 no state derived from the file survives from one change to the next other than the file itself: matching and replacing never write the compiled program or package-level variables. " +
			"R1 also: every non-empty line of the -P list is loaded as often as it is listed (no path of an iteration skips LoadFile except for an empty line), LoadFile succeeds only after LoadReader ran and LoadReader only after appending the program; R6 no stale parse-time state — File.Unresolved, File.Scope, Ident.Obj, Object.*, Scope.* (computed once by go/parser, not maintained by replacements) are read nowhere except the inventoried conservative Obj == nil test of usesNameAsTopLevel. " +
			"NOT decided: the claimed equivalence with a chain of separate runs (stale positions, Ident.Obj, shared comment lists after in-place mutation) — a runtime relation between two executions." +
			" R6 also: nothing reachable from Change.Match in the VTA call graph reads parse-time resolution state." +
			" R6 every assignment of the loader's list of compiled patches is append(l.progs, ...) on that field.",
		Trusted:     commonTrusted,
		Assumptions: commonAssumptions,
	})
}

func runC09(r *an.Run) {
	c09Collection(r)
	c09ApplicationOrder(r)
	c09NonMatchingNoop(r)
	c06MatchedFlagAs(r, "R4-failure-leaves-file-untouched")
	c09APIFailure(r)
	compiledProgramReadOnly(r, "R5-no-state-survives-between-changes")
	noPackageLevelState(r, "R5-no-state-survives-between-changes")
	parseTimeState(r, "R6-no-stale-parse-time-state")
	loaderListOnlyGrows(r, "R6-the-loaders-list-only-grows")
}

// appendsToSelf checks `X = append(X, elem)` where X is the given path, and
// returns the appended element.
func appendsToSelf(f *ssa.Function, path string) (elem ssa.Value, at ssa.Instruction, ok bool) {
	for _, in := range an.StoresIn(f) {
		st, isSt := in.(*ssa.Store)
		if !isSt || an.Path(st.Addr) != path {
			continue
		}
		app, isApp := st.Val.(*ssa.Call)
		if !isApp || !an.IsCallTo(app, "builtin:append") || an.Path(app.Call.Args[0]) != path {
			return nil, st, false
		}
		return app.Call.Args[1], st, true
	}
	return nil, nil, false
}

func c09Collection(r *an.Run) {
	r.Rule("R1-order-preserving-collection")
	n := 0
	// LoadReader: l.progs = append(l.progs, prog)
	if f := fn(r, mainP, "patchLoader.LoadReader"); f != nil {
		elem, at, ok := appendsToSelf(f, "l.progs")
		good := ok
		if good {
			good = false
			for v := range an.BackSlice(elem, an.SliceOpts{ThroughMemory: true}) {
				if ex, isEx := v.(*ssa.Extract); isEx && ex.Index == 0 {
					if c, isCall := ex.Tuple.(*ssa.Call); isCall && an.Path(c.Call.Value) == "l.parseAndCompile" {
						good = true
					}
				}
			}
		}
		pos := f.Pos()
		if at != nil {
			pos = at.Pos()
		}
		r.Check(good, short(f)+"|append", pos, "a loaded patch is appended at the end of the loader's program list")
		n++
	}
	if f := fn(r, mainP, "patchLoader.Programs"); f != nil {
		good := false
		for _, ret := range an.Returns(f) {
			if an.Path(ret.Results[0]) == "l.progs" {
				good = true
			}
		}
		r.Check(good, short(f)+"|returns-list", f.Pos(), "Programs() returns that list as it is")
	}
	// loadPatches: order of the three sources
	if f := fn(r, mainP, "loadPatches"); f != nil {
		var reader, file, list ssa.CallInstruction
		for _, c := range an.Calls(f) {
			switch an.StaticCallee(c) {
			case r.P.Func(mainP, "patchLoader.LoadReader"):
				reader = c
			case r.P.Func(mainP, "patchLoader.LoadFile"):
				file = c
			case r.P.Func(mainP, "patchLoader.LoadFileList"):
				list = c
			}
		}
		if r.Check(reader != nil && file != nil && list != nil, short(f)+"|sources", f.Pos(), "loadPatches loads from stdin, -p files and the -P list") {
			ils := findIndexLoops(f, func(v ssa.Value) bool {
				c, ok := v.(*ssa.Call)
				return ok && an.IsCallTo(c, "builtin:len") && strings.HasSuffix(an.Path(c.Call.Args[0]), ".Patches")
			})
			if r.Check(len(ils) == 1, short(f)+"|p-loop", f.Pos(), "one forward loop over opts.Patches") {
				il := ils[0]
				msg := il.CoversAll(file, an.ReturnsFailure)
				elemOK := false
				if u, ok := file.Common().Args[1].(*ssa.UnOp); ok {
					if ia, ok := u.X.(*ssa.IndexAddr); ok && ia.Index == il.Index {
						elemOK = true
					}
				}
				r.Check(msg == "" && il.Start == 0 && il.Step == 1 && elemOK, short(f)+"|p-in-flag-order", file.Pos(), "-p patches are loaded in the order given, each exactly once %s", msg)
				r.Check(!il.Loop.Blocks[list.Block()] && il.Loop.Header.Dominates(list.Block()), short(f)+"|P-after-p", list.Pos(), "the -P list is loaded after all -p patches")
				r.Check(!il.Loop.Blocks[reader.Block()] && !an.Reach([]*ssa.BasicBlock{il.Loop.Header}, nil)[reader.Block()], short(f)+"|stdin-first", reader.Pos(), "a patch on stdin is loaded before anything else")
			}
			// stdin exactly when neither -p nor -P is given: path-sensitive table over the two emptiness tests
			emptyOf := func(c ssa.Value) string {
				cmp, ok := c.(*ssa.BinOp)
				if !ok {
					return ""
				}
				subject, emptyWhenTrue, ok := emptinessTest(cmp)
				if !ok {
					return ""
				}
				name := loadedField(subject)
				if name != "Patches" && name != "PatchesFile" {
					return ""
				}
				if emptyWhenTrue {
					return name + "-empty"
				}
				return "not:" + name + "-empty"
			}
			var stopAt []*ssa.BasicBlock
			stopAt = append(stopAt, reader.Block())
			for _, l := range an.Loops(f) {
				stopAt = append(stopAt, l.Header)
			}
			paths, err := an.EnumeratePathsFrom(f.Blocks[0], emptyOf, func(b *ssa.BasicBlock) bool {
				for _, x := range stopAt {
					if x == b {
						return true
					}
				}
				return false
			}, 64, false)
			good := err == nil && len(paths) >= 2
			for _, p := range paths {
				get := func(a string) (bool, bool) {
					if v, ok := p.Atoms[a]; ok {
						return v, true
					}
					if v, ok := p.Atoms["not:"+a]; ok {
						return !v, true
					}
					return false, false
				}
				pe, pk := get("Patches-empty")
				fe, fk := get("PatchesFile-empty")
				reads := p.End == reader.Block()
				both := pk && pe && fk && fe
				neither := (pk && !pe) || (fk && !fe)
				if reads != both || (!reads && !neither) {
					good = false
				}
			}
			r.Check(good, short(f)+"|stdin-condition", reader.Pos(), "stdin is read exactly when both -p and -P are absent (%d paths; %v)", len(paths), err)
		}
		n++
	}
	// LoadFileList: scanner order
	if f := fn(r, mainP, "patchLoader.LoadFileList"); f != nil {
		var load ssa.CallInstruction
		for _, g := range helperGroup(f, 2) {
			for _, c := range an.Calls(g) {
				if an.StaticCallee(c) == r.P.Func(mainP, "patchLoader.LoadFile") && g != r.P.Func(mainP, "patchLoader.LoadFile") {
					load = c
				}
			}
		}
		if r.Check(load != nil, short(f)+"|loads", f.Pos(), "each listed patch is loaded") {
			l := an.LoopOf(load.Parent(), load.Block())
			good := l != nil
			if good {
				// the path comes from scanner.Text() of the same iteration
				good = false
				for _, line := range sameLine(load.Common().Args[1]) {
					if c, ok := line.(*ssa.Call); ok && an.IsCallTo(c, "(*bufio.Scanner).Text", "(*bufio.Scanner).Bytes") && l.Blocks[c.Block()] {
						good = true
					}
				}
				// … or the line a bufio.Reader read in this iteration, without its terminator
				if c := lineOfReader(load.Common().Args[1]); c != nil && l.Blocks[c.Block()] {
					good = true
				}
			}
			r.Check(good, short(f)+"|scanner-order", load.Pos(), "patches of the -P file are loaded line by line in file order")
		}
		c09EveryListedPatchLoaded(r)
		n++
	}
	// readProgram: prog = append(prog, readChange())
	if f := fn(r, sectRel, "programSplitter.readProgram"); f != nil {
		good := false
		for _, c := range an.CallsTo(f, "builtin:append") {
			call := c.(*ssa.Call)
			_, isPhi := call.Call.Args[0].(*ssa.Phi)
			fromRead := false
			for v := range an.BackSlice(call.Call.Args[1], an.SliceOpts{ThroughMemory: true}) {
				if rc, ok := v.(*ssa.Call); ok && an.StaticCallee(rc) == r.P.Func(sectRel, "programSplitter.readChange") {
					fromRead = true
				}
			}
			if isPhi && fromRead {
				good = true
			}
		}
		r.Check(good, short(f)+"|append", f.Pos(), "changes are appended in the order they are read from the patch file")
		n++
	}
	// parseProgram: prog.Changes[i] = change for the loop's own i
	if f := fn(r, parseP, "parser.parseProgram"); f != nil {
		ils := findIndexLoops(f, func(v ssa.Value) bool {
			c, ok := v.(*ssa.Call)
			return ok && an.IsCallTo(c, "builtin:len")
		})
		good := false
		var act ssa.Instruction
		for _, il := range ils {
			for _, c := range callsInLoop(il.Loop) {
				if an.StaticCallee(c) != r.P.Func(parseP, "parser.parseChange") {
					continue
				}
				call := c.(*ssa.Call)
				act = call
				// change i is parsed from section i and stored at i
				srcOK := false
				if u, ok := call.Call.Args[2].(*ssa.UnOp); ok {
					if ia, ok := u.X.(*ssa.IndexAddr); ok && ia.Index == il.Index {
						srcOK = true
					}
				}
				dstOK := false
				for b := range il.Loop.Blocks {
					for _, in := range b.Instrs {
						if st, ok := in.(*ssa.Store); ok {
							if ia, ok := st.Addr.(*ssa.IndexAddr); ok && ia.Index == il.Index && derivesFrom(st.Val, call) {
								dstOK = true
							}
						}
					}
				}
				// or appended, in a loop that appends once for every index before it goes on
				if !dstOK {
					for _, ac := range callsInLoop(il.Loop) {
						if !an.IsCallTo(ac, "builtin:append") || !derivesFrom(ac.Common().Args[1], call) {
							continue
						}
						if _, carried := ac.Common().Args[0].(*ssa.Phi); !carried {
							continue
						}
						ab := ac.Block()
						reach := an.Reach([]*ssa.BasicBlock{call.Block()}, func(from *ssa.BasicBlock, succ int) bool {
							return from.Succs[succ] == ab || !il.Loop.Blocks[from.Succs[succ]]
						})
						if ab == call.Block() || !reach[il.Loop.Header] {
							dstOK = true
						}
					}
				}
				if srcOK && dstOK && il.Start == 0 && il.Step == 1 && il.CoversAll(call, an.ReturnsFailure) == "" {
					good = true
				}
			}
		}
		pos := f.Pos()
		if act != nil {
			pos = act.Pos()
		}
		r.Check(good, short(f)+"|index-agreement", pos, "change i of the patch file becomes change i of the parsed program")
		n++
	}
	// compileProgram: p.Changes = append(p.Changes, change) in a forward loop over aprogram.Changes
	if f := fn(r, engine, "compiler.compileProgram"); f != nil {
		ils := findIndexLoops(f, isLenOfPath("aprogram.Changes"))
		good := false
		if len(ils) == 1 {
			il := ils[0]
			for _, c := range callsInLoop(il.Loop) {
				if an.StaticCallee(c) != r.P.Func(engine, "compiler.compileChange") {
					continue
				}
				call := c.(*ssa.Call)
				if !elemOf(call.Call.Args[1], "aprogram.Changes", il.Index) || il.Start != 0 || il.Step != 1 {
					continue
				}
				elem, _, ok := appendsToSelf(f, "p.Changes")
				if ok && derivesFrom(elem, call) {
					good = true
				}
			}
		}
		r.Check(good, short(f)+"|append", f.Pos(), "compiled changes are appended in the order of the parsed program")
		n++
	}
	r.Count("sequence builders", n)
	r.Min("sequence builders", 6)
	// no sort / reverse on sequences of programs or changes
	for _, f := range r.P.ModuleFuncs() {
		for _, c := range an.Calls(f) {
			name := an.CalleeName(c)
			if !strings.HasPrefix(name, "sort.") && !strings.HasPrefix(name, "slices.") {
				continue
			}
			for _, a := range c.Common().Args {
				t := an.ShortType(an.Unwrap(a).Type())
				if strings.Contains(t, "engine.Program") || strings.Contains(t, "engine.Change") || strings.Contains(t, "parse.Change") || strings.Contains(t, "section.Program") || strings.Contains(t, "section.Change") {
					r.Fail(short(f)+"|"+name, c.Pos(), "%s applies %s to a sequence of programs/changes (%s): application order would no longer be the given order", short(f), name, t)
				}
			}
		}
	}
	r.Pass("no-reordering-of-programs-or-changes", 0, "no sort.* / slices.* call takes a sequence of programs or changes")
}

func c09ApplicationOrder(r *an.Run) {
	r.Rule("R2-application-order")
	for _, spec := range [][2]string{{mainP, "patchRunner.Apply"}, {patchP, "File.Apply"}} {
		f := fn(r, spec[0], spec[1])
		if f == nil {
			continue
		}
		var match *ssa.Call
		for _, g := range helperGroup(f, 2) {
			for _, vc := range an.VerdictCalls(g) {
				if an.StaticCallee(vc.Call) == r.P.Func(engine, "Change.Match") {
					match = vc.Call
				}
			}
		}
		if !r.Check(match != nil, short(f)+"|match", f.Pos(), "%s matches each change", short(f)) {
			continue
		}
		// every enclosing loop is a forward index loop covering all elements; when the change loop lives in a
		// private helper the loops around the helper's call count as well
		depth := 0
		type encl struct {
			l      *an.Loop
			action ssa.Instruction
			in     *ssa.Function
		}
		var enclosing []encl
		var act ssa.Instruction = match
		for steps := 0; steps < 3 && act != nil; steps++ {
			g := act.Parent()
			var ls []*an.Loop
			for _, l := range an.Loops(g) {
				if l.Blocks[act.Block()] {
					ls = append(ls, l)
				}
			}
			sort.Slice(ls, func(i, j int) bool { return len(ls[i].Blocks) < len(ls[j].Blocks) })
			for li, l := range ls {
				// what every iteration must do: the innermost loop matches; an outer loop runs the loop inside it
				a := act
				if li > 0 {
					inner := ls[li-1].Header
					a = inner.Instrs[len(inner.Instrs)-1]
				}
				enclosing = append(enclosing, encl{l, a, g})
			}
			if g == f {
				break
			}
			var next ssa.Instruction
			for _, h := range helperGroup(f, 2) {
				for _, c := range an.Calls(h) {
					if an.StaticCallee(c) == g {
						next = c
					}
				}
			}
			act = next
		}
		for _, e := range enclosing {
			depth++
			l, action := e.l, e.action
			il := an.AsIndexLoop(l)
			if !r.Check(il != nil && il.Start == 0 && il.Step == 1, short(f)+"|forward-loop|"+loopBoundText(il), loopPos(l), "programs and changes are visited by forward index loops") {
				continue
			}
			msg := il.CoversAll(action, func(b *ssa.BasicBlock) bool {
				// leaving early is allowed only by returning a failure
				ret := an.ReturnOf(b)
				if ret == nil {
					return false
				}
				last := ret.Results[len(ret.Results)-1]
				if v, ok := an.ConstBool(last); ok {
					return !v
				}
				return an.IsErrorType(last.Type()) && !an.IsNilConst(last)
			})
			r.Check(msg == "", short(f)+"|all-visited|"+loopBoundText(il), match.Pos(), "every change of every program is tried, in order (no break) %s", msg)
			// what is iterated is the compiled sequence itself (a field / parameter), not a list derived from it
			// before the loop: a selection made up front is judged against the file as it was before the
			// earlier changes of the same run edited it
			seq := ""
			if bc, ok := il.Bound.(*ssa.Call); ok && an.IsCallTo(bc, "builtin:len") {
				seq = an.PathIn(bc.Call.Args[0], e.in)
				if _, isCall := an.Root(bc.Call.Args[0]).(*ssa.Call); isCall {
					seq = ""
				}
			}
			r.Check(seq != "", short(f)+"|iterates-the-compiled-sequence|"+loopBoundText(il), loopPos(l), "the loop runs over the compiled programs / changes themselves (%q), not over a list computed from them before the loop", seq)
		}
		want := 2
		if spec[0] == patchP {
			want = 1
		}
		r.Check(depth == want, short(f)+"|nesting", match.Pos(), "the Match call is nested in %d loop(s) (programs, changes); found %d", want, depth)
		// the file handed to Match: one object for all iterations (a parameter or the parse result), never a per-iteration copy
		arg := match.Call.Args[1]
		_, isParam := arg.(*ssa.Parameter)
		_, isExtract := arg.(*ssa.Extract)
		r.Check(isParam || isExtract, short(f)+"|same-file-object", match.Pos(), "every change is matched against the same file object, which the replacers mutate in place")
	}
	// identity chain: FileMatcher.Match records its own file parameter; FileReplacer.Replace returns it
	if f := fn(r, engine, "FileMatcher.Match"); f != nil {
		good := false
		for _, in := range an.StoresIn(f) {
			if st, ok := in.(*ssa.Store); ok {
				if fa, ok := st.Addr.(*ssa.FieldAddr); ok && fieldNameOf(fa) == "File" && st.Val == ssa.Value(paramAt(f, 0)) {
					good = true
				}
			}
		}
		r.Check(good, short(f)+"|records-file", f.Pos(), "the match data records the file parameter itself (not a copy)")
	}
	if f := fn(r, engine, "FileReplacer.Replace"); f != nil {
		good := true
		n := 0
		for _, v := range returnedLeaves(f, 0, 0) {
			if an.IsNilConst(v) {
				continue
			}
			n++
			if an.PathIn(v, f) != "fd.File" {
				good = false
			}
		}
		r.Check(good && n >= 1, short(f)+"|returns-recorded-file", f.Pos(), "FileReplacer.Replace returns the recorded file object (fd.File): later changes see what earlier ones produced")
	}
}

func loopBoundText(il *an.IndexLoop) string {
	if il == nil {
		return "?"
	}
	return operandText(il.Bound) + ":" + an.Path(firstArg(il.Bound))
}

func firstArg(v ssa.Value) ssa.Value {
	if c, ok := v.(*ssa.Call); ok && len(c.Call.Args) > 0 {
		return c.Call.Args[0]
	}
	return v
}

func c09NonMatchingNoop(r *an.Run) {
	r.Rule("R3-non-matching-change-is-a-noop")
	for _, spec := range [][2]string{{mainP, "patchRunner.Apply"}, {patchP, "File.Apply"}} {
		f := fn(r, spec[0], spec[1])
		if f == nil {
			continue
		}
		for _, vc := range an.VerdictCalls(f) {
			if an.StaticCallee(vc.Call) != r.P.Func(engine, "Change.Match") || vc.Verdict == nil {
				continue
			}
			l := an.LoopOf(f, vc.Call.Block())
			if l == nil {
				continue
			}
			skip := func(b *ssa.BasicBlock, i int) bool {
				return b.Succs[i] == l.Header || skipEdges(edgesWhen(an.BranchesOn(f, vc.Verdict), true))(b, i)
			}
			region := an.ReachFromSuccs(vc.Call.Block(), skip)
			region[vc.Call.Block()] = true
			var extra []string
			for _, c := range callsAfter(region, vc.Call) {
				extra = append(extra, an.TrimModule(an.CalleeName(c)))
			}
			stores := 0
			for b := range region {
				for _, in := range b.Instrs {
					if _, ok := in.(*ssa.Store); ok && (b != vc.Call.Block() || an.InstrBlockIndex(in) > an.InstrBlockIndex(vc.Call)) {
						stores++
					}
				}
			}
			// loop-carried state is unchanged on the edges taken after a false verdict (resolved through
			// the phis of intermediate join blocks such as a for-loop's post block)
			changed := 0
			trueEdges := edgesWhen(an.BranchesOn(f, vc.Verdict), true)
			var unchanged func(v ssa.Value, hphi *ssa.Phi, depth int) bool
			unchanged = func(v ssa.Value, hphi *ssa.Phi, depth int) bool {
				if v == ssa.Value(hphi) {
					return true
				}
				phi, ok := v.(*ssa.Phi)
				if !ok || depth > 6 || !region[phi.Block()] {
					return false
				}
				for i, e := range phi.Edges {
					pred := phi.Block().Preds[i]
					if !region[pred] {
						continue
					}
					viaTrue := false
					for si, sx := range pred.Succs {
						if sx == phi.Block() && skipEdges(trueEdges)(pred, si) {
							viaTrue = true
						}
					}
					if viaTrue {
						continue
					}
					if !unchanged(e, hphi, depth+1) {
						return false
					}
				}
				return true
			}
			il := an.AsIndexLoop(l)
			for _, in := range l.Header.Instrs {
				phi, ok := in.(*ssa.Phi)
				if !ok || (il != nil && phi == il.Phi) {
					continue
				}
				for i, e := range phi.Edges {
					pred := l.Header.Preds[i]
					if !region[pred] {
						continue
					}
					viaTrue := false
					for si, sx := range pred.Succs {
						if sx == l.Header && skipEdges(trueEdges)(pred, si) {
							viaTrue = true
						}
					}
					if !viaTrue && !unchanged(e, phi, 0) {
						changed++
					}
				}
			}
			r.Check(len(extra) == 0 && stores == 0 && changed == 0, short(f)+"|noop", vc.Call.Pos(), "after a false Match verdict nothing happens before the next change (calls: %v, stores: %d, loop variables changed: %d)", extra, stores, changed)
		}
	}
}

func c06MatchedFlagAs(r *an.Run, rule string) {
	c06MatchedFlag(r)
	relabel(r, "R2-matched-only-after-match", rule)
}

func c09APIFailure(r *an.Run) {
	r.Rule("R4-failure-leaves-file-untouched")
	f := fn(r, patchP, "File.Apply")
	if f == nil {
		return
	}
	// a Replace error must end in `return nil, err`
	n := 0
	var group []ssa.CallInstruction
	for _, g := range helperGroup(f, 2) {
		group = append(group, an.Calls(g)...)
	}
	for _, c := range group {
		call, ok := c.(*ssa.Call)
		if !ok || an.StaticCallee(c) != r.P.Func(engine, "Change.Replace") {
			continue
		}
		n++
		ev := errValue(call)
		joined := false
		// the error is accumulated (errors.Join / append) and the accumulated value guards a nil-result return
		host := call.Parent()
		for _, ret := range an.Returns(host) {
			if len(ret.Results) == 2 && an.IsNilConst(ret.Results[0]) && derivesFrom(ret.Results[1], ev) {
				joined = true
			}
		}
		if joined && host != f {
			// the change loop lives in a helper: its failure must in turn make Apply return no bytes and the error
			site, _ := siteIn(f, call).(*ssa.Call)
			joined = site != nil && site.Parent() == f && failureReturnsNoBytes(site)
		}
		r.Check(joined, short(f)+"|replace-error-returned", c.Pos(), "when a change fails to apply, File.Apply returns the error and no bytes")
	}
	r.Check(n == 1, short(f)+"|replace-site", f.Pos(), "one Replace call site (found %d)", n)
}
