package rules

import (
	"go/token"
	"go/types"
	"strings"

	"golang.org/x/tools/go/ssa"

	"gpcheck/internal/an"
)

func init() {
	register(&Spec{
		ID:  "C04",
		Run: runC04,
		Explanation: "Decides: R1 which '...' are elisions — finder.ellipsis leaves an ellipsis alone exactly when an identifier follows on the same line, finder.fieldList exactly when an identifier follows, every other one is recorded as Dots with End = Start+3, and rewrite substitutes placeholders of exactly 3 bytes; " +
			"R2 section bookkeeping — in both compileSliceDots the dots and the sections grow in the same block and the last section is appended after the loop (len(Dots) == len(Sections)-1), siblings agree; " +
			"R3 anchoring and consumption — the first section is matched in place at index 0 and every possibly-true return of the section search is the end test idx == len(got), the trailing-'...' arm that records got[idx:], or the propagated verdict of the search over the remaining sections; " +
			"R4 the recorded run is the skipped run — in the candidate loop the recorded slice is got[idx:i] with idx the section search's own start and i the very value handed to matchPrefix as start index; " +
			"R5 search completeness — the candidate loop evaluates the remaining sections for each candidate before committing (it never commits on a local success), and a failure memo, if any, is refreshed under a test involving the data before and after the section (bindings can change the outcome); " +
			"R6 reproduction — SliceDotsReplacer.Replace looks every recorded run up through dotAssoc[dots[i]], appends it whole (no sub-slice) after section i, for every i < len(Dots), under no other condition; " +
			"R12 the '-' elision a '+' elision reproduces is selected by comparing their patch positions (data or control dependence on token.Position values), never by count or order alone; R13 length decisions of matchers compare only measured lengths, list positions, counters and constants — no length bound precomputed at compile time (a '...' must be able to stand for the empty run); " +
			"R7 association failures are reported (connectDots's error is used); R8 'for ... {' accepts exactly *ast.ForStmt and *ast.RangeStmt, partitions all fields into Body and the others and reproduces all of them; R9 both compilePGoStmtList wrap a non-empty statement pattern in a leading and a trailing implicit elision. " +
			"NOT decided: the shortest-run / left-to-right choice for all lists as an algorithmic property (only the shape facts R3–R5), mismatched-dots semantics, printer layout." +
			" R14 a rewrite lands in the slot it matched (parent.<name>[index] of the current match)." +
			" R2 also: every '...' closes a section; R7 also: connectDots covers every '+' elision before it reports success." +
			" R15 who interprets an elision: *pgo.Dots is recognised only by the elision tests handed to compileSliceDots, by compileForStmt and by the implicit-elision helpers (inventory: a further place is reported for review)." +
			" R16 the start of the patch is read before splitPatch moves the lines past their markers." +
			" R17 startsWithDotsAt compares Line with Line and Column with Column and no two whole token.Position values.",
		Trusted:     commonTrusted,
		Assumptions: commonAssumptions,
	})
}

func runC04(r *an.Run) {
	c04WhichDots(r)
	c04SectionBookkeeping(r)
	c04AnchoringAndConsumption(r)
	c04Reproduction(r)
	listBuiltIsNewMemory(r, "R6-reproduction")
	c04AssociationReported(r)
	c04ForDots(r)
	c04ImplicitDots(r)
	okDisciplineAll(r, "R10-ok-discipline-and-failed-data", 17)
	memoDependencies(r, "R11-failure-memo-sees-every-binding")
	c04AssociationByPosition(r)
	matcherNumericConditions(r, "R13-length-decisions-on-measured-lengths")
	slotIsTheRecordedSlot(r, "R14-a-rewrite-lands-in-the-slot-it-matched")
	whoInterpretsAnElision(r, "R15-who-interprets-an-elision")
	// whether a leading "..." is the implicit one is decided against the start of the patch: that position
	// is read before the lines are moved past their markers
	positionsReadBeforeStrip(r, "R16-the-patch-start-is-read-before-the-markers-are-stripped")
	positionsOfTwoFilesByLineAndColumn(r, "R17-positions-of-two-files-are-compared-by-line-and-column")
}

const tokIDENT = 4

func tokenConst(r *an.Run, name string) int64 {
	pk := r.P.ByP["go/token"]
	if pk == nil {
		return -1
	}
	c, ok := pk.Types.Scope().Lookup(name).(*types.Const)
	if !ok {
		return -1
	}
	v, _ := an.ConstIntOf(c.Val())
	return v
}

func c04WhichDots(r *an.Run) {
	r.Rule("R1-which-ellipses-are-elisions")
	ident := tokenConst(r, "IDENT")
	// finder.ellipsis
	if f := fn(r, augRel, "finder.ellipsis"); f != nil {
		rec, dots := dotsRecordSite(f)
		if r.Check(rec != nil && dots != nil, short(f)+"|records-dots", f.Pos(), "ellipsis() records a Dots augmentation") {
			lineFn := r.P.Func(augRel, "finder.line")
			classify := func(c ssa.Value) string {
				cmp, ok := c.(*ssa.BinOp)
				if !ok || (cmp.Op != token.EQL && cmp.Op != token.NEQ) {
					return ""
				}
				name := ""
				if strings.HasSuffix(an.Path(cmp.X), ".tok") {
					if k, ok := an.ConstInt(cmp.Y); ok && k == ident {
						name = "ident-follows"
					}
				}
				x, xok := cmp.X.(*ssa.Call)
				y, yok := cmp.Y.(*ssa.Call)
				_ = lineFn
				if xok && yok && isLineOfPos(x, 0) && isLineOfPos(y, 0) {
					name = "same-line"
				}
				if name == "" {
					return ""
				}
				if cmp.Op == token.NEQ {
					return "not:" + name
				}
				return name
			}
			paths, err := an.EnumeratePaths(f, classify, nil, 64)
			good := err == nil && len(paths) >= 2
			for _, p := range paths {
				get := func(a string) (bool, bool) {
					if v, ok := p.Atoms[a]; ok {
						return v, true
					}
					if v, ok := p.Atoms["not:"+a]; ok {
						return !v, true
					}
					return false, false
				}
				id, idK := get("ident-follows")
				sl, slK := get("same-line")
				records := false
				for _, b := range p.Blocks {
					if b == rec.Block() {
						records = true
					}
				}
				both := idK && id && slK && sl
				notBoth := (idK && !id) || (slK && !sl)
				if !(both || notBoth) || records == both {
					good = false
				}
			}
			r.Check(good, short(f)+"|decision", rec.Pos(), "an ellipsis is left alone exactly when an identifier follows on the same line; every other '...' becomes an elision (%d paths; %v)", len(paths), err)
			c04DotsSpan(r, f, dots)
		}
	}
	// finder.fieldList
	if f := fn(r, augRel, "finder.fieldList"); f != nil {
		_, dots := dotsRecordSite(f)
		if r.Check(dots != nil, short(f)+"|records-dots", f.Pos(), "fieldList() records Dots augmentations") {
			c04DotsSpan(r, f, dots)
		}
		// the offsets list grows only when no identifier follows the ellipsis
		var app *ssa.Call
		for _, c := range an.CallsTo(f, "builtin:append") {
			if an.ShortType(c.(*ssa.Call).Type()) == "[]int" {
				app = c.(*ssa.Call)
			}
		}
		if r.Check(app != nil, short(f)+"|offsets", f.Pos(), "fieldList() collects the offsets of elisions") {
			ell := tokenConst(r, "ELLIPSIS")
			var ellTrue, identFalse, identTrue []an.CtrlEdge
			for _, c := range an.EqCases(f, func(v ssa.Value) bool { return strings.HasSuffix(an.Path(v), ".tok") && !isAddr(v) }) {
				k, ok := an.ConstInt(c.Key)
				if !ok {
					continue
				}
				if k == ell {
					ellTrue = append(ellTrue, edgeTo(c.If.Block(), c.Target))
				}
				if k == ident && app.Block() != c.If.Block() && (c.If.Block().Dominates(app.Block())) {
					// the IDENT test that follows the ellipsis (the one closest to the append)
					identFalse = append(identFalse, edgeTo(c.If.Block(), c.Else))
					identTrue = append(identTrue, edgeTo(c.If.Block(), c.Target))
				}
			}
			// keep only the innermost ident test: the one whose block is dominated by the ELLIPSIS arm
			var innerFalse, innerTrue []an.CtrlEdge
			for i, e := range identFalse {
				for _, et := range ellTrue {
					if et.Block.Succs[et.Succ].Dominates(e.Block) || et.Block.Succs[et.Succ] == e.Block {
						innerFalse = append(innerFalse, e)
						innerTrue = append(innerTrue, identTrue[i])
					}
				}
			}
			good := len(ellTrue) > 0 && len(innerFalse) > 0 &&
				unreachableWithout(app.Block(), ellTrue) && unreachableWithout(app.Block(), innerFalse) && !unreachableWithout(app.Block(), innerTrue)
			r.Check(good, short(f)+"|decision", app.Pos(), "in a field list an ellipsis is an elision exactly when no identifier follows it (otherwise it is the variadic marker)")
		}
	}
	// rewrite: placeholders are 3 bytes
	if f := fn(r, augRel, "rewrite"); f != nil {
		n := 0
		for _, c := range an.CallsTo(f, "(*bytes.Buffer).WriteString") {
			var strs []string
			var collect func(v ssa.Value, depth int) bool
			collect = func(v ssa.Value, depth int) bool {
				if s, ok := an.ConstString(v); ok {
					strs = append(strs, s)
					return true
				}
				if phi, ok := v.(*ssa.Phi); ok && depth < 4 {
					for _, e := range phi.Edges {
						if !collect(e, depth+1) {
							return false
						}
					}
					return true
				}
				return false
			}
			if !collect(c.Common().Args[1], 0) || len(strs) == 0 {
				continue
			}
			s := strs[0]
			// is this write in the Dots arm? (dominated by a successful type assertion to *Dots)
			inDots := false
			for _, b := range f.Blocks {
				for _, in := range b.Instrs {
					ta, isTA := in.(*ssa.TypeAssert)
					if !isTA || !ta.CommaOk || !strings.HasSuffix(an.ShortType(ta.AssertedType), "augment.Dots") {
						continue
					}
					for _, ex := range an.ExtractOf(ta, 1) {
						for _, br := range an.BranchesOn(f, ex) {
							if unreachableWithout(c.Block(), []an.CtrlEdge{{Block: br.If.Block(), Succ: br.EdgeWhen(true)}}) {
								inDots = true
							}
						}
					}
				}
			}
			if inDots {
				for _, s := range strs {
					n++
					r.Check(len(s) == 3, short(f)+"|placeholder|"+s, c.Pos(), "the placeholder %q written for a '...' is exactly 3 bytes long (positions after it stay valid without adjustment)", s)
				}
			}
			_ = s
		}
		r.Count("elision placeholders", n)
		r.Min("elision placeholders", 2)
	}
}

// c04DotsSpan: DotsEnd = DotsStart + 3 in the literal.
func c04DotsSpan(r *an.Run, f *ssa.Function, dots *ssa.Alloc) {
	var start, end ssa.Value
	for _, u := range *dots.Referrers() {
		fa, ok := u.(*ssa.FieldAddr)
		if !ok {
			continue
		}
		for _, w := range *fa.Referrers() {
			if st, ok := w.(*ssa.Store); ok {
				switch fieldNameOf(fa) {
				case "DotsStart":
					start = st.Val
				case "DotsEnd":
					end = st.Val
				}
			}
		}
	}
	good := false
	if add, ok := end.(*ssa.BinOp); ok && add.Op == token.ADD && start != nil {
		k, isc := an.ConstInt(add.Y)
		good = isc && k == 3 && (add.X == start || an.Path(add.X) != "" && an.Path(add.X) == an.Path(start))
	}
	r.Check(good, short(f)+"|span", dots.Pos(), "a recorded elision spans exactly the three bytes of '...' (DotsEnd = DotsStart + 3)")
}

func c04SectionBookkeeping(r *an.Run) {
	r.Rule("R2-section-bookkeeping")
	var fps [][]string
	for _, name := range []string{"matcherCompiler.compileSliceDots", "replacerCompiler.compileSliceDots"} {
		f := fn(r, engine, name)
		if f == nil {
			continue
		}
		var loop *an.Loop
		for _, l := range an.Loops(f) {
			if il := an.AsIndexLoop(l); il != nil && isCallOnParam(rvLen, "items")(il.Bound) {
				loop = l
			}
		}
		if !r.Check(loop != nil, short(f)+"|loop", f.Pos(), "one loop over all items of the pattern list") {
			continue
		}
		// appends by result type
		var secIn, secAfter, dotsIn []*ssa.Call
		// the section may be closed by a method of a private builder object (b.endSection(…)): a call to a
		// module function whose one effect on a list of sections is to append the running section to it
		for _, c := range an.Calls(f) {
			call, isCall := c.(*ssa.Call)
			h := an.StaticCallee(c)
			if !isCall || h == nil || !an.InModule(h) || h.Blocks == nil || h == f || strings.HasSuffix(h.Name(), "compile") {
				continue
			}
			closes := 0
			for _, ic := range an.CallsTo(h, "builtin:append") {
				if t := an.ShortType(ic.(*ssa.Call).Type()); t == "[][]engine.Matcher" || t == "[][]engine.Replacer" {
					closes++
				}
			}
			if closes != 1 || len(an.Loops(h)) > 0 {
				continue
			}
			if loop.Blocks[call.Block()] {
				secIn = append(secIn, call)
			} else {
				secAfter = append(secAfter, call)
			}
		}
		for _, c := range an.CallsTo(f, "builtin:append") {
			call := c.(*ssa.Call)
			t := an.ShortType(call.Type())
			switch {
			case t == "[][]engine.Matcher" || t == "[][]engine.Replacer":
				if loop.Blocks[call.Block()] {
					secIn = append(secIn, call)
				} else {
					secAfter = append(secAfter, call)
				}
			case t == "[]token.Pos":
				// the local dots list (not c.dots): its first argument is a phi / local, not a load of a field
				if loop.Blocks[call.Block()] && an.Path(call.Call.Args[0]) == "" {
					dotsIn = append(dotsIn, call)
				}
			}
		}
		good := len(secIn) == 1 && len(secAfter) == 1 && len(dotsIn) == 1 && secIn[0].Block() == dotsIn[0].Block()
		r.Check(good, short(f)+"|dots-and-sections-together", f.Pos(), "a section is closed exactly where a '...' is recorded (%d/%d appends in the loop, same block) and the last section is appended after the loop (%d)", len(secIn), len(dotsIn), len(secAfter))
		// and every "..." closes a section: from the true edge of the isDots test, no way back to the loop
		// header avoids the block that records the section and the elision (an elision folded into its
		// neighbour changes which "..." carries the run — the shortest-run-first rule)
		if good {
			nDots := 0
			for b := range loop.Blocks {
				iff, ok := b.Instrs[len(b.Instrs)-1].(*ssa.If)
				if !ok {
					continue
				}
				cond, pos := an.StripNot(iff.Cond)
				call, ok := cond.(*ssa.Call)
				if !ok || call.Call.IsInvoke() {
					continue
				}
				if p, isParam := call.Call.Value.(*ssa.Parameter); !isParam || p.Name() != f.Params[len(f.Params)-1].Name() {
					continue
				}
				nDots++
				succ := 0
				if !pos {
					succ = 1
				}
				start := b.Succs[succ]
				reach := an.Reach([]*ssa.BasicBlock{start}, func(x *ssa.BasicBlock, i int) bool { return x == secIn[0].Block() })
				avoids := reach[loop.Header] && start != secIn[0].Block()
				r.Check(!avoids, short(f)+"|every-dots-closes-a-section", iff.Pos(), "every item the elision test accepts closes the running section and records the elision: none is folded into a neighbour or skipped")
			}
			r.Check(nDots == 1, short(f)+"|dots-test", f.Pos(), "the loop tests each item with the elision predicate it was given (found %d such branch(es))", nDots)
		}
		if len(secAfter) == 1 {
			exit := loop.Header.Succs[1]
			if il := an.AsIndexLoop(loop); il != nil {
				exit = il.If.Block().Succs[1] // (`for i := range n`: the test is at the bottom, and in front of the loop)
			}
			r.Check((exit == secAfter[0].Block() || exit.Dominates(secAfter[0].Block())) && mustPassAllPaths(f, exit, secAfter[0].Block()), short(f)+"|final-section", secAfter[0].Pos(), "every way out of the loop appends the final section (len(Dots) == len(Sections)-1)")
		}
		// the section being appended is the running `current`, and it is reset afterwards: the phi of current gets nil on that path
		fps = append(fps, fingerprintFiltered(f, func(s string) bool {
			return !strings.Contains(s, "metavars") && !strings.Contains(s, "[]string") && !strings.Contains(s, "ZeroReplacer") && !strings.Contains(s, "IsNil") && !strings.Contains(s, "(reflect.Value).Type") && !strings.Contains(s, "reflect.Type")
		}))
		r.Count("compileSliceDots siblings", 1)
	}
	r.Min("compileSliceDots siblings", 2)
}

// mustPassAllPaths: every path from `from` to a return passes `through`.
func mustPassAllPaths(f *ssa.Function, from, through *ssa.BasicBlock) bool {
	return mustPass(from, through)
}

func fingerprintFiltered(f *ssa.Function, keep func(string) bool) []string {
	var out []string
	for _, s := range fingerprintDepth(f, 0) {
		if keep(s) {
			out = append(out, s)
		}
	}
	return out
}

func c04AnchoringAndConsumption(r *an.Run) {
	m := fn(r, engine, "SliceDotsMatcher.Match")
	ms := funcAnywhere(r, engine, "matchSections")
	mp := funcAnywhere(r, engine, "matchPrefix")
	if m == nil || ms == nil || mp == nil {
		return
	}
	r.Rule("R3-anchoring-and-consumption")
	// first section anchored at 0
	n := 0
	for _, c := range an.Calls(m) {
		if an.StaticCallee(c) != mp {
			continue
		}
		n++
		a := c.Common().Args
		k, ok := an.ConstInt(a[len(a)-1])
		r.Check(ok && k == 0, short(m)+"|anchored", c.Pos(), "the first section must match in place, at index 0")
		first := false
		if u, ok := a[0].(*ssa.UnOp); ok {
			if ia, ok := u.X.(*ssa.IndexAddr); ok && an.Path(ia.X) == "m.Sections" {
				if i, ok := an.ConstInt(ia.Index); ok && i == 0 {
					first = true
				}
			}
		}
		r.Check(first, short(m)+"|first-section", c.Pos(), "the anchored section is m.Sections[0]")
	}
	r.Check(n == 1, short(m)+"|one-anchor", m.Pos(), "exactly one anchored prefix match (found %d)", n)
	// the remaining sections are handed over completely
	for _, c := range an.Calls(m) {
		if an.StaticCallee(c) != ms {
			continue
		}
		a := c.Common().Args
		good, dotsOK := false, false
		for _, arg := range a {
			if sl, ok := arg.(*ssa.Slice); ok && an.Path(sl.X) == "m.Sections" && sl.High == nil {
				if k, isc := an.ConstInt(sl.Low); isc && k == 1 {
					good = true
				}
			}
			if an.Path(arg) == "m.Dots" {
				dotsOK = true
			}
		}
		r.Check(good, short(m)+"|rest", c.Pos(), "all remaining sections m.Sections[1:] go to the section search")
		r.Check(dotsOK, short(m)+"|dots", c.Pos(), "together with all recorded dots positions")
	}
	// matchSections: classify possibly-true returns
	vidx, _ := an.VerdictIndex(ms.Signature)
	gotP, idx, sections := paramNamed(ms, "got"), paramNamed(ms, "idx"), paramNamed(ms, "sections")
	// the candidate list: the parameter `got`, or — when the loop invariants of the search were gathered in a
	// receiver struct — the receiver's field that holds the list of reflect values
	isGot := func(v ssa.Value) bool { return gotP != nil && v == ssa.Value(gotP) }
	if gotP == nil {
		if recv := recvValue(ms); recv != nil {
			field := ""
			if st, ok := derefStruct(recv.Type()); ok {
				for i := 0; i < st.NumFields(); i++ {
					if sl, ok := st.Field(i).Type().Underlying().(*types.Slice); ok && isReflectValue(sl.Elem()) {
						if field != "" {
							field = "?"
						} else {
							field = st.Field(i).Name()
						}
					}
				}
			}
			if field != "" && field != "?" {
				isGot = func(v ssa.Value) bool {
					return loadedField(v) == field && (an.Root(v) == ssa.Value(recv) || rootIsSpillOf(v, recv))
				}
				gotP = recv // marks "found"
			}
		}
	}
	if gotP == nil || idx == nil || sections == nil {
		r.Undecided(short(ms)+"|params", ms.Pos(), "matchSections no longer has the candidate list, idx and sections as parameters (or the list in its receiver): cannot analyse")
		return
	}
	nEnd, nTrail, nProp := 0, 0, 0
	var restCalls []*ssa.Call
	for _, vc := range an.VerdictCalls(ms) {
		for _, a := range vc.Call.Call.Args {
			if sl, ok := a.(*ssa.Slice); ok && sl.X == ssa.Value(sections) && sl.High == nil {
				if k, isc := an.ConstInt(sl.Low); isc && k == 1 {
					restCalls = append(restCalls, vc.Call)
				}
			}
		}
	}
	for _, ret := range an.PossiblyTrueReturns(ms, vidx) {
		v := ret.Results[vidx]
		switch {
		case isIdxEqLen(v, idx, isGot):
			nEnd++
			// only when no section remains
			var noneLeft []an.CtrlEdge
			for _, c := range an.EqCases(ms, func(x ssa.Value) bool {
				call, ok := x.(*ssa.Call)
				return ok && an.IsCallTo(call, "builtin:len") && call.Call.Args[0] == ssa.Value(sections)
			}) {
				if k, ok := an.ConstInt(c.Key); ok && k == 0 {
					noneLeft = append(noneLeft, edgeTo(c.If.Block(), c.Target))
				}
			}
			r.Check(len(noneLeft) > 0 && unreachableWithout(ret.Block(), noneLeft), short(ms)+"|end-test-when-done", ret.Pos(), "the end test idx == len(got) decides the match exactly when no section remains: the list must be consumed")
		case constTrue(v) && behindRestVerdict(ms, ret, restCalls):
			nProp++
			r.Pass(short(ms)+"|propagated", ret.Pos(), "true is returned behind the true verdict of the search over the remaining sections")
		case constTrue(v):
			// trailing dots: records got[idx:]
			nTrail++
			recorded := false
			for _, in := range ret.Block().Instrs {
				if c, ok := in.(*ssa.Call); ok && an.StaticCallee(c) == r.P.Func(engine, "pushSliceDotsSkipped") {
					if sl, ok := c.Call.Args[2].(*ssa.Slice); ok && isGot(sl.X) && sl.Low == ssa.Value(idx) && sl.High == nil {
						recorded = true
					}
				}
			}
			r.Check(recorded, short(ms)+"|trailing-dots", ret.Pos(), "a constant-true verdict is returned only by the trailing-'...' arm, which records the open-ended run got[idx:] (the whole rest is consumed)")
		default:
			// propagated verdict of a rest call
			ok := false
			for _, rc := range restCalls {
				for _, ex := range an.ExtractOf(rc, vidxOf(rc)) {
					if v == ssa.Value(ex) {
						ok = true
					}
					for _, br := range an.BranchesOn(ms, ex) {
						if unreachableWithout(ret.Block(), []an.CtrlEdge{{Block: br.If.Block(), Succ: br.EdgeWhen(true)}}) {
							ok = true
						}
					}
				}
			}
			if ok {
				nProp++
			}
			r.Check(ok, short(ms)+"|propagated", ret.Pos(), "any other true verdict is the verdict of the search over the remaining sections")
		}
	}
	r.Check(nEnd >= 1 && nProp >= 1, short(ms)+"|shape", ms.Pos(), "the section search has an end test (%d), a trailing-dots arm (%d) and propagates the rest's verdict (%d)", nEnd, nTrail, nProp)

	r.Rule("R4-recorded-run-is-skipped-run")
	var loop *an.Loop
	for _, l := range an.Loops(ms) {
		for _, c := range restCalls {
			if l.Blocks[c.Block()] {
				loop = l
			}
		}
	}
	if !r.Check(loop != nil, short(ms)+"|candidate-loop", ms.Pos(), "the candidate loop around the search over the remaining sections") {
		r.Rule("R5-search-completeness")
		r.Fail(short(ms)+"|commit-after-rest", ms.Pos(), "the search over the remaining sections is not evaluated inside a candidate loop: the first local success is final, so f(..., a, b) misses f(a, b, a, b)")
		return
	}
	nRec := 0
	for _, c := range an.Calls(ms) {
		if an.StaticCallee(c) != mp || !loop.Blocks[c.Block()] {
			continue
		}
		start := c.Common().Args[len(c.Common().Args)-1]
		// the data argument carries the recorded run
		rec := false
		for v := range an.BackSlice(c.Common().Args[2], an.SliceOpts{ThroughCalls: true}) {
			if pc, ok := v.(*ssa.Call); ok && an.StaticCallee(pc) == r.P.Func(engine, "pushSliceDotsSkipped") {
				if sl, ok := pc.Call.Args[2].(*ssa.Slice); ok && isGot(sl.X) {
					nRec++
					rec = sl.Low == ssa.Value(idx) && sl.High == start
					r.Check(rec, short(ms)+"|run-bounds", pc.Pos(), "the run recorded for the '...' is got[idx:i]: from the search's own start to the very index the section is tried at")
				}
			}
		}
		r.Check(rec, short(ms)+"|run-recorded-before-try", c.Pos(), "the section is tried with data that already records the run skipped before it")
		_, isPhi := start.(*ssa.Phi)
		r.Check(isPhi && loop.Blocks[start.(*ssa.Phi).Block()], short(ms)+"|candidate-index", c.Pos(), "the start index of the section is the candidate loop's own variable")
	}
	r.Count("recorded runs", nRec)
	r.Min("recorded runs", 1)
	// the loop starts at idx
	if il := an.AsIndexLoop(loop); il == nil {
		// matchSections' loop bound is a compound expression: check the phi init directly
		for _, in := range loop.Header.Instrs {
			if phi, ok := in.(*ssa.Phi); ok && an.ShortType(phi.Type()) == "int" {
				for i, e := range phi.Edges {
					if !loop.Blocks[loop.Header.Preds[i]] {
						r.Check(e == ssa.Value(idx), short(ms)+"|starts-at-idx", phi.Pos(), "candidates start at the search's start index (shortest run first)")
					}
				}
			}
		}
	}

	r.Rule("R5-search-completeness")
	// the last position tried is the last one at which the section fits, len(got)-len(want): for an empty section
	// (two "..." next to each other) that is the END of the list — with `i < len(got)` a pattern that ends in an
	// explicit "..." no longer matches an instance that is the last thing in its block
	for _, c := range an.Calls(ms) {
		if an.StaticCallee(c) != mp || !loop.Blocks[c.Block()] {
			continue
		}
		a := c.Common().Args
		if len(a) < 2 {
			continue
		}
		phi, isPhi := a[len(a)-1].(*ssa.Phi)
		iff, isIf := loop.Header.Instrs[len(loop.Header.Instrs)-1].(*ssa.If)
		good := false
		found := "no comparison in the loop header"
		if isPhi && isIf {
			if cmp, ok := iff.Cond.(*ssa.BinOp); ok {
				d := an.Lin(cmp.X).Sub(an.Lin(cmp.Y))
				op := cmp.Op
				pk := an.AtomKey(phi)
				if d.Terms[pk] == -1 {
					d = an.Lin(cmp.Y).Sub(an.Lin(cmp.X))
					switch op {
					case token.GEQ:
						op = token.LEQ
					case token.GTR:
						op = token.LSS
					case token.LEQ:
						op = token.GEQ
					case token.LSS:
						op = token.GTR
					}
				}
				found = cmp.X.Name() + " " + cmp.Op.String() + " " + cmp.Y.Name() + " (" + d.String() + " " + op.String() + " 0)"
				wantK, gotK := "len("+an.Path(a[0])+")", "len("+an.Path(a[1])+")"
				shape := len(d.Terms) == 3 && d.Terms[pk] == 1 && d.Terms[wantK] == 1 && d.Terms[gotK] == -1
				good = shape && (op == token.LEQ && d.K == 0 || op == token.LSS && d.K == -1) && loop.Blocks[iff.Block().Succs[0]]
			}
		}
		r.Check(good, short(ms)+"|tries-up-to-the-last-fitting-position", c.Pos(), "the candidate loop runs while i+len(want) <= len(got): the last position tried is the last one at which the section still fits, which for an empty section is the end of the list (found: %s)", found)
	}
	// every possibly-true return reachable from the loop body is behind a rest call's true verdict
	for _, ret := range an.PossiblyTrueReturns(ms, vidx) {
		fromLoop := false
		for b := range loop.Blocks {
			for _, s := range b.Succs {
				if !loop.Blocks[s] && an.Reach([]*ssa.BasicBlock{s}, nil)[ret.Block()] && s != loop.Header.Succs[1] {
					fromLoop = true
				}
			}
		}
		if !fromLoop {
			continue
		}
		ok := false
		for _, rc := range restCalls {
			for _, ex := range an.ExtractOf(rc, vidxOf(rc)) {
				for _, br := range an.BranchesOn(ms, ex) {
					if unreachableWithout(ret.Block(), []an.CtrlEdge{{Block: br.If.Block(), Succ: br.EdgeWhen(true)}}) {
						ok = true
					}
				}
			}
		}
		r.Check(ok, short(ms)+"|commit-after-rest", ret.Pos(), "the candidate loop commits to a position only after the remaining sections matched from there (a search that commits on the first local success misses f(a, b, a, b) for f(..., a, b))")
	}
	// a FALSE verdict of the remaining sections must lead to the next candidate, never straight to a return
	for _, rc := range restCalls {
		for _, ex := range an.ExtractOf(rc, vidxOf(rc)) {
			trueEdges := edgesWhen(an.BranchesOn(ms, ex), true)
			hdr := loop.Header
			skip := func(b *ssa.BasicBlock, i int) bool { return b.Succs[i] == hdr || skipEdges(trueEdges)(b, i) }
			region := an.ReachFromSuccs(rc.Block(), skip)
			region[rc.Block()] = true
			bad := false
			for _, ret := range an.Returns(ms) {
				if region[ret.Block()] && (ret.Block() != rc.Block() || an.InstrBlockIndex(ret) > an.InstrBlockIndex(rc)) {
					bad = true
				}
			}
			r.Check(!bad, short(ms)+"|rest-failure-tries-next-candidate", rc.Pos(), "when the remaining sections do not match from a candidate position, the loop moves on to the next candidate (it does not return)")
		}
	}
	r.Check(len(restCalls) >= 1, short(ms)+"|rest-evaluated", ms.Pos(), "the remaining sections are evaluated inside the candidate loop (%d call(s))", len(restCalls))
	// every candidate position is tried: on every way back to the loop header the candidate index has grown by
	// exactly one (skipping ahead after a failed candidate loses occurrences that overlap it)
	for _, in := range loop.Header.Instrs {
		phi, ok := in.(*ssa.Phi)
		if !ok || an.ShortType(phi.Type()) != "int" {
			continue
		}
		isCandidate := false
		for _, c := range an.Calls(ms) {
			if an.StaticCallee(c) == mp && loop.Blocks[c.Block()] {
				a := c.Common().Args
				if a[len(a)-1] == ssa.Value(phi) {
					isCandidate = true
				}
			}
		}
		if !isCandidate {
			continue
		}
		for i, e := range phi.Edges {
			if !loop.Blocks[loop.Header.Preds[i]] {
				continue
			}
			d := an.Lin(e).Sub(an.Lin(phi))
			r.Check(len(d.Terms) == 0 && d.K == 1, short(ms)+"|every-candidate-tried", phi.Pos(), "the candidate index advances by exactly one per attempt (found step %s on the edge from block %d): no start position is skipped, so an occurrence that overlaps a failed one is still found", d.String(), loop.Header.Preds[i].Index)
		}
	}
	// memo refresh
	var memo *ssa.Parameter
	for _, p := range ms.Params {
		if _, ok := p.Type().Underlying().(*types.Map); ok {
			memo = p
		}
	}
	if memo != nil {
		for _, rc := range restCalls {
			arg := rc.Call.Args[len(rc.Call.Args)-1]
			phi, isPhi := arg.(*ssa.Phi)
			fresh, own := false, false
			if isPhi {
				for _, e := range phi.Edges {
					if _, ok := e.(*ssa.MakeMap); ok {
						fresh = true
					}
					if e == ssa.Value(memo) {
						own = true
					}
				}
			}
			good := fresh && own
			if good {
				// the choice is made by a test that sees the data before and after the section
				good = false
				for _, cd := range r.P.CtrlDeps(ms)[phiEdgeBlock(phi)] {
					iff := cd.Block.Instrs[len(cd.Block.Instrs)-1].(*ssa.If)
					sl := an.BackSlice(iff.Cond, an.SliceOpts{ThroughCalls: true})
					before, after := false, false
					for v := range sl {
						if isParam(v, "d") {
							before = true
						}
						if ex, ok := v.(*ssa.Extract); ok {
							if c, ok := ex.Tuple.(*ssa.Call); ok && an.StaticCallee(c) == mp {
								after = true
							}
						}
					}
					if before && after {
						good = true
					}
				}
			}
			r.Check(good, short(ms)+"|memo-refreshed-on-new-bindings", rc.Pos(), "the failure memo handed to the remaining sections is replaced by a fresh one under a test on the data before and after the section: a failure recorded under other metavariable bindings is not reused")
		}
	}
}

func behindRestVerdict(ms *ssa.Function, ret *ssa.Return, restCalls []*ssa.Call) bool {
	for _, rc := range restCalls {
		for _, ex := range an.ExtractOf(rc, vidxOf(rc)) {
			for _, br := range an.BranchesOn(ms, ex) {
				if unreachableWithout(ret.Block(), []an.CtrlEdge{{Block: br.If.Block(), Succ: br.EdgeWhen(true)}}) {
					return true
				}
			}
		}
	}
	return false
}

func phiEdgeBlock(phi *ssa.Phi) *ssa.BasicBlock {
	for i, e := range phi.Edges {
		if _, ok := e.(*ssa.MakeMap); ok {
			return phi.Block().Preds[i]
		}
	}
	return phi.Block()
}

func vidxOf(c *ssa.Call) int {
	i, _ := an.VerdictIndex(c.Call.Signature())
	return i
}

func constTrue(v ssa.Value) bool {
	b, ok := an.ConstBool(v)
	return ok && b
}

func isIdxEqLen(v ssa.Value, idx ssa.Value, isGot func(ssa.Value) bool) bool {
	cmp, ok := v.(*ssa.BinOp)
	if !ok || cmp.Op != token.EQL {
		return false
	}
	isLen := func(x ssa.Value) bool {
		c, ok := x.(*ssa.Call)
		return ok && an.IsCallTo(c, "builtin:len") && isGot(c.Call.Args[0])
	}
	return cmp.X == idx && isLen(cmp.Y) || cmp.Y == idx && isLen(cmp.X)
}

func paramNamed(f *ssa.Function, name string) *ssa.Parameter {
	for _, p := range f.Params {
		if p.Name() == name {
			return p
		}
	}
	return nil
}

func c04Reproduction(r *an.Run) {
	r.Rule("R6-reproduction")
	f := fn(r, engine, "SliceDotsReplacer.Replace")
	if f == nil {
		return
	}
	// lookups: one per element of r.Dots, through dotAssoc
	ils := findIndexLoopsGroup(f, isLenOfPathIn(f, "r.Dots"))
	if r.Check(len(ils) == 1, short(f)+"|dots-loop", f.Pos(), "one loop over all of r.Dots") {
		il := ils[0]
		var look ssa.CallInstruction
		for _, c := range callsInLoop(il.Loop) {
			if an.StaticCallee(c) == r.P.Func(engine, "lookupSliceDotsSkipped") {
				look = c
			}
		}
		if r.Check(look != nil, short(f)+"|lookup", il.If.Pos(), "every dots position is looked up") {
			msg := il.CoversAll(look, nil)
			r.Check(msg == "" && il.Start == 0 && il.Step == 1, short(f)+"|lookup-covers-all", look.Pos(), "the run of every '...' of the list is looked up %s", msg)
			lk, ok := look.Common().Args[1].(*ssa.Lookup)
			good := ok && an.PathIn(lk.X, f) == "r.dotAssoc" && elemOfIn(f, lk.Index, "r.Dots", il.Index)
			r.Check(good, short(f)+"|through-dotAssoc", look.Pos(), "the run looked up is the one associated with this '...' by r.dotAssoc[r.Dots[i]]")
		}
	}
	// appended whole, after section i, under the bound test only
	sec := findIndexLoopsGroup(f, isLenOfPathIn(f, "r.Sections"))
	if !r.Check(len(sec) == 1, short(f)+"|sections-loop", f.Pos(), "one loop over all sections") {
		return
	}
	sl := sec[0]
	anchor := f
	f = sl.Loop.Header.Parent() // the sections loop may live in a helper of Replace
	if f != anchor {
		r.Check(helperFailurePropagates(anchor, f), short(anchor)+"|helper-failure-propagates", anchor.Pos(), "a failure of %s makes Replace fail", short(f))
	}
	var run *ssa.Call
	var runs []*ssa.Call
	for _, c := range an.CallsTo(f, "builtin:append") {
		call := c.(*ssa.Call)
		if !sl.Loop.Blocks[call.Block()] || an.ShortType(call.Type()) != "[]reflect.Value" {
			continue
		}
		// variadic append of a whole slice: second argument is not a one-element varargs array
		if _, isSlice := call.Call.Args[1].(*ssa.Slice); isSlice {
			if al, ok := call.Call.Args[1].(*ssa.Slice).X.(*ssa.Alloc); ok && al.Comment == "varargs" {
				continue
			}
			r.Fail(short(f)+"|run-sub-slice", call.Pos(), "a sub-slice of the recorded run is appended: elided elements are dropped")
			continue
		}
		run = call
		runs = append(runs, call)
	}
	if !r.Check(run != nil, short(f)+"|run-appended", sl.If.Pos(), "the recorded run is appended to the rebuilt list") {
		return
	}
	// what is appended is what lookupSliceDotsSkipped returned for this '...' (possibly kept in a local table in between)
	isWhole := func(run *ssa.Call) bool {
		whole := false
		for v := range sliceAcross(run.Call.Args[1]) {
			if ex, ok := v.(*ssa.Extract); ok && ex.Index == 0 {
				if c, ok := ex.Tuple.(*ssa.Call); ok && an.StaticCallee(c) == r.P.Func(engine, "lookupSliceDotsSkipped") {
					whole = true
				}
			}
			// the helper may hand back the record itself (the run and its region in one struct): the run is then
			// the record's only list of values
			if c, ok := v.(*ssa.Call); ok && an.StaticCallee(c) == r.P.Func(engine, "lookupSliceDotsSkipped") {
				if st, isStruct := c.Type().Underlying().(*types.Struct); isStruct {
					lists := 0
					for i := 0; i < st.NumFields(); i++ {
						if an.ShortType(st.Field(i).Type()) == "[]reflect.Value" {
							lists++
						}
					}
					if lists == 1 {
						whole = true
					}
				}
			}
			if _, isSub := v.(*ssa.Slice); isSub {
				if al, ok := v.(*ssa.Slice).X.(*ssa.Alloc); !ok || al.Comment != "varargs" {
					return false
				}
			}
		}
		return whole
	}
	whole := true
	for _, c := range runs {
		whole = whole && isWhole(c)
	}
	r.Check(whole, short(f)+"|run-whole", run.Pos(), "the run appended is the one lookupSliceDotsSkipped returned, whole and in its original order")
	// a condition that only chooses how the run is appended (both arms append it whole) drops nothing
	bothArmsAppend := func(iff *ssa.If) bool {
		for _, succ := range iff.Block().Succs {
			has := false
			for _, c := range runs {
				if succ.Dominates(c.Block()) && len(succ.Preds) == 1 && isWhole(c) {
					has = true
				}
			}
			if !has {
				return false
			}
		}
		return true
	}
	// control dependences of the append inside the sections loop: only the index bound test
	for _, cd := range r.P.AllCtrlDeps(run.Block()) {
		if !sl.Loop.Blocks[cd.Block] || cd.Block == sl.Loop.Header {
			continue
		}
		iff := cd.Block.Instrs[len(cd.Block.Instrs)-1].(*ssa.If)
		cmp, ok := iff.Cond.(*ssa.BinOp)
		bound := false
		if ok {
			isLen := func(v ssa.Value) bool {
				c, isCall := v.(*ssa.Call)
				return isCall && an.IsCallTo(c, "builtin:len")
			}
			switch cmp.Op {
			case token.LSS, token.GEQ: // i < len / i >= len
				bound = cmp.X == sl.Index && isLen(cmp.Y)
			case token.GTR, token.LEQ: // len > i / len <= i
				bound = cmp.Y == sl.Index && isLen(cmp.X)
			}
		}
		// inner loop headers (the loop over the section's replacers) are fine
		inner := false
		for _, l := range an.Loops(f) {
			if l.Header == cd.Block && l != sl.Loop {
				inner = true
			}
		}
		if errTest(iff) {
			inner = true
		}
		if !bound && !inner && bothArmsAppend(iff) {
			inner = true
		}
		r.Check(bound || inner, short(f)+"|run-unconditional|"+condText(iff.Cond), iff.Pos(), "the run of '...' number i is reproduced whenever i < len(skipped): no other condition may drop elided elements (found condition %s)", condText(iff.Cond))
	}
	// after section i: the append is not inside the inner replacer loop and dominates the latch taken after it
	lo := an.LoopOf(f, run.Block())
	r.Check(lo != nil && lo.Header == sl.Loop.Header, short(f)+"|run-after-section", run.Pos(), "the run is appended after all replacers of section i, before section i+1")
}

func errTest(iff *ssa.If) bool {
	cmp, ok := iff.Cond.(*ssa.BinOp)
	return ok && (an.IsErrorType(cmp.X.Type()) || an.IsErrorType(cmp.Y.Type()))
}

func c04AssociationReported(r *an.Run) {
	r.Rule("R7-association-errors-reported")
	f := fn(r, engine, "compiler.compileChange")
	cd := fn(r, engine, "connectDots")
	if f == nil || cd == nil {
		return
	}
	n := 0
	for _, c := range an.Calls(f) {
		if an.StaticCallee(c) != cd {
			continue
		}
		n++
		call, ok := c.(*ssa.Call)
		used := ok && nonDebugRefs(call) > 0
		recorded := false
		if used {
			for _, in := range an.StoresIn(f) {
				if st, ok := in.(*ssa.Store); ok && strings.HasSuffix(an.Path(st.Addr), ".errors") && derivesFrom(st.Val, call) {
					recorded = true
				}
			}
			for _, cc := range an.Calls(f) {
				if an.StaticCallee(cc) == r.P.Func(engine, "compiler.errf") && derivesFrom(cc.(*ssa.Call).Call.Args[len(cc.Common().Args)-1], call) {
					recorded = true
				}
			}
		}
		r.Check(used && recorded, short(f)+"|connectDots-error", c.Pos(), "a '+' elision without a '-' counterpart (connectDots's error) is recorded as a compile error instead of silently losing the elided elements")
		// wiring: minus dots, plus dots, the replacer compiler's association map
		a := c.Common().Args
		isAssoc := false
		if u, ok := a[3].(*ssa.UnOp); ok {
			if fa, ok := u.X.(*ssa.FieldAddr); ok && fieldNameOf(fa) == "dotAssoc" && strings.HasSuffix(an.ShortType(fa.X.Type()), "replacerCompiler") {
				isAssoc = true
			}
		}
		r.Check(isAssoc, short(f)+"|connectDots-map", c.Pos(), "associations are written into the replacer compiler's dotAssoc (the map the replacers read)")
	}
	r.Check(n == 1, short(f)+"|connectDots-called", f.Pos(), "compileChange associates the elisions of both sides once (found %d call(s))", n)
	// connectDots itself: every '+' elision is associated or reported — success is returned only after the
	// loop over the '+' elisions has run to its end, and every iteration either records an association or
	// leaves with an error (no shortcut "nothing to connect" that also skips the report for a '+' elision
	// that has no '-' counterpart at all)
	rhs := paramAt(cd, 2)
	var il *an.IndexLoop
	if rhs != nil {
		for _, l := range an.Loops(cd) {
			if x := an.AsIndexLoop(l); x != nil {
				if bc, ok := x.Bound.(*ssa.Call); ok && an.IsCallTo(bc, "builtin:len") && (bc.Call.Args[0] == ssa.Value(rhs) || an.Path(bc.Call.Args[0]) == rhs.Name()) {
					il = x
				}
			}
		}
	}
	if r.Check(il != nil && il.Start == 0 && il.Step == 1, short(cd)+"|plus-loop", cd.Pos(), "connectDots loops over all '+' elisions") {
		var upd ssa.Instruction
		for _, in := range an.StoresIn(cd) {
			if mu, ok := in.(*ssa.MapUpdate); ok && il.Loop.Blocks[mu.Block()] {
				upd = mu
			}
		}
		if r.Check(upd != nil, short(cd)+"|records", cd.Pos(), "each '+' elision is recorded in the association map") {
			msg := il.CoversAll(upd, func(b *ssa.BasicBlock) bool {
				ret := an.ReturnOf(b)
				return ret != nil && !an.IsNilConst(ret.Results[len(ret.Results)-1])
			})
			r.Check(msg == "", short(cd)+"|all-associated-or-reported", upd.Pos(), "every '+' elision is associated with a '-' elision, or the loop is left with an error %s", msg)
		}
		for _, ret := range an.Returns(cd) {
			if !an.IsNilConst(ret.Results[len(ret.Results)-1]) {
				continue
			}
			r.Check(il.Loop.Header.Dominates(ret.Block()) && !il.Loop.Blocks[ret.Block()], short(cd)+"|success-after-the-loop", ret.Pos(), "connectDots reports success only after it has looked at every '+' elision")
		}
	}
}

func c04ForDots(r *an.Run) {
	r.Rule("R8-for-dots")
	gt := goastTypes(r)
	f := fn(r, engine, "ForDotsMatcher.Match")
	if f == nil || gt == nil {
		return
	}
	accepted := map[string]bool{}
	var accEdges []an.CtrlEdge
	for _, c := range an.EqCases(f, isCallOnParam(rvType, "got")) {
		if g := an.GlobalLoaded(c.Key); g != nil {
			accepted[gt[g.Name()]] = true
			accEdges = append(accEdges, edgeTo(c.If.Block(), c.Target))
		}
	}
	r.Check(sameSet(accepted, setOf("*go/ast.ForStmt", "*go/ast.RangeStmt")), short(f)+"|accepted-types", f.Pos(), "'for ... {' matches exactly for statements and range statements (accepts %s)", joinSorted(accepted))
	// default rejects
	vidx, _ := an.VerdictIndex(f.Signature)
	reach := an.Reach([]*ssa.BasicBlock{f.Blocks[0]}, skipEdges(accEdges))
	okDef := true
	for _, ret := range an.PossiblyTrueReturns(f, vidx) {
		if reach[ret.Block()] {
			okDef = false
		}
	}
	r.Check(okDef, short(f)+"|default-rejects", f.Pos(), "any other statement never matches 'for ... {'")
	// schema: both structs have exactly one field Body *BlockStmt
	if pk := r.P.ByP["go/ast"]; pk != nil {
		for _, n := range []string{"ForStmt", "RangeStmt"} {
			st := pk.Types.Scope().Lookup(n).Type().Underlying().(*types.Struct)
			cnt := 0
			for i := 0; i < st.NumFields(); i++ {
				if st.Field(i).Name() == "Body" && an.TypeString(st.Field(i).Type()) == "*go/ast.BlockStmt" {
					cnt++
				}
			}
			r.Check(cnt == 1, "go/ast."+n+"|Body", 0, "go/ast.%s has exactly one field Body *ast.BlockStmt", n)
		}
	}
	// partition loop covers all fields
	var il *an.IndexLoop
	for _, g := range helperGroup(f, 2) { // the partition may live in a private helper
		for _, l := range an.Loops(g) {
			if x := an.AsIndexLoop(l); x != nil {
				if c, ok := x.Bound.(*ssa.Call); ok && c.Call.IsInvoke() && c.Call.Method.Name() == "NumField" {
					il = x
				}
			}
		}
	}
	if r.Check(il != nil, short(f)+"|field-loop", f.Pos(), "one loop over all fields of the matched statement") {
		f := il.Loop.Header.Parent()
		var fieldCall *ssa.Call
		for _, c := range callsInLoop(il.Loop, rvField) {
			call := c.(*ssa.Call)
			if call.Call.Args[1] == il.Index {
				fieldCall = call
			}
		}
		if r.Check(fieldCall != nil, short(f)+"|field-read", il.If.Pos(), "every field i is read with the loop's index") {
			msg := il.CoversAll(fieldCall, nil)
			r.Check(msg == "" && il.Start == 0 && il.Step == 1, short(f)+"|fields-covered", fieldCall.Pos(), "all fields are partitioned into Body and the others %s", msg)
		}
		// the body field name constant
		named := false
		for _, c := range an.EqCases(f, func(v ssa.Value) bool {
			fl, ok := v.(*ssa.Field)
			return ok && fl.Field == 0
		}) {
			if s, ok := an.ConstString(c.Key); ok && s == "Body" {
				named = true
			}
		}
		r.Check(named, short(f)+"|body-name", il.If.Pos(), "the body is the field named \"Body\"")
	}
	// replacer reproduces all other fields
	if g := fn(r, engine, "ForDotsReplacer.Replace"); g != nil {
		ils := findIndexLoops(g, isLenOfPath("fd.OtherFields"))
		if r.Check(len(ils) == 1, short(g)+"|other-fields-loop", g.Pos(), "one loop over all recorded header fields") {
			sets := callsInLoop(ils[0].Loop, rvSet)
			if r.Check(len(sets) == 1, short(g)+"|other-fields-set", ils[0].If.Pos(), "each recorded field is copied back") {
				msg := ils[0].CoversAll(sets[0], nil)
				r.Check(msg == "", short(g)+"|other-fields-covered", sets[0].Pos(), "the header of the for/range statement is reproduced completely %s", msg)
			}
		}
		// lookup through dotAssoc
		good := false
		for _, c := range an.CallsTo(g, dataPath+".Lookup") {
			for v := range an.BackSlice(c.Common().Args[1], an.SliceOpts{}) {
				if lk, ok := v.(*ssa.Lookup); ok && an.Path(lk.X) == "r.dotAssoc" && an.Path(lk.Index) == "r.Dots" {
					good = true
				}
			}
		}
		r.Check(good, short(g)+"|through-dotAssoc", g.Pos(), "the header reproduced is the one associated with this 'for ...' by r.dotAssoc[r.Dots]")
	}
}

func c04ImplicitDots(r *an.Run) {
	r.Rule("R9-implicit-leading-and-trailing-elision")
	ds := r.P.Func(engine, "dotsStmt")
	var fps [][]string
	for _, name := range []string{"matcherCompiler.compilePGoStmtList", "replacerCompiler.compilePGoStmtList"} {
		f := fn(r, engine, name)
		if f == nil || ds == nil {
			continue
		}
		// the wrapping may live in a helper shared by the two sides (surroundWithDots(fset, list, start, end)):
		// then the helper is looked at, and what it says about its parameters is read as said about the
		// arguments f hands it
		host := f
		lift := func(v ssa.Value) string { return an.Path(v) }
		if len(callsToFunc(f, ds)) == 0 {
			for _, hc := range an.Calls(f) {
				h := an.StaticCallee(hc)
				if h == nil || !an.InModule(h) || h.Blocks == nil || len(callsToFunc(h, ds)) == 0 || len(h.Params) != len(hc.Common().Args) {
					continue
				}
				host = h
				actuals := hc.Common().Args
				lift = func(v ssa.Value) string {
					p := an.Path(v)
					for i, prm := range h.Params {
						name := an.ParamName(prm)
						if p == name || strings.HasPrefix(p, name+".") || strings.HasPrefix(p, name+"[") {
							if ap := an.Path(actuals[i]); ap != "" {
								return ap + p[len(name):]
							}
						}
					}
					return p
				}
			}
		}
		var args []string
		var calls []ssa.CallInstruction
		for _, c := range callsToFunc(host, ds) {
			args = append(args, lift(c.Common().Args[0]))
			calls = append(calls, c)
		}
		good := len(args) == 2 && args[0] == "c.patchStart" && args[1] == "c.patchEnd" && reachesBlock(calls[0].Block(), calls[1].Block()) && !reachesBlock(calls[1].Block(), calls[0].Block())
		r.Check(good, short(f)+"|wrapped", f.Pos(), "a statement pattern is wrapped in a leading (patchStart) and a trailing (patchEnd) implicit '...' (got %v)", args)
		// only for non-empty lists, and the pattern's own statements go in between
		mid := false
		for _, c := range an.CallsTo(host, "builtin:append") {
			if strings.HasSuffix(lift(c.Common().Args[1]), ".List") {
				mid = len(calls) == 2 && reachesBlock(calls[0].Block(), c.Block()) && !reachesBlock(c.Block(), calls[0].Block()) && (c.Block().Dominates(calls[1].Block()))
			}
		}
		r.Check(mid, short(f)+"|pattern-in-between", f.Pos(), "the pattern's statements are placed between the two implicit elisions, whole")
		if len(calls) == 2 {
			// the trailing elision is unconditional (for a non-empty pattern); the leading one is left out only
			// when the pattern already begins with an elision at that very position — two elisions at one
			// position cannot be told apart when the '+' elisions are associated with the '-' ones (F13)
			var conds []ssa.Value
			for _, cd := range r.P.AllCtrlDeps(calls[0].Block()) {
				if iff, ok := cd.Block.Instrs[len(cd.Block.Instrs)-1].(*ssa.If); ok {
					conds = append(conds, iff.Cond)
				}
			}
			guarded := false
			extra := ""
			for _, cnd := range conds {
				c2, _ := an.StripNot(cnd)
				if cmp, ok := c2.(*ssa.BinOp); ok {
					if sub, _, isEmp := emptinessTest(cmp); isEmp && strings.HasSuffix(lift(sub), ".List") {
						continue // the non-empty test
					}
				}
				sl := preciseSlice(cnd)
				seesStart, seesFirst := false, false
				for v := range sl {
					if strings.HasSuffix(lift(v), ".patchStart") {
						seesStart = true
					}
					if strings.HasSuffix(lift(v), ".List") || strings.HasSuffix(lift(v), ".List[]") {
						seesFirst = true
					}
				}
				if seesStart && seesFirst {
					guarded = true
				} else {
					extra = condText(cnd)
				}
			}
			r.Check(guarded && extra == "", short(f)+"|leading-elision-unless-present", calls[0].Pos(), "the implicit leading '...' at the start position of the patch is added unless the pattern already begins with a '...' at that position (decided from the first statement and patchStart); no other condition drops it%s", ifNonEmpty(extra, " — found "+extra))
			trailingConds := 0
			for _, cd := range r.P.AllCtrlDeps(calls[1].Block()) {
				if iff, ok := cd.Block.Instrs[len(cd.Block.Instrs)-1].(*ssa.If); ok {
					c2, _ := an.StripNot(iff.Cond)
					if cmp, ok := c2.(*ssa.BinOp); ok {
						if sub, _, isEmp := emptinessTest(cmp); isEmp && strings.HasSuffix(lift(sub), ".List") {
							continue
						}
					}
					trailingConds++
				}
			}
			r.Check(trailingConds == 0, short(f)+"|trailing-elision-unconditional", calls[1].Pos(), "the implicit trailing '...' is added to every non-empty statement pattern")
		}
		fps = append(fps, fingerprintFiltered(f, func(s string) bool {
			return !strings.Contains(s, "compile") && !strings.Contains(s, "Matcher") && !strings.Contains(s, "Replacer")
		}))
	}
	if len(fps) == 2 {
		r.Check(strings.Join(fps[0], "\n") == strings.Join(fps[1], "\n"), "compilePGoStmtList|siblings", 0, "matcher and replacer side build the same wrapped list%s", firstDiff(fps[0], fps[1]))
	}
}

// callsToFunc lists the calls in f whose static callee is g.
func callsToFunc(f, g *ssa.Function) []ssa.CallInstruction {
	var out []ssa.CallInstruction
	for _, c := range an.Calls(f) {
		if an.StaticCallee(c) == g {
			out = append(out, c)
		}
	}
	return out
}

// mustPassWithout: with the given edges removed, every path from `from` to a
// function exit passes through block `through`.
func mustPassWithout(from, through *ssa.BasicBlock, removed []an.CtrlEdge) bool {
	if from == through {
		return true
	}
	skip := func(b *ssa.BasicBlock, i int) bool { return b.Succs[i] == through || skipEdges(removed)(b, i) }
	reach := an.Reach([]*ssa.BasicBlock{from}, skip)
	for b := range reach {
		if len(b.Succs) == 0 {
			return false
		}
		// a block all of whose out-edges were removed is a dead end created by the removal, not an exit
	}
	return true
}

// dotsRecordSite finds where f records an elision: the instruction in f that
// creates it (an allocation of augment.Dots, or a call to a private helper
// that builds one) and the allocation itself (possibly inside the helper).
func dotsRecordSite(f *ssa.Function) (site ssa.Instruction, alloc *ssa.Alloc) {
	isDots := func(al *ssa.Alloc) bool { return strings.HasSuffix(an.ShortType(al.Type()), "augment.Dots") }
	for _, b := range f.Blocks {
		for _, in := range b.Instrs {
			if al, ok := in.(*ssa.Alloc); ok && isDots(al) {
				return al, al
			}
		}
	}
	for _, c := range an.Calls(f) {
		h := an.StaticCallee(c)
		// a private helper of the package that builds the Dots: one that returns it, or one that records it itself
		if h == nil || !an.InModule(h) || h.Blocks == nil || an.FuncPkgPath(h) != an.FuncPkgPath(f) {
			continue
		}
		if n := h.Signature.Results().Len(); n > 1 || n == 1 && !strings.HasSuffix(an.ShortType(h.Signature.Results().At(0).Type()), "augment.Dots") {
			continue
		}
		for _, b := range h.Blocks {
			for _, in := range b.Instrs {
				if al, ok := in.(*ssa.Alloc); ok && isDots(al) {
					return c, al
				}
			}
		}
	}
	return nil, nil
}

// isLineOfPos: the call yields the line number of a position — a direct
// (*token.File).Line call, or a module helper all of whose returns are one.
func isLineOfPos(c *ssa.Call, depth int) bool {
	if an.IsCallTo(c, "(*go/token.File).Line") {
		return true
	}
	h := an.StaticCallee(c)
	if h == nil || !an.InModule(h) || h.Blocks == nil || depth > 2 {
		return false
	}
	rets := an.Returns(h)
	if len(rets) == 0 {
		return false
	}
	for _, ret := range rets {
		if len(ret.Results) != 1 {
			return false
		}
		rc, ok := ret.Results[0].(*ssa.Call)
		if !ok || !isLineOfPos(rc, depth+1) {
			return false
		}
	}
	return true
}

func derefStruct(t types.Type) (*types.Struct, bool) {
	if p, ok := t.Underlying().(*types.Pointer); ok {
		t = p.Elem()
	}
	st, ok := t.Underlying().(*types.Struct)
	return st, ok
}

// rootIsSpillOf: v's path starts at the local copy of value receiver recv.
func rootIsSpillOf(v ssa.Value, recv *ssa.Parameter) bool {
	root := an.Root(v)
	for steps := 0; steps < 4; steps++ {
		if u, ok := root.(*ssa.UnOp); ok {
			root = an.Root(u.X)
			continue
		}
		break
	}
	a, ok := root.(*ssa.Alloc)
	return ok && a.Comment == recv.Name()
}
