package rules

import (
	"fmt"
	"go/token"
	"go/types"
	"strings"

	"golang.org/x/tools/go/ssa"

	"gpcheck/internal/an"
)

// Rules added after the seventh seeding round.

// transientSources: library calls whose []byte result is a window into a
// buffer the library overwrites on the next read.
var transientSources = []string{
	"(*bufio.Scanner).Bytes",
	"(*bufio.Reader).ReadSlice",
	"(*bufio.Reader).ReadLine",
	"(*bufio.Reader).Peek",
}

// copyingLibraryCalls: library functions whose reference-carrying result
// shares no memory with their arguments.
var copyingLibraryCalls = []string{
	"bytes.Clone", "bytes.Join", "bytes.Repeat", "bytes.ToLower", "bytes.ToUpper", "bytes.ToTitle",
	"bytes.Replace", "bytes.ReplaceAll", "bytes.Map", "slices.Clone", "bytes.ToValidUTF8",
	"fmt.Errorf", "fmt.Sprintf", "fmt.Sprint", "fmt.Sprintln", "errors.New",
}

// noTransientBufferRetained: the text gopatch keeps of a patch (section lines,
// names, the '-' and '+' versions) or of a source file is never a window into a
// buffered reader's buffer. `bufio.Scanner.Bytes`, `bufio.Reader.ReadSlice`,
// `ReadLine` and `Peek` return a slice that the next read overwrites; so does
// `bytes.Buffer.Bytes`/`Next` of a buffer that is later `Reset` or truncated.
// Such a slice may be inspected, converted to a string or copied, but not
// stored in a field, a slice element, a map or a channel, nor returned to a
// caller that does so: for an input larger than the reader's buffer (4096 bytes
// for a Scanner) the lines read first would silently turn into the bytes that
// follow later in the file — the '+' side of an early change would become the
// text of a later one.
func noTransientBufferRetained(r *an.Run, rule string) {
	r.Rule(rule)
	nReads, nSources := 0, 0
	for _, f := range r.P.ModuleFuncs() {
		if f.Blocks == nil {
			continue
		}
		// buffers of this function that are rewound
		rewound := map[ssa.Value]bool{}
		rewoundPath := map[string]bool{}
		for _, c := range an.Calls(f) {
			if an.IsCallTo(c, "(*bytes.Buffer).Reset", "(*bytes.Buffer).Truncate") {
				recv := c.Common().Args[0]
				rewound[an.Root(recv)] = true
				if p := an.Path(recv); p != "" {
					rewoundPath[p] = true
				}
			}
		}
		for _, c := range an.Calls(f) {
			call, ok := c.(*ssa.Call)
			if !ok {
				continue
			}
			switch {
			case an.IsCallTo(c, "(*bufio.Scanner).Text", "(*bufio.Reader).ReadString", "(*bufio.Reader).ReadBytes", "(*bufio.Scanner).Scan"):
				nReads++
				continue
			case an.IsCallTo(c, transientSources...):
			case an.IsCallTo(c, "(*bytes.Buffer).Bytes", "(*bytes.Buffer).Next"):
				recv := c.Common().Args[0]
				if !rewound[an.Root(recv)] && !(an.Path(recv) != "" && rewoundPath[an.Path(recv)]) {
					continue
				}
			default:
				continue
			}
			nReads++
			nSources++
			var src ssa.Value = call
			if _, isTuple := call.Type().(*types.Tuple); isTuple {
				src = nil
				for _, u := range *call.Referrers() {
					if ex, ok := u.(*ssa.Extract); ok && ex.Index == 0 {
						src = ex
					}
				}
				if src == nil {
					continue
				}
			}
			t := &taint{r: r, seen: map[ssa.Value]bool{}}
			if ld, ok := c.Common().Args[0].(*ssa.UnOp); ok {
				if fa, ok := ld.X.(*ssa.FieldAddr); ok {
					t.owner = derefType(fa.X.Type())
				}
			} else if fa, ok := c.Common().Args[0].(*ssa.FieldAddr); ok {
				t.owner = derefType(fa.X.Type())
			}
			t.follow(src, 0)
			key := short(f) + "|" + lastSegment(an.CalleeName(c))
			if t.where != nil {
				r.Fail(key+"|retained", t.where.Pos(), "the slice %s returns in %s is a window into the reader's buffer, which the next read overwrites; it %s (in %s) — the text kept there changes under gopatch's feet once the input is larger than the buffer. Copy it (string(b), bytes.Clone(b), append([]byte(nil), b...)) before keeping it", an.TrimModule(an.CalleeName(c)), short(f), t.how, short(t.where.Parent()))
			} else {
				r.Pass(key+"|not-retained", call.Pos(), "the slice %s returns is only inspected, converted or copied (%d uses followed)", an.TrimModule(an.CalleeName(c)), len(t.seen))
			}
		}
	}
	r.Count("reads from buffered readers", nReads)
	r.Min("reads from buffered readers", 1)
	r.Pass("transient-buffer-inventory", 0, "%d reads from buffered readers in the module, %d of which hand out a window into the reader's buffer; none of those windows is kept", nReads, nSources)
}

type taint struct {
	r *an.Run
	// owner: the struct type that holds the reader, when the reader is a field
	owner types.Type
	seen  map[ssa.Value]bool
	where ssa.Instruction
	how   string
}

func (t *taint) escape(at ssa.Instruction, how string) {
	if t.where == nil {
		t.where, t.how = at, how
	}
}

func (t *taint) follow(v ssa.Value, depth int) {
	if t.seen[v] || t.where != nil {
		return
	}
	t.seen[v] = true
	refs := v.Referrers()
	if refs == nil {
		return
	}
	for _, u := range *refs {
		switch u := u.(type) {
		case *ssa.DebugRef, *ssa.If, *ssa.BinOp, *ssa.Index, *ssa.Lookup, *ssa.Range:
		case *ssa.IndexAddr:
			// reading (or overwriting) single bytes of the window
		case *ssa.Slice:
			if u.X == v {
				t.follow(u, depth)
			}
		case *ssa.Phi, *ssa.ChangeType, *ssa.MakeInterface, *ssa.ChangeInterface, *ssa.TypeAssert, *ssa.SliceToArrayPointer:
			t.follow(u.(ssa.Value), depth)
		case *ssa.Extract:
			t.follow(u, depth)
		case *ssa.Convert:
			if b, ok := u.Type().Underlying().(*types.Basic); ok && b.Info()&types.IsString != 0 {
				continue // string(b) copies
			}
			t.follow(u, depth)
		case *ssa.Store:
			if u.Val != v {
				continue // a write into the window
			}
			if al, ok := u.Addr.(*ssa.Alloc); ok {
				// a local variable: what is loaded from it is the window again
				t.seen[al] = true
				for _, w := range *al.Referrers() {
					switch w := w.(type) {
					case *ssa.UnOp:
						if w.Op == token.MUL {
							t.follow(w, depth)
						}
					case *ssa.Store, *ssa.DebugRef:
					default:
						if mc, ok := w.(*ssa.MakeClosure); ok {
							t.escape(mc, "is captured by a function literal")
						} else if _, isCall := w.(ssa.CallInstruction); isCall {
							t.escape(w, "is handed out by address")
						}
					}
				}
				continue
			}
			// the reader's owner may cache the current window next to the reader (`p.text = p.lines.Bytes()`):
			// what is loaded from that field is the window again
			if fa, ok := u.Addr.(*ssa.FieldAddr); ok && t.owner != nil && types.Identical(derefType(fa.X.Type()), t.owner) {
				for _, g := range t.r.P.ModuleFuncs() {
					for _, b := range g.Blocks {
						for _, in := range b.Instrs {
							fb, ok := in.(*ssa.FieldAddr)
							if !ok || fb.Field != fa.Field || !types.Identical(derefType(fb.X.Type()), t.owner) {
								continue
							}
							for _, w := range *fb.Referrers() {
								if ld, ok := w.(*ssa.UnOp); ok && ld.Op == token.MUL {
									t.follow(ld, depth)
								}
							}
						}
					}
				}
				continue
			}
			t.escape(u, "is stored in "+describeAddr(u.Addr))
		case *ssa.MapUpdate:
			t.escape(u, "is stored in a map")
		case *ssa.Send:
			t.escape(u, "is sent on a channel")
		case *ssa.MakeClosure:
			t.escape(u, "is captured by a function literal")
		case *ssa.Return:
			if depth >= 3 {
				t.escape(u, "is returned through more than three callers")
				continue
			}
			idx := -1
			for i, res := range u.Results {
				if res == v {
					idx = i
				}
			}
			f := u.Parent()
			callers := t.r.P.CallersOf(f)
			if len(callers) == 0 && f.Object() != nil && f.Object().Exported() {
				t.escape(u, "is returned by an exported function")
				continue
			}
			for _, c := range callers {
				cv := c.Value()
				if cv == nil {
					continue
				}
				if len(u.Results) == 1 {
					t.follow(cv, depth+1)
					continue
				}
				for _, w := range *cv.Referrers() {
					if ex, ok := w.(*ssa.Extract); ok && ex.Index == idx {
						t.follow(ex, depth+1)
					}
				}
			}
		case ssa.CallInstruction:
			t.call(u, v, depth)
		default:
			t.escape(u, "is used in a way the rule does not follow ("+strings.TrimPrefix(strings.TrimPrefix(typeName(u), "*ssa."), "ssa.")+")")
		}
	}
}

func (t *taint) call(c ssa.CallInstruction, v ssa.Value, depth int) {
	com := c.Common()
	if _, isGo := c.(*ssa.Go); isGo {
		t.escape(c, "is handed to a goroutine")
		return
	}
	if b, ok := com.Value.(*ssa.Builtin); ok {
		switch b.Name() {
		case "append":
			if com.Args[0] == v {
				if val := c.Value(); val != nil {
					t.follow(val, depth) // same backing array
				}
			}
			// append(dst, b...) copies the bytes; an element append goes through the varargs store
		}
		return
	}
	if com.IsInvoke() {
		if com.Method.Name() == "Write" || com.Method.Name() == "WriteString" || com.Method.Name() == "Error" {
			return // io.Writer must not retain p
		}
		t.escape(c, "is handed to the dynamically dispatched method "+com.Method.Name())
		return
	}
	callee := com.StaticCallee()
	if callee == nil {
		t.escape(c, "is handed to a function value")
		return
	}
	if an.InModule(callee) && callee.Blocks != nil {
		if depth >= 3 {
			t.escape(c, "is handed down more than three calls")
			return
		}
		for i, a := range com.Args {
			if a == v && i < len(callee.Params) {
				t.follow(callee.Params[i], depth+1)
			}
		}
		return
	}
	// library: writers copy; anything that returns a reference may share the window
	name := an.CalleeName(c)
	if an.IsCallTo(c, copyingLibraryCalls...) {
		return
	}
	switch {
	case strings.HasSuffix(name, ".Write"), strings.HasSuffix(name, ".WriteString"), strings.HasPrefix(name, "fmt.Fprint"), strings.HasPrefix(name, "(*log.Logger)."), strings.HasPrefix(name, "log."):
		return
	}
	val := c.Value()
	if val == nil {
		return
	}
	res := callee.Signature.Results()
	shares := false
	for i := 0; i < res.Len(); i++ {
		rt := res.At(i).Type()
		if b, ok := rt.Underlying().(*types.Basic); ok && b.Info()&types.IsString != 0 {
			continue
		}
		if an.IsErrorType(rt) {
			continue
		}
		if hasReference(rt) {
			shares = true
		}
	}
	if shares {
		t.follow(val, depth)
	}
}

func describeAddr(a ssa.Value) string {
	switch x := a.(type) {
	case *ssa.FieldAddr:
		return "field " + fieldNameOf(x)
	case *ssa.IndexAddr:
		return "an element of a slice or array"
	case *ssa.Global:
		return "package variable " + x.Name()
	}
	return "memory that outlives the read"
}

func typeName(v interface{}) string {
	switch v.(type) {
	case *ssa.Defer:
		return "defer"
	case *ssa.Select:
		return "select"
	case *ssa.Next:
		return "range"
	}
	return fmt.Sprintf("%T", v)
}

func derefType(t types.Type) types.Type {
	if p, ok := t.Underlying().(*types.Pointer); ok {
		return p.Elem()
	}
	return t
}
